import Generated.Facts
