import SsoModel.Breaker
import SsoModel.Singleflight
import SsoModel.SfWrappers
import SsoModel.Caches
import SsoModel.Validators
import SsoModel.Prim.Base64
import SsoModel.Seal
import SsoModel.Config
