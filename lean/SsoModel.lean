import SsoModel.Breaker
