import SsoModel.Breaker
import SsoModel.Singleflight
import SsoModel.SfWrappers
import SsoModel.Caches
import SsoModel.Validators
