import SsoSpec.C15
import SsoSpec.C16
import SsoSpec.C17
