import SsoSpec.C02
import SsoSpec.C11
import SsoSpec.C14
import SsoSpec.C15
import SsoSpec.C16
import SsoSpec.C17
