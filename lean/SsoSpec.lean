import SsoSpec.C15
import SsoSpec.C16
