import SsoSpec.C15
