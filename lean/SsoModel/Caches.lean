/-
Models of the authenticator's group caches:
 * `GroupCache` over `LocalCache` (internal/auth/providers/group_cache.go, internal/pkg/groups/localcache.go)
 * `FillCache` (internal/pkg/groups/fillcache.go) as a labelled transition system
 * the membership functions of the Google and Cognito providers that consult the fill cache.
Group names, e-mails and member names are `String`s the model never looks inside, except the key
construction which is modelled over lists of symbols in `SfWrappers.joinWith`.
-/
namespace Sso.Caches

/-! ### GroupCache / LocalCache -/

/-- `groups.CacheKey{Email, AllowedGroups: strings.Join(sorted, ",")}` — a struct, so the two parts never mix. -/
structure CKey where
  email : String
  joined : String
  deriving DecidableEq, Repr

abbrev Answer := List String

inductive DirReply where
  | ok (a : Answer)
  | err
  deriving DecidableEq, Repr

structure GC where
  cache : List (CKey × Answer)            -- association list, newest first; `Store` overwrites
  log : List (CKey × Answer)              -- ghost: every answer the directory gave, with the key it was asked under
  deriving Repr

def GC.init : GC := { cache := [], log := [] }

def GC.lookup (s : GC) (k : CKey) : Option Answer := (s.cache.find? (fun p => p.1 = k)).map (·.2)

inductive GCEv where
  | ask (k : CKey) (dir : DirReply)       -- `dir` is what the inner provider would answer *if* it is asked
  | purge (k : CKey)                      -- a TTL goroutine fires (any time, any key)
  deriving Repr

inductive GCOut where
  | hit (a : Answer)
  | miss (a : Answer)                     -- asked the directory, stored, returned
  | error                                 -- asked the directory, it failed: nothing stored
  | purged
  deriving DecidableEq, Repr

def gcStep (s : GC) : GCEv → GC × GCOut
  | .ask k dir =>
    match s.lookup k with
    | some a => (s, .hit a)
    | none =>
      match dir with
      | .ok a => ({ cache := (k, a) :: s.cache.filter (fun p => p.1 ≠ k), log := (k, a) :: s.log }, .miss a)
      | .err => (s, .error)
  | .purge k => ({ s with cache := s.cache.filter (fun p => p.1 ≠ k) }, .purged)

def gcRun (s : GC) (es : List GCEv) : GC := es.foldl (fun s e => (gcStep s e).1) s

/-! ### FillCache -/

abbrev Members := List String

inductive FillResult where
  | ok (m : Members)
  | notFound
  | err
  deriving DecidableEq, Repr

inductive Phase where
  | none                                   -- thread not inside the cache
  | filling (g : String)                   -- between the two critical sections of `Update`, `fillFunc` running
  deriving DecidableEq, Repr

/-- a refresh-loop goroutine -/
inductive LPhase where
  | dead
  | idle (g : String)                      -- registered; before its first `Update` or waiting in `select`
  | filling (g : String)
  deriving DecidableEq, Repr

structure FC where
  cache : String → Option Members
  inflight : String → Bool
  loops : String → Bool                    -- refreshLoopGroups
  thr : Nat → Phase                        -- callers of Update
  lthr : Nat → LPhase                      -- loop goroutines, by id
  nextLoop : Nat
  stopped : Bool
  fills : List (String × FillResult)       -- ghost: completed fills, newest first

def FC.init : FC :=
  { cache := fun _ => none, inflight := fun _ => false, loops := fun _ => false, thr := fun _ => .none,
    lthr := fun _ => .dead, nextLoop := 0, stopped := false, fills := [] }

def updS {α : Type} (f : String → α) (i : String) (a : α) : String → α := fun j => if j = i then a else f j
def updN {α : Type} (f : Nat → α) (i : Nat) (a : α) : Nat → α := fun j => if j = i then a else f j

inductive FCEv where
  | updBegin (t : Nat) (g : String)
  | updEnd (t : Nat) (r : FillResult)
  | loopStart (g : String)                 -- `RefreshLoop(g)` past its jitter sleep
  | loopUpdBegin (l : Nat)                 -- the loop goroutine calls `Update` (first time or on a tick)
  | loopUpdEnd (l : Nat) (r : FillResult)
  | loopExit (l : Nat)                     -- `<-stopCh` selected
  | stop
  | get (g : String)
  deriving Repr

inductive FCOut where
  | began                                  -- fillFunc called
  | busy                                   -- Update returned false without calling fillFunc
  | updated (b : Bool)                     -- Update returned b
  | loopStarted (l : Nat)                  -- RefreshLoop returned true, goroutine id
  | loopRefused                            -- RefreshLoop returned false
  | exited
  | stopped
  | got (m : Option Members)
  | disabled
  deriving DecidableEq, Repr

/-- the second critical section of `Update` -/
def applyFill (s : FC) (g : String) (r : FillResult) : FC × Bool :=
  let s1 := { s with inflight := updS s.inflight g false, fills := (g, r) :: s.fills }
  match r with
  | .ok m => ({ s1 with cache := updS s1.cache g (some m) }, true)
  | .notFound => ({ s1 with cache := updS s1.cache g none }, false)
  | .err => (s1, false)

def fcStep (s : FC) : FCEv → FC × FCOut
  | .updBegin t g =>
    match s.thr t with
    | .none =>
      if s.inflight g then (s, .busy)
      else ({ s with inflight := updS s.inflight g true, thr := updN s.thr t (.filling g) }, .began)
    | _ => (s, .disabled)
  | .updEnd t r =>
    match s.thr t with
    | .filling g =>
      let (s1, b) := applyFill s g r
      ({ s1 with thr := updN s1.thr t .none }, .updated b)
    | _ => (s, .disabled)
  | .loopStart g =>
    if s.loops g then (s, .loopRefused)
    else ({ s with loops := updS s.loops g true, lthr := updN s.lthr s.nextLoop (.idle g), nextLoop := s.nextLoop + 1 },
          .loopStarted s.nextLoop)
  | .loopUpdBegin l =>
    match s.lthr l with
    | .idle g =>
      if s.inflight g then (s, .busy)
      else ({ s with inflight := updS s.inflight g true, lthr := updN s.lthr l (.filling g) }, .began)
    | _ => (s, .disabled)
  | .loopUpdEnd l r =>
    match s.lthr l with
    | .filling g =>
      let (s1, b) := applyFill s g r
      ({ s1 with lthr := updN s1.lthr l (.idle g) }, .updated b)
    | _ => (s, .disabled)
  | .loopExit l =>
    match s.lthr l with
    | .idle g =>
      if s.stopped then ({ s with loops := updS s.loops g false, lthr := updN s.lthr l .dead }, .exited)
      else (s, .disabled)
    | _ => (s, .disabled)
  | .stop =>
    -- `close(c.stopCh)`: a second Stop would panic (close of closed channel); the harness never issues it
    if s.stopped then (s, .disabled) else ({ s with stopped := true }, .stopped)
  | .get g => (s, .got (s.cache g))

def fcRun (s : FC) (es : List FCEv) : FC := es.foldl (fun s e => (fcStep s e).1) s
def FC.Reachable (s : FC) : Prop := ∃ es, fcRun FC.init es = s

/-! ### Membership questions against the fill cache -/

def cachedMember (cache : String → Option Members) (user : String) (g : String) : Bool :=
  match cache g with
  | some m => m.contains user
  | none => false

/-- What `GoogleProvider.ValidateGroupMembership` returns, given the cache contents, the asked groups, the
user and the directory's answer to `CheckMemberships(allGroups, email)` (consulted only when needed).
Also returns the groups for which `RefreshLoop` is requested. -/
def googleMembership (cache : String → Option Members) (asked : List String) (email : String)
    (dir : Option (List String)) : Option (List String) × List String :=
  if asked = [] then (some [], [])
  else
    let uncached := asked.filter (fun g => (cache g).isNone)
    let fromCache := asked.filter (cachedMember cache email)
    if uncached ≠ [] then (dir, uncached) else (some fromCache, [])

/-- `AmazonCognitoProvider.ValidateGroupMembership` after the username lookup: note that cache matches found
before the fallback are *kept* and the directory's matches are appended. -/
def cognitoMembership (cache : String → Option Members) (asked : List String) (user : String)
    (dir : Option (List String)) : Option (List String) × List String :=
  if asked = [] then (some [], [])
  else
    let uncached := asked.filter (fun g => (cache g).isNone)
    let fromCache := asked.filter (cachedMember cache user)
    if uncached ≠ [] then
      match dir with
      | none => (none, uncached)
      | some ds => (some (fromCache ++ asked.filter (fun g => ds.contains g)), uncached)
    else (some fromCache, [])

end Sso.Caches
