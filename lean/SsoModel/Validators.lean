/-
Model of internal/pkg/validators and of how sso-proxy combines them
(proxy.New builds the list; OAuthCallback = "not all failed"; Authenticate = "every non-group validator passes").
E-mails and rules are byte strings; `lower` (Go's Unicode-aware strings.ToLower) is a parameter: every
theorem holds for every `lower`.
-/
namespace Sso.Validators

abbrev Bytes := List UInt8

def at' : UInt8 := 64     -- '@'
def star : Bytes := [42]  -- "*"

def endsWith (s suf : Bytes) : Bool := suf.isSuffixOf s   -- strings.HasSuffix

/-- `NewEmailAddressValidator(allowed).Validate(session)` = nil -/
def addrPasses (lower : Bytes → Bytes) (allowed : List Bytes) (email : Bytes) : Bool :=
  let al := allowed.map lower
  if email == [] then false
  else if al == [] then false
  else if al == [star] then true
  else al.contains (lower email)

/-- the list `NewEmailDomainValidator` stores -/
def domainList (lower : Bytes → Bytes) (allowed : List Bytes) : List Bytes :=
  allowed.map fun d => if d == star then star else at' :: lower d

/-- `NewEmailDomainValidator(allowed).Validate(session)` = nil -/
def domainPasses (lower : Bytes → Bytes) (allowed : List Bytes) (email : Bytes) : Bool :=
  let dl := domainList lower allowed
  if email == [] then false
  else if dl == [] then false
  else if dl == [star] then true
  else dl.any fun d => endsWith (lower email) d

/-- What the provider's `ValidateGroup(email, allowedGroups, token)` reported. -/
inductive GroupAns where
  | member       -- valid = true
  | notMember    -- valid = false
  | error
  deriving DecidableEq, Repr

structure Policy where
  addrs : List Bytes
  domains : List Bytes
  groups : List Bytes
  deriving Repr

inductive VKind where | addr | domain | group
  deriving DecidableEq, Repr

/-- the validator list `proxy.New` builds, in its order -/
def validatorsOf (p : Policy) : List VKind :=
  (if p.addrs ≠ [] then [.addr] else []) ++ (if p.domains ≠ [] then [.domain] else []) ++
  (if p.groups ≠ [] then [.group] else [])

def passes (lower : Bytes → Bytes) (p : Policy) (email : Bytes) (g : GroupAns) : VKind → Bool
  | .addr => addrPasses lower p.addrs email
  | .domain => domainPasses lower p.domains email
  | .group => g == .member

/-- OAuthCallback: denied iff `len(errors) == len(validators)` -/
def loginAdmits (lower : Bytes → Bytes) (p : Policy) (email : Bytes) (g : GroupAns) : Bool :=
  let vs := validatorsOf p
  (vs.filter fun v => !passes lower p email g v).length != vs.length

/-- Authenticate's per-request loop: every non-group validator must pass -/
def requestAdmits (lower : Bytes → Bytes) (p : Policy) (email : Bytes) : Bool :=
  (validatorsOf p).all fun v => v == .group || passes lower p email .error v

/-- A request whose revalidation is due: the loop above, and `ValidateSessionState`/`RefreshSession` re-ask the
group question (skipped by `ValidateGroup` itself when no groups are configured). -/
def requestAdmitsDue (lower : Bytes → Bytes) (p : Policy) (email : Bytes) (g : GroupAns) : Bool :=
  requestAdmits lower p email && (p.groups == [] || g == .member)

/-- The documented meaning: at least one configured rule is satisfied (and the e-mail is non-empty). -/
def specAdmit (lower : Bytes → Bytes) (p : Policy) (email : Bytes) (g : GroupAns) : Bool :=
  email != [] &&
  ((p.addrs != [] && addrPasses lower p.addrs email) || (p.domains != [] && domainPasses lower p.domains email) ||
   (p.groups != [] && g == .member))

/-- the part of `s` after its last '@' (none if there is no '@') -/
def afterLastAt : Bytes → Option Bytes
  | [] => none
  | c :: t =>
    match afterLastAt t with
    | some r => some r
    | none => if c == at' then some t else none

end Sso.Validators
