/-
Model of the two `SingleFlightProvider` middlewares
(internal/proxy/providers/singleflight_middleware.go, internal/auth/providers/singleflight_middleware.go):
the composite keys, and what a merged call does to the *caller's* session.

Keys are lists over an arbitrary alphabet with distinguished separator symbols, so the theorems hold for
bytes and for runes alike.
-/
namespace Sso.SfWrappers

/-- `fmt.Sprintf("%s/%s", endpoint, key)` -/
def compositeKey {α : Type} (slash : α) (ep k : List α) : List α := ep ++ slash :: k

/-- `strings.Join(groups, ",")` -/
def joinWith {α : Type} (comma : α) : List (List α) → List α
  | [] => []
  | [g] => g
  | g :: gs => g ++ comma :: joinWith comma gs

/-- `fmt.Sprintf("%s:%s", email, strings.Join(sortedGroups, ","))` -/
def membershipKey {α : Type} (colon comma : α) (email : List α) (sortedGroups : List (List α)) : List α :=
  email ++ colon :: joinWith comma sortedGroups

/-- The session fields a provider check may update. -/
structure Sess where
  access : String
  refreshTok : String
  refresh : Int
  valid : Int
  grace : Option Int
  groups : List String
  deriving DecidableEq, Repr

inductive Role where
  | leader
  | follower (leaderResult : Bool)

/-- `ValidateSessionState` / `RefreshSession` / `RefreshSessionIfNeeded` through the middleware:
the closure captures the *leader's* `*SessionState`; a follower receives only the boolean. -/
def mutatingSF (inner : Sess → Sess × Bool) : Role → Sess → Sess × Bool
  | .leader, s => inner s
  | .follower r, s => (s, r)

/-- `UserGroups` / `ValidateGroupMembership` / `RefreshAccessToken` / `Revoke`: the closure's result is the
whole answer; nothing is written through a captured pointer. -/
def pureSF {β : Type} (inner : β) : Option β → β
  | none => inner          -- leader executes
  | some r => r            -- follower receives the leader's answer

end Sso.SfWrappers
