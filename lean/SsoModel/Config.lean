/-
Model of upstream-configuration loading (internal/proxy/proxy_config.go `loadServiceConfigs`,
internal/proxy/options.go `SetUpstreamConfigs`), starting *after* YAML parsing: the harness renders a
generated document to YAML for the real loader and ships the same document in structured form to the model.

`mergo.Merge` (v0.3.7) is specialised to the struct shapes it is applied to here:
 * with `WithOverride`: non-zero scalars / non-empty slices of `src` replace `dst`; maps are merged per key
   (`src` wins); a **pointer** field (`RouteConfig.Options`) is replaced wholesale when `src`'s is non-nil;
 * without it ("fill"): `dst` keeps everything non-zero, zero fields are taken from `src`; a nil pointer is
   set to `src`'s, a non-nil one is filled field by field; maps gain the keys they lack.
`url.Parse` and `regexp.Compile` are oracles (`okUrl`, `okRegex`).
-/
namespace Sso.Config

abbrev SMap := List (String × String)      -- a Go map[string]string, kept sorted by key without duplicates

structure Opts where
  headerOverrides : SMap := []
  inject : SMap := []
  skipAuthRegex : List String := []
  groups : List String := []
  domains : List String := []
  addrs : List String := []
  tlsSkipVerify : Bool := false
  skipPreflight : Bool := false
  passAccessToken : Bool := false
  preserveHost : Bool := false
  timeout : Int := 0
  resetDeadline : Int := 0
  flushInterval : Int := 0
  skipSigning : Bool := false
  providerSlug : String := ""
  cookieName : String := ""
  deriving DecidableEq, Repr, Inhabited

structure RouteCfg where
  from' : String := ""
  to : String := ""
  type : String := ""
  options : Option Opts := none
  deriving DecidableEq, Repr, Inhabited

/-- one cluster block of a service (`UpstreamConfig` as parsed) -/
structure Block where
  route : RouteCfg := {}
  extraRoutes : List RouteCfg := []
  deriving DecidableEq, Repr, Inhabited

structure Service where
  name : String
  clusters : List (String × Option Block)     -- `null` blocks parse to nil pointers
  deriving Repr

/-! ### mergo, specialised -/

def ovS (dst src : String) : String := if src = "" then dst else src
def ovI (dst src : Int) : Int := if src = 0 then dst else src
def ovB (dst src : Bool) : Bool := if src then true else dst
def ovL (dst src : List String) : List String := if src = [] then dst else src

def mapSet (m : SMap) (k v : String) : SMap :=
  match m with
  | [] => [(k, v)]
  | (k', v') :: t => if k = k' then (k, v) :: t else if k < k' then (k, v) :: (k', v') :: t else (k', v') :: mapSet t k v

def mapGet (m : SMap) (k : String) : Option String := (m.find? (·.1 = k)).map (·.2)

/-- map merge with override: every key of `src` is written (mergo sets even empty-string values when overwriting) -/
def ovM (dst src : SMap) : SMap := src.foldl (fun m p => mapSet m p.1 p.2) dst

/-- map merge without override: a key of `src` is written when `dst` lacks it or holds "" -/
def fillM (dst src : SMap) : SMap :=
  src.foldl (fun m p => match mapGet m p.1 with
    | some v => if v = "" then mapSet m p.1 p.2 else m
    | none => mapSet m p.1 p.2) dst

/-- `mergo.Merge(dstOpts, srcOpts, WithOverride)` -/
def ovOpts (d s : Opts) : Opts :=
  { headerOverrides := ovM d.headerOverrides s.headerOverrides, inject := ovM d.inject s.inject,
    skipAuthRegex := ovL d.skipAuthRegex s.skipAuthRegex, groups := ovL d.groups s.groups,
    domains := ovL d.domains s.domains, addrs := ovL d.addrs s.addrs,
    tlsSkipVerify := ovB d.tlsSkipVerify s.tlsSkipVerify, skipPreflight := ovB d.skipPreflight s.skipPreflight,
    passAccessToken := ovB d.passAccessToken s.passAccessToken, preserveHost := ovB d.preserveHost s.preserveHost,
    timeout := ovI d.timeout s.timeout, resetDeadline := ovI d.resetDeadline s.resetDeadline,
    flushInterval := ovI d.flushInterval s.flushInterval, skipSigning := ovB d.skipSigning s.skipSigning,
    providerSlug := ovS d.providerSlug s.providerSlug, cookieName := ovS d.cookieName s.cookieName }

/-- `mergo.Merge(dstOpts, srcOpts)` (fill) = override the other way round, except for maps -/
def fillOpts (d s : Opts) : Opts :=
  { (ovOpts s d) with headerOverrides := fillM d.headerOverrides s.headerOverrides, inject := fillM d.inject s.inject }

/-- `mergo.Merge(dst, *src, WithOverride)` on cluster blocks: note the **pointer** `options` -/
def ovBlock (d s : Block) : Block :=
  { route := { from' := ovS d.route.from' s.route.from', to := ovS d.route.to s.route.to, type := ovS d.route.type s.route.type,
               options := match s.route.options with | some o => some o | none => d.route.options },
    extraRoutes := if s.extraRoutes = [] then d.extraRoutes else s.extraRoutes }

/-- `resolveExtraRoute`: `mergo.Merge(&UpstreamConfig{RouteConfig: extra}, parent)` (fill) -/
def fillRoute (extra parent : RouteCfg) : RouteCfg :=
  { from' := ovS parent.from' extra.from', to := ovS parent.to extra.to, type := ovS parent.type extra.type,
    options := match extra.options, parent.options with
      | none, p => p
      | some e, none => some e
      | some e, some p => some (fillOpts e p) }

/-! ### the loader -/

/-- `space.ReplaceAllString(strings.TrimSpace(s), "_")` restricted to ASCII space/tab/newline -/
def isSp (c : Char) : Bool := c = ' ' || c = '\t' || c = '\n' || c = '\r'
def collapse : List Char → Bool → List Char
  | [], _ => []
  | c :: t, inSp => if isSp c then (if inSp then collapse t true else '_' :: collapse t true) else c :: collapse t false
def cleanWhiteSpace (s : String) : String :=
  let cs := (s.toList.dropWhile isSp).reverse.dropWhile isSp |>.reverse
  String.ofList (collapse cs false)

/-- a resolved upstream, as `SetUpstreamConfigs` leaves it -/
structure Resolved where
  service : String
  from' : String
  to : String
  type : String
  opts : Opts                 -- the merged options (PassAccessToken / SkipAuthPreflight are *not* copied by the code)
  hmac : Bool
  deriving DecidableEq, Repr

inductive LoadErr where
  | missingService | missingFrom | missingTo | badFromUrl | badToUrl | badFromRegex | unknownType | badSkipRegex | badHmac
  | noAllowRule
  deriving DecidableEq, Repr

structure Oracles where
  okUrl : String → Bool          -- url.Parse succeeds on (scheme://)uri
  okRegex : String → Bool        -- regexp.Compile succeeds
  okHmac : String → Bool         -- "<digest>:<secret>" with a known digest

def lookupBlock (s : Service) (c : String) : Option (Option Block) := (s.clusters.find? (·.1 = c)).map (·.2)

/-- `resolveUpstreamConfig` -/
def resolveService (s : Service) (cluster : String) : Option (String × Block) :=
  match lookupBlock s "default", lookupBlock s cluster with
  | none, none => none
  | d, c =>
    let dst := (d.getD none).getD {}
    let src := (c.getD none).getD {}
    -- when cluster = "default" both are the same pointer: merging a block into itself changes nothing
    some (cleanWhiteSpace s.name, if cluster = "default" then dst else ovBlock dst src)

def validType (t : String) : Bool := t = "" || t = "simple" || t = "rewrite"

def checkRoute (service : String) (r : RouteCfg) : Option LoadErr :=
  if service = "" then some .missingService
  else if r.from' = "" then some .missingFrom
  else if r.to = "" then some .missingTo
  else none

def checkType (O : Oracles) (r : RouteCfg) : Option LoadErr :=
  if r.type = "" || r.type = "simple" then
    if !O.okUrl r.from' then some .badFromUrl else if !O.okUrl r.to then some .badToUrl else none
  else if r.type = "rewrite" then
    if !O.okRegex r.from' then some .badFromRegex else none
  else some .unknownType

/-- `parseOptionsConfig`: {} ← defaults ← route options -/
def parseOptions (defaults : Opts) (r : RouteCfg) : Opts :=
  let d := ovOpts {} defaults
  match r.options with
  | some o => ovOpts d o
  | none => d

def checkSkip (O : Oracles) (defaults : Opts) (r : RouteCfg) : Option LoadErr :=
  if (parseOptions defaults r).skipAuthRegex.all O.okRegex then none else some .badSkipRegex

def checkHmac (O : Oracles) (keys : List (String × String)) (svc : String) : Option LoadErr :=
  match keys.find? (·.1 = svc) with
  | some (_, spec) => if O.okHmac spec then none else some .badHmac
  | none => none

def checkRule (defaults : Opts) (r : RouteCfg) : Option LoadErr :=
  let o := parseOptions defaults r
  if o.domains = [] ∧ o.addrs = [] ∧ o.groups = [] then some .noAllowRule else none

def firstE : List (Option LoadErr) → Option LoadErr
  | [] => none
  | some e :: _ => some e
  | none :: t => firstE t

def orE (a b : Option LoadErr) : Option LoadErr := match a with | some e => some e | none => b

/-- the (service, route) pairs the loader ends up with: resolved top-level routes, then resolved extra routes -/
def candidates (services : List Service) (cluster : String) : List (String × RouteCfg) :=
  let tops := services.filterMap fun s => resolveService s cluster
  tops.map (fun (svc, b) => (svc, b.route)) ++
    tops.flatMap fun (svc, b) => b.extraRoutes.map fun e => (svc, fillRoute e b.route)

/-- the loader's phases, each over *all* upstreams, in the code's order -/
def loadErr (O : Oracles) (all : List (String × RouteCfg)) (defaults : Opts) (keys : List (String × String)) : Option LoadErr :=
  orE (firstE (all.map fun p => checkRoute p.1 p.2))
  (orE (firstE (all.map fun p => checkType O p.2))
  (orE (firstE (all.map fun p => checkSkip O defaults p.2))
  (orE (firstE (all.map fun p => checkHmac O keys p.1))
       (firstE (all.map fun p => checkRule defaults p.2)))))

def resolve (defaults : Opts) (keys : List (String × String)) (p : String × RouteCfg) : Resolved :=
  { service := p.1, from' := p.2.from', to := p.2.to, type := p.2.type, opts := parseOptions defaults p.2,
    hmac := (keys.find? (·.1 = p.1)).isSome }

/-- `loadServiceConfigs` + the allow-rule check of `SetUpstreamConfigs`. `keys` maps service ↦ configured HMAC key spec. -/
def load (O : Oracles) (services : List Service) (cluster : String) (defaults : Opts)
    (keys : List (String × String)) : Except LoadErr (List Resolved) :=
  let all := candidates services cluster
  match loadErr O all defaults keys with
  | some e => .error e
  | none => .ok (all.map (resolve defaults keys))

end Sso.Config
