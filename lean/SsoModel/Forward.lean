import SsoModel.Harden

/-
Model of what an upstream receives (C03, C12): oauthproxy.go `Authenticate`'s header injection, reverse_proxy.go
`deleteCookie` / signing / Director, and the fragment of httputil.ReverseProxy that edits request headers
(Connection-nominated and hop-by-hop removal, X-Forwarded-For). Header names are canonical; a request's header
multimap is a `Harden.HMap`.
-/
namespace Sso.Forward
open Sso.Harden

def identityHeaders : List String := ["X-Forwarded-User", "X-Forwarded-Email", "X-Forwarded-Groups", "X-Forwarded-Access-Token"]

/-- httputil's hop-by-hop list (Go 1.23) -/
def hopHeaders : List String :=
  ["Connection", "Proxy-Connection", "Keep-Alive", "Proxy-Authenticate", "Proxy-Authorization", "Te", "Trailer", "Transfer-Encoding", "Upgrade"]

structure Ident where
  user : String
  email : String
  groups : String            -- strings.Join(session.Groups, ",")
  accessToken : Option String
  deriving Repr

/-- after the `fix:` commit: `Proxy` drops client-supplied identity headers before anything else -/
def scrub (h : HMap) : HMap := identityHeaders.foldl hdel h

/-- tail of `Authenticate`: inject configured headers, then the identity headers (`Set` = replace) -/
def injectIdentity (inject : List (String × String)) (id : Ident) (h : HMap) : HMap :=
  let h1 := setAll h inject
  let h2 := hset h1 "X-Forwarded-User" id.user
  let h3 := match id.accessToken with | some t => hset h2 "X-Forwarded-Access-Token" t | none => h2
  hset (hset h3 "X-Forwarded-Email" id.email) "X-Forwarded-Groups" id.groups

/-- `deleteCookie`: `cookies` = what `req.Cookies()` parses (oracle), `render` = `Cookie.String()` (oracle) -/
def deleteCookie (cookieName : String) (cookies : List (String × String)) (render : String × String → String) (h : HMap) : HMap :=
  let keep := cookies.filter (·.1 ≠ cookieName)
  if keep = [] then hdel h "Cookie" else hset h "Cookie" (";".intercalate (keep.map render))

/-- ReverseProxy: remove the headers the client's `Connection` header nominates, then the hop-by-hop set -/
def stripHop (connTokens : List String) (h : HMap) : HMap := hopHeaders.foldl hdel (connTokens.foldl hdel h)

structure Cfg where
  cookieName : String
  inject : List (String × String)

/-- the request headers as the upstream receives them, for the tracked names (signature / forwarding headers added by
the chain are not tracked here) -/
def pipeline (c : Cfg) (id : Option Ident) (cookies : List (String × String)) (render : String × String → String)
    (connTokens : List String) (h : HMap) : HMap :=
  let h0 := scrub h
  let h1 := match id with | some i => injectIdentity c.inject i h0 | none => h0
  stripHop connTokens (deleteCookie c.cookieName cookies render h1)

/-! ### canonical signing document (request_signer.go `mapRequestToHashInput`) -/

def nonEmpty (vs : List String) : List String := vs.filter (· ≠ "")

def canonHeaders (covered : List String) (h : HMap) : List String :=
  covered.filterMap fun k => let vs := nonEmpty (hget h k); if vs = [] then none else some (",".intercalate vs)

def canonURL (path query fragment : String) : String :=
  path ++ (if query ≠ "" then "?" ++ query else "") ++ (if fragment ≠ "" then "#" ++ fragment else "")

/-- `strings.Join(entries, "\n")` -/
def joinNL : List String → String
  | [] => ""
  | [x] => x
  | x :: t => x ++ "\n" ++ joinNL t

def canonRSA (covered : List String) (h : HMap) (path query fragment body : String) : String :=
  joinNL (canonHeaders covered h ++ [canonURL path query fragment, body])

end Sso.Forward
