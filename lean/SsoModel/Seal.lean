import SsoModel.Prim.Base64

/-
Model of aead.MiscreantCipher.Marshal / Unmarshal (internal/pkg/aead/aead.go).

The AEAD primitive (AES-CMAC-SIV, 16-byte random nonce) is *idealised*: a structure whose fields state
correctness, authenticity and key separation.  These are assumptions about the primitive (INT-CTXT), not
axioms of the development: every theorem takes an `AEAD` as argument, and `AEAD.toy` shows the
assumptions are satisfiable.  Everything around the primitive — base64, the length check, where the nonce
sits, error propagation — is concrete.
-/
namespace Sso.Seal
open Sso.Base64

abbrev Key := Nat

structure AEAD where
  sealF : Key → List Nat → List Nat → List Nat            -- key, nonce, plaintext ↦ ciphertext
  openF : Key → List Nat → List Nat → Option (List Nat) -- key, nonce, ciphertext
  seal_bytes : ∀ k n pt, (∀ x ∈ n, x < 256) → (∀ x ∈ pt, x < 256) → ∀ x ∈ sealF k n pt, x < 256
  /-- SIV output = 16-byte tag ‖ ciphertext: never empty -/
  seal_nonempty : ∀ k n pt, ¬ (sealF k n pt).length = 0
  open_seal : ∀ k n pt, openF k n (sealF k n pt) = some pt
  /-- authenticity (ideal): only genuine ciphertexts open, and only under their own key and nonce -/
  open_only_seal : ∀ k n c pt, openF k n c = some pt → c = sealF k n pt
  seal_key_sep : ∀ k k' n n' pt pt', sealF k n pt = sealF k' n' pt' → k = k'

/-- gzip ∘ json for one Go type; lossless on the values sso seals -/
structure Codec (V : Type) where
  enc : V → List Nat
  dec : List Nat → Option V
  enc_bytes : ∀ v, ∀ x ∈ enc v, x < 256
  dec_enc : ∀ v, dec (enc v) = some v

def nonceSize : Nat := 16

/-- `Marshal`: json → gzip → Seal → append nonce → RawURLEncoding -/
def marshal {V : Type} (A : AEAD) (C : Codec V) (k : Key) (v : V) (nonce : List Nat) : List Nat :=
  encode (A.sealF k nonce (C.enc v) ++ nonce)

/-- `Unmarshal`, parameterised by the base64 decoder in use -/
def unmarshalWith {V : Type} (decode : List Nat → Option (List Nat)) (A : AEAD) (C : Codec V) (k : Key)
    (s : List Nat) : Option V :=
  match decode s with
  | none => none
  | some joined =>
    if joined.length ≤ nonceSize then none                  -- "invalid input size"
    else
      let pivot := joined.length - nonceSize
      match A.openF k (joined.drop pivot) (joined.take pivot) with
      | none => none
      | some pt => C.dec pt

/-- the pinned tree before the fix: Go's lenient decoder -/
def unmarshalLenient {V : Type} := @unmarshalWith V decodeGo
/-- the current tree (after `fix: aead: reject non-canonical base64`) -/
def unmarshal {V : Type} := @unmarshalWith V decodeCanonical

end Sso.Seal
