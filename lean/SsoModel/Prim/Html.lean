/-
html/template's escaping of a value in a text node or in a double-quoted attribute value (`htmlReplacementTable`),
and the fragment of the HTML tokenizer state machine that matters for injected text.
Characters are `Char`s; Go strings are byte strings, but every byte the table touches is ASCII, and a multi-byte
UTF-8 sequence never contains an ASCII byte, so working on code points is equivalent for these facts.
-/
namespace Sso.Html

def escChar (c : Char) : List Char :=
  if c = '\x00' then ['�']
  else if c = '"' then "&#34;".toList
  else if c = '&' then "&amp;".toList
  else if c = '\'' then "&#39;".toList
  else if c = '+' then "&#43;".toList
  else if c = '<' then "&lt;".toList
  else if c = '>' then "&gt;".toList
  else [c]

def htmlEscape (s : List Char) : List Char := s.flatMap escChar

inductive TState where
  | data          -- text node
  | tagOpen       -- just read '<'
  | attrDQ        -- inside a double-quoted attribute value
  | other         -- anything else (tag name, attribute name, …): not tracked further
  deriving DecidableEq, Repr

/-- the transitions that can leave `data` or `attrDQ` -/
def stepTok : TState → Char → TState
  | .data, c => if c = '<' then .tagOpen else .data
  | .attrDQ, c => if c = '"' then .other else .attrDQ
  | .tagOpen, _ => .other
  | .other, _ => .other

def runTok (st : TState) (s : List Char) : TState := s.foldl stepTok st

/-- A browser's decoding of the character references the escaper emits (the six it can produce); compared by the `htmlesc`
engine with Go's independent `html.UnescapeString` on every escaped output. -/
def decodeRefs : List Char → List Char
  | '&' :: '#' :: '3' :: '4' :: ';' :: r => '"' :: decodeRefs r
  | '&' :: 'a' :: 'm' :: 'p' :: ';' :: r => '&' :: decodeRefs r
  | '&' :: '#' :: '3' :: '9' :: ';' :: r => '\'' :: decodeRefs r
  | '&' :: '#' :: '4' :: '3' :: ';' :: r => '+' :: decodeRefs r
  | '&' :: 'l' :: 't' :: ';' :: r => '<' :: decodeRefs r
  | '&' :: 'g' :: 't' :: ';' :: r => '>' :: decodeRefs r
  | c :: r => c :: decodeRefs r
  | [] => []

end Sso.Html
