/-
Go's `base64.RawURLEncoding` as used by internal/pkg/aead: `EncodeToString` and the *non-strict*
`DecodeString` (CR and LF are skipped anywhere; the unused low bits of a final partial group are not
checked; `=` and every other byte outside the URL alphabet is an error; a dangling single character
is an error).  Bytes and characters are `Nat`s (< 256); sextets are `Nat`s (< 64).
-/
namespace Sso.Base64

/-- URL-safe alphabet: index → character code -/
def encChar (n : Nat) : Nat :=
  if n < 26 then 65 + n            -- 'A'..'Z'
  else if n < 52 then 97 + (n - 26) -- 'a'..'z'
  else if n < 62 then 48 + (n - 52) -- '0'..'9'
  else if n = 62 then 45            -- '-'
  else 95                           -- '_'

/-- character code → index, `none` outside the alphabet -/
def decChar (c : Nat) : Option Nat :=
  if 65 ≤ c ∧ c ≤ 90 then some (c - 65)
  else if 97 ≤ c ∧ c ≤ 122 then some (c - 97 + 26)
  else if 48 ≤ c ∧ c ≤ 57 then some (c - 48 + 52)
  else if c = 45 then some 62
  else if c = 95 then some 63
  else none

/-- `EncodeToString` on a byte list -/
def encode : List Nat → List Nat
  | [] => []
  | [b0] => [encChar (b0 / 4), encChar ((b0 % 4) * 16)]
  | [b0, b1] => [encChar (b0 / 4), encChar ((b0 % 4) * 16 + b1 / 16), encChar ((b1 % 16) * 4)]
  | b0 :: b1 :: b2 :: t =>
    encChar (b0 / 4) :: encChar ((b0 % 4) * 16 + b1 / 16) :: encChar ((b1 % 16) * 4 + b2 / 64) :: encChar (b2 % 64)
      :: encode t

/-- decode a CR/LF-free character list -/
def decodeChars : List Nat → Option (List Nat)
  | [] => some []
  | [_] => none
  | [c0, c1] =>
    match decChar c0, decChar c1 with
    | some s0, some s1 => some [s0 * 4 + s1 / 16]
    | _, _ => none
  | [c0, c1, c2] =>
    match decChar c0, decChar c1, decChar c2 with
    | some s0, some s1, some s2 => some [s0 * 4 + s1 / 16, (s1 % 16) * 16 + s2 / 4]
    | _, _, _ => none
  | c0 :: c1 :: c2 :: c3 :: t =>
    match decChar c0, decChar c1, decChar c2, decChar c3, decodeChars t with
    | some s0, some s1, some s2, some s3, some r =>
      some ((s0 * 4 + s1 / 16) :: ((s1 % 16) * 16 + s2 / 4) :: ((s2 % 4) * 64 + s3) :: r)
    | _, _, _, _, _ => none

def notCRLF (c : Nat) : Bool := c != 13 && c != 10

/-- `base64.RawURLEncoding.DecodeString` (Go ≥ 1.8, non-strict) -/
def decodeGo (s : List Nat) : Option (List Nat) := decodeChars (s.filter notCRLF)

/-- The decoder after the `fix:` commit to aead.Unmarshal: decode, then require that re-encoding gives the
input back (rejects inserted CR/LF and non-zero trailing bits). -/
def decodeCanonical (s : List Nat) : Option (List Nat) :=
  match decodeGo s with
  | some b => if encode b = s then some b else none
  | none => none

end Sso.Base64
