import SsoModel.Validators

/-
Model of sso-proxy's per-upstream request handling:
  internal/pkg/sessions/session_state.go   (deadlines, grace period)
  internal/proxy/providers/sso.go          (Redeem, ValidateGroup, RefreshSession, ValidateSessionState)
  internal/proxy/oauthproxy.go             (Authenticate, Proxy, AuthenticateOnly, Favicon, OAuthCallback, SignOut)
Time is `Int` seconds; `exp t now := t < now` is Go's `t.Before(time.Now())`.
Strings are opaque `String`s except e-mails/rules which go through `Validators`.
The authenticator's answers to the (at most three) back-channel calls of one request are inputs.
-/
namespace Sso.Proxy
open Sso.Validators

structure Sess where
  slug : String
  host : String            -- AuthorizedUpstream
  email : Bytes
  user : String
  access : String
  refreshTok : String
  groups : List String
  lifetime : Int
  refresh : Int
  valid : Int
  grace : Option Int       -- none = zero time.Time
  deriving DecidableEq, Repr, Inhabited

/-- deployment + upstream settings that matter to the decision -/
structure Policy where
  slug : String
  rules : Validators.Policy          -- allowed addresses / domains / groups as configured
  allowedGroups : List String        -- upstreamConfig.AllowedGroups (same list as rules.groups, as strings)
  L : Int                            -- SessionLifetimeTTL
  V : Int                            -- SessionValidTTL
  G : Int                            -- GracePeriodTTL
  passAccessToken : Bool             -- never true from configuration (not copied by parseOptionsConfig)
  skipPreflight : Bool               -- idem
  deriving Repr

/-- reply of the authenticator to one back-channel call -/
inductive Reply (α : Type) where
  | ok (a : α)
  | status (n : Nat)          -- a status other than the success status of that endpoint
  | transport                 -- connection error / timeout
  | malformed                 -- success status, undecodable body
  deriving Repr

structure Ans where
  refresh : Reply (String × Int)      -- /refresh: 201 {access_token, expires_in}
  validate : Reply Unit               -- /validate: 200
  profile : Reply (List String)       -- /profile: 200 {groups}
  deriving Repr

def exp (t now : Int) : Bool := decide (t < now)

def unavailable (n : Nat) : Bool := n = 429 || n = 503   -- re-proved against Generated.unavailableStatuses in C05

/-- `IsWithinGracePeriod`: stamps the start on first use (even when the answer is false); strict comparison -/
def withinGrace (s : Sess) (G now : Int) : Sess × Bool :=
  let g := s.grace.getD now
  ({ s with grace := some g }, decide (g + G > now))

inductive Call where
  | refresh | validate | profile
  deriving DecidableEq, Repr

inductive GroupRes where
  | ok (inGroups : List String) (valid : Bool)
  | unavail
  | err
  deriving Repr

/-- `ValidateGroup` (+ `UserGroups`): no call at all when no groups are configured or the list is a lone "*" -/
def validateGroup (allowed : List String) (a : Ans) : GroupRes × List Call :=
  if allowed = [] ∨ allowed = ["*"] then (.ok [] true, [])
  else match a.profile with
    | .ok ug =>
      let inG := ug.flatMap fun u => allowed.filter (· = u) |>.map fun _ => u
      (.ok inG (inG ≠ []), [.profile])
    | .status n => (if unavailable n then .unavail else .err, [.profile])
    | .transport => (.err, [.profile])
    | .malformed => (.err, [.profile])

inductive AuthErr where
  | noCookie | invalidSession | wrongIdP | wrongUpstream | lifetimeExpired
  | notAuthorized            -- ErrUserNotAuthorized
  | tokenRevoked             -- providers.ErrTokenRevoked
  | unavailableErr           -- ErrAuthProviderUnavailable outside the grace period
  | other                    -- any other error value (→ 500 page)
  deriving DecidableEq, Repr

/-- `RefreshSession`: `(session', ok?, err?)`; returns the possibly grace-stamped session exactly as the code
mutates it (the caller only saves it on success). -/
def refreshSession (P : Policy) (now : Int) (s : Sess) (a : Ans) : Sess × Except AuthErr Bool × List Call :=
  if s.refreshTok = "" then (s, .error .other, [])
  else
    let graceBranch (s : Sess) (calls : List Call) : Sess × Except AuthErr Bool × List Call :=
      let (s', w) := withinGrace s P.G now
      if w then ({ s' with refresh := now + P.V }, .ok true, calls) else (s', .error .unavailableErr, calls)
    match a.refresh with
    | .status n =>
      if unavailable n then graceBranch s [.refresh]
      else if n = 401 then (s, .error .tokenRevoked, [.refresh])
      else (s, .error .other, [.refresh])
    | .transport => (s, .error .other, [.refresh])
    | .malformed => (s, .error .other, [.refresh])
    | .ok (tok, ttl) =>
      match validateGroup P.allowedGroups a with
      | (.unavail, c) => graceBranch s (.refresh :: c)
      | (.err, c) => (s, .error .other, .refresh :: c)
      | (.ok _ false, c) => (s, .error .other, .refresh :: c)          -- "Group membership revoked": a generic error
      | (.ok g true, c) =>
        ({ s with groups := g, access := tok, refresh := now + ttl, grace := none }, .ok true, .refresh :: c)

/-- `ValidateSessionState` -/
def validateSession (P : Policy) (now : Int) (s : Sess) (a : Ans) : Sess × Bool × List Call :=
  let graceBranch (s : Sess) (calls : List Call) : Sess × Bool × List Call :=
    let (s', w) := withinGrace s P.G now
    if w then ({ s' with valid := now + P.V }, true, calls) else (s', false, calls)
  match a.validate with
  | .transport => (s, false, [.validate])
  | .status n => if unavailable n then graceBranch s [.validate] else (s, false, [.validate])
  | .malformed | .ok () =>          -- the body of /validate is never read: only the status matters
    match validateGroup P.allowedGroups a with
    | (.unavail, c) => graceBranch s (.validate :: c)
    | (.err, c) => (s, false, .validate :: c)
    | (.ok _ false, c) => (s, false, .validate :: c)
    | (.ok g true, c) => ({ s with groups := g, valid := now + P.V, grace := none }, true, .validate :: c)

/-- what `LoadSession` made of the request's cookie -/
inductive CookieIn where
  | absent
  | junk                      -- present but does not open / does not decode
  | opens (s : Sess)
  deriving Repr

inductive CookieWrite where
  | save (s : Sess)
  | clear
  deriving DecidableEq, Repr

structure Identity where
  user : String
  email : Bytes
  groups : List String
  accessToken : Option String
  deriving DecidableEq, Repr

structure AuthOut where
  res : Except AuthErr Identity
  writes : List CookieWrite          -- Set-Cookie effects on the session cookie, in order
  calls : List Call
  branch : String                    -- model branch id (coverage)
  deriving Repr

def identityOf (P : Policy) (s : Sess) : Identity :=
  { user := s.user, email := s.email, groups := s.groups,
    accessToken := if P.passAccessToken ∧ s.access ≠ "" then some s.access else none }

/-- the per-request validator loop (group validators skipped) -/
def requestValidators (lower : Bytes → Bytes) (P : Policy) (s : Sess) : Bool :=
  requestAdmits lower P.rules s.email

/-- `OAuthProxy.Authenticate` -/
def authenticate (lower : Bytes → Bytes) (P : Policy) (now : Int) (host : String) (c : CookieIn) (a : Ans) : AuthOut :=
  let fail (e : AuthErr) (w : List CookieWrite) (calls : List Call) (b : String) : AuthOut :=
    { res := .error e, writes := w ++ [.clear], calls := calls, branch := b }
  match c with
  | .absent => fail .noCookie [] [] "noCookie"
  | .junk => fail .invalidSession [] [] "invalidSession"
  | .opens s =>
    if s.slug ≠ P.slug then fail .wrongIdP [] [] "wrongIdP"
    else if host ≠ s.host then fail .wrongUpstream [] [] "wrongUpstream"
    else if exp s.lifetime now then fail .lifetimeExpired [] [] "lifetimeExpired"
    else
      let finish (s' : Sess) (w : List CookieWrite) (calls : List Call) (b : String) : AuthOut :=
        if requestValidators lower P s' then
          { res := .ok (identityOf P s'), writes := w, calls := calls, branch := b ++ "/ok" }
        else fail .notAuthorized w calls (b ++ "/validatorDenied")
      if exp s.refresh now then
        match refreshSession P now s a with
        | (_, .error e, calls) => fail e [] calls "refresh/error"
        | (_, .ok false, calls) => fail .notAuthorized [] calls "refresh/notOk"
        | (s', .ok true, calls) => finish s' [.save s'] calls "refresh"
      else if exp s.valid now then
        match validateSession P now s a with
        | (_, false, calls) => fail .notAuthorized [] calls "validate/false"
        | (s', true, calls) => finish s' [.save s'] calls "validate"
      else finish s [] [] "fresh"

/-! ### entry points -/

inductive Outcome where
  | forward (id : Option Identity)       -- upstream reached; identity headers set from the session (none: whitelisted)
  | startOAuth                           -- 302 to the authenticator's sign_in, CSRF cookie set
  | xhr401                               -- OAuthStart on an XHR request
  | errorPage (code : Nat)
  | accepted                             -- /oauth2/auth 202
  | unauthorized                         -- /oauth2/auth 401
  | notFound                             -- /favicon.ico 404
  deriving DecidableEq, Repr

structure ReqIn where
  method : String
  host : String
  whitelistedPath : Bool      -- some skip-auth regex matches req.URL.Path (oracle: Go regexp)
  xhr : Bool
  deriving Repr

def whitelisted (P : Policy) (r : ReqIn) : Bool := (P.skipPreflight && r.method = "OPTIONS") || r.whitelistedPath

def errOutcome (r : ReqIn) : AuthErr → Outcome
  | .noCookie | .lifetimeExpired | .wrongIdP | .wrongUpstream | .invalidSession => if r.xhr then .xhr401 else .startOAuth
  | .notAuthorized => .errorPage 403
  | .tokenRevoked => .errorPage 401
  | .unavailableErr | .other => .errorPage 500

structure HandlerOut where
  outcome : Outcome
  writes : List CookieWrite
  calls : List Call
  branch : String
  deriving Repr

/-- `OAuthProxy.Proxy` -/
def proxy (lower : Bytes → Bytes) (P : Policy) (now : Int) (r : ReqIn) (c : CookieIn) (a : Ans) : HandlerOut :=
  if whitelisted P r then { outcome := .forward none, writes := [], calls := [], branch := "whitelisted" }
  else
    let o := authenticate lower P now r.host c a
    match o.res with
    | .ok id => { outcome := .forward (some id), writes := o.writes, calls := o.calls, branch := o.branch }
    | .error e => { outcome := errOutcome r e, writes := o.writes, calls := o.calls, branch := o.branch }

/-- `OAuthProxy.AuthenticateOnly` (`/oauth2/auth`) -/
def authOnly (lower : Bytes → Bytes) (P : Policy) (now : Int) (r : ReqIn) (c : CookieIn) (a : Ans) : HandlerOut :=
  let o := authenticate lower P now r.host c a
  match o.res with
  | .ok _ => { outcome := .accepted, writes := o.writes, calls := o.calls, branch := o.branch }
  | .error _ => { outcome := .unauthorized, writes := o.writes, calls := o.calls, branch := o.branch }

/-- `OAuthProxy.Favicon`: `Authenticate`, then (on success) the whole of `Proxy` — which authenticates again with the
*same* request cookie. -/
def favicon (lower : Bytes → Bytes) (P : Policy) (now : Int) (r : ReqIn) (c : CookieIn) (a : Ans) : HandlerOut :=
  let o := authenticate lower P now r.host c a
  match o.res with
  | .error _ => { outcome := .notFound, writes := o.writes, calls := o.calls, branch := "favicon/" ++ o.branch }
  | .ok _ =>
    let p := proxy lower P now r c a
    { outcome := p.outcome, writes := o.writes ++ p.writes, calls := o.calls ++ p.calls, branch := "favicon/" ++ p.branch }

/-! ### host routing (internal/pkg/hostmux) -/

structure RouteEntry where
  isRegexp : Bool
  host : String          -- static: the exact Host value; regexp: unused
  deriving Repr

/-- `Router.Route`: exact static match first (a later registration of the same host replaces the earlier one), then the
first regexp route, in registration order, whose pattern matches (`matches i` = oracle for entry `i`); else none (421). -/
def routeHost (table : List RouteEntry) (matchesRe : Nat → Bool) (host : String) : Option Nat :=
  let idx := (List.range table.length).zip table
  match (idx.filter fun p => !p.2.isRegexp && p.2.host = host).getLast? with
  | some p => some p.1
  | none => (idx.find? fun p => p.2.isRegexp && matchesRe p.1).map (·.1)

/-- the route table of `OAuthProxy.Handler`: six exact paths, everything else to `Proxy` -/
def handlerOf (path : String) : String :=
  match path with
  | "/favicon.ico" => "Favicon" | "/robots.txt" => "RobotsTxt" | "/oauth2/v1/certs" => "Certs" | "/oauth2/sign_out" => "SignOut"
  | "/oauth2/callback" => "OAuthCallback" | "/oauth2/auth" => "AuthenticateOnly" | _ => "Proxy"

/-! ### login callback -/

/-- result of `Redeem` at the authenticator, as the proxy sees it -/
structure Redeemed where
  email : Bytes
  user : String
  access : String
  refreshTok : String
  expiresIn : Int
  deriving Repr

/-- `SSOProvider.Redeem` deadline stamping + `OAuthCallback`'s host binding -/
def mintSession (P : Policy) (now : Int) (host : String) (r : Redeemed) (groups : List String) : Sess :=
  { slug := P.slug, host := host, email := r.email, user := r.user, access := r.access, refreshTok := r.refreshTok,
    groups := groups, lifetime := now + P.L, refresh := now + r.expiresIn, valid := now + P.V, grace := none }

/-- what the two sealed values of the callback (state parameter, CSRF cookie) open to -/
inductive Sealed where
  | absent
  | junk
  | flow (sessionID : String) (uri : String)
  deriving DecidableEq, Repr

inductive CbOutcome where
  | errorPage (code : Nat)
  | login (s : Sess) (location : String)      -- session cookie set, CSRF cookie cleared, 302 to the recorded URI
  deriving Repr

structure CbIn where
  host : String
  errorParam : String
  code : String
  redeem : Reply Redeemed
  state : Sealed
  csrf : Sealed
  sameString : Bool           -- the two sealed strings are byte-identical
  group : GroupAns            -- ValidateGroup's verdict for the redeemed user (asked only when groups are configured)
  groupsIn : List String      -- groups the group validator stored on success
  deriving Repr

/-- `OAuthProxy.OAuthCallback` (ParseForm errors aside) -/
def oauthCallback (lower : Bytes → Bytes) (P : Policy) (now : Int) (i : CbIn) : CbOutcome × String :=
  if i.errorParam ≠ "" then (.errorPage 403, "cb/errorParam")
  else if i.code = "" then (.errorPage 500, "cb/noCode")
  else match i.redeem with
    | .status _ | .transport | .malformed => (.errorPage 500, "cb/redeemFailed")
    | .ok r =>
      if r.email = [] then (.errorPage 500, "cb/emptyEmail")
      else match i.state with
        | .absent | .junk => (.errorPage 500, "cb/badState")
        | .flow sid uri =>
          match i.csrf with
          | .absent => (.errorPage 400, "cb/noCsrfCookie")
          | .junk => (.errorPage 500, "cb/badCsrf")
          | .flow sid' uri' =>
            if i.sameString then (.errorPage 400, "cb/sameCiphertext")
            else if sid ≠ sid' ∨ uri ≠ uri' then (.errorPage 400, "cb/mismatch")
            else if !loginAdmits lower P.rules r.email i.group then (.errorPage 403, "cb/denied")
            else
              let groups := if P.rules.groups ≠ [] ∧ i.group = .member then i.groupsIn else []
              (.login (mintSession P now i.host r groups) uri, "cb/login")

/-! ### the proxy's CSRF cookie across one browser's history (C06, history level)

`OAuthStart` sets the CSRF cookie to a fresh sealing of the flow record it also hands out as `state`; `OAuthCallback` clears it
only after it has set a session. The callback's `csrf` input is whatever the history left in the browser's jar. -/

inductive PEv where
  | start (sid uri : String)          -- OAuthStart: CSRF cookie := seal(flow sid uri)
  | callback (now : Int) (i : CbIn)   -- OAuthCallback; `i.csrf` is ignored, the jar is what the browser sends
  deriving Repr

def callbackWith (lower : Bytes → Bytes) (P : Policy) (jar : Sealed) (now : Int) (i : CbIn) : CbOutcome :=
  (oauthCallback lower P now { i with csrf := jar }).1

def isLogin : CbOutcome → Bool
  | .login _ _ => true
  | _ => false

def pJarStep (lower : Bytes → Bytes) (P : Policy) (jar : Sealed) : PEv → Sealed
  | .start sid uri => .flow sid uri
  | .callback now i => if isLogin (callbackWith lower P jar now i) then .absent else jar

def pJarOf (lower : Bytes → Bytes) (P : Policy) (evs : List PEv) : Sealed := evs.foldl (pJarStep lower P) .absent

end Sso.Proxy
