import SsoModel.Validators

/-
Model of sso-auth's request handling (internal/auth/{middleware,authenticator,mux}.go) and of the identity-provider
side of a login (internal/auth/providers/{google,okta}.go Redeem).

Go's net/url parsing, base64 decoding and strconv.ParseInt are oracles: a request carries, next to each parameter
string, what those library functions make of it. The HMAC over `redirect_uri ++ decimal(ts)` is idealised as the
boolean "the MAC the authenticator computes equals the presented one" (PRF assumption).
-/
namespace Sso.AuthN
open Sso.Validators

/-- what `url.Parse` made of a redirect URI -/
structure ParsedURL where
  ok : Bool
  host : String          -- u.Host
  hostname : List Char   -- u.Hostname(), as characters
  deriving DecidableEq, Repr, Inhabited

def trimLeftDots (s : List Char) : List Char := s.dropWhile (· = '.')

/-- `validRedirectURI` after the `fix:` commit: IP-literal hosts (with or without a zone) are never under a root domain.
Root domains are lists of characters (with the leading dot `NewAuthenticator` adds). -/
def validRedirect (roots : List (List Char)) (uri : String) (p : ParsedURL) : Bool :=
  uri ≠ "" && p.ok && p.host ≠ "" && !(p.hostname.contains ':' || p.hostname.contains '%') &&
  roots.any fun d => d.isSuffixOf p.hostname || p.hostname = trimLeftDots d

/-- oracle bundle for `validSignature(redirectURI, sig, ts, secret)` -/
structure SigIn where
  uri : String
  sig : String
  ts : String
  uriParses : Bool       -- url.Parse(redirectURI) succeeds
  sigDecodes : Bool      -- base64.URLEncoding.DecodeString(sig) succeeds
  tsValue : Option Int   -- strconv.ParseInt(ts, 10, 64)
  macEqual : Bool        -- hmac.Equal(decoded sig, HMAC(secret, uri ++ decimal(tsValue)))
  deriving Repr

def sigTTL : Int := 300

def validSignature (secret : String) (now : Int) (s : SigIn) : Bool :=
  s.uri ≠ "" && s.sig ≠ "" && s.ts ≠ "" && secret ≠ "" && s.uriParses && s.sigDecodes &&
  match s.tsValue with
  | none => false
  | some t => decide (now - t ≤ sigTTL) && s.macEqual

/-! ### the route table and its gates -/

inductive Gate where
  | methods (ms : List String)
  | clientID | clientSecret | redirectURI | signature
  deriving DecidableEq, Repr

structure Route where
  path : String
  gates : List Gate          -- outermost first
  handler : String
  deriving Repr

structure Req where
  method : String
  clientID : String          -- FormValue("client_id"), else the query's
  clientSecret : String      -- Form.Get("client_secret"), else X-Client-Secret
  redirect : String
  redirectParsed : ParsedURL
  sig : SigIn
  acceptJSON : Bool
  formOK : Bool              -- ParseForm succeeded
  deriving Repr

structure Cfg where
  proxyID : String
  proxySecret : String
  roots : List (List Char)   -- with the leading dot NewAuthenticator adds

/-- first failing gate, as (status, message) -/
def gateFail (c : Cfg) (now : Int) (r : Req) : Gate → Option (Nat × String)
  | .methods ms => if ms.contains r.method then none else some (405, "method not allowed")
  | .clientID => if !r.formOK then some (500, "form") else if r.clientID = c.proxyID then none else some (401, "Invalid client_id parameter")
  | .clientSecret => if !r.formOK then some (500, "form") else if r.clientSecret = c.proxySecret then none else some (401, "Invalid client secret")
  | .redirectURI => if !r.formOK then some (400, "form") else if validRedirect c.roots r.redirect r.redirectParsed then none else some (400, "Invalid redirect parameter")
  | .signature => if !r.formOK then some (400, "form") else if validSignature c.proxySecret now r.sig then none else some (400, "Invalid redirect parameter")

def firstFail (c : Cfg) (now : Int) (r : Req) : List Gate → Option (Nat × String)
  | [] => none
  | g :: t => match gateFail c now r g with | some e => some e | none => firstFail c now r t

/-! ### authenticator session handling (`Authenticator.authenticate`, `SignIn`) -/

structure ASess where
  email : Bytes
  access : String
  refreshTok : String
  lifetime : Int
  refresh : Int
  deriving DecidableEq, Repr

inductive CookieIn where
  | absent | junk | opens (s : ASess)
  deriving Repr

/-- provider outcome classes (`providers.Err*`) -/
inductive PErr where
  | badRequest | tokenRevoked | rateLimit | unavailable | other
  deriving DecidableEq, Repr

structure IdPAns where
  validate : Bool                          -- provider.ValidateSessionState
  refresh : Except PErr (String × Int)     -- provider.RefreshAccessToken: new token, ttl
  deriving Repr

inductive AuthRes where
  | ok (s : ASess)
  | noCookie | invalidSession | lifetimeExpired
  | notAuthorized
  | perr (e : PErr)
  deriving Repr

inductive AWrite where
  | save (s : ASess) | clear
  deriving DecidableEq, Repr

def aexp (t now : Int) : Bool := decide (t < now)

/-- `authenticate`: returns result, cookie writes, provider calls -/
def authenticate (lower : Bytes → Bytes) (emailOK : Bytes → Bool) (now : Int) (c : CookieIn) (a : IdPAns) :
    AuthRes × List AWrite × List String :=
  let _ := lower
  match c with
  | .absent => (.noCookie, [.clear], [])
  | .junk => (.invalidSession, [.clear], [])
  | .opens s =>
    if aexp s.lifetime now then (.lifetimeExpired, [.clear], [])
    else if aexp s.refresh now then
      if s.refreshTok = "" then (.notAuthorized, [.clear], [])            -- RefreshSessionIfNeeded: (false, nil)
      else match a.refresh with
        | .error e => (.perr e, [.clear], ["refresh"])
        | .ok (tok, ttl) =>
          let s' := { s with access := tok, refresh := now + ttl }
          if emailOK s'.email then (.ok s', [.save s'], ["refresh"]) else (.notAuthorized, [.save s'], ["refresh"])
    else
      if s.access = "" then (.notAuthorized, [.clear], [])                 -- providers return false without a call
      else if a.validate then
        if emailOK s.email then (.ok s, [.save s], ["validate"]) else (.notAuthorized, [.save s], ["validate"])
      else (.notAuthorized, [.clear], ["validate"])

inductive SignInOut where
  | codeRedirect (s : ASess)        -- 302 to redirect_uri with code = seal(s), state
  | signInPage
  | error (code : Nat)
  deriving Repr

def codeForPErr : PErr → Nat
  | .badRequest => 400 | .tokenRevoked => 401 | .rateLimit => 429 | .unavailable => 503 | .other => 500

/-- `SignIn` (behind its gates) and `ProxyOAuthRedirect` -/
def signIn (lower : Bytes → Bytes) (emailOK : Bytes → Bool) (now : Int) (c : CookieIn) (a : IdPAns) (state : String)
    (redirect : String) (redirectParses : Bool) : SignInOut × List AWrite × List String :=
  match authenticate lower emailOK now c a with
  | (.ok s, w, calls) =>
    if state = "" then (.error 403, w, calls)
    else if redirect = "" then (.error 403, w, calls)
    else if !redirectParses then (.error 400, w, calls)
    else (.codeRedirect s, w, calls)
  | (.noCookie, w, calls) => (.signInPage, w, calls)
  | (.perr .tokenRevoked, w, calls) => (.signInPage, w ++ [.clear], calls)
  | (.lifetimeExpired, w, calls) => (.signInPage, w ++ [.clear], calls)
  | (.invalidSession, w, calls) => (.signInPage, w ++ [.clear], calls)
  | (.notAuthorized, w, calls) => (.error 401, w, calls)
  | (.perr e, w, calls) => (.error (codeForPErr e), w, calls)

/-! ### back channel -/

structure CodeIn where
  opens : Option ASess       -- UnmarshalSession(code, AuthCodeCipher)

inductive RedeemOut where
  | tokens (email : Bytes) (access refreshTok : String) (expiresIn : Int)
  | error (code : Nat)
  deriving Repr

def redeem (now : Int) (c : CodeIn) : RedeemOut :=
  match c.opens with
  | none => .error 401
  | some s => if aexp s.refresh now || aexp s.lifetime now then .error 401 else .tokens s.email s.access s.refreshTok (s.refresh - now)

/-- the other three back-channel handlers, behind the same credential gates -/
inductive BackOut where
  | status (n : Nat)                                   -- bare status / error response
  | refreshed (access : String) (expiresIn : Int)      -- 201 {"access_token","expires_in"}
  | profile (email : String) (groups : List String)    -- 200 {"email","groups"} and GAP-Auth: email
  deriving DecidableEq, Repr

/-- `Refresh`: no refresh token → 400 without asking the provider; otherwise exactly what the provider returned -/
def refreshH (refreshToken : String) (p : Except PErr (String × Int)) : BackOut × List String :=
  if refreshToken = "" then (.status 400, [])
  else match p with
    | .error e => (.status (codeForPErr e), ["refresh"])
    | .ok (tok, ttl) => (.refreshed tok ttl, ["refresh"])

/-- `ValidateToken`: no token → 400 without asking; 200 iff the provider accepts the token, 401 otherwise -/
def validateH (accessToken : String) (providerOK : Bool) : BackOut × List String :=
  if accessToken = "" then (.status 400, [])
  else if providerOK then (.status 200, ["validate"]) else (.status 401, ["validate"])

/-- `GetProfile`: no e-mail → 400 without asking; otherwise the e-mail asked about and exactly the groups the provider
returned for it -/
def profileH (email : String) (membership : Except PErr (List String)) : BackOut × List String :=
  if email = "" then (.status 400, [])
  else match membership with
    | .error e => (.status (codeForPErr e), ["membership"])
    | .ok gs => (.profile email gs, ["membership"])

/-- Okta's `ValidateGroupMembership`: no token → bad request without a call; nothing asked → nothing, without a call;
otherwise the asked groups (in the order asked, once each) that the userinfo endpoint lists; a user without any group is
an error -/
def oktaMembership (allowed : List String) (access : String) (userinfo : Except PErr (List String)) :
    Except PErr (List String) × List String :=
  if access = "" then (.error .badRequest, [])
  else if allowed = [] then (.ok [], [])
  else match userinfo with
    | .error e => (.error e, ["userinfo"])
    | .ok gs => if gs = [] then (.error .other, ["userinfo"]) else (.ok (allowed.filter (gs.contains ·)), ["userinfo"])

/-! ### sign-out -/

inductive SignOutOut where
  | page                      -- GET with a loadable session: confirmation page (200)
  | redirect                  -- 302 to the validated redirect_uri
  | errorPage                 -- POST, revoke failed: 500 sign-out page, cookie kept
  deriving DecidableEq, Repr

/-- `SignOut` behind its gates. `revoke` = provider.Revoke's verdict (already-revoked counts as success inside the providers). -/
def signOut (method : String) (c : CookieIn) (revokeOK : Bool) : SignOutOut × List AWrite × List String :=
  if method = "GET" then
    match c with
    | .opens _ => (.page, [], [])
    | _ => (.redirect, [], [])
  else
    match c with
    | .absent => (.redirect, [], [])
    | .junk => (.redirect, [.clear], [])
    | .opens _ => if revokeOK then (.redirect, [.clear], ["revoke"]) else (.errorPage, [], ["revoke"])

/-! ### identity provider side of a login (Redeem) -/

/-- Google: what the token endpoint answered, already classified -/
inductive TokenResp where
  | status (n : Nat)                 -- non-200
  | transport
  | malformed                        -- 200, body is not a JSON object
  | ok (access refreshTok idToken : String) (ttl : Int)
  deriving Repr

/-- what decoding the id_token's second segment yields (oracle: base64 + json), `none` if there is no second segment -/
inductive IDTok where
  | noSecondSegment                  -- `strings.Split(idToken, ".")` has fewer than 2 parts
  | undecodable                      -- base64 or JSON error
  | claims (email : Bytes) (verified : Bool)
  deriving Repr

inductive LoginRes where
  | session (email : Bytes) (access refreshTok : String) (ttl : Int)
  | error
  | panic                            -- index out of range: the request crashes
  deriving Repr

/-- `GoogleProvider.Redeem` after the `fix:` commit (length check in emailFromIDToken) -/
def googleRedeem (t : TokenResp) (idt : IDTok) : LoginRes :=
  match t with
  | .ok access rt _ ttl =>
    match idt with
    | .noSecondSegment => .error
    | .undecodable => .error
    | .claims e v => if e = [] then .error else if !v then .error else .session e access rt ttl
  | _ => .error

/-- the pinned tree before the fix -/
def googleRedeemUnfixed (t : TokenResp) (idt : IDTok) : LoginRes :=
  match t, idt with
  | .ok .., .noSecondSegment => .panic
  | t, i => googleRedeem t i

inductive UserinfoResp where
  | status (n : Nat) | transport | malformed
  | ok (email : Bytes) (verified : Bool)
  deriving Repr

/-- `OktaProvider.Redeem`: token call, then userinfo with the access token -/
def oktaRedeem (t : TokenResp) (u : UserinfoResp) : LoginRes × List String :=
  match t with
  | .ok access rt _ ttl =>
    if access = "" then (.error, ["token"])
    else match u with
      | .ok e v => if e = [] then (.error, ["token", "userinfo"]) else if !v then (.error, ["token", "userinfo"]) else (.session e access rt ttl, ["token", "userinfo"])
      | _ => (.error, ["token", "userinfo"])
  | _ => (.error, ["token"])

/-- `AmazonCognitoProvider.Redeem`: token call, then `/oauth2/userInfo` with the access token. Cognito's userinfo carries no
    `email_verified` claim the provider looks at: the e-mail it returns is the e-mail of the session. -/
def cognitoRedeem (t : TokenResp) (u : UserinfoResp) : LoginRes × List String :=
  match t with
  | .ok access rt _ ttl =>
    if access = "" then (.error, ["token"])
    else match u with
      | .ok e _ => if e = [] then (.error, ["token", "userinfo"]) else (.session e access rt ttl, ["token", "userinfo"])
      | _ => (.error, ["token", "userinfo"])
  | _ => (.error, ["token"])

inductive ProvKind where
  | google | okta | cognito
  deriving Repr, DecidableEq

/-- `Provider.Redeem(redirectURL, code)` of each identity provider: an empty code is refused before any call. -/
def redeemOf (k : ProvKind) (code : String) (t : TokenResp) (idt : IDTok) (u : UserinfoResp) : LoginRes × List String :=
  if code = "" then (.error, [])
  else match k with
    | .google => (googleRedeem t idt, ["token"])
    | .okta => oktaRedeem t u
    | .cognito => cognitoRedeem t u

/-- the callback after Redeem: nonce check, redirect re-validation, e-mail rule -/
structure CbIn where
  errorParam : String
  code : String
  login : LoginRes
  stateDecodes : Bool
  stateNonce : String
  stateRedirect : String
  stateHasColon : Bool
  csrfCookie : Option String
  redirectValid : Bool
  deriving Repr

inductive CbOut where
  | session (email : Bytes) (location : String)     -- session cookie set, 302 to the state's redirect
  | error (code : Nat)
  | crash
  deriving Repr

def oauthCallback (emailOK : Bytes → Bool) (i : CbIn) : CbOut :=
  if i.errorParam ≠ "" then .error 403
  else if i.code = "" then .error 400
  else match i.login with
    | .panic => .crash
    | .error => .error 500
    | .session e _ _ _ =>
      if e = [] then .error 500
      else if !i.stateDecodes then .error 500
      else if !i.stateHasColon then .error 500
      else match i.csrfCookie with
        | none => .error 403
        | some c =>
          if c ≠ i.stateNonce then .error 403
          else if !i.redirectValid then .error 403
          else if !emailOK e then .error 403
          else .session e i.stateRedirect

/-! ### the CSRF cookie across a browser's history at the authenticator (C09, history level) -/

inductive CEv where
  | start (nonce : String)            -- OAuthStart: `SetCSRF(nonce)`
  | callback (i : CbIn)               -- OAuthCallback; `i.csrfCookie` is ignored, the jar is what the browser sends
  deriving Repr

/-- the callback gets as far as reading the cookie (everything `getOAuthCallback` checks before `GetCSRF` passed) -/
def readsCookie (i : CbIn) : Bool :=
  i.errorParam = "" && i.code ≠ "" && (match i.login with | .session e _ _ _ => e ≠ [] | _ => false) && i.stateDecodes && i.stateHasColon

/-- the jar after one event -/
def jarStep (jar : Option String) : CEv → Option String
  | .start n => some n
  | .callback i => if readsCookie i && jar.isSome then none else jar

def jarOf (evs : List CEv) : Option String := evs.foldl jarStep none

/-- what the callback answers in a history: the model's `oauthCallback` fed with the jar -/
def callbackIn (emailOK : Bytes → Bool) (pre : List CEv) (i : CbIn) : CbOut :=
  oauthCallback emailOK { i with csrfCookie := jarOf pre }


/-! ### the proxy's half of sign-out (oauthproxy.go `SignOut`, providers/sso.go `GetSignOutURL`, `signRedirectURL`) -/

/-- what both services feed the MAC: the raw redirect URI followed by the decimal Unix timestamp
    (`h.Write([]byte(rawRedirect)); h.Write([]byte(fmt.Sprint(timestamp.Unix())))` on both sides) -/
def macInput (uri : String) (ts : Int) : String := uri ++ toString ts

/-- the link the proxy sends the browser to -/
structure SignOutLink where
  redirectURI : String     -- query parameter `redirect_uri`
  ts : Int                 -- query parameter `ts`
  signedOver : String      -- what `sig` is the MAC of, under the proxy's client secret
  deriving Repr, DecidableEq

/-- `OAuthProxy.SignOut`: clear the session cookie, then redirect to the provider's sign-out URL with the return address
    `scheme://<request Host>/` signed together with the current time. `cleared` is the cookie effect. -/
def proxySignOut (secureCookies : Bool) (host : String) (now : Int) : Bool × SignOutLink :=
  let uri := (if secureCookies then "https" else "http") ++ "://" ++ host ++ "/"
  (true, { redirectURI := uri, ts := now, signedOver := macInput uri now })

/-- the authenticator's view of that link: `macEqual` holds exactly when it recomputes the MAC over the same bytes under the
    same secret (HMAC itself is trusted) -/
def sigInOfLink (proxySecret authSecret : String) (l : SignOutLink) (uriParses : Bool) : SigIn :=
  { uri := l.redirectURI, sig := "mac", ts := toString l.ts, uriParses := uriParses, sigDecodes := true,
    tsValue := some l.ts, macEqual := decide (proxySecret = authSecret) && decide (l.signedOver = macInput l.redirectURI l.ts) }

end Sso.AuthN
