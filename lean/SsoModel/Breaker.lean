/-
Model of internal/auth/circuit/breaker.go.

Atomic steps are the two mutex-protected critical sections `beforeRequest` and `afterRequest`
(each: Lock; defer Unlock) and clock advances.  The user function `f` runs between them, outside
the lock, so a schedule of overlapping `Call`s is exactly a list of events
`start i | complete i ok | tick d`.  Ghost state: the list of calls in flight with the generation
each was admitted under (in Go this is the local variable `generation` of `Call`).
-/
namespace Sso.Breaker

inductive St where
  | closed | halfOpen | opn
  deriving DecidableEq, Repr, Inhabited

/-- `circuit.Counts`; all three are Go `int`s, modelled as unbounded `Int`. -/
structure Counts where
  cur  : Int
  succ : Int
  fail : Int
  deriving DecidableEq, Repr, Inhabited

/-- The rule functions of `Options`; arbitrary. -/
structure Params where
  trip    : Counts → Bool
  reset   : Counts → Bool
  backoff : Counts → Int
  halfOpenMax : Int

inductive Hook where
  | stateChange (prev to : St)
  | backoff (dur : Int) (reset : Int)
  deriving DecidableEq, Repr

structure B where
  st  : St
  gen : Int
  cnt : Counts
  expires : Int
  now : Int
  deriving DecidableEq, Repr, Inhabited

def B.init : B := { st := .closed, gen := 0, cnt := ⟨0, 0, 0⟩, expires := 0, now := 0 }

/-- `setState`: no-op when unchanged, else bump generation and fire the hook. -/
def setState (b : B) (s : St) : B × List Hook :=
  if b.st = s then (b, []) else ({ b with st := s, gen := b.gen + 1 }, [.stateChange b.st s])

/-- `currentState`: the clock-driven Open → HalfOpen step (strict `After`). -/
def cs (b : B) : B × List Hook :=
  if b.st = .opn ∧ b.now > b.expires then setState b .halfOpen else (b, [])

def setBackoff (P : Params) (b : B) : B × List Hook :=
  let d := P.backoff b.cnt
  ({ b with expires := b.now + d }, [.backoff d (b.now + d)])

def clearCounts (b : B) : B := { b with cnt := { b.cnt with succ := 0, fail := 0 } }

inductive Admit where
  | admitted (gen : Int)
  | rejected (gen : Int)
  deriving DecidableEq, Repr

/-- `beforeRequest`. -/
def beforeRequest (P : Params) (b : B) : B × Admit × List Hook :=
  let (b1, h) := cs b
  if b1.st = .opn then (b1, .rejected b1.gen, h)
  else if b1.st = .halfOpen ∧ b1.cnt.cur ≥ P.halfOpenMax then (b1, .rejected b1.gen, h)
  else ({ b1 with cnt := { b1.cnt with cur := b1.cnt.cur + 1 } }, .admitted b1.gen, h)

def onSuccess (P : Params) (b : B) : B × List Hook :=
  let b1 := { b with cnt := { b.cnt with succ := b.cnt.succ + 1, fail := 0 } }
  if b1.st = .halfOpen ∧ P.reset b1.cnt then
    let (b2, h) := setState b1 .closed
    (clearCounts b2, h)
  else (b1, [])

def onFailure (P : Params) (b : B) : B × List Hook :=
  let b1 := { b with cnt := { b.cnt with fail := b.cnt.fail + 1, succ := 0 } }
  match b1.st with
  | .closed =>
    if P.trip b1.cnt then
      let (b2, h) := setState b1 .opn
      let (b3, h') := setBackoff P (clearCounts b2)
      (b3, h ++ h')
    else (b1, [])
  | .opn => setBackoff P b1
  | .halfOpen =>
    let (b2, h) := setState b1 .opn
    let (b3, h') := setBackoff P b2
    (b3, h ++ h')

/-- The part of `afterRequest` that runs after the decrement and `currentState`. -/
def afterCore (P : Params) (b : B) (ok : Bool) (g : Int) : B × List Hook :=
  if g ≠ b.gen then (b, [])
  else if ok then onSuccess P b else onFailure P b

/-- `afterRequest`. -/
def afterRequest (P : Params) (b : B) (ok : Bool) (g : Int) : B × List Hook :=
  let b0 := { b with cnt := { b.cnt with cur := b.cnt.cur - 1 } }
  let (b1, h) := cs b0
  let (b2, h') := afterCore P b1 ok g
  (b2, h ++ h')

/-! ### The transition system with ghost in-flight list -/

inductive Ev where
  | start (i : Nat)
  | complete (i : Nat) (ok : Bool)
  | tick (d : Nat)
  deriving DecidableEq, Repr

structure G where
  b : B
  inflight : List (Nat × Int)      -- (call id, generation at admission)
  deriving Repr

def G.init : G := { b := B.init, inflight := [] }

inductive Out where
  | admitted (gen : Int) (hooks : List Hook)
  | rejected (gen : Int) (hooks : List Hook)
  | completed (hooks : List Hook)
  | ticked
  | disabled
  deriving DecidableEq, Repr

def lookupGen (l : List (Nat × Int)) (i : Nat) : Option Int :=
  (l.find? (fun p => p.1 = i)).map (·.2)

def removeId (l : List (Nat × Int)) (i : Nat) : List (Nat × Int) :=
  l.filter (fun p => p.1 ≠ i)

def step (P : Params) (g : G) : Ev → G × Out
  | .start i =>
    match lookupGen g.inflight i with
    | some _ => (g, .disabled)
    | none =>
      match beforeRequest P g.b with
      | (b', .admitted n, h) => ({ b := b', inflight := (i, n) :: g.inflight }, .admitted n h)
      | (b', .rejected n, h) => ({ g with b := b' }, .rejected n h)
  | .complete i ok =>
    match lookupGen g.inflight i with
    | none => (g, .disabled)
    | some n =>
      let (b', h) := afterRequest P g.b ok n
      ({ b := b', inflight := removeId g.inflight i }, .completed h)
  | .tick d => ({ g with b := { g.b with now := g.b.now + d } }, .ticked)

def run (P : Params) : G → List Ev → G × List Out
  | g, [] => (g, [])
  | g, e :: es =>
    let (g', o) := step P g e
    let (g'', os) := run P g' es
    (g'', o :: os)

def runState (P : Params) (g : G) (es : List Ev) : G := es.foldl (fun g e => (step P g e).1) g

/-- States reachable from the initial breaker. -/
def Reachable (P : Params) (g : G) : Prop := ∃ es, runState P G.init es = g

end Sso.Breaker
