/-
Model of internal/pkg/singleflight/singleflight.go (`Group.Do`).

Atomic steps = the two mutex-protected sections of `Do`, the user function `fn` (outside the lock)
and the follower's `wg.Wait()` returning.  `c.val, c.err = fn(); c.wg.Done()` is one step: nothing
reads `val` before `Done` (WaitGroup happens-before).  Threads are `Nat`s; results (value *or* error)
are abstract `Val`s.  Ghost state: `joinLog` (who joined which call), `execs` (one entry per
completed execution of `fn`).
-/
namespace Sso.Singleflight

abbrev Key := String
abbrev Val := Nat

inductive TState where
  | idle
  | running (k : Key) (c : Nat)           -- leader: created the call, `fn` executing
  | afterFn (k : Key) (c : Nat)           -- leader: result published (`wg.Done`), key not yet deleted
  | waiting (k : Key) (c : Nat)           -- follower: joined, in `wg.Wait`
  | returned (c : Nat) (leader : Bool) (v : Val) (n : Nat)   -- `Do` returned (v, n)
  deriving DecidableEq, Repr, Inhabited

structure CallRec where
  key : Key
  leader : Nat
  val : Option Val
  dups : Nat
  deriving DecidableEq, Repr, Inhabited

structure S where
  calls : Key → Option Nat
  recs : Nat → CallRec
  thr : Nat → TState
  next : Nat
  joinLog : List (Nat × Nat)            -- ghost: (thread, call) for every join
  execs : List (Nat × Nat × Val)        -- ghost: (call, leader thread, value) per completed `fn`

def S.init : S :=
  { calls := fun _ => none, recs := fun _ => default, thr := fun _ => .idle, next := 0, joinLog := [], execs := [] }

inductive Ev where
  | arrive (t : Nat) (k : Key)
  | fnReturn (t : Nat) (v : Val)
  | remove (t : Nat)
  | wake (t : Nat)
  deriving DecidableEq, Repr

inductive Out where
  | leader (c : Nat)
  | joined (c : Nat)
  | fnDone
  | ret (v : Val) (n : Nat)
  | blocked
  | disabled
  deriving DecidableEq, Repr

def upd {α : Type} (f : Nat → α) (i : Nat) (a : α) : Nat → α := fun j => if j = i then a else f j
def updK {α : Type} (f : Key → α) (i : Key) (a : α) : Key → α := fun j => if j = i then a else f j

def canArrive : TState → Bool
  | .idle => true
  | .returned .. => true
  | _ => false

def step (s : S) : Ev → S × Out
  | .arrive t k =>
    if canArrive (s.thr t) then
      match s.calls k with
      | some c =>
        ({ s with recs := upd s.recs c { s.recs c with dups := (s.recs c).dups + 1 },
                  thr := upd s.thr t (.waiting k c),
                  joinLog := (t, c) :: s.joinLog }, .joined c)
      | none =>
        let c := s.next
        ({ s with calls := updK s.calls k (some c),
                  recs := upd s.recs c { key := k, leader := t, val := none, dups := 0 },
                  thr := upd s.thr t (.running k c),
                  next := s.next + 1 }, .leader c)
    else (s, .disabled)
  | .fnReturn t v =>
    match s.thr t with
    | .running k c =>
      ({ s with recs := upd s.recs c { s.recs c with val := some v },
                thr := upd s.thr t (.afterFn k c),
                execs := (c, t, v) :: s.execs }, .fnDone)
    | _ => (s, .disabled)
  | .remove t =>
    match s.thr t with
    | .afterFn k c =>
      let v := (s.recs c).val.getD 0
      ({ s with calls := updK s.calls k none,          -- `delete(g.m, key)`: whatever is at the key
                thr := upd s.thr t (.returned c true v (s.recs c).dups) }, .ret v (s.recs c).dups)
    | _ => (s, .disabled)
  | .wake t =>
    match s.thr t with
    | .waiting _ c =>
      match (s.recs c).val with
      | some v => ({ s with thr := upd s.thr t (.returned c false v 0) }, .ret v 0)
      | none => (s, .blocked)
    | _ => (s, .disabled)

def runState (s : S) (es : List Ev) : S := es.foldl (fun s e => (step s e).1) s

def Reachable (s : S) : Prop := ∃ es, runState S.init es = s

end Sso.Singleflight
