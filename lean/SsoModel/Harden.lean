/-
Response-header model for C18 (internal/proxy/middleware.go, reverse_proxy.go ModifyResponse, net/http
TimeoutHandler and httputil.ReverseProxy header copying; internal/pkg/sessions/cookie_store.go makeCookie).
A response header map is an association list from canonical names to value lists.
-/
namespace Sso.Harden

abbrev HMap := List (String × List String)

def hget (m : HMap) (k : String) : List String := ((m.find? (·.1 = k)).map (·.2)).getD []
def hdel (m : HMap) (k : String) : HMap := m.filter (·.1 ≠ k)
def hset (m : HMap) (k v : String) : HMap := (k, [v]) :: hdel m k
def hadd (m : HMap) (k v : String) : HMap := (k, hget m k ++ [v]) :: hdel m k
def hreplace (m : HMap) (k : String) (vs : List String) : HMap := (k, vs) :: hdel m k

def setAll (m : HMap) (kvs : List (String × String)) : HMap := kvs.foldl (fun m p => hset m p.1 p.2) m

/-- `copyHeader(dst, src)`: `dst.Add(k, v)` for every value of every key -/
def addAll (m : HMap) (src : HMap) : HMap := src.foldl (fun m p => p.2.foldl (fun m v => hadd m p.1 v) m) m

/-- what `http.TimeoutHandler` does when the inner handler finishes in time: `dst[k] = vv` for every key it wrote -/
def replaceKeys (m : HMap) (src : HMap) : HMap := src.foldl (fun m p => hreplace m p.1 p.2) m

structure Cfg where
  securityHeaders : List (String × String)   -- middleware.go `securityHeaders` (generated)
  overrides : List (String × String)         -- the upstream's header_overrides
  secure : Bool                              -- cookie secure ⇒ requireHTTPS is mounted
  hstsName : String
  hstsValue : String
  deleted : List String                      -- names `ModifyResponse` deletes from the upstream's response (generated)
  timeoutHandler : Bool                      -- flush_interval = 0 ∧ timeout ≠ 0

/-- headers in place when the inner handler starts: setSecurityHeaders ▸ setResponseHeaderOverrides ▸ requireHTTPS -/
def outer (c : Cfg) : HMap :=
  let m := setAll (setAll [] c.securityHeaders) c.overrides
  if c.secure then hset m c.hstsName c.hstsValue else m

/-- a response proxied from the upstream whose (canonicalised) header multimap is `up` -/
def proxied (c : Cfg) (up : HMap) : HMap :=
  let up' := c.deleted.foldl hdel up
  if c.timeoutHandler then replaceKeys (outer c) up' else addAll (outer c) up'

/-- a response sso-proxy writes itself (redirects, error pages, 202/401, robots…): writes to other header names only -/
inductive Write where
  | set (k v : String) | add (k v : String) | del (k : String)

def Write.key : Write → String
  | .set k _ => k | .add k _ => k | .del k => k

def applyWrite (m : HMap) : Write → HMap
  | .set k v => hset m k v | .add k v => hadd m k v | .del k => hdel m k

def own (c : Cfg) (ws : List Write) : HMap := ws.foldl applyWrite (outer c)

/-! ### cookies -/

structure CookieCfg where
  secure : Bool
  httpOnly : Bool
  domain : String     -- configured cookie domain ("" = none)

structure CookieOut where
  name : String
  path : String
  domain : String
  secure : Bool
  httpOnly : Bool
  deriving DecidableEq, Repr

/-- `makeCookie`: `hostNoPort` is `net.SplitHostPort(req.Host)`'s host when that succeeds, else `req.Host` (oracle) -/
def makeCookie (c : CookieCfg) (name hostNoPort : String) : CookieOut :=
  { name := name, path := "/", domain := if c.domain ≠ "" then c.domain else hostNoPort, secure := c.secure, httpOnly := c.httpOnly }

end Sso.Harden
