import SsoModel.Harden
import Generated.Facts

/-!
# C18 — every response is hardened
-/
namespace Sso.Harden

theorem hget_hset (m : HMap) (k v : String) : hget (hset m k v) k = [v] := by simp [hget, hset]
theorem find_filter' {α : Type} (p q : α → Bool) (l : List α) (h : ∀ x, p x = true → q x = true) :
    (l.filter q).find? p = l.find? p := by
  induction l with
  | nil => rfl
  | cons x t ih =>
    by_cases hq : q x = true
    · simp [List.filter_cons, hq, List.find?_cons, ih]
    · have hp : p x = false := by
        cases hpx : p x with
        | false => rfl
        | true => exact absurd (h x hpx) hq
      simp [List.filter_cons, hq, List.find?_cons, hp, ih]

theorem hget_hdel_ne (m : HMap) (k k' : String) (h : k' ≠ k) : hget (hdel m k) k' = hget m k' := by
  simp only [hget, hdel]
  rw [find_filter']
  intro x hx
  simp only [decide_eq_true_eq] at hx
  simp [hx, h]

theorem hget_hset_ne (m : HMap) (k k' v : String) (h : k' ≠ k) : hget (hset m k v) k' = hget m k' := by
  have : ¬ (k = k') := fun e => h e.symm
  simp only [hset, hget, List.find?_cons, this, decide_false]
  exact hget_hdel_ne m k k' h

theorem hget_hdel (m : HMap) (k : String) : hget (hdel m k) k = [] := by
  have : (m.filter (fun p => decide (p.1 ≠ k))).find? (fun p => decide (p.1 = k)) = none := by
    rw [List.find?_eq_none]; intro p hp; have := (List.mem_filter.1 hp).2; simpa using this
  unfold hget hdel
  rw [this]; rfl

theorem hget_hadd_ne (m : HMap) (k k' v : String) (h : k' ≠ k) : hget (hadd m k v) k' = hget m k' := by
  have : ¬ (k = k') := fun e => h e.symm
  simp only [hadd, hget, List.find?_cons, this, decide_false]
  exact hget_hdel_ne m k k' h

theorem hget_hreplace_ne (m : HMap) (k k' : String) (vs : List String) (h : k' ≠ k) : hget (hreplace m k vs) k' = hget m k' := by
  have : ¬ (k = k') := fun e => h e.symm
  simp only [hreplace, hget, List.find?_cons, this, decide_false]
  exact hget_hdel_ne m k k' h

/-- copying / replacing headers whose names avoid `k` leaves `k` alone -/
theorem hget_addAll_avoid (m src : HMap) (k : String) (h : ∀ p ∈ src, p.1 ≠ k) : hget (addAll m src) k = hget m k := by
  unfold addAll
  induction src generalizing m with
  | nil => rfl
  | cons p t ih =>
    simp only [List.foldl_cons]
    rw [ih _ (fun q hq => h q (List.mem_cons_of_mem _ hq))]
    have hp : k ≠ p.1 := fun e => h p List.mem_cons_self e.symm
    generalize p.2 = vs
    induction vs generalizing m with
    | nil => rfl
    | cons v vs ihv => simp only [List.foldl_cons]; rw [ihv]; exact hget_hadd_ne m p.1 k v hp

theorem hget_replaceKeys_avoid (m src : HMap) (k : String) (h : ∀ p ∈ src, p.1 ≠ k) : hget (replaceKeys m src) k = hget m k := by
  unfold replaceKeys
  induction src generalizing m with
  | nil => rfl
  | cons p t ih =>
    simp only [List.foldl_cons]
    rw [ih _ (fun q hq => h q (List.mem_cons_of_mem _ hq))]
    exact hget_hreplace_ne m p.1 k p.2 (fun e => h p List.mem_cons_self e.symm)

theorem mem_foldl_hdel (up : HMap) (ds : List String) (p : String × List String) (h : p ∈ ds.foldl hdel up) :
    p ∈ up ∧ p.1 ∉ ds := by
  induction ds generalizing up with
  | nil => exact ⟨h, by simp⟩
  | cons d t ih =>
    simp only [List.foldl_cons] at h
    have := ih _ h
    have hm := List.mem_filter.1 this.1
    refine ⟨hm.1, ?_⟩
    simp only [List.mem_cons, not_or]
    exact ⟨by simpa using hm.2, this.2⟩

/-- **Upstreams cannot touch a protected header**: whatever header multimap the upstream sends (set, duplicated,
empty values …), with or without the timeout handler, every header name that `ModifyResponse` deletes keeps exactly
the value the proxy's middlewares gave it. -/
theorem C18_proxied_protected (c : Cfg) (up : HMap) (k : String) (hk : k ∈ c.deleted) :
    hget (proxied c up) k = hget (outer c) k := by
  unfold proxied
  have havoid : ∀ p ∈ c.deleted.foldl hdel up, p.1 ≠ k := by
    intro p hp e; exact (mem_foldl_hdel up c.deleted p hp).2 (e ▸ hk)
  split
  · exact hget_replaceKeys_avoid _ _ k havoid
  · exact hget_addAll_avoid _ _ k havoid

/-- a response sso-proxy writes itself keeps a protected header as long as the handler does not write that name -/
theorem C18_own_protected (c : Cfg) (ws : List Write) (k : String) (h : ∀ w ∈ ws, w.key ≠ k) :
    hget (own c ws) k = hget (outer c) k := by
  unfold own
  generalize outer c = m
  induction ws generalizing m with
  | nil => rfl
  | cons w t ih =>
    simp only [List.foldl_cons]
    rw [ih (fun x hx => h x (List.mem_cons_of_mem _ hx))]
    have hw := h w List.mem_cons_self
    cases w with
    | set k' v => exact hget_hset_ne m k' k v (fun e => hw e.symm)
    | add k' v => exact hget_hadd_ne m k' k v (fun e => hw e.symm)
    | del k' => exact hget_hdel_ne m k' k (fun e => hw e.symm)

theorem hget_setAll_not_mem (m : HMap) (kvs : List (String × String)) (k : String) (h : ∀ p ∈ kvs, p.1 ≠ k) :
    hget (setAll m kvs) k = hget m k := by
  unfold setAll
  induction kvs generalizing m with
  | nil => rfl
  | cons p t ih =>
    simp only [List.foldl_cons]
    rw [ih _ (fun q hq => h q (List.mem_cons_of_mem _ hq))]
    exact hget_hset_ne m p.1 k p.2 (fun e => h p List.mem_cons_self e.symm)

theorem hget_setAll_last (m : HMap) (kvs : List (String × String)) (k v : String)
    (hmem : (k, v) ∈ kvs) (huniq : ∀ v', (k, v') ∈ kvs → v' = v) : hget (setAll m kvs) k = [v] := by
  unfold setAll
  induction kvs generalizing m with
  | nil => cases hmem
  | cons p t ih =>
    simp only [List.foldl_cons]
    by_cases ht : ∃ v', (k, v') ∈ t
    · obtain ⟨v', hv'⟩ := ht
      have : v' = v := huniq v' (List.mem_cons_of_mem _ hv')
      subst this
      exact ih _ hv' (fun v'' h'' => huniq v'' (List.mem_cons_of_mem _ h''))
    · have hp : p = (k, v) := by
        rcases List.mem_cons.1 hmem with h | h
        · exact h.symm
        · exact absurd ⟨v, h⟩ ht
      subst hp
      have := hget_setAll_not_mem (hset m k v) t k (fun q hq e => ht ⟨q.2, by rw [← e]; exact hq⟩)
      unfold setAll at this
      rw [this]; exact hget_hset m k v

/-- **The value**: a security header that is not overridden by the upstream's configuration carries the proxy's constant;
one that is overridden carries the configured value — in both cases exactly one value. -/
theorem C18_outer_value (c : Cfg) (k v : String) (hmem : (k, v) ∈ c.securityHeaders)
    (huniq : ∀ v', (k, v') ∈ c.securityHeaders → v' = v) (hk : k ≠ c.hstsName) :
    ((∀ p ∈ c.overrides, p.1 ≠ k) → hget (outer c) k = [v]) ∧
    (∀ ov, (k, ov) ∈ c.overrides → (∀ v', (k, v') ∈ c.overrides → v' = ov) → hget (outer c) k = [ov]) := by
  have hsts : ∀ m, hget (if c.secure then hset m c.hstsName c.hstsValue else m) k = hget m k := by
    intro m; split
    · exact hget_hset_ne m c.hstsName k c.hstsValue hk
    · rfl
  constructor
  · intro hno
    unfold outer; simp only; rw [hsts, hget_setAll_not_mem _ _ k hno]
    exact hget_setAll_last [] c.securityHeaders k v hmem huniq
  · intro ov hov hu
    unfold outer; simp only; rw [hsts]
    exact hget_setAll_last _ c.overrides k ov hov hu

/-- **HSTS**: with secure cookies every response carries exactly the proxy's own HSTS value — overrides cannot change
it (requireHTTPS runs after them) and, provided `ModifyResponse` deletes it from upstream responses, neither can the
upstream. -/
theorem C18_hsts_every_response_when_secure (c : Cfg) (hs : c.secure = true) :
    hget (outer c) c.hstsName = [c.hstsValue] ∧
    (c.hstsName ∈ c.deleted → ∀ up, hget (proxied c up) c.hstsName = [c.hstsValue]) ∧
    (∀ ws, (∀ w ∈ ws, w.key ≠ c.hstsName) → hget (own c ws) c.hstsName = [c.hstsValue]) := by
  have h0 : hget (outer c) c.hstsName = [c.hstsValue] := by unfold outer; simp [hs, hget_hset]
  exact ⟨h0, fun hd up => by rw [C18_proxied_protected c up _ hd, h0],
    fun ws hw => by rw [C18_own_protected c ws _ hw, h0]⟩

/-- Without that deletion the upstream *can* replace (timeout handler) or append to (no timeout handler) the proxy's
HSTS value — finding (c), fixed. -/
theorem C18_hsts_needs_deletion :
    let c : Cfg := { securityHeaders := [], overrides := [], secure := true, hstsName := "Strict-Transport-Security",
                     hstsValue := "max-age=31536000", deleted := [], timeoutHandler := true }
    hget (proxied c [("Strict-Transport-Security", ["max-age=0"])]) "Strict-Transport-Security" = ["max-age=0"] ∧
    hget (proxied { c with timeoutHandler := false } [("Strict-Transport-Security", ["max-age=0"])]) "Strict-Transport-Security"
      = ["max-age=31536000", "max-age=0"] := by decide

/-- Tie (T1): the tables of the source. -/
theorem C18_tables :
    Sso.Generated.proxySecurityHeaders =
      [("X-Content-Type-Options", "nosniff"), ("X-Frame-Options", "SAMEORIGIN"), ("X-XSS-Protection", "1; mode=block")] ∧
    (∀ p ∈ Sso.Generated.proxySecurityHeaders, p.1 ∈ Sso.Generated.modifyResponseDeletes ∨
        Sso.Generated.modifyResponseDeletes.contains "range:securityHeaders") ∧
    Sso.Generated.modifyResponseDeletes.contains "Strict-Transport-Security" = true ∧
    Sso.Generated.skel_proxy_Handler =
      ["call:NewRouter", "call:UseEncodedPath", "call:HandleFunc", "call:HandleFunc", "call:HandleFunc", "call:HandleFunc",
       "call:HandleFunc", "call:HandleFunc", "call:PathPrefix", "call:HandlerFunc", "if{", "call:requireHTTPS", "}",
       "call:setResponseHeaderOverrides", "call:setSecurityHeaders", "return"] := by decide

/-- Cookie flags: every cookie sso writes has path `/`, the configured Secure / HttpOnly flags, and the request host
(without port) or the configured domain. -/
theorem C18_cookie_flags (c : CookieCfg) (name host : String) :
    (makeCookie c name host).path = "/" ∧ (makeCookie c name host).secure = c.secure ∧
    (makeCookie c name host).httpOnly = c.httpOnly ∧
    (c.domain = "" → (makeCookie c name host).domain = host) ∧ (c.domain ≠ "" → (makeCookie c name host).domain = c.domain) := by
  refine ⟨rfl, rfl, rfl, ?_, ?_⟩ <;> intro h <;> simp [makeCookie, h]

/-- Tie (T1): the header middlewares — call/branch/store skeletons regenerated from the source on every run; the expectations below are
what the model in this file transliterates. A structural edit of any of these functions breaks this theorem and sends the
check searching for a failing input. -/
theorem C18_wiring :
    Sso.Generated.skel_proxy_setHeaders =
      ["func{", "range{", "call:Header", "call:Set", "}", "call:ServeHTTP", "}", "call:HandlerFunc", "return"] ∧
    Sso.Generated.skel_proxy_setSecurityHeaders =
      ["call:setHeaders", "return"] ∧
    Sso.Generated.skel_proxy_setResponseHeaderOverrides =
      ["call:setHeaders", "return"] ∧
    Sso.Generated.skel_auth_setHeaders =
      ["func{", "range{", "call:Header", "call:Set", "}", "call:ServeHTTP", "}", "call:HandlerFunc", "return"] := by decide

/-- Tie (T1): `makeCookie`. -/
theorem C18_skeleton_makeCookie : Sso.Generated.skel_store_makeCookie =
    ["call:SplitHostPort", "if{", "}", "if{", "call:HasSuffix", "if{", "}", "}", "call:Add", "return"] := by decide

/-- Tie (T1), second wave: helpers, stores and second callers on this property's path (store_SaveSession, store_setSessionCookie, store_makeSessionCookie, store_makeCSRFCookie, proxy_newTimeoutHandler) — call/branch/store skeletons
regenerated from the source on every run against the expectations frozen here. -/
theorem C18_wiring2 :
    Sso.Generated.skel_store_SaveSession =
      ["call:MarshalSession", "if{", "return", "}", "call:setSessionCookie", "return"] ∧
    Sso.Generated.skel_store_setSessionCookie =
      ["call:Now", "call:makeSessionCookie", "call:SetCookie"] ∧
    Sso.Generated.skel_store_makeSessionCookie =
      ["call:makeCookie", "return"] ∧
    Sso.Generated.skel_store_makeCSRFCookie =
      ["call:makeCookie", "return"] ∧
    Sso.Generated.skel_proxy_newTimeoutHandler =
      ["call:Sprintf", "call:TimeoutHandler", "return"] := by decide

/-- Tie (T1): the decoder tags of sso-proxy's configuration structs (`internal/proxy/configuration.go`) — the names under which the environment and the files reach each setting this
property depends on (TTLs, cookie flags, client credentials, root domains, allow rules …). A tag that changes re-routes or drops a
setting without any code noticing. -/
theorem C18_tags_proxyConfigTags : Sso.Generated.proxyConfigTags =
    ["Configuration.ServerConfig mapstructure:\"server\"", "Configuration.ProviderConfig mapstructure:\"provider\"", "Configuration.ClientConfig mapstructure:\"client\"", "Configuration.SessionConfig mapstructure:\"session\"", "Configuration.UpstreamConfigs mapstructure:\"upstream\"", "Configuration.MetricsConfig mapstructure:\"metrics\"", "Configuration.LoggingConfig mapstructure:\"logging\"", "Configuration.RequestSignerConfig mapstructure:\"requestsigner\"", "ProviderConfig.ProviderType mapstructure:\"type\"", "ProviderConfig.Scope mapstructure:\"scope\"", "ProviderConfig.ProviderURLConfig mapstructure:\"url\"", "ProviderURLConfig.External mapstructure:\"external\"", "ProviderURLConfig.Internal mapstructure:\"internal\"", "SessionConfig.CookieConfig mapstructure:\"cookie\"", "SessionConfig.TTLConfig mapstructure:\"ttl\"", "CookieConfig.Name mapstructure:\"name\"", "CookieConfig.Secret mapstructure:\"secret\"", "CookieConfig.Expire mapstructure:\"expire\"", "CookieConfig.Domain mapstructure:\"domain\"", "CookieConfig.Secure mapstructure:\"secure\"", "CookieConfig.HTTPOnly mapstructure:\"httponly\"", "TTLConfig.Lifetime mapstructure:\"lifetime\"", "TTLConfig.Valid mapstructure:\"valid\"", "TTLConfig.GracePeriod mapstructre:\"grace_period\"", "ClientConfig.ID mapstructure:\"id\"", "ClientConfig.Secret mapstructure:\"secret\"", "ServerConfig.Port mapstructure:\"port\"", "ServerConfig.TimeoutConfig mapstructure:\"timeout\"", "TimeoutConfig.Write mapstructure:\"write\"", "TimeoutConfig.Read mapstructure:\"read\"", "TimeoutConfig.Shutdown mapstructure:\"shutdown\"", "MetricsConfig.StatsdConfig mapstructure:\"statsd\"", "StatsdConfig.Port mapstructure:\"port\"", "StatsdConfig.Host mapstructure:\"host\"", "LoggingConfig.Enable mapstructure:\"enable\"", "UpstreamConfigs.DefaultConfig mapstructure:\"default\"", "UpstreamConfigs.ConfigsFile mapstructure:\"configfile\"", "UpstreamConfigs.testTemplateVars ", "UpstreamConfigs.upstreamConfigs ", "UpstreamConfigs.Cluster mapstructure:\"cluster\"", "UpstreamConfigs.Scheme mapstructure:\"scheme\"", "DefaultConfig.EmailConfig mapstructure:\"email\"", "DefaultConfig.AllowedGroups mapstructure:\"groups\"", "DefaultConfig.ProviderSlug mapstructure:\"provider\"", "DefaultConfig.Timeout mapstructure:\"timeout\"", "DefaultConfig.ResetDeadline mapstructure:\"resetdeadline\"", "EmailConfig.AllowedDomains mapstructure:\"domains\"", "EmailConfig.AllowedAddresses mapstructure:\"addresses\"", "RequestSignerConfig.Key mapstructure:\"key\""] := by decide

/-- Tie (T1): the decoder tags of sso-auth's configuration structs (`internal/auth/configuration.go`) — the names under which the environment and the files reach each setting this
property depends on (TTLs, cookie flags, client credentials, root domains, allow rules …). A tag that changes re-routes or drops a
setting without any code noticing. -/
theorem C18_tags_authConfigTags : Sso.Generated.authConfigTags =
    ["Configuration.ProviderConfigs mapstructure:\"provider\"", "Configuration.ClientConfigs mapstructure:\"client\"", "Configuration.GroupCacheConfig mapstructure:\"groupcache\"", "Configuration.AuthorizeConfig mapstructure:\"authorize\"", "Configuration.SessionConfig mapstructure:\"session\"", "Configuration.ServerConfig mapstructure:\"server\"", "Configuration.MetricsConfig mapstructure:\"metrics\"", "Configuration.LoggingConfig mapstructure:\"logging\"", "ProviderConfig.ProviderType mapstructure:\"type\"", "ProviderConfig.ProviderSlug mapstructure:\"slug\"", "ProviderConfig.ClientConfig mapstructure:\"client\"", "ProviderConfig.Scope mapstructure:\"scope\"", "ProviderConfig.GoogleProviderConfig mapstructure:\"google\"", "ProviderConfig.OktaProviderConfig mapstructure:\"okta\"", "ProviderConfig.AmazonCognitoProviderConfig mapstructure:\"cognito\"", "ProviderConfig.GroupCacheConfig mapstructure:\"groupcache\"", "GoogleProviderConfig.Credentials mapstructure:\"credentials\"", "GoogleProviderConfig.Impersonate mapstructure:\"impersonate\"", "GoogleProviderConfig.ApprovalPrompt mapstructure:\"prompt\"", "GoogleProviderConfig.HostedDomain mapstructure:\"domain\"", "OktaProviderConfig.ServerID mapstructure:\"server\"", "OktaProviderConfig.OrgURL mapstructure:\"url\"", "AmazonCognitoProviderConfig.OrgURL mapstructure:\"url\"", "AmazonCognitoProviderConfig.UserPoolID mapstructure:\"id\"", "AmazonCognitoProviderConfig.Region mapstructure:\"region\"", "AmazonCognitoProviderConfig.Credentials mapstructure:\"credentials\"", "CognitoCredentials.ID mapstructure:\"id\"", "CognitoCredentials.Secret mapstructure:\"secret\"", "GroupCacheConfig.CacheIntervalConfig mapstructure:\"interval\"", "CacheIntervalConfig.Provider mapstructure:\"provider\"", "CacheIntervalConfig.Refresh mapstructure:\"refresh\"", "SessionConfig.CookieConfig mapstructure:\"cookie\"", "SessionConfig.SessionLifetimeTTL mapstructure:\"lifetime\"", "SessionConfig.Key mapstructure:\"key\"", "CookieConfig.Name mapstructure:\"name\"", "CookieConfig.Secret mapstructure:\"secret\"", "CookieConfig.Domain mapstructure:\"domain\"", "CookieConfig.Expire mapstructure:\"expire\"", "CookieConfig.Secure mapstructure:\"secure\"", "CookieConfig.HTTPOnly mapstructure:\"httponly\"", "ServerConfig.Host mapstructure:\"host\"", "ServerConfig.Port mapstructure:\"port\"", "ServerConfig.Scheme mapstructure:\"scheme\"", "ServerConfig.TimeoutConfig mapstructure:\"timeout\"", "TimeoutConfig.Write mapstructure:\"write\"", "TimeoutConfig.Read mapstructure:\"read\"", "TimeoutConfig.Request mapstructure:\"request\"", "TimeoutConfig.Shutdown mapstructure:\"shutdown\"", "ClientConfig.ID mapstructure:\"id\"", "ClientConfig.Secret mapstructure:\"secret\"", "AuthorizeConfig.EmailConfig mapstructure:\"email\"", "AuthorizeConfig.ProxyConfig mapstructure:\"proxy\"", "EmailConfig.Domains mapstructure:\"domains\"", "EmailConfig.Addresses mapstructure:\"addresses\"", "ProxyConfig.Domains mapstructure:\"domains\"", "MetricsConfig.StatsdConfig mapstructure:\"statsd\"", "LoggingConfig.Enable mapstructure:\"enable\"", "LoggingConfig.Level mapstructure:\"level\"", "StatsdConfig.Port mapstructure:\"port\"", "StatsdConfig.Host mapstructure:\"host\""] := by decide

/-- Tie (T1): `cmd/sso-proxy/main.go`: load the configuration from the environment, validate it, `proxy.New`, wrap in the logging handler, serve — the sequence the harness reproduces when it builds the service in-process (configuration validated before
anything is served; the handler wrapping). -/
theorem C18_skeleton_cmd_proxy_main : Sso.Generated.skel_cmd_proxy_main =
    ["call:LoadConfig", "if{", "call:Exit", "}", "call:Validate", "if{", "call:Exit", "}", "call:NewStatsdClient", "if{", "call:Exit", "}", "go{", "call:New", "call:Run", "}", "call:SetUpstreamConfigs", "if{", "call:Exit", "}", "call:New", "if{", "call:Exit", "}", "call:NewLoggingHandler", "call:Sprintf", "call:Run", "if{", "}"] := by decide

/-- Tie (T1): `cmd/sso-auth/main.go`: load the configuration from the environment, validate it, `NewAuthenticatorMux`, wrap in the timeout and logging handlers, serve — the sequence the harness reproduces when it builds the service in-process (configuration validated before
anything is served; the handler wrapping). -/
theorem C18_skeleton_cmd_auth_main : Sso.Generated.skel_cmd_auth_main =
    ["call:LoadConfig", "if{", "call:Exit", "}", "call:Validate", "if{", "call:Exit", "}", "call:NewStatsdClient", "if{", "call:Exit", "}", "call:NewAuthenticatorMux", "if{", "call:Exit", "}", "defer:Stop", "call:TimeoutHandler", "call:Sprintf", "call:NewLoggingHandler", "call:Run", "if{", "}"] := by decide

/-- Tie (T1), third wave: the constructors and option functions that hand configured values to the components this property
speaks about (proxy_SetCookieStore). -/
theorem C18_wiring3 :
    Sso.Generated.skel_proxy_SetCookieStore =
      ["func{", "call:DecodeString", "if{", "return", "}", "call:CreateMiscreantCookieCipher", "func{", "store:c.CookieDomain", "store:c.CookieHTTPOnly", "store:c.CookieExpire", "store:c.CookieSecure", "return", "}", "call:NewCookieStore", "if{", "return", "}", "store:op.csrfStore", "store:op.sessionStore", "store:op.cookieCipher", "return", "}", "return"] := by decide

end Sso.Harden
