import Generated.Facts
import SsoSpec.C02
import SsoSpec.C01

/-!
# C06 — the proxy's login callback is bound to the browser's own flow and returns same-site
-/
namespace Sso.Proxy
open Sso.Validators

/-- **A session is set only if** the request carries no `error`, a code the authenticator redeems to a non-empty
e-mail, a state parameter and a CSRF cookie that both open under the proxy's secret, are different strings, and open to
the same flow record, and the user passes the upstream's rules (any-of); the session is bound to the request's Host and
the browser is sent to exactly the URI recorded in the flow record. -/
theorem C06_callback_sets_session_only_if (lower : Bytes → Bytes) (P : Policy) (now : Int) (i : CbIn) (s : Sess) (loc : String)
    (h : (oauthCallback lower P now i).1 = .login s loc) :
    i.errorParam = "" ∧ i.code ≠ "" ∧
    ∃ r, i.redeem = .ok r ∧ r.email ≠ [] ∧
    ∃ sid, i.state = .flow sid loc ∧ i.csrf = .flow sid loc ∧ i.sameString = false ∧
      loginAdmits lower P.rules r.email i.group = true ∧
      s.host = i.host ∧ s.email = r.email ∧ s.slug = P.slug ∧ s.lifetime = now + P.L ∧ s.valid = now + P.V := by
  unfold oauthCallback at h
  by_cases h1 : i.errorParam ≠ ""
  · simp [h1] at h
  · by_cases h2 : i.code = ""
    · simp [h1, h2] at h
    · simp only [h1, h2, if_false] at h
      refine ⟨by simpa using h1, h2, ?_⟩
      cases hr : i.redeem with
      | status n => rw [hr] at h; simp at h
      | transport => rw [hr] at h; simp at h
      | malformed => rw [hr] at h; simp at h
      | ok r =>
        rw [hr] at h; simp only at h
        by_cases h3 : r.email = []
        · simp [h3] at h
        · simp only [h3, if_false] at h
          refine ⟨r, rfl, h3, ?_⟩
          cases hs : i.state with
          | absent => rw [hs] at h; simp at h
          | junk => rw [hs] at h; simp at h
          | flow sid uri =>
            rw [hs] at h; simp only at h
            cases hc : i.csrf with
            | absent => rw [hc] at h; simp at h
            | junk => rw [hc] at h; simp at h
            | flow sid' uri' =>
              rw [hc] at h; simp only at h
              by_cases h4 : i.sameString = true
              · simp [h4] at h
              · by_cases h5 : sid ≠ sid' ∨ uri ≠ uri'
                · simp [h4, h5] at h
                · by_cases h6 : loginAdmits lower P.rules r.email i.group = true
                  · simp only [h4, h5, h6, if_false, Bool.not_true, Bool.false_eq_true] at h
                    simp only [CbOutcome.login.injEq] at h
                    obtain ⟨hsess, hloc⟩ := h
                    have h5' : sid = sid' ∧ uri = uri' := by
                      simp only [not_or, ne_eq, Decidable.not_not] at h5; exact h5
                    subst hloc
                    refine ⟨sid, rfl, by rw [← h5'.1, ← h5'.2], by simpa using h4, h6, ?_⟩
                    subst hsess
                    simp [mintSession]
                  · simp [h4, h5, h6] at h

/-- In every other case no session cookie is set: the only outcomes are `login` (above) and an error page. -/
theorem C06_otherwise_no_session (lower : Bytes → Bytes) (P : Policy) (now : Int) (i : CbIn) :
    (∃ s loc, (oauthCallback lower P now i).1 = .login s loc) ∨ (∃ c, (oauthCallback lower P now i).1 = .errorPage c) := by
  cases h : (oauthCallback lower P now i).1 with
  | login s loc => exact Or.inl ⟨s, loc, rfl⟩
  | errorPage c => exact Or.inr ⟨c, rfl⟩

/-- State from flow A with the cookie of flow B, or a replayed state with a newer cookie: rejected. -/
theorem C06_cross_flow_rejected (lower : Bytes → Bytes) (P : Policy) (now : Int) (i : CbIn) (sa ua sb ub : String)
    (hs : i.state = .flow sa ua) (hc : i.csrf = .flow sb ub) (hne : sa ≠ sb ∨ ua ≠ ub) :
    ∀ s loc, (oauthCallback lower P now i).1 ≠ .login s loc := by
  intro s loc h
  obtain ⟨_, _, _, _, _, sid, h1, h2, _⟩ := C06_callback_sets_session_only_if lower P now i s loc h
  rw [hs] at h1; rw [hc] at h2
  cases h1; cases h2
  rcases hne with h | h <;> exact h rfl

/-- "Different ciphertexts": two sealed values that are different *strings* decode to different (ciphertext, nonce)
pairs — this is where the canonical-base64 fix of C02 is needed (before it, `state = cookie ++ "\n"` passed the string
comparison with the same ciphertext). -/
theorem C06_distinct_strings_distinct_ciphertexts (s₁ s₂ j₁ j₂ : List Nat)
    (h₁ : Sso.Base64.decodeCanonical s₁ = some j₁) (h₂ : Sso.Base64.decodeCanonical s₂ = some j₂) (hne : s₁ ≠ s₂) : j₁ ≠ j₂ :=
  Sso.Seal.C02_distinct_strings_distinct_seals s₁ s₂ j₁ j₂ h₁ h₂ hne

/-- `OAuthStart` seals the same flow record twice with independent nonces: the state parameter and the CSRF cookie it
hands out are different strings that open to the same record (so the genuine flow passes the callback's two checks). -/
theorem C06_start_hands_out_matching_pair {V : Type} (A : Sso.Seal.AEAD) (C : Sso.Seal.Codec V) (k : Sso.Seal.Key) (rec : V)
    (n₁ n₂ : List Nat) (b₁ : Sso.Base64.Bytes n₁) (b₂ : Sso.Base64.Bytes n₂)
    (l₁ : n₁.length = Sso.Seal.nonceSize) (l₂ : n₂.length = Sso.Seal.nonceSize) (hne : n₁ ≠ n₂) :
    Sso.Seal.marshal A C k rec n₁ ≠ Sso.Seal.marshal A C k rec n₂ ∧
    Sso.Seal.unmarshal A C k (Sso.Seal.marshal A C k rec n₁) = some rec ∧
    Sso.Seal.unmarshal A C k (Sso.Seal.marshal A C k rec n₂) = some rec :=
  ⟨Sso.Seal.C02_fresh_nonce_fresh_string A C k rec n₁ n₂ b₁ b₂ l₁ l₂ hne,
   (Sso.Seal.C02_unmarshal_marshal A C k rec n₁ b₁ l₁).1, (Sso.Seal.C02_unmarshal_marshal A C k rec n₂ b₂ l₂).1⟩

/-! ### Non-vacuity -/
def exCb : CbIn :=
  { host := "app.x", errorParam := "", code := "c", redeem := .ok ⟨[97, 64, 120], "a", "at", "rt", 600⟩,
    state := .flow "sid" "/deep?x=1", csrf := .flow "sid" "/deep?x=1", sameString := false, group := .error, groupsIn := [] }
example : ∃ s, (oauthCallback id exPol 0 exCb).1 = .login s "/deep?x=1" := ⟨_, rfl⟩
example : (oauthCallback id exPol 0 { exCb with csrf := .flow "other" "/deep?x=1" }).1 = .errorPage 400 := rfl
example : (oauthCallback id exPol 0 { exCb with sameString := true }).1 = .errorPage 400 := rfl

/-- Tie (T1): the proxy's provider middleware passes `Redeem` straight through — redemption of a callback's code is **not**
coalesced with any other callback's, so the session a callback sets is the one *its own* code was redeemed for. -/
theorem C06_redeem_not_coalesced : Sso.Generated.skel_proxy_sf_Redeem = ["call:Redeem", "return"] := by decide

/-- Tie (T1): flow start and callback on the proxy — call/branch/store skeletons regenerated from the source on every run; the expectations below are
what the model in this file transliterates. A structural edit of any of these functions breaks this theorem and sends the
check searching for a failing input. -/
theorem C06_wiring :
    Sso.Generated.skel_proxy_OAuthStart =
      ["call:getRemoteAddr", "call:isXHR", "if{", "call:New", "call:XHRError", "return", "}", "call:String", "call:GetRedirectURL", "call:GenerateKey", "call:Sprintf", "call:Marshal", "if{", "call:Error", "call:ErrorPage", "return", "}", "call:SetCSRF", "call:Marshal", "if{", "call:Error", "call:ErrorPage", "return", "}", "call:GetSignInURL", "call:String", "call:Redirect"] ∧
    Sso.Generated.skel_proxy_OAuthCallback =
      ["call:getRemoteAddr", "call:ParseForm", "if{", "call:Error", "call:ErrorPage", "return", "}", "call:Get", "if{", "call:ErrorPage", "return", "}", "call:Get", "call:redeemCode", "if{", "call:ErrorPage", "return", "}", "call:Get", "call:Unmarshal", "if{", "call:ErrorPage", "return", "}", "call:GetCSRF", "if{", "call:Error", "call:ErrorPage", "return", "}", "call:Unmarshal", "if{", "call:ErrorPage", "return", "}", "if{", "call:ErrorPage", "return", "}", "call:DeepEqual", "if{", "call:ErrorPage", "return", "}", "call:RunValidators", "call:len", "call:len", "if{", "call:len", "call:make", "range{", "call:Error", "call:append", "}", "call:Join", "call:Sprintf", "call:ErrorPage", "return", "}", "store:session.AuthorizedUpstream", "call:SaveSession", "if{", "call:ErrorPage", "return", "}", "call:ClearCSRF", "call:Redirect"] ∧
    Sso.Generated.skel_proxy_redeemCode =
      ["if{", "call:New", "return", "}", "call:GetRedirectURL", "call:String", "call:Redeem", "if{", "return", "}", "if{", "call:New", "return", "}", "return"] := by decide

/-- Tie (T1), second wave: helpers, stores and second callers on this property's path (aead_Unmarshal, aead_GenerateKey, store_SetCSRF, store_GetCSRF, store_ClearCSRF, sso_Redeem) — call/branch/store skeletons
regenerated from the source on every run against the expectations frozen here. -/
theorem C06_wiring2 :
    Sso.Generated.skel_aead_Unmarshal =
      ["call:DecodeString", "if{", "return", "}", "call:EncodeToString", "if{", "call:Errorf", "return", "}", "call:Decrypt", "if{", "return", "}", "call:NewBuffer", "call:NewReader", "if{", "return", "}", "call:Copy", "call:Bytes", "call:Unmarshal", "if{", "return", "}", "return"] ∧
    Sso.Generated.skel_aead_GenerateKey =
      ["call:GenerateKey", "return"] ∧
    Sso.Generated.skel_store_SetCSRF =
      ["call:Now", "call:makeCSRFCookie", "call:SetCookie"] ∧
    Sso.Generated.skel_store_GetCSRF =
      ["call:Cookie", "return"] ∧
    Sso.Generated.skel_store_ClearCSRF =
      ["call:Now", "call:makeCSRFCookie", "call:SetCookie"] ∧
    Sso.Generated.skel_sso_Redeem =
      ["if{", "call:New", "return", "}", "call:Add", "call:Add", "call:Add", "call:Add", "call:Add", "call:String", "call:Encode", "call:NewBufferString", "call:newRequest", "if{", "return", "}", "call:Set", "call:Do", "if{", "return", "}", "call:ReadAll", "call:Close", "if{", "return", "}", "if{", "call:isProviderUnavailable", "if{", "return", "}", "call:String", "call:Errorf", "return", "}", "call:Unmarshal", "if{", "return", "}", "call:Split", "call:ToLower", "call:Duration", "call:ExtendDeadline", "call:ExtendDeadline", "call:ExtendDeadline", "return"] := by decide


/-! ### histories: which flow a successful callback completes -/

/-- no `/start`, and no callback that set a session -/
def PUntouched (lower : Bytes → Bytes) (P : Policy) : Sealed → List PEv → Prop
  | _, [] => True
  | _, .start _ _ :: _ => False
  | jar, .callback now i :: t => isLogin (callbackWith lower P jar now i) = false ∧ PUntouched lower P jar t

theorem pjar_flow_origin (lower : Bytes → Bytes) (P : Policy) (evs : List PEv) (j0 : Sealed) (sid uri : String)
    (h : evs.foldl (pJarStep lower P) j0 = .flow sid uri) :
    (∃ before after, evs = before ++ .start sid uri :: after ∧ PUntouched lower P (.flow sid uri) after) ∨
    (j0 = .flow sid uri ∧ PUntouched lower P j0 evs) := by
  induction evs generalizing j0 with
  | nil => right; exact ⟨by simpa using h, trivial⟩
  | cons ev t ih =>
    simp only [List.foldl_cons] at h
    rcases ih _ h with ⟨b, a, ht, ha⟩ | ⟨hj, ht⟩
    · left; exact ⟨ev :: b, a, by simp [ht], ha⟩
    · cases ev with
      | start s u =>
        simp only [pJarStep] at hj ht
        cases hj
        left; exact ⟨[], t, by simp, ht⟩
      | callback now i =>
        simp only [pJarStep] at hj ht
        by_cases hc : isLogin (callbackWith lower P j0 now i) = true
        · simp [hc] at hj
        · simp only [hc, Bool.false_eq_true, if_false] at hj ht
          right
          exact ⟨hj, by simpa using hc, ht⟩

/-- **A successful callback completes the flow this browser started last.** Along every history of one browser at one upstream
(any number of `/start`s, any callbacks with any state, code and error parameters, replays included): when a callback sets a
session, its `state` opens to the flow record of the most recent `/start`, no callback has set a session since, and the browser
is sent to the URI that `/start` recorded. -/
theorem C06_callback_completes_outstanding_start (lower : Bytes → Bytes) (P : Policy) (pre : List PEv) (now : Int) (i : CbIn)
    (s : Sess) (loc : String) (h : callbackWith lower P (pJarOf lower P pre) now i = .login s loc) :
    ∃ sid before after, i.state = .flow sid loc ∧ pre = before ++ .start sid loc :: after ∧
      PUntouched lower P (.flow sid loc) after := by
  obtain ⟨_, _, r, _, _, sid, hst, hcs, _⟩ := C06_callback_sets_session_only_if lower P now _ s loc h
  have hj : pJarOf lower P pre = .flow sid loc := by simpa using hcs
  rcases pjar_flow_origin lower P pre .absent sid loc hj with ⟨b, a, hp, ha⟩ | ⟨h0, _⟩
  · exact ⟨sid, b, a, by simpa using hst, hp, ha⟩
  · cases h0

/-- **One shot**: right after a callback that set a session, no callback — the same one replayed, or any other — sets a
session until `/start` runs again. -/
theorem C06_callback_one_shot (lower : Bytes → Bytes) (P : Policy) (pre : List PEv) (now now' : Int) (i j : CbIn)
    (hl : isLogin (callbackWith lower P (pJarOf lower P pre) now i) = true) :
    isLogin (callbackWith lower P (pJarOf lower P (pre ++ [.callback now i])) now' j) = false := by
  have hjar : pJarOf lower P (pre ++ [.callback now i]) = .absent := by
    simp only [pJarOf, List.foldl_append, List.foldl_cons, List.foldl_nil, pJarStep]
    have : isLogin (callbackWith lower P (List.foldl (pJarStep lower P) Sealed.absent pre) now i) = true := hl
    simp [this]
  rw [hjar]
  cases hres : callbackWith lower P .absent now' j with
  | errorPage n => rfl
  | login s loc =>
    obtain ⟨_, _, r, _, _, sid, _, hcs, _⟩ := C06_callback_sets_session_only_if lower P now' _ s loc hres
    simp at hcs

-- non-vacuity: a start followed by the matching callback sets the session and uses the cookie up; the same callback again does not
def exCbH : CbIn := { exCb with csrf := .absent }
example : isLogin (callbackWith id exPol (pJarOf id exPol [.start "sid" "/deep?x=1"]) 10 exCbH) = true := by decide
example : isLogin (callbackWith id exPol (pJarOf id exPol [.start "sid" "/deep?x=1", .callback 10 exCbH]) 11 exCbH) = false := by decide
example : isLogin (callbackWith id exPol (pJarOf id exPol [.start "sid" "/deep?x=1", .start "sid2" "/other"]) 10 exCbH) = false := by decide

/-- with no `/start` in the history no callback sets a session -/
theorem C06_no_start_no_session (lower : Bytes → Bytes) (P : Policy) (pre : List PEv) (now : Int) (i : CbIn)
    (hn : ∀ ev ∈ pre, match ev with | .start _ _ => False | .callback _ _ => True) :
    isLogin (callbackWith lower P (pJarOf lower P pre) now i) = false := by
  cases hres : callbackWith lower P (pJarOf lower P pre) now i with
  | errorPage n => rfl
  | login s loc =>
    obtain ⟨sid, b, a, _, hp, _⟩ := C06_callback_completes_outstanding_start lower P pre now i s loc hres
    have := hn (.start sid loc) (by rw [hp]; simp)
    exact this.elim

end Sso.Proxy
