import Generated.Facts
import SsoSpec.C01
import SsoSpec.C04

/-!
# C13 — requests are handled under the policy and backend of the upstream their Host names
`routeHost` is `hostmux.Router.Route`; `matchesRe i` is the oracle "the i-th entry's regexp matches this Host".
-/
namespace Sso.Proxy

theorem find_filter_getLast {α : Type} (l : List α) (p : α → Bool) (x : α) (h : (l.filter p).getLast? = some x) :
    x ∈ l ∧ p x = true := by
  have := List.mem_of_getLast? h
  exact ⟨(List.mem_filter.1 this).1, (List.mem_filter.1 this).2⟩

/-- An exact static match takes precedence over every regexp route, whatever the patterns match. -/
theorem C13_static_precedes_regexp (table : List RouteEntry) (m : Nat → Bool) (host : String)
    (hs : ∃ e ∈ table, e.isRegexp = false ∧ e.host = host) :
    ∃ i e, routeHost table m host = some i ∧ table[i]? = some e ∧ e.isRegexp = false ∧ e.host = host := by
  obtain ⟨e, he, hr, hh⟩ := hs
  unfold routeHost
  simp only
  have hne : ((List.range table.length).zip table).filter (fun p => !p.2.isRegexp && p.2.host = host) ≠ [] := by
    obtain ⟨i, hi, rfl⟩ := List.mem_iff_getElem.1 he
    intro hnil
    have hm : (i, table[i]) ∈ (List.range table.length).zip table := by
      rw [List.mem_iff_getElem]
      refine ⟨i, by simpa using hi, ?_⟩
      simp
    have := List.filter_eq_nil_iff.1 hnil _ hm
    simp [hr, hh] at this
  cases hl : (((List.range table.length).zip table).filter (fun p => !p.2.isRegexp && p.2.host = host)).getLast? with
  | none => exact absurd (List.getLast?_eq_none_iff.1 hl) hne
  | some p =>
    obtain ⟨hmem, hp⟩ := find_filter_getLast _ _ p hl
    simp only [Bool.and_eq_true, Bool.not_eq_eq_eq_not, Bool.not_true, decide_eq_true_eq] at hp
    refine ⟨p.1, p.2, rfl, ?_, hp.1, hp.2⟩
    obtain ⟨n, hn, hpe⟩ := List.mem_iff_getElem.1 hmem
    simp at hn
    have : p = (n, table[n]'(by omega)) := by rw [← hpe]; simp
    rw [this]; simp

/-- Without a static match, the first regexp route (in configuration order) whose pattern matches handles the request. -/
theorem C13_first_matching_regexp (table : List RouteEntry) (m : Nat → Bool) (host : String)
    (hs : ∀ e ∈ table, e.isRegexp = false → e.host ≠ host) (i : Nat) (h : routeHost table m host = some i) :
    ∃ e, table[i]? = some e ∧ e.isRegexp = true ∧ m i = true ∧
      ∀ j e', j < i → table[j]? = some e' → e'.isRegexp = true → m j = false := by
  unfold routeHost at h
  simp only at h
  have hnil : ((List.range table.length).zip table).filter (fun p => !p.2.isRegexp && p.2.host = host) = [] := by
    rw [List.filter_eq_nil_iff]
    intro p hp
    have hp2 : p.2 ∈ table := (List.of_mem_zip hp).2
    by_cases hr : p.2.isRegexp = true
    · simp [hr]
    · have := hs p.2 hp2 (by simpa using hr)
      simp [this]
  rw [hnil] at h
  simp only [List.getLast?_nil, Option.map_eq_some_iff] at h
  obtain ⟨p, hf, rfl⟩ := h
  have hmem := List.mem_of_find?_eq_some hf
  have hp := List.find?_some hf
  simp only [Bool.and_eq_true] at hp
  obtain ⟨n, hn, hpe⟩ := List.mem_iff_getElem.1 hmem
  simp at hn
  have hpn : p = (n, table[n]'(by omega)) := by rw [← hpe]; simp
  refine ⟨p.2, by rw [hpn]; simp, hp.1, hp.2, ?_⟩
  intro j e' hj hje hre
  -- an earlier matching regexp entry would have been found first
  cases hm' : m j with
  | false => rfl
  | true =>
  exfalso
  have hjlt : j < table.length := by
    rcases List.getElem?_eq_some_iff.1 hje with ⟨h1, _⟩; exact h1
  have hje' : table[j] = e' := by rcases List.getElem?_eq_some_iff.1 hje with ⟨_, h2⟩; exact h2
  rw [List.find?_eq_some_iff_getElem] at hf
  obtain ⟨_, k, hk, hke, hbefore⟩ := hf
  have hkn : k = p.1 := by
    have : ((List.range table.length).zip table)[k] = p := hke
    rw [hpn] at this ⊢
    simp at this
    exact this.1
  have hjk : j < k := by rw [hkn]; exact hj
  have := hbefore j hjk
  simp [hje', hre, hm'] at this

theorem zip_range_mem {α : Type} (l : List α) (p : Nat × α) (h : p ∈ (List.range l.length).zip l) : l[p.1]? = some p.2 := by
  obtain ⟨i, hi, e⟩ := List.mem_iff_getElem.1 h
  have hi' : i < l.length := by simpa using hi
  have : p = (i, l[i]) := by rw [← e]; simp
  rw [this]; simp [hi']

/-- **Routing is sound**: whatever the table and the host, the entry a request is handled under either names that host
exactly or is a regexp route whose pattern matches it — no request is ever handled under an upstream its Host does not
name. (The precedence theorems above say *which* such entry; this one is the unconditional safety half.) -/
theorem C13_route_sound (table : List RouteEntry) (m : Nat → Bool) (host : String) (i : Nat)
    (h : routeHost table m host = some i) :
    ∃ e, table[i]? = some e ∧ ((e.isRegexp = false ∧ e.host = host) ∨ (e.isRegexp = true ∧ m i = true)) := by
  unfold routeHost at h
  simp only at h
  split at h
  · rename_i p hp
    have hm := List.mem_of_getLast? hp
    rcases List.mem_filter.1 hm with ⟨hz, hq⟩
    simp only [Bool.and_eq_true, Bool.not_eq_true', decide_eq_true_eq] at hq
    cases h
    exact ⟨p.2, zip_range_mem table p hz, Or.inl hq⟩
  · rcases hf : ((List.range table.length).zip table).find? (fun p => p.2.isRegexp && m p.1) with _ | p
    · simp [hf] at h
    · simp only [hf, Option.map_some, Option.some.injEq] at h
      have hq := List.find?_some hf
      have hz := List.mem_of_find?_eq_some hf
      simp only [Bool.and_eq_true] at hq
      subst h
      exact ⟨p.2, zip_range_mem table p hz, Or.inr hq⟩
example : routeHost [⟨false, "a"⟩, ⟨true, ""⟩, ⟨false, "a"⟩] (fun _ => true) "a" = some 2 ∧
    routeHost [⟨false, "a"⟩, ⟨true, ""⟩] (fun _ => true) "b" = some 1 := by decide

/-- A Host that matches no route reaches no handler of any upstream: the router answers 421. -/
theorem C13_no_match_none (table : List RouteEntry) (m : Nat → Bool) (host : String)
    (hs : ∀ e ∈ table, e.isRegexp = false → e.host ≠ host) (hr : ∀ i, m i = false) :
    routeHost table m host = none := by
  cases h : routeHost table m host with
  | none => rfl
  | some i =>
    obtain ⟨e, _, _, hm, _⟩ := C13_first_matching_regexp table m host hs i h
    simp [hr i] at hm

/-- A session obtained for one upstream host is never accepted on another (instance of C01). -/
theorem C13_cross_host_session_rejected (lower : Validators.Bytes → Validators.Bytes) (P : Policy) (now : Int) (r : ReqIn) (s : Sess) (a : Ans)
    (hh : s.host ≠ r.host) (hw : whitelisted P r = false) :
    ∀ id, (proxy lower P now r (.opens s) a).outcome ≠ .forward id :=
  C01_cross_host_session_rejected lower P now r s a hh hw

/-- … and a session issued under another provider slug is not accepted either: the slug gate uses the upstream's own slug. -/
theorem C13_other_provider_session_rejected (lower : Validators.Bytes → Validators.Bytes) (P : Policy) (now : Int) (r : ReqIn) (s : Sess) (a : Ans)
    (hh : s.slug ≠ P.slug) (hw : whitelisted P r = false) :
    ∀ id, (proxy lower P now r (.opens s) a).outcome ≠ .forward id := by
  intro id h
  rcases C01_forward_sound lower P now r (.opens s) a id h with ⟨hw', _⟩ | ⟨_, s', hc, h1, _⟩
  · simp [hw] at hw'
  · cases hc; exact hh h1

/-- Tie (T1): `Router.Route` looks the Host up in the static map first, then ranges over the regexp routes in order. -/
theorem C13_skeleton_Route : Sso.Generated.skel_hostmux_Route =
    ["call:Lock", "defer:Unlock", "if{", "return", "}", "range{", "call:MatchString", "if{", "return", "}", "}", "return"] := by decide

/-! ### Non-vacuity -/
def exTable : List RouteEntry := [⟨false, "app.x.io"⟩, ⟨true, ""⟩, ⟨false, "app.x.io"⟩, ⟨true, ""⟩]
example : routeHost exTable (fun _ => true) "app.x.io" = some 2 := by decide      -- later static registration wins; regexps ignored
example : routeHost exTable (fun i => i == 3) "other" = some 3 := by decide
example : routeHost exTable (fun _ => false) "APP.x.io" = none := by decide       -- exact bytes: no case folding

/-- Tie (T1): `proxy.New` builds, **inside the loop over upstreams**, one provider (`newProvider`, hence one single-flight
group), one reverse proxy and one validator list per upstream, installs them with the `Set…` options and registers the
handler under that upstream's route — nothing is shared between upstreams. -/
theorem C13_skeleton_New : Sso.Generated.skel_proxy_New =
    ["if{", "call:NewRequestSigner", "if{", "return", "}", "call:SetRequestSigner", "call:append", "}", "call:NewRouter", "range{", "if{", "store:upstreamConfigs.DefaultConfig.ProviderSlug", "}", "call:newProvider", "if{", "return", "}", "call:NewUpstreamReverseProxy", "if{", "return", "}", "call:len", "if{", "call:NewEmailAddressValidator", "call:append", "}", "call:len", "if{", "call:NewEmailDomainValidator", "call:append", "}", "call:len", "if{", "call:NewEmailGroupValidator", "call:append", "}", "call:SetProvider", "call:SetCookieStore", "call:SetUpstreamConfig", "call:SetProxyHandler", "call:SetStatsdClient", "call:SetValidators", "call:append", "call:NewOAuthProxy", "if{", "return", "}", "typeswitch{", "case{", "call:Handler", "call:HandleStatic", "}", "case{", "call:Handler", "call:HandleRegexp", "}", "case{", "call:Errorf", "return", "}", "}", "}", "call:setHealthCheck", "return"] := by decide

/-- Tie (T1): `SetValidators` *replaces* the proxy's validator list. -/
theorem C13_skeleton_SetValidators : Sso.Generated.skel_proxy_SetValidators =
    ["func{", "store:op.Validators", "return", "}", "return"] := by decide

/-- Tie (T1), second wave: helpers, stores and second callers on this property's path (hostmux_HandleStatic, hostmux_HandleRegexp, hostmux_ServeHTTP, cfg_rewriteRoute, cfg_simpleRoute, proxy_StaticDirectorFunc, proxy_RewriteDirectorFunc, proxy_singleJoiningSlash) — call/branch/store skeletons
regenerated from the source on every run against the expectations frozen here. -/
theorem C13_wiring2 :
    Sso.Generated.skel_hostmux_HandleStatic =
      ["call:Lock", "store:r.StaticRoutes[]", "call:Unlock"] ∧
    Sso.Generated.skel_hostmux_HandleRegexp =
      ["call:Lock", "call:append", "store:r.RegexpRoutes", "call:Unlock"] ∧
    Sso.Generated.skel_hostmux_ServeHTTP =
      ["call:Route", "call:Handler", "call:ServeHTTP"] ∧
    Sso.Generated.skel_cfg_rewriteRoute =
      ["call:Compile", "if{", "return", "}", "return"] ∧
    Sso.Generated.skel_cfg_simpleRoute =
      ["call:urlParse", "if{", "return", "}", "call:urlParse", "if{", "return", "}", "return"] ∧
    Sso.Generated.skel_proxy_StaticDirectorFunc =
      ["call:DirectorFunc", "return"] ∧
    Sso.Generated.skel_proxy_RewriteDirectorFunc =
      ["func{", "call:ReplaceAllString", "call:urlParse", "if{", "store:req.URL", "return", "}", "call:?", "}", "return"] ∧
    Sso.Generated.skel_proxy_singleJoiningSlash =
      ["call:HasSuffix", "call:HasPrefix", "switch{", "case aslash&&bslash{", "return", "}", "case !aslash&&!bslash{", "return", "}", "}", "return"] := by decide


/-! ### one browser, several upstreams: the host binding along every history

A deployment serves several upstreams; each request is handled under the policy of the upstream its Host routes to. The
history below lets every step carry its own policy (any upstream, any rules, any provider slug) and lets the client present
any cookie of the chain at any step. -/

/-- a history whose steps are each handled under their own upstream's policy -/
def runM (lower : Validators.Bytes → Validators.Bytes) (w : World) : List (Policy × Step) → World × List HandlerOut
  | [] => (w, [])
  | (P, st) :: t =>
    let (w', o) := stepW lower P w st
    let (w'', os) := runM lower w' t
    (w'', o :: os)

/-- **A session obtained for one upstream host is never accepted on another — along every history.** Starting from a login
on host `A`, whatever sequence of requests follows (to any hosts, under any upstreams' policies, presenting any cookie of the
chain, with any authenticator answers): every session ever re-sealed is still bound to `A` (and to the same user and provider),
and every request that reaches a backend as an authenticated request was addressed to `A` and handled under a policy whose
provider issued the session. -/
theorem C13_session_never_accepted_elsewhere (lower : Validators.Bytes → Validators.Bytes) (w : World) (hw : WInv w)
    (sts : List (Policy × Step)) :
    WInv (runM lower w sts).1 ∧
    ∀ p ∈ sts.zip (runM lower w sts).2, ∀ id, p.2.outcome = .forward (some id) →
      p.1.2.req.host = w.root.host ∧ p.1.1.slug = w.root.slug := by
  induction sts generalizing w with
  | nil => simp [runM]; exact hw
  | cons pst t ih =>
    obtain ⟨P, st⟩ := pst
    have h1 := stepW_inv lower P w st hw
    have ih' := ih (stepW lower P w st).1 h1
    simp only [runM]
    refine ⟨ih'.1, ?_⟩
    intro p hp id hf
    simp only [List.zip_cons_cons, List.mem_cons] at hp
    rcases hp with rfl | hp
    · simp only [stepW] at hf
      rcases C01_forward_sound lower P st.now st.req _ st.ans (some id) hf with ⟨_, h⟩ | ⟨_, s, hc, hs, hh, _⟩
      · cases h
      · have := cookie_identity w hw _ s hc
        exact ⟨by rw [← hh]; exact this.2.1.symm, by rw [← hs]; exact this.1.symm⟩
    · have := ih'.2 p hp id hf
      have hr : (stepW lower P w st).1.root = w.root := rfl
      rw [hr] at this; exact this

-- the invariant holds at a login: nothing has been re-sealed yet
example (s : Sess) : WInv ⟨s, []⟩ := by intro x hx; cases hx

/-- in particular: a cookie of the chain presented at another host reaches no backend there -/
theorem C13_other_host_never_served (lower : Validators.Bytes → Validators.Bytes) (w : World) (hw : WInv w)
    (sts : List (Policy × Step)) :
    ∀ p ∈ sts.zip (runM lower w sts).2, p.1.2.req.host ≠ w.root.host → ∀ id, p.2.outcome ≠ .forward (some id) := by
  intro p hp hne id hf
  exact hne ((C13_session_never_accepted_elsewhere lower w hw sts).2 p hp id hf).1

/-- Tie (T1): the decoder tags of the upstream file's structs (`internal/proxy/proxy_config.go`) — the names under which the environment and the files reach each setting this
property depends on (TTLs, cookie flags, client credentials, root domains, allow rules …). A tag that changes re-routes or drops a
setting without any code noticing. -/
theorem C13_tags_proxyUpstreamTags : Sso.Generated.proxyUpstreamTags =
    ["ServiceConfig.Service yaml:\"service\"", "ServiceConfig.ClusterConfigs yaml:\",inline\"", "SimpleRoute.FromURL ", "SimpleRoute.ToURL ", "RewriteRoute.FromRegex ", "RewriteRoute.ToTemplate ", "UpstreamConfig.Service ", "UpstreamConfig.RouteConfig yaml:\",inline\"", "UpstreamConfig.ExtraRoutes yaml:\"extra_routes\"", "UpstreamConfig.Route ", "UpstreamConfig.SkipAuthCompiledRegex ", "UpstreamConfig.AllowedGroups ", "UpstreamConfig.AllowedEmailDomains ", "UpstreamConfig.AllowedEmailAddresses ", "UpstreamConfig.TLSSkipVerify ", "UpstreamConfig.SkipAuthPreflight ", "UpstreamConfig.PassAccessToken ", "UpstreamConfig.PreserveHost ", "UpstreamConfig.HMACAuth ", "UpstreamConfig.Timeout ", "UpstreamConfig.ResetDeadline ", "UpstreamConfig.FlushInterval ", "UpstreamConfig.HeaderOverrides ", "UpstreamConfig.InjectRequestHeaders ", "UpstreamConfig.SkipRequestSigning ", "UpstreamConfig.CookieName ", "UpstreamConfig.ProviderSlug ", "RouteConfig.From yaml:\"from\"", "RouteConfig.To yaml:\"to\"", "RouteConfig.Type yaml:\"type\"", "RouteConfig.Options yaml:\"options\"", "OptionsConfig.HeaderOverrides yaml:\"header_overrides\"", "OptionsConfig.InjectRequestHeaders yaml:\"inject_request_headers\"", "OptionsConfig.SkipAuthRegex yaml:\"skip_auth_regex\"", "OptionsConfig.AllowedGroups yaml:\"allowed_groups\"", "OptionsConfig.AllowedEmailDomains yaml:\"allowed_email_domains\"", "OptionsConfig.AllowedEmailAddresses yaml:\"allowed_email_addresses\"", "OptionsConfig.TLSSkipVerify yaml:\"tls_skip_verify\"", "OptionsConfig.SkipAuthPreflight yaml:\"skip_auth_preflight\"", "OptionsConfig.PassAccessToken yaml:\"pass_access_token\"", "OptionsConfig.PreserveHost yaml:\"preserve_host\"", "OptionsConfig.Timeout yaml:\"timeout\"", "OptionsConfig.ResetDeadline yaml:\"reset_deadline\"", "OptionsConfig.FlushInterval yaml:\"flush_interval\"", "OptionsConfig.SkipRequestSigning yaml:\"skip_request_signing\"", "OptionsConfig.ProviderSlug yaml:\"provider_slug\"", "OptionsConfig.CookieName ", "ErrParsingConfig.Message ", "ErrParsingConfig.Err "] := by decide

/-- Tie (T1), third wave: the constructors and option functions that hand configured values to the components this property
speaks about (proxy_SetUpstreamConfig, proxy_SetProvider). -/
theorem C13_wiring3 :
    Sso.Generated.skel_proxy_SetUpstreamConfig =
      ["func{", "store:op.upstreamConfig", "return", "}", "return"] ∧
    Sso.Generated.skel_proxy_SetProvider =
      ["func{", "store:op.provider", "return", "}", "return"] := by decide

end Sso.Proxy
