import SsoSpec.Lemmas.Caches
import SsoSpec.Lemmas.Keys
import Generated.Facts

/-!
# C17 — group caches only repeat what the directory said, for the same question
-/
namespace Sso.Caches
open Sso.SfWrappers

/-! ### GroupCache (per-question cache in front of the provider) -/

/-- An answer served from the cache is an answer the directory gave **for the same key** — for every
history of questions, directory answers, failures and TTL purges. -/
theorem C17_served_answer_was_given (es : List GCEv) (k : CKey) (dir : DirReply) (a : Answer)
    (h : (gcStep (gcRun GC.init es) (.ask k dir)).2 = .hit a) : (k, a) ∈ (gcRun GC.init es).log := by
  have inv := gc_run_inv GC.init es gc_inv_init
  generalize gcRun GC.init es = s at h inv
  simp only [gcStep] at h
  split at h
  · next a' hl => simp at h; subst h; exact inv.cached_logged _ (gc_lookup_mem hl)
  · cases dir <;> simp at h

/-- Directory errors are never cached: the state is unchanged and the caller gets the error. -/
theorem C17_errors_not_cached (s : GC) (k : CKey) (h : s.lookup k = none) :
    gcStep s (.ask k .err) = (s, .error) := by
  simp [gcStep, h]

/-- A miss asks the directory, returns its answer and stores it under exactly the asked key. -/
theorem C17_miss_stores_directory_answer (s : GC) (k : CKey) (a : Answer) (h : s.lookup k = none) :
    (gcStep s (.ask k (.ok a))).2 = .miss a ∧ (gcStep s (.ask k (.ok a))).1.lookup k = some a := by
  simp only [gcStep, h]
  simp [GC.lookup]

theorem find_filter {α : Type} (p q : α → Bool) (l : List α) (h : ∀ x, p x = true → q x = true) :
    (l.filter q).find? p = l.find? p := by
  induction l with
  | nil => rfl
  | cons x t ih =>
    by_cases hq : q x = true
    · simp [List.filter_cons, hq, List.find?_cons, ih]
    · have hp : p x = false := by
        cases hpx : p x with
        | false => rfl
        | true => exact absurd (h x hpx) hq
      simp [List.filter_cons, hq, List.find?_cons, hp, ih]

/-- A purge only forgets: afterwards the purged key misses and every other key answers as before. -/
theorem C17_purge_only_forgets (s : GC) (k k' : CKey) :
    (gcStep s (.purge k)).1.lookup k = none ∧ (k' ≠ k → (gcStep s (.purge k)).1.lookup k' = s.lookup k') := by
  constructor
  · simp only [gcStep, GC.lookup, Option.map_eq_none_iff, List.find?_eq_none]
    intro p hp; have := (List.mem_filter.1 hp).2; simpa using this
  · intro hne
    simp only [gcStep, GC.lookup]
    rw [find_filter]
    intro x hx
    simp only [decide_eq_true_eq] at hx
    simp [hx, hne]

/-- Keys: equal cache keys mean the same e-mail and — for non-empty, comma-free group names — the same
sorted group list; and the sorted list does not depend on the order the groups were given in. -/
theorem C17_cache_key_injective {α : Type} (comma : α) (g₁ g₂ : List (List α))
    (h₁ : ∀ g ∈ g₁, g ≠ [] ∧ comma ∉ g) (h₂ : ∀ g ∈ g₂, g ≠ [] ∧ comma ∉ g)
    (h : joinWith comma g₁ = joinWith comma g₂) : g₁ = g₂ :=
  joinWith_injective comma g₁ g₂ h₁ h₂ h

theorem C17_cache_key_order_insensitive {α : Type} (le : α → α → Prop) (hanti : ∀ a b, le a b → le b a → a = b)
    (sort : List α → List α) (hperm : ∀ l, (sort l).Perm l) (hsorted : ∀ l, (sort l).Pairwise le)
    (l₁ l₂ : List α) (h : l₁.Perm l₂) : sort l₁ = sort l₂ :=
  sort_perm_invariant le hanti sort hperm hsorted l₁ l₂ h

/-- the comma side condition is needed -/
theorem C17_cache_key_comma_collides :
    joinWith ',' ["a,b".toList] = joinWith ',' ["a".toList, "b".toList] := by decide

/-! ### FillCache (per-group member lists, filled in the background) -/

/-- `Update`'s second critical section: success stores, not-found drops, any other error keeps; the
return value is true exactly on success; and the in-flight mark is released in all three cases. -/
theorem C17_update_store_keep_delete (s : FC) (g : String) (m : Members) :
    (applyFill s g (.ok m)).1.cache g = some m ∧ (applyFill s g (.ok m)).2 = true ∧
    (applyFill s g .notFound).1.cache g = none ∧ (applyFill s g .notFound).2 = false ∧
    (applyFill s g .err).1.cache g = s.cache g ∧ (applyFill s g .err).2 = false ∧
    (∀ r g', g' ≠ g → (applyFill s g r).1.cache g' = s.cache g') ∧
    (∀ r, (applyFill s g r).1.inflight g = false) := by
  refine ⟨by simp [applyFill, updS], by simp [applyFill], by simp [applyFill, updS], by simp [applyFill],
    by simp [applyFill], by simp [applyFill], ?_, ?_⟩
  · intro r g' hne; cases r <;> simp [applyFill, updS, hne]
  · intro r; cases r <;> simp [applyFill, updS]

/-- In every reachable state the cached list of a group is the result of the most recently completed
successful fill of that group, with no not-found completed since (failed fills in between keep it). -/
theorem C17_cache_is_latest_successful_fill (s : FC) (hr : s.Reachable) (g : String) :
    s.cache g = latest s.fills g :=
  (fc_reachable_inv s hr).cache_latest g

/-- At most one fill per group runs at a time, whoever started it (a caller of `Update` or a refresh loop). -/
theorem C17_single_fill_per_group (s : FC) (hr : s.Reachable) (g : String) :
    (∀ t₁ t₂, s.thr t₁ = .filling g → s.thr t₂ = .filling g → t₁ = t₂) ∧
    (∀ l₁ l₂, s.lthr l₁ = .filling g → s.lthr l₂ = .filling g → l₁ = l₂) ∧
    (∀ t l, s.thr t = .filling g → s.lthr l ≠ .filling g) := by
  have inv := fc_reachable_inv s hr
  exact ⟨fun t₁ t₂ => inv.fill_unique t₁ t₂ g, fun l₁ l₂ => inv.lfill_unique l₁ l₂ g, fun t l => inv.fill_excl t l g⟩

/-- A second `Update` of a group that is being filled returns false without calling the fill function. -/
theorem C17_second_update_refused (s : FC) (hr : s.Reachable) (t t' : Nat) (g : String)
    (h : s.thr t = .filling g ∨ ∃ l, s.lthr l = .filling g) (ht' : s.thr t' = .none) :
    fcStep s (.updBegin t' g) = (s, .busy) := by
  have inv := fc_reachable_inv s hr
  have : s.inflight g = true := by
    rcases h with h | ⟨l, h⟩
    · exact inv.fill_inflight t g h
    · exact inv.lfill_inflight l g h
  simp [fcStep, ht', this]

/-- At most one live refresh loop per group; `RefreshLoop` returns true exactly when it registered one. -/
theorem C17_single_loop_per_group (s : FC) (hr : s.Reachable) (g : String) :
    (∀ l₁ l₂, (s.lthr l₁ = .idle g ∨ s.lthr l₁ = .filling g) → (s.lthr l₂ = .idle g ∨ s.lthr l₂ = .filling g) → l₁ = l₂) ∧
    ((fcStep s (.loopStart g)).2 = .loopRefused ↔ s.loops g = true) ∧
    ((∃ l, s.lthr l = .idle g ∨ s.lthr l = .filling g) → (fcStep s (.loopStart g)).2 = .loopRefused) := by
  have inv := fc_reachable_inv s hr
  refine ⟨fun l₁ l₂ => inv.loop_unique l₁ l₂ g, ?_, ?_⟩
  · simp only [fcStep]; split <;> simp_all
  · rintro ⟨l, hl⟩
    have := (inv.loop_reg l g hl).1
    simp [fcStep, this]

/-- After `Stop`, an idle loop goroutine can exit, and exiting deregisters it. -/
theorem C17_stopped_loop_exits (s : FC) (l : Nat) (g : String) (hl : s.lthr l = .idle g) (hs : s.stopped = true) :
    (fcStep s (.loopExit l)).2 = .exited ∧ (fcStep s (.loopExit l)).1.loops g = false ∧
    (fcStep s (.loopExit l)).1.lthr l = .dead := by
  simp [fcStep, hl, hs, updS, updN]

/-! ### Membership questions -/

/-- Google: a partly cached question is answered by the directory for the **whole** question; a fully
cached one by filtering the cached member sets; a refresh loop is requested for exactly the uncached groups. -/
theorem C17_google_partly_cached_falls_back (cache : String → Option Members) (asked : List String)
    (email : String) (dir : Option (List String)) (hne : asked ≠ []) :
    ((∃ g ∈ asked, cache g = none) → (googleMembership cache asked email dir).1 = dir) ∧
    ((∀ g ∈ asked, (cache g).isSome) → (googleMembership cache asked email dir).1 =
        some (asked.filter (cachedMember cache email))) ∧
    (googleMembership cache asked email dir).2 = asked.filter (fun g => (cache g).isNone) := by
  unfold googleMembership
  simp only [hne, if_false]
  refine ⟨?_, ?_, ?_⟩
  · rintro ⟨g, hg, hc⟩
    have : asked.filter (fun g => (cache g).isNone) ≠ [] := by
      intro h; have := List.filter_eq_nil_iff.1 h g hg; simp [hc] at this
    simp [this]
  · intro hall
    have : asked.filter (fun g => (cache g).isNone) = [] := by
      rw [List.filter_eq_nil_iff]; intro g hg; have := hall g hg; cases h : cache g <;> simp_all
    rw [if_neg (by simp [this])]
  · by_cases hu : asked.filter (fun g => (cache g).isNone) = []
    · simp [hu]
    · simp [hu]

/-- Cognito, full strength ("a partly cached question falls back to the directory's answer") is **refuted**:
members found in the (possibly stale) cache before the fallback are kept in the answer. -/
theorem C17_cognito_partly_cached_refuted :
    ¬ ∀ (cache : String → Option Members) (asked : List String) (user : String) (ds : List String),
        (∃ g ∈ asked, cache g = none) →
        (cognitoMembership cache asked user (some ds)).1 = some (asked.filter fun g => ds.contains g) := by
  intro h
  have := h (fun g => if g = "g1" then some ["u"] else none) ["g1", "g2"] "u" ["g2"] ⟨"g2", by simp, by simp⟩
  simp [cognitoMembership, cachedMember] at this

/-- What does hold for Cognito: with nothing cached the answer is the directory's; fully cached is the
filter; and partly cached contains the directory's answer (it can only add cached matches). -/
theorem C17_partial_cognito (cache : String → Option Members) (asked : List String) (user : String)
    (ds : List String) (hne : asked ≠ []) :
    ((∀ g ∈ asked, cache g = none) →
        (cognitoMembership cache asked user (some ds)).1 = some (asked.filter fun g => ds.contains g)) ∧
    ((∃ g ∈ asked, cache g = none) → ∃ r, (cognitoMembership cache asked user (some ds)).1 = some r ∧
        ∀ g ∈ asked, ds.contains g → g ∈ r) := by
  unfold cognitoMembership
  simp only [hne, if_false]
  constructor
  · intro hall
    have h1 : asked.filter (fun g => (cache g).isNone) ≠ [] := by
      cases asked with
      | nil => exact absurd rfl hne
      | cons a t => simp [hall a List.mem_cons_self]
    have h2 : asked.filter (cachedMember cache user) = [] := by
      rw [List.filter_eq_nil_iff]; intro g hg; simp [cachedMember, hall g hg]
    rw [if_pos h1, h2]; rfl
  · rintro ⟨g, hg, hc⟩
    have h1 : asked.filter (fun g => (cache g).isNone) ≠ [] := by
      intro h; have := List.filter_eq_nil_iff.1 h g hg; simp [hc] at this
    simp only [h1, ne_eq, not_false_eq_true, if_true]
    refine ⟨_, rfl, ?_⟩
    intro g' hg' hd
    exact List.mem_append_right _ (List.mem_filter.2 ⟨hg', hd⟩)

/-! ### Tie to the source (T1) -/

theorem C17_skeleton_Update : Sso.Generated.skel_fillcache_Update =
    ["call:Lock", "if{", "call:Unlock", "return", "}", "store:c.inflight[]", "call:Unlock", "call:fillFunc", "call:Lock", "defer:Unlock", "call:delete", "if{", "store:c.cache[]", "return", "}", "if{", "call:delete", "}", "return"] := by decide

theorem C17_skeleton_RefreshLoop : Sso.Generated.skel_fillcache_RefreshLoop =
    ["if{", "}", "call:Float64", "call:float64", "call:Duration", "call:Sleep", "call:Lock", "if{", "call:Unlock", "return", "}", "store:c.refreshLoopGroups[]", "call:Unlock", "call:NewTicker", "go{", "defer{", "call:Lock", "call:delete", "call:Unlock", "}", "call:Update", "if{", "}", "for{", "select{", "comm{", "return", "}", "comm{", "call:Update", "if{", "}", "}", "}", "}", "}", "return"] := by decide

theorem C17_skeleton_GroupCache : Sso.Generated.skel_groupcache_ValidateGroupMembership =
    ["call:Strings", "call:Join", "call:Get", "if{", "return", "}", "call:ValidateGroupMembership", "if{", "return", "}", "call:Set", "return"] := by decide

theorem C17_skeleton_membership :
    Sso.Generated.skel_fillcache_Get = ["call:RLock", "defer:RUnlock", "return"] ∧
    Sso.Generated.skel_google_ValidateGroupMembership =
      ["call:len", "if{", "return", "}", "range{", "call:Get", "if{", "call:RefreshLoop", "if{", "}", "}", "if{", "call:append", "}", "}", "if{", "call:CheckMemberships", "return", "}", "return"] ∧
    Sso.Generated.skel_cognito_ValidateGroupMembership =
      ["call:len", "if{", "return", "}", "call:GetUserProfile", "if{", "return", "}", "if{", "call:New", "return", "}", "range{", "call:Get", "if{", "call:RefreshLoop", "if{", "}", "}", "if{", "call:append", "}", "}", "if{", "call:CheckMemberships", "if{", "return", "}", "range{", "range{", "if{", "call:append", "break", "}", "}", "}", "}", "return"] := by decide

/-! ### Non-vacuity -/

def exFC : List FCEv :=
  [.loopStart "g", .loopUpdBegin 0, .updBegin 1 "g", .loopStart "g", .loopUpdEnd 0 (.ok ["u"]), .updBegin 1 "g",
   .updEnd 1 .err, .get "g", .stop, .loopExit 0, .updBegin 2 "g", .updEnd 2 .notFound, .get "g"]

example : (fcRun FC.init exFC).cache "g" = none := by decide
example : (fcRun FC.init (exFC.take 8)).cache "g" = some ["u"] := by decide
example : (fcRun FC.init exFC).Reachable := ⟨exFC, rfl⟩
example : (fcStep (fcRun FC.init (exFC.take 2)) (.updBegin 1 "g")).2 = .busy := by decide
example : (fcStep (fcRun FC.init (exFC.take 3)) (.loopStart "g")).2 = .loopRefused := by decide

/-- Tie (T1): the providers' fill functions hand the directory's error back **unwrapped** (`return nil, err`), so the fill cache's
`err == ErrGroupNotFound` test sees the sentinel and forgets a deleted group. -/
theorem C17_skeleton_fill :
    Sso.Generated.skel_google_PopulateMembers = ["call:ListMemberships", "if{", "return", "}", "range{", "store:memberSet[]", "}", "return"] ∧
    Sso.Generated.skel_cognito_PopulateMembers = ["call:ListMemberships", "if{", "return", "}", "range{", "store:memberSet[]", "}", "return"] := by decide

/-- Tie (T1), second wave: helpers, stores and second callers on this property's path (localcache_Get, localcache_Set, localcache_Purge, okta_ValidateGroupMembership) — call/branch/store skeletons
regenerated from the source on every run against the expectations frozen here. -/
theorem C17_wiring2 :
    Sso.Generated.skel_localcache_Get =
      ["call:get", "if{", "return", "}", "return"] ∧
    Sso.Generated.skel_localcache_Set =
      ["call:set"] ∧
    Sso.Generated.skel_localcache_Purge =
      ["call:Delete"] ∧
    Sso.Generated.skel_okta_ValidateGroupMembership =
      ["if{", "return", "}", "call:len", "if{", "return", "}", "call:GetUserProfile", "if{", "return", "}", "call:len", "if{", "call:New", "return", "}", "range{", "range{", "if{", "call:append", "break", "}", "}", "}", "return"] := by decide

/-- Tie (T1): the Google directory client's `listMemberships` — the fill function's source. An error while listing a nested group
fails the whole listing (`return`), so that a partial member list is never handed to the cache as a successful refresh. The
directory client cannot be driven offline; this skeleton is the only tie for it. -/
theorem C17_skeleton_listMemberships : Sso.Generated.skel_gadmin_listMemberships =
    ["for{", "call:Now", "call:List", "call:MaxResults", "if{", "call:PageToken", "}", "func{", "call:Do", "return", "}", "call:Call", "if{", "typeswitch{", "case{", "switch{", "case 400{", "call:Error", "if{", "}", "}", "case 404{", "}", "case 429{", "}", "case 503{", "}", "}", "}", "case{", "}", "case{", "}", "}", "return", "}", "range{", "switch{", "case \"USER\"{", "call:append", "}", "case \"GROUP\"{", "if{", "continue", "}", "call:listMemberships", "if{", "return", "}", "call:append", "}", "default{", "call:Errorf", "continue", "}", "}", "}", "if{", "break", "}", "}", "return"] := by decide

/-- Tie (T1), third wave: the constructors and option functions that hand configured values to the components this property
speaks about (auth_newProvider). -/
theorem C17_wiring3 :
    Sso.Generated.skel_auth_newProvider =
      ["switch{", "case providers.GoogleProviderName{", "call:NewGoogleProvider", "if{", "return", "}", "call:NewFillCache", "store:googleProvider.GroupsCache", "call:NewSingleFlightProvider", "}", "case providers.OktaProviderName{", "call:NewOktaProvider", "if{", "return", "}", "call:NewGroupCache", "call:NewSingleFlightProvider", "}", "case providers.AmazonCognitoProviderName{", "call:NewAmazonCognitoProvider", "if{", "return", "}", "call:NewFillCache", "store:amazonCognitoProvider.GroupsCache", "call:NewSingleFlightProvider", "}", "case \"test\"{", "call:NewTestProvider", "return", "}", "default{", "call:Errorf", "return", "}", "}", "return"] := by decide

end Sso.Caches
