import SsoModel.Singleflight

/-! Inductive invariant of the singleflight LTS (helper lemmas for C16). -/
namespace Sso.Singleflight

def joins (l : List (Nat × Nat)) (c : Nat) : Nat := (l.filter (fun p => p.2 = c)).length

@[simp] theorem joins_nil (c : Nat) : joins [] c = 0 := rfl
theorem joins_cons (t c' : Nat) (l : List (Nat × Nat)) (c : Nat) :
    joins ((t, c') :: l) c = joins l c + (if c' = c then 1 else 0) := by
  unfold joins; by_cases h : c' = c <;> simp [h]

structure Inv (s : S) : Prop where
  calls_ok : ∀ k c, s.calls k = some c → c < s.next ∧ (s.recs c).key = k ∧
      (s.thr (s.recs c).leader = .running k c ∨ s.thr (s.recs c).leader = .afterFn k c)
  lead_ok : ∀ t k c, (s.thr t = .running k c ∨ s.thr t = .afterFn k c) →
      c < s.next ∧ (s.recs c).key = k ∧ (s.recs c).leader = t ∧ s.calls k = some c
  run_val : ∀ t k c, s.thr t = .running k c → (s.recs c).val = none
  after_val : ∀ t k c, s.thr t = .afterFn k c → ∃ v, (s.recs c).val = some v
  wait_ok : ∀ t k c, s.thr t = .waiting k c → c < s.next ∧ (s.recs c).key = k ∧ (t, c) ∈ s.joinLog
  execs_iff : ∀ c l v, (c, l, v) ∈ s.execs ↔ (c < s.next ∧ (s.recs c).val = some v ∧ (s.recs c).leader = l)
  dups_joins : ∀ c, c < s.next → (s.recs c).dups = joins s.joinLog c
  join_lt : ∀ t c, (t, c) ∈ s.joinLog → c < s.next
  ret_leader : ∀ t c v n, s.thr t = .returned c true v n →
      c < s.next ∧ n = joins s.joinLog c ∧ (c, t, v) ∈ s.execs ∧ ∀ k, s.calls k ≠ some c
  ret_follower : ∀ t c v n, s.thr t = .returned c false v n →
      n = 0 ∧ (t, c) ∈ s.joinLog ∧ ∃ l, (c, l, v) ∈ s.execs

theorem inv_init : Inv S.init := by
  refine ⟨?_, ?_, ?_, ?_, ?_, ?_, ?_, ?_, ?_, ?_⟩ <;> simp [S.init]

end Sso.Singleflight

namespace Sso.Singleflight

theorem recs_upd_key (s : S) (c c' : Nat) (r : CallRec) (h : r.key = (s.recs c).key) :
    (upd s.recs c r c').key = (s.recs c').key := by
  unfold upd; split <;> simp_all

theorem canArrive_cases {x : TState} (h : canArrive x = true) :
    x = .idle ∨ ∃ c l v n, x = .returned c l v n := by
  cases x <;> simp [canArrive] at h ⊢

theorem inv_join (s : S) (t : Nat) (k : Key) (c : Nat) (h : Inv s)
    (hc : canArrive (s.thr t) = true) (hk : s.calls k = some c) :
    Inv { s with recs := upd s.recs c { s.recs c with dups := (s.recs c).dups + 1 },
                 thr := upd s.thr t (.waiting k c),
                 joinLog := (t, c) :: s.joinLog } := by
  have hco := h.calls_ok k c hk
  have hnl : ∀ k' c', s.thr t ≠ .running k' c' ∧ s.thr t ≠ .afterFn k' c' ∧ s.thr t ≠ .waiting k' c' := by
    intro k' c'; rcases canArrive_cases hc with h1 | ⟨a, b, d, e, h1⟩ <;> simp [h1]
  refine ⟨?_, ?_, ?_, ?_, ?_, ?_, ?_, ?_, ?_, ?_⟩
  · intro k' c' hk'
    have := h.calls_ok k' c' hk'
    simp only [upd]
    grind
  · intro t' k' c' ht'
    have := h.lead_ok t' k' c'
    simp only [upd] at ht' ⊢
    grind
  · intro t' k' c' ht'
    have := h.run_val t' k' c'
    simp only [upd] at ht' ⊢
    grind
  · intro t' k' c' ht'
    have := h.after_val t' k' c'
    have := h.lead_ok t' k' c'
    simp only [upd] at ht' ⊢
    grind
  · intro t' k' c' ht'
    have := h.wait_ok t' k' c'
    simp only [upd] at ht' ⊢
    grind
  · intro c' l v
    have := h.execs_iff c' l v
    simp only [upd]
    grind
  · intro c' hc'
    have := h.dups_joins c' hc'
    simp only [upd, joins_cons]
    grind
  · intro t' c' hm
    have := h.join_lt t' c'
    grind
  · intro t' c' v n ht'
    have := h.ret_leader t' c' v n
    simp only [upd, joins_cons] at ht' ⊢
    grind
  · intro t' c' v n ht'
    have := h.ret_follower t' c' v n
    simp only [upd] at ht' ⊢
    grind


theorem inv_create (s : S) (t : Nat) (k : Key) (h : Inv s)
    (hc : canArrive (s.thr t) = true) (hk : s.calls k = none) :
    Inv { s with calls := updK s.calls k (some s.next),
                 recs := upd s.recs s.next { key := k, leader := t, val := none, dups := 0 },
                 thr := upd s.thr t (.running k s.next),
                 next := s.next + 1 } := by
  have hnl : ∀ k' c', s.thr t ≠ .running k' c' ∧ s.thr t ≠ .afterFn k' c' ∧ s.thr t ≠ .waiting k' c' := by
    intro k' c'; rcases canArrive_cases hc with h1 | ⟨a, b, d, e, h1⟩ <;> simp [h1]
  refine ⟨?_, ?_, ?_, ?_, ?_, ?_, ?_, ?_, ?_, ?_⟩
  · intro k' c' hk'
    have := h.calls_ok k' c'
    simp only [upd, updK] at hk' ⊢
    grind
  · intro t' k' c' ht'
    have := h.lead_ok t' k' c'
    simp only [upd, updK] at ht' ⊢
    grind
  · intro t' k' c' ht'
    have := h.run_val t' k' c'
    have := h.lead_ok t' k' c'
    simp only [upd] at ht' ⊢
    grind
  · intro t' k' c' ht'
    have := h.after_val t' k' c'
    have := h.lead_ok t' k' c'
    simp only [upd] at ht' ⊢
    grind
  · intro t' k' c' ht'
    have := h.wait_ok t' k' c'
    simp only [upd] at ht' ⊢
    grind
  · intro c' l v
    have := h.execs_iff c' l v
    simp only [upd]
    grind
  · intro c' hc'
    have := h.dups_joins c'
    have hj : joins s.joinLog s.next = 0 := by
      unfold joins
      rw [List.length_eq_zero_iff, List.filter_eq_nil_iff]
      intro p hp; have := h.join_lt p.1 p.2 hp; simp; omega
    simp only [upd]
    grind
  · intro t' c' hm
    have := h.join_lt t' c' hm
    show c' < s.next + 1
    omega
  · intro t' c' v n ht'
    have := h.ret_leader t' c' v n
    simp only [upd, updK] at ht' ⊢
    grind
  · intro t' c' v n ht'
    have := h.ret_follower t' c' v n
    simp only [upd] at ht' ⊢
    grind

theorem inv_fnReturn (s : S) (t : Nat) (k : Key) (c : Nat) (v : Val) (h : Inv s)
    (ht : s.thr t = .running k c) :
    Inv { s with recs := upd s.recs c { s.recs c with val := some v },
                 thr := upd s.thr t (.afterFn k c),
                 execs := (c, t, v) :: s.execs } := by
  have hl := h.lead_ok t k c (Or.inl ht)
  have hv := h.run_val t k c ht
  refine ⟨?_, ?_, ?_, ?_, ?_, ?_, ?_, ?_, ?_, ?_⟩
  · intro k' c' hk'
    have := h.calls_ok k' c' hk'
    simp only [upd]
    grind
  · intro t' k' c' ht'
    have := h.lead_ok t' k' c'
    simp only [upd] at ht' ⊢
    grind
  · intro t' k' c' ht'
    have := h.run_val t' k' c'
    have := h.lead_ok t' k' c'
    simp only [upd] at ht' ⊢
    grind
  · intro t' k' c' ht'
    have := h.after_val t' k' c'
    have := h.lead_ok t' k' c'
    simp only [upd] at ht' ⊢
    grind
  · intro t' k' c' ht'
    have := h.wait_ok t' k' c'
    simp only [upd] at ht' ⊢
    grind
  · intro c' l v'
    have := h.execs_iff c' l v'
    simp only [upd, List.mem_cons]
    grind
  · intro c' hc'
    have := h.dups_joins c' hc'
    simp only [upd]
    grind
  · exact h.join_lt
  · intro t' c' v' n ht'
    have := h.ret_leader t' c' v' n
    simp only [upd, List.mem_cons] at ht' ⊢
    grind
  · intro t' c' v' n ht'
    have := h.ret_follower t' c' v' n
    simp only [upd, List.mem_cons] at ht' ⊢
    grind

theorem inv_remove (s : S) (t : Nat) (k : Key) (c : Nat) (h : Inv s)
    (ht : s.thr t = .afterFn k c) :
    Inv { s with calls := updK s.calls k none,
                 thr := upd s.thr t (.returned c true ((s.recs c).val.getD 0) (s.recs c).dups) } := by
  have hl := h.lead_ok t k c (Or.inr ht)
  have hd := h.dups_joins c hl.1
  have hval := h.after_val t k c ht
  rcases hval with ⟨v, hv⟩
  refine ⟨?_, ?_, ?_, ?_, ?_, h.execs_iff, h.dups_joins, h.join_lt, ?_, ?_⟩
  · intro k' c' hk'
    have := h.calls_ok k' c'
    simp only [upd, updK] at hk' ⊢
    grind
  · intro t' k' c' ht'
    have := h.lead_ok t' k' c'
    simp only [upd, updK] at ht' ⊢
    grind
  · intro t' k' c' ht'
    have := h.run_val t' k' c'
    simp only [upd] at ht' ⊢
    grind
  · intro t' k' c' ht'
    have := h.after_val t' k' c'
    have := h.lead_ok t' k' c'
    simp only [upd] at ht' ⊢
    grind
  · intro t' k' c' ht'
    have := h.wait_ok t' k' c'
    simp only [upd] at ht' ⊢
    grind
  · intro t' c' v' n ht'
    have := h.ret_leader t' c' v' n
    have he := h.execs_iff c t v
    have hco := fun k' => h.calls_ok k' c
    simp only [upd, updK] at ht' ⊢
    grind
  · intro t' c' v' n ht'
    have := h.ret_follower t' c' v' n
    simp only [upd] at ht' ⊢
    grind

theorem inv_wake (s : S) (t : Nat) (k : Key) (c : Nat) (v : Val) (h : Inv s)
    (ht : s.thr t = .waiting k c) (hv : (s.recs c).val = some v) :
    Inv { s with thr := upd s.thr t (.returned c false v 0) } := by
  have hw := h.wait_ok t k c ht
  refine ⟨?_, ?_, ?_, ?_, ?_, h.execs_iff, h.dups_joins, h.join_lt, ?_, ?_⟩
  · intro k' c' hk'
    have := h.calls_ok k' c' hk'
    simp only [upd]
    grind
  · intro t' k' c' ht'
    have := h.lead_ok t' k' c'
    simp only [upd] at ht' ⊢
    grind
  · intro t' k' c' ht'
    have := h.run_val t' k' c'
    simp only [upd] at ht' ⊢
    grind
  · intro t' k' c' ht'
    have := h.after_val t' k' c'
    have := h.lead_ok t' k' c'
    simp only [upd] at ht' ⊢
    grind
  · intro t' k' c' ht'
    have := h.wait_ok t' k' c'
    simp only [upd] at ht' ⊢
    grind
  · intro t' c' v' n ht'
    have := h.ret_leader t' c' v' n
    simp only [upd] at ht' ⊢
    grind
  · intro t' c' v' n ht'
    have := h.ret_follower t' c' v' n
    have he := h.execs_iff c (s.recs c).leader v
    simp only [upd] at ht' ⊢
    grind

theorem step_inv (s : S) (e : Ev) (h : Inv s) : Inv (step s e).1 := by
  cases e with
  | arrive t k =>
    simp only [step]
    split
    · next hc =>
      split
      · next c hk => exact inv_join s t k c h hc hk
      · next hk => exact inv_create s t k h hc hk
    · exact h
  | fnReturn t v =>
    simp only [step]
    split
    · next k c ht => exact inv_fnReturn s t k c v h ht
    · exact h
  | remove t =>
    simp only [step]
    split
    · next k c ht => exact inv_remove s t k c h ht
    · exact h
  | wake t =>
    simp only [step]
    split
    · next k c ht =>
      split
      · next v hv => exact inv_wake s t k c v h ht hv
      · exact h
    · exact h

theorem runState_inv (s : S) (es : List Ev) (h : Inv s) : Inv (runState s es) := by
  induction es generalizing s with
  | nil => exact h
  | cons e es ih => exact ih _ (step_inv s e h)

theorem reachable_inv (s : S) (h : Reachable s) : Inv s := by
  obtain ⟨es, rfl⟩ := h
  exact runState_inv _ es inv_init

end Sso.Singleflight
