import SsoModel.Caches

/-! Invariants of the GroupCache model and of the FillCache LTS (helpers for C17). -/
namespace Sso.Caches

/-! #### GroupCache -/

structure GCInv (s : GC) : Prop where
  cached_logged : ∀ p ∈ s.cache, p ∈ s.log
  one_per_key : (s.cache.map (·.1)).Nodup

theorem gc_lookup_mem {s : GC} {k : CKey} {a : Answer} (h : s.lookup k = some a) : (k, a) ∈ s.cache := by
  unfold GC.lookup at h
  rcases Option.map_eq_some_iff.1 h with ⟨p, hp, rfl⟩
  have h1 := List.mem_of_find?_eq_some hp
  have h2 := List.find?_some hp
  simp at h2; subst h2; exact h1

theorem gc_inv_init : GCInv GC.init := ⟨by simp [GC.init], by simp [GC.init]⟩

theorem nodup_filter_keys (l : List (CKey × Answer)) (k : CKey) (h : (l.map (·.1)).Nodup) :
    ((l.filter (fun p => p.1 ≠ k)).map (·.1)).Nodup :=
  List.Nodup.sublist (List.Sublist.map _ List.filter_sublist) h

theorem gc_step_inv (s : GC) (e : GCEv) (h : GCInv s) : GCInv (gcStep s e).1 := by
  cases e with
  | ask k dir =>
    simp only [gcStep]
    split
    · exact h
    · cases dir with
      | err => exact h
      | ok a =>
        refine ⟨?_, ?_⟩
        · intro p hp
          rcases List.mem_cons.1 hp with rfl | hp
          · exact List.mem_cons_self
          · exact List.mem_cons_of_mem _ (h.cached_logged p (List.mem_filter.1 hp).1)
        · simp only [List.map_cons, List.nodup_cons]
          refine ⟨?_, nodup_filter_keys _ _ h.one_per_key⟩
          intro hm
          rcases List.mem_map.1 hm with ⟨p, hp, hk⟩
          have := (List.mem_filter.1 hp).2
          simp [hk] at this
  | purge k =>
    simp only [gcStep]
    exact ⟨fun p hp => h.cached_logged p (List.mem_filter.1 hp).1, nodup_filter_keys _ _ h.one_per_key⟩

theorem gc_run_inv (s : GC) (es : List GCEv) (h : GCInv s) : GCInv (gcRun s es) := by
  induction es generalizing s with
  | nil => exact h
  | cons e es ih => exact ih _ (gc_step_inv s e h)

/-! #### FillCache -/

/-- the cache content determined by the history of completed fills (newest first) -/
def latest : List (String × FillResult) → String → Option Members
  | [], _ => none
  | (g', r) :: t, g =>
    if g' = g then
      match r with
      | .ok m => some m
      | .notFound => none
      | .err => latest t g
    else latest t g

structure FCInv (s : FC) : Prop where
  fill_inflight : ∀ t g, s.thr t = .filling g → s.inflight g = true
  lfill_inflight : ∀ l g, s.lthr l = .filling g → s.inflight g = true
  fill_unique : ∀ t₁ t₂ g, s.thr t₁ = .filling g → s.thr t₂ = .filling g → t₁ = t₂
  lfill_unique : ∀ l₁ l₂ g, s.lthr l₁ = .filling g → s.lthr l₂ = .filling g → l₁ = l₂
  fill_excl : ∀ t l g, s.thr t = .filling g → s.lthr l ≠ .filling g
  loop_reg : ∀ l g, (s.lthr l = .idle g ∨ s.lthr l = .filling g) → s.loops g = true ∧ l < s.nextLoop
  loop_unique : ∀ l₁ l₂ g, (s.lthr l₁ = .idle g ∨ s.lthr l₁ = .filling g) →
      (s.lthr l₂ = .idle g ∨ s.lthr l₂ = .filling g) → l₁ = l₂
  loop_dead : ∀ l, s.nextLoop ≤ l → s.lthr l = .dead
  cache_latest : ∀ g, s.cache g = latest s.fills g

theorem fc_inv_init : FCInv FC.init := by
  refine ⟨?_, ?_, ?_, ?_, ?_, ?_, ?_, ?_, ?_⟩ <;> simp [FC.init, latest]

theorem applyFill_cache (s : FC) (g : String) (r : FillResult) (h : ∀ g', s.cache g' = latest s.fills g') :
    ∀ g', (applyFill s g r).1.cache g' = latest (applyFill s g r).1.fills g' := by
  intro g'
  have := h g'
  cases r <;> simp only [applyFill, updS, latest] <;> grind

theorem applyFill_frame (s : FC) (g : String) (r : FillResult) :
    (applyFill s g r).1.thr = s.thr ∧ (applyFill s g r).1.lthr = s.lthr ∧ (applyFill s g r).1.loops = s.loops ∧
    (applyFill s g r).1.nextLoop = s.nextLoop ∧ (applyFill s g r).1.stopped = s.stopped ∧
    (applyFill s g r).1.inflight = updS s.inflight g false := by
  cases r <;> simp [applyFill]

theorem fc_step_inv (s : FC) (e : FCEv) (h : FCInv s) : FCInv (fcStep s e).1 := by
  cases e with
  | updBegin t g =>
    simp only [fcStep]
    split
    · next ht =>
      split
      · exact h
      · next hi =>
        refine ⟨?_, ?_, ?_, ?_, ?_, h.loop_reg, h.loop_unique, h.loop_dead, h.cache_latest⟩
        · intro t' g' h'; have := h.fill_inflight t' g'; simp only [updN, updS] at h' ⊢; grind
        · intro l g' h'; have := h.lfill_inflight l g'; simp only [updS] at h' ⊢; grind
        · intro t₁ t₂ g' h₁ h₂
          have := h.fill_unique t₁ t₂ g'; have := h.fill_inflight t₁ g'; have := h.fill_inflight t₂ g'
          simp only [updN] at h₁ h₂; grind
        · exact h.lfill_unique
        · intro t' l g' h'
          have := h.fill_excl t' l g'; have := h.lfill_inflight l g'
          simp only [updN] at h'; grind
    · exact h
  | updEnd t r =>
    simp only [fcStep]
    split
    · next g ht =>
      have hf := applyFill_frame s g r
      have hc := applyFill_cache s g r h.cache_latest
      generalize (applyFill s g r).1 = s1 at hf hc
      obtain ⟨h1, h2, h3, h4, h5, h6⟩ := hf
      refine ⟨?_, ?_, ?_, ?_, ?_, ?_, ?_, ?_, hc⟩
      · intro t' g' h'
        have := h.fill_inflight t' g'; have := h.fill_unique t' t g'
        simp only [updN, h1, h6, updS] at h' ⊢; grind
      · intro l g' h'
        have := h.lfill_inflight l g'; have := h.fill_excl t l g'
        simp only [h2, h6, updS] at h' ⊢; grind
      · intro t₁ t₂ g' h₁ h₂
        have := h.fill_unique t₁ t₂ g'
        simp only [updN, h1] at h₁ h₂; grind
      · intro l₁ l₂ g'; rw [h2]; exact h.lfill_unique l₁ l₂ g'
      · intro t' l g' h'
        have := h.fill_excl t' l g'
        simp only [updN, h1, h2] at h' ⊢; grind
      · intro l g'; rw [h2, h3, h4]; exact h.loop_reg l g'
      · intro l₁ l₂ g'; rw [h2]; exact h.loop_unique l₁ l₂ g'
      · intro l; rw [h2, h4]; exact h.loop_dead l
    · exact h
  | loopStart g =>
    simp only [fcStep]
    split
    · exact h
    · next hl =>
      have hd := h.loop_dead s.nextLoop (Nat.le_refl _)
      refine ⟨h.fill_inflight, ?_, h.fill_unique, ?_, ?_, ?_, ?_, ?_, h.cache_latest⟩
      · intro l g' h'; have := h.lfill_inflight l g'; simp only [updN] at h'; grind
      · intro l₁ l₂ g' h₁ h₂; have := h.lfill_unique l₁ l₂ g'; simp only [updN] at h₁ h₂; grind
      · intro t' l g' h'; have := h.fill_excl t' l g'; simp only [updN]; grind
      · intro l g' h'; have := h.loop_reg l g'; simp only [updN, updS] at h' ⊢; grind
      · intro l₁ l₂ g' h₁ h₂
        have := h.loop_unique l₁ l₂ g'; have := h.loop_reg l₁ g'; have := h.loop_reg l₂ g'
        simp only [updN] at h₁ h₂; grind
      · intro l hl'; have := h.loop_dead l; simp only [updN]; grind
  | loopUpdBegin l =>
    simp only [fcStep]
    split
    · next g hl =>
      split
      · exact h
      · next hi =>
        refine ⟨?_, ?_, h.fill_unique, ?_, ?_, ?_, ?_, ?_, h.cache_latest⟩
        · intro t' g' h'; have := h.fill_inflight t' g'; simp only [updS] at h' ⊢; grind
        · intro l' g' h'; have := h.lfill_inflight l' g'; simp only [updN, updS] at h' ⊢; grind
        · intro l₁ l₂ g' h₁ h₂
          have := h.lfill_unique l₁ l₂ g'; have := h.lfill_inflight l₁ g'; have := h.lfill_inflight l₂ g'
          simp only [updN] at h₁ h₂; grind
        · intro t' l' g' h'
          have := h.fill_excl t' l' g'; have := h.fill_inflight t' g'
          simp only [updN]; grind
        · intro l' g' h'; have := h.loop_reg l' g'; have := h.loop_reg l g; simp only [updN] at h' ⊢; grind
        · intro l₁ l₂ g' h₁ h₂
          have := h.loop_unique l₁ l₂ g'; have := h.loop_unique l₁ l g'; have := h.loop_unique l l₂ g'
          simp only [updN] at h₁ h₂; grind
        · intro l' hl'; have := h.loop_dead l'; simp only [updN]; grind
    · exact h
  | loopUpdEnd l r =>
    simp only [fcStep]
    split
    · next g hl =>
      have hf := applyFill_frame s g r
      have hc := applyFill_cache s g r h.cache_latest
      generalize (applyFill s g r).1 = s1 at hf hc
      obtain ⟨h1, h2, h3, h4, h5, h6⟩ := hf
      refine ⟨?_, ?_, ?_, ?_, ?_, ?_, ?_, ?_, hc⟩
      · intro t' g' h'
        have := h.fill_inflight t' g'; have := h.fill_excl t' l g'
        simp only [h1, h6, updS] at h' ⊢; grind
      · intro l' g' h'
        have := h.lfill_inflight l' g'; have := h.lfill_unique l' l g'
        simp only [updN, h2, h6, updS] at h' ⊢; grind
      · intro t₁ t₂ g'; rw [h1]; exact h.fill_unique t₁ t₂ g'
      · intro l₁ l₂ g' h₁ h₂
        have := h.lfill_unique l₁ l₂ g'
        simp only [updN, h2] at h₁ h₂; grind
      · intro t' l' g' h'
        have := h.fill_excl t' l' g'
        simp only [updN, h1, h2] at h' ⊢; grind
      · intro l' g' h'
        have := h.loop_reg l' g'; have := h.loop_reg l g
        simp only [updN, h2, h3, h4] at h' ⊢; grind
      · intro l₁ l₂ g' h₁ h₂
        have := h.loop_unique l₁ l₂ g'; have := h.loop_unique l₁ l g'; have := h.loop_unique l l₂ g'
        simp only [updN, h2] at h₁ h₂; grind
      · intro l' hl'; have := h.loop_dead l'; simp only [updN, h2, h4] at hl' ⊢; grind
    · exact h
  | loopExit l =>
    simp only [fcStep]
    split
    · next g hl =>
      split
      · refine ⟨h.fill_inflight, ?_, h.fill_unique, ?_, ?_, ?_, ?_, ?_, h.cache_latest⟩
        · intro l' g' h'; have := h.lfill_inflight l' g'; simp only [updN] at h'; grind
        · intro l₁ l₂ g' h₁ h₂; have := h.lfill_unique l₁ l₂ g'; simp only [updN] at h₁ h₂; grind
        · intro t' l' g' h'; have := h.fill_excl t' l' g'; simp only [updN]; grind
        · intro l' g' h'
          have := h.loop_reg l' g'; have := h.loop_unique l' l g'
          simp only [updN, updS] at h' ⊢; grind
        · intro l₁ l₂ g' h₁ h₂; have := h.loop_unique l₁ l₂ g'; simp only [updN] at h₁ h₂; grind
        · intro l' hl'; have := h.loop_dead l'; simp only [updN]; grind
      · exact h
    · exact h
  | stop =>
    simp only [fcStep]
    split
    · exact h
    · exact ⟨h.fill_inflight, h.lfill_inflight, h.fill_unique, h.lfill_unique, h.fill_excl, h.loop_reg, h.loop_unique, h.loop_dead, h.cache_latest⟩
  | get g => exact h

theorem fc_run_inv (s : FC) (es : List FCEv) (h : FCInv s) : FCInv (fcRun s es) := by
  induction es generalizing s with
  | nil => exact h
  | cons e es ih => exact ih _ (fc_step_inv s e h)

theorem fc_reachable_inv (s : FC) (h : s.Reachable) : FCInv s := by
  obtain ⟨es, rfl⟩ := h
  exact fc_run_inv _ es fc_inv_init

end Sso.Caches
