import SsoModel.SfWrappers

/-! Injectivity lemmas for separator-joined keys (used by C16 and C17). -/
namespace Sso.SfWrappers

theorem append_sep_inj {α : Type} (slash : α) (ep₁ ep₂ k₁ k₂ : List α) (h₁ : slash ∉ ep₁) (h₂ : slash ∉ ep₂)
    (h : ep₁ ++ slash :: k₁ = ep₂ ++ slash :: k₂) : ep₁ = ep₂ ∧ k₁ = k₂ := by
  induction ep₁ generalizing ep₂ with
  | nil =>
    cases ep₂ with
    | nil => simpa using h
    | cons b t => simp at h; exact absurd (h.1 ▸ List.mem_cons_self) h₂
  | cons a t ih =>
    cases ep₂ with
    | nil => simp at h; exact absurd (h.1 ▸ List.mem_cons_self) h₁
    | cons b t' =>
      simp only [List.cons_append, List.cons.injEq] at h
      have := ih t' (fun hm => h₁ (List.mem_cons_of_mem _ hm)) (fun hm => h₂ (List.mem_cons_of_mem _ hm)) h.2
      exact ⟨by rw [h.1, this.1], this.2⟩


theorem joinWith_cons_cons {α : Type} (comma : α) (g h : List α) (t : List (List α)) :
    joinWith comma (g :: h :: t) = g ++ comma :: joinWith comma (h :: t) := rfl

/-- `strings.Join(·, ",")` is injective on lists of non-empty, comma-free names. -/
theorem joinWith_injective {α : Type} (comma : α) (l₁ l₂ : List (List α))
    (h₁ : ∀ g ∈ l₁, g ≠ [] ∧ comma ∉ g) (h₂ : ∀ g ∈ l₂, g ≠ [] ∧ comma ∉ g)
    (h : joinWith comma l₁ = joinWith comma l₂) : l₁ = l₂ := by
  induction l₁ generalizing l₂ with
  | nil =>
    cases l₂ with
    | nil => rfl
    | cons g t =>
      have hg := (h₂ g List.mem_cons_self).1
      cases t with
      | nil => simp [joinWith] at h; exact absurd h hg
      | cons g' t' => rw [joinWith_cons_cons] at h; simp [joinWith] at h
  | cons g t ih =>
    cases l₂ with
    | nil =>
      have hg := (h₁ g List.mem_cons_self).1
      cases t with
      | nil => simp [joinWith] at h; exact absurd h hg
      | cons g' t' => rw [joinWith_cons_cons] at h; simp [joinWith] at h
    | cons g₂ t₂ =>
      have hg := h₁ g List.mem_cons_self
      have hg₂ := h₂ g₂ List.mem_cons_self
      cases t with
      | nil =>
        cases t₂ with
        | nil => simp [joinWith] at h; rw [h]
        | cons g' t' =>
          rw [joinWith_cons_cons] at h; simp only [joinWith] at h
          exact absurd (h ▸ List.mem_append_right g₂ List.mem_cons_self) hg.2
      | cons g' t' =>
        cases t₂ with
        | nil =>
          rw [joinWith_cons_cons] at h; simp only [joinWith] at h
          exact absurd (h.symm ▸ List.mem_append_right g List.mem_cons_self) hg₂.2
        | cons g'' t'' =>
          rw [joinWith_cons_cons, joinWith_cons_cons] at h
          have := append_sep_inj comma g g₂ _ _ hg.2 hg₂.2 h
          have ih' := ih (g'' :: t'') (fun x hx => h₁ x (List.mem_cons_of_mem _ hx))
            (fun x hx => h₂ x (List.mem_cons_of_mem _ hx)) this.2
          rw [this.1, ih']


/-- Any sorting function (a sorted permutation w.r.t. an antisymmetric order) sends permutations of one
another to the same list: the key does not depend on the order in which groups were listed. -/
theorem sort_perm_invariant {α : Type} (le : α → α → Prop) (hanti : ∀ a b, le a b → le b a → a = b)
    (sort : List α → List α) (hperm : ∀ l, (sort l).Perm l) (hsorted : ∀ l, (sort l).Pairwise le)
    (l₁ l₂ : List α) (h : l₁.Perm l₂) : sort l₁ = sort l₂ := by
  apply List.Perm.eq_of_pairwise (le := le)
  · intro a b _ _ hab hba; exact hanti a b hab hba
  · exact hsorted l₁
  · exact hsorted l₂
  · exact (hperm l₁).trans (h.trans (hperm l₂).symm)

end Sso.SfWrappers
