import SsoModel.Proxy

/-! Frame and characterisation lemmas about the provider functions and `authenticate` (helpers for C01/C04/C05). -/
namespace Sso.Proxy
open Sso.Validators

/-- the identity of a session: what no provider check may touch -/
def sameIdentity (a b : Sess) : Prop :=
  a.slug = b.slug ∧ a.host = b.host ∧ a.email = b.email ∧ a.user = b.user ∧ a.lifetime = b.lifetime ∧ a.refreshTok = b.refreshTok

theorem sameIdentity_refl (a : Sess) : sameIdentity a a := ⟨rfl, rfl, rfl, rfl, rfl, rfl⟩

theorem withinGrace_frame (s : Sess) (G now : Int) :
    sameIdentity s (withinGrace s G now).1 ∧ (withinGrace s G now).1.valid = s.valid ∧
    (withinGrace s G now).1.refresh = s.refresh ∧ (withinGrace s G now).1.access = s.access ∧
    (withinGrace s G now).1.groups = s.groups ∧
    (withinGrace s G now).1.grace = some (s.grace.getD now) ∧
    ((withinGrace s G now).2 = true ↔ s.grace.getD now + G > now) := by
  simp [withinGrace, sameIdentity]

/-- how a grace-served or confirmed refresh can come about -/
inductive RefreshWhy where
  | confirmed      -- /refresh answered 201 with a token and the group question was answered positively (or not needed)
  | grace          -- /refresh or /profile answered 429/503 and the grace window is open
  deriving DecidableEq, Repr

def refreshWhy (P : Policy) (now : Int) (s : Sess) (a : Ans) : Option RefreshWhy :=
  if s.refreshTok = "" then none else
  match a.refresh with
  | .status n => if unavailable n ∧ (withinGrace s P.G now).2 then some .grace else none
  | .ok _ =>
    match (validateGroup P.allowedGroups a).1 with
    | .ok _ true => some .confirmed
    | .unavail => if (withinGrace s P.G now).2 then some .grace else none
    | _ => none
  | _ => none

theorem refreshSession_ok_iff (P : Policy) (now : Int) (s : Sess) (a : Ans) :
    (refreshSession P now s a).2.1 = .ok true ↔ (refreshWhy P now s a).isSome = true := by
  unfold refreshSession refreshWhy
  by_cases ht : s.refreshTok = ""
  · simp [ht]
  · simp only [ht, if_false]
    cases hr : a.refresh with
    | status n =>
      by_cases hu : unavailable n = true
      · by_cases hw : (withinGrace s P.G now).2 = true <;> simp [hu, hw]
      · by_cases h401 : n = 401
        · subst h401; simp [show unavailable 401 = false from by decide]
        · simp [hu, h401]
    | transport => simp
    | malformed => simp
    | ok p =>
      obtain ⟨tok, ttl⟩ := p
      simp only
      rcases hg : validateGroup P.allowedGroups a with ⟨g, c⟩
      cases g with
      | unavail => by_cases hw : (withinGrace s P.G now).2 = true <;> simp [hw]
      | err => simp
      | ok ig v => cases v <;> simp

theorem refreshSession_never_false (P : Policy) (now : Int) (s : Sess) (a : Ans) :
    (refreshSession P now s a).2.1 ≠ .ok false := by
  unfold refreshSession
  by_cases ht : s.refreshTok = ""
  · simp [ht]
  · simp only [ht, if_false]
    cases hr : a.refresh with
    | status n =>
      by_cases hu : unavailable n = true
      · by_cases hw : (withinGrace s P.G now).2 = true <;> simp [hu, hw]
      · by_cases h401 : n = 401
        · subst h401; simp [show unavailable 401 = false from by decide]
        · simp [hu, h401]
    | transport => simp
    | malformed => simp
    | ok p =>
      obtain ⟨tok, ttl⟩ := p
      simp only
      rcases hg : validateGroup P.allowedGroups a with ⟨g, c⟩
      cases g with
      | unavail => by_cases hw : (withinGrace s P.G now).2 = true <;> simp [hw]
      | err => simp
      | ok ig v => cases v <;> simp

/-- `RefreshSession` never touches the session's identity or lifetime; and it reports which fields it wrote. -/
theorem refreshSession_frame (P : Policy) (now : Int) (s : Sess) (a : Ans) :
    sameIdentity s (refreshSession P now s a).1 ∧ (refreshSession P now s a).1.valid = s.valid := by
  unfold refreshSession
  by_cases ht : s.refreshTok = ""
  · simp [ht, sameIdentity]
  · simp only [ht, if_false]
    have hg := withinGrace_frame s P.G now
    cases hr : a.refresh with
    | status n =>
      by_cases hu : unavailable n = true
      · by_cases hw : (withinGrace s P.G now).2 = true <;> simp [hu, hw] <;> simp_all [sameIdentity]
      · by_cases h401 : n = 401
        · subst h401; simp [show unavailable 401 = false from by decide, sameIdentity]
        · simp [hu, h401, sameIdentity]
    | transport => simp [sameIdentity]
    | malformed => simp [sameIdentity]
    | ok p =>
      obtain ⟨tok, ttl⟩ := p
      simp only
      rcases hv : validateGroup P.allowedGroups a with ⟨g, c⟩
      cases g with
      | unavail => by_cases hw : (withinGrace s P.G now).2 = true <;> simp [hw] <;> simp_all [sameIdentity]
      | err => simp [sameIdentity]
      | ok ig v => cases v <;> simp [sameIdentity]

inductive ValidateWhy where
  | confirmed | grace
  deriving DecidableEq, Repr

def validateWhy (P : Policy) (now : Int) (s : Sess) (a : Ans) : Option ValidateWhy :=
  let viaGroup : Option ValidateWhy :=
    match (validateGroup P.allowedGroups a).1 with
    | .ok _ true => some .confirmed
    | .unavail => if (withinGrace s P.G now).2 then some .grace else none
    | _ => none
  match a.validate with
  | .transport => none
  | .status n => if unavailable n ∧ (withinGrace s P.G now).2 then some .grace else none
  | .malformed => viaGroup
  | .ok () => viaGroup

theorem validateSession_true_iff (P : Policy) (now : Int) (s : Sess) (a : Ans) :
    (validateSession P now s a).2.1 = true ↔ (validateWhy P now s a).isSome = true := by
  unfold validateSession validateWhy
  cases hr : a.validate with
  | transport => simp
  | status n =>
    by_cases hu : unavailable n = true
    · by_cases hw : (withinGrace s P.G now).2 = true <;> simp [hu, hw]
    · simp [hu]
  | malformed =>
    simp only
    rcases hv : validateGroup P.allowedGroups a with ⟨g, c⟩
    cases g with
    | unavail => by_cases hw : (withinGrace s P.G now).2 = true <;> simp [hw]
    | err => simp
    | ok ig v => cases v <;> simp
  | ok u =>
    simp only
    rcases hv : validateGroup P.allowedGroups a with ⟨g, c⟩
    cases g with
    | unavail => by_cases hw : (withinGrace s P.G now).2 = true <;> simp [hw]
    | err => simp
    | ok ig v => cases v <;> simp

theorem validateSession_frame (P : Policy) (now : Int) (s : Sess) (a : Ans) :
    sameIdentity s (validateSession P now s a).1 ∧ (validateSession P now s a).1.refresh = s.refresh ∧
    (validateSession P now s a).1.access = s.access := by
  unfold validateSession
  have hg := withinGrace_frame s P.G now
  cases hr : a.validate with
  | transport => simp [sameIdentity]
  | status n =>
    by_cases hu : unavailable n = true
    · by_cases hw : (withinGrace s P.G now).2 = true <;> simp [hu, hw] <;> simp_all [sameIdentity]
    · simp [hu, sameIdentity]
  | malformed =>
    simp only
    rcases hv : validateGroup P.allowedGroups a with ⟨g, c⟩
    cases g with
    | unavail => by_cases hw : (withinGrace s P.G now).2 = true <;> simp [hw] <;> simp_all [sameIdentity]
    | err => simp [sameIdentity]
    | ok ig v => cases v <;> simp [sameIdentity]
  | ok u =>
    simp only
    rcases hv : validateGroup P.allowedGroups a with ⟨g, c⟩
    cases g with
    | unavail => by_cases hw : (withinGrace s P.G now).2 = true <;> simp [hw] <;> simp_all [sameIdentity]
    | err => simp [sameIdentity]
    | ok ig v => cases v <;> simp [sameIdentity]

end Sso.Proxy
