import SsoModel.Breaker

/-! Helper lemmas for C15 (invariants of the breaker LTS). Property theorems are in `SsoSpec/C15.lean`. -/
namespace Sso.Breaker

/-- Count of state-change hooks in a hook list. -/
def nChanges : List Hook → Nat
  | [] => 0
  | .stateChange _ _ :: t => nChanges t + 1
  | .backoff _ _ :: t => nChanges t

@[simp] theorem nChanges_nil : nChanges [] = 0 := rfl
@[simp] theorem nChanges_append (a b : List Hook) : nChanges (a ++ b) = nChanges a + nChanges b := by
  induction a with
  | nil => simp
  | cons h t ih => cases h <;> simp [nChanges, ih] <;> omega

def hooksOf : Out → List Hook
  | .admitted _ h => h
  | .rejected _ h => h
  | .completed h => h
  | .ticked => []
  | .disabled => []

/-- every state-change hook has `prev ≠ to` -/
def hooksProper : List Hook → Prop
  | [] => True
  | .stateChange p t :: r => p ≠ t ∧ hooksProper r
  | .backoff _ _ :: r => hooksProper r

theorem hooksProper_append {a b : List Hook} (ha : hooksProper a) (hb : hooksProper b) :
    hooksProper (a ++ b) := by
  induction a with
  | nil => simpa
  | cons h t ih =>
    cases h with
    | stateChange p q => exact ⟨ha.1, ih ha.2⟩
    | backoff d r => exact ih ha

/-! #### one-step facts about the building blocks -/

theorem setState_gen (b : B) (s : St) :
    (setState b s).1.gen = b.gen + nChanges (setState b s).2 ∧ hooksProper (setState b s).2
    ∧ (setState b s).1.cnt = b.cnt ∧ (setState b s).1.now = b.now ∧ (setState b s).1.st = s
    ∧ (setState b s).1.expires = b.expires ∧ b.gen ≤ (setState b s).1.gen := by
  unfold setState
  split
  · next h => simp [hooksProper, h]
  · next h => simp [nChanges, hooksProper, h]; omega

theorem cs_facts (b : B) :
    (cs b).1.gen = b.gen + nChanges (cs b).2 ∧ hooksProper (cs b).2
    ∧ (cs b).1.cnt = b.cnt ∧ (cs b).1.now = b.now ∧ (cs b).1.expires = b.expires
    ∧ b.gen ≤ (cs b).1.gen := by
  unfold cs
  split
  · have := setState_gen b .halfOpen
    exact ⟨this.1, this.2.1, this.2.2.1, this.2.2.2.1, this.2.2.2.2.2.1, this.2.2.2.2.2.2⟩
  · simp [hooksProper]

theorem cs_st (b : B) :
    ((b.st = .opn ∧ b.now > b.expires) → (cs b).1.st = .halfOpen ∧ (cs b).1.gen = b.gen + 1)
    ∧ (¬ (b.st = .opn ∧ b.now > b.expires) → cs b = (b, [])) := by
  unfold cs setState
  constructor
  · intro h; simp [h]
  · intro h; simp [h]

theorem cs_not_opn_of_changed (b : B) (h : (cs b).1.gen ≠ b.gen) : (cs b).1.st = .halfOpen := by
  by_cases hc : b.st = .opn ∧ b.now > b.expires
  · exact ((cs_st b).1 hc).1
  · rw [(cs_st b).2 hc] at h; exact absurd rfl h


/-! #### the invariant -/

def countGen (l : List (Nat × Int)) (n : Int) : Nat := (l.filter (fun p => p.2 = n)).length

structure Inv (P : Params) (g : G) : Prop where
  cur_len   : g.b.cnt.cur = g.inflight.length
  gens_le   : ∀ p ∈ g.inflight, p.2 ≤ g.b.gen
  opn_none  : g.b.st = .opn → ∀ p ∈ g.inflight, p.2 ≠ g.b.gen
  half_cap  : g.b.st = .halfOpen → (countGen g.inflight g.b.gen : Int) ≤ P.halfOpenMax
  nodup     : (g.inflight.map (·.1)).Nodup

theorem countGen_le_length (l : List (Nat × Int)) (n : Int) : countGen l n ≤ l.length := by
  unfold countGen; exact List.length_filter_le _ _

theorem countGen_zero_of_lt (l : List (Nat × Int)) (n : Int) (h : ∀ p ∈ l, p.2 < n) :
    countGen l n = 0 := by
  unfold countGen
  rw [List.length_eq_zero_iff, List.filter_eq_nil_iff]
  intro p hp; have := h p hp; simp; omega

theorem lookupGen_none {l : List (Nat × Int)} {i : Nat} (h : lookupGen l i = none) :
    i ∉ l.map (·.1) := by
  unfold lookupGen at h
  simp only [Option.map_eq_none_iff, List.find?_eq_none] at h
  intro hm
  rcases List.mem_map.1 hm with ⟨p, hp, rfl⟩
  exact absurd (h p hp) (by simp)

theorem lookupGen_some {l : List (Nat × Int)} {i : Nat} {n : Int} (h : lookupGen l i = some n) :
    (i, n) ∈ l := by
  unfold lookupGen at h
  rcases Option.map_eq_some_iff.1 h with ⟨p, hp, rfl⟩
  have h1 := List.mem_of_find?_eq_some hp
  have h2 := List.find?_some hp
  simp at h2; subst h2; exact h1

theorem length_removeId {l : List (Nat × Int)} {i : Nat} {n : Int}
    (hn : (l.map (·.1)).Nodup) (hm : (i, n) ∈ l) :
    (removeId l i).length + 1 = l.length := by
  induction l with
  | nil => cases hm
  | cons p t ih =>
    simp only [List.map_cons, List.nodup_cons] at hn
    rcases List.mem_cons.1 hm with h | h
    · subst h
      have : removeId t i = t := by
        unfold removeId
        rw [List.filter_eq_self]; intro q hq
        have : q.1 ≠ i := fun e => hn.1 (List.mem_map.2 ⟨q, hq, e⟩)
        simp [this]
      have h2 : removeId ((i, n) :: t) i = removeId t i := by
        unfold removeId; simp
      rw [h2, this]; simp
    · have hne : p.1 ≠ i := fun e => hn.1 (List.mem_map.2 ⟨(i, n), h, e.symm⟩)
      have := ih hn.2 h
      have h2 : removeId (p :: t) i = p :: removeId t i := by
        unfold removeId; simp [hne]
      rw [h2]; simp; omega

theorem mem_removeId {l : List (Nat × Int)} {i : Nat} {p : Nat × Int} (h : p ∈ removeId l i) :
    p ∈ l ∧ p.1 ≠ i := by
  unfold removeId at h; simpa using h

theorem nodup_removeId {l : List (Nat × Int)} {i : Nat} (hn : (l.map (·.1)).Nodup) :
    ((removeId l i).map (·.1)).Nodup := by
  unfold removeId
  exact List.Nodup.sublist (List.Sublist.map _ List.filter_sublist) hn

theorem countGen_removeId_le (l : List (Nat × Int)) (i : Nat) (n : Int) :
    countGen (removeId l i) n ≤ countGen l n := by
  unfold countGen removeId
  exact List.Sublist.length_le (List.Sublist.filter _ List.filter_sublist)


theorem inv_init (P : Params) (hmax : 0 ≤ P.halfOpenMax) : Inv P G.init := by
  refine ⟨rfl, ?_, ?_, ?_, ?_⟩ <;> simp [G.init, B.init, countGen, hmax]

/-- `cs` preserves the invariant (on entering half-open the generation is fresh). -/
theorem inv_cs (P : Params) (hmax : 0 ≤ P.halfOpenMax) (b : B) (l : List (Nat × Int))
    (h : Inv P ⟨b, l⟩) : Inv P ⟨(cs b).1, l⟩ := by
  by_cases hc : b.st = .opn ∧ b.now > b.expires
  · have h1 := (cs_st b).1 hc
    have h2 := cs_facts b
    refine ⟨?_, ?_, ?_, ?_, h.nodup⟩
    · show (cs b).1.cnt.cur = _; rw [h2.2.2.1]; exact h.cur_len
    · intro p hp; have := h.gens_le p hp; show p.2 ≤ (cs b).1.gen; rw [h1.2]; simp at this; omega
    · intro ho; simp [h1.1] at ho
    · intro _
      have : countGen l (cs b).1.gen = 0 := by
        apply countGen_zero_of_lt; intro p hp; have := h.gens_le p hp; rw [h1.2]; simp at this; omega
      show (countGen l (cs b).1.gen : Int) ≤ _; rw [this]; simpa using hmax
  · rw [(cs_st b).2 hc]; exact h

theorem inv_before (P : Params) (hmax : 0 ≤ P.halfOpenMax) (b : B) (l : List (Nat × Int)) (i : Nat)
    (h : Inv P ⟨b, l⟩) (hni : i ∉ l.map (·.1)) :
    (∀ b' n hk, beforeRequest P b = (b', .admitted n, hk) → Inv P ⟨b', (i, n) :: l⟩) ∧
    (∀ b' n hk, beforeRequest P b = (b', .rejected n, hk) → Inv P ⟨b', l⟩) := by
  have hi := inv_cs P hmax b l h
  unfold beforeRequest
  simp only
  split
  · next ho =>
    constructor
    · intro b' n hk he; simp at he
    · intro b' n hk he; simp at he; rw [← he.1]; exact hi
  · next ho =>
    split
    · constructor
      · intro b' n hk he; simp at he
      · intro b' n hk he; simp at he; rw [← he.1]; exact hi
    · next hcap =>
      constructor
      · intro b' n hk he
        simp at he
        obtain ⟨hb, hn, _⟩ := he
        subst hb; subst hn
        refine ⟨?_, ?_, ?_, ?_, ?_⟩
        · have := hi.cur_len; simp at this ⊢; omega
        · intro p hp
          rcases List.mem_cons.1 hp with rfl | hp
          · simp
          · exact hi.gens_le p hp
        · intro hop; exact absurd hop ho
        · intro hh
          have hh' : (cs b).1.st = .halfOpen := hh
          have hcap' : ¬ (cs b).1.cnt.cur ≥ P.halfOpenMax := fun hc => hcap ⟨hh', hc⟩
          have h1 := hi.cur_len
          have h2 := countGen_le_length l (cs b).1.gen
          simp at h1
          simp only [countGen, List.filter_cons]
          simp only [countGen] at h2
          simp
          omega
        · simp only [List.map_cons, List.nodup_cons]; exact ⟨hni, h.nodup⟩
      · intro b' n hk he; simp at he

theorem inv_afterCore (P : Params) (b1 : B) (l : List (Nat × Int)) (ok : Bool) (n : Int)
    (h1 : Inv P ⟨b1, l⟩) : Inv P ⟨(afterCore P b1 ok n).1, l⟩ := by
  unfold afterCore
  split
  · exact h1
  · next hg =>
    split
    · -- success
      unfold onSuccess
      simp only
      split
      · next hr =>
        unfold setState clearCounts
        simp only [hr.1]
        simp
        refine ⟨?_, ?_, ?_, ?_, h1.nodup⟩
        · exact h1.cur_len
        · intro p hp; have := h1.gens_le p hp; simp at this ⊢; omega
        · intro ho; simp at ho
        · intro ho; simp at ho
      · exact ⟨h1.cur_len, h1.gens_le, h1.opn_none, h1.half_cap, h1.nodup⟩
    · -- failure
      unfold onFailure
      simp only
      split
      · next hs =>
        split
        · unfold setState setBackoff clearCounts
          simp only [hs]
          simp
          refine ⟨?_, ?_, ?_, ?_, h1.nodup⟩
          · exact h1.cur_len
          · intro p hp; have := h1.gens_le p hp; simp at this ⊢; omega
          · intro _ p hp; have := h1.gens_le p hp; simp at this ⊢; omega
          · intro ho; simp at ho
        · exact ⟨h1.cur_len, h1.gens_le, fun ho => by simp [hs] at ho, fun ho => by simp [hs] at ho, h1.nodup⟩
      · next hs =>
        unfold setBackoff
        exact ⟨h1.cur_len, h1.gens_le, h1.opn_none, fun ho => by simp [hs] at ho, h1.nodup⟩
      · next hs =>
        unfold setState setBackoff
        simp only [hs]
        simp
        refine ⟨?_, ?_, ?_, ?_, h1.nodup⟩
        · exact h1.cur_len
        · intro p hp; have := h1.gens_le p hp; simp at this ⊢; omega
        · intro _ p hp; have := h1.gens_le p hp; simp at this ⊢; omega
        · intro ho; simp at ho

def decr (b : B) : B := { b with cnt := { b.cnt with cur := b.cnt.cur - 1 } }

theorem afterRequest_eq (P : Params) (b : B) (ok : Bool) (n : Int) :
    afterRequest P b ok n =
      ((afterCore P (cs (decr b)).1 ok n).1, (cs (decr b)).2 ++ (afterCore P (cs (decr b)).1 ok n).2) := rfl

theorem inv_after (P : Params) (hmax : 0 ≤ P.halfOpenMax) (b : B) (l : List (Nat × Int)) (i : Nat)
    (ok : Bool) (n : Int) (h : Inv P ⟨b, l⟩) (hm : (i, n) ∈ l) :
    Inv P ⟨(afterRequest P b ok n).1, removeId l i⟩ := by
  have hlen : (removeId l i).length + 1 = l.length := length_removeId h.nodup hm
  have h0 : Inv P ⟨decr b, removeId l i⟩ := by
    refine ⟨?_, ?_, ?_, ?_, nodup_removeId h.nodup⟩
    · have := h.cur_len; simp only [decr] at this ⊢; show b.cnt.cur - 1 = ((removeId l i).length : Int); have h5 : b.cnt.cur = (l.length : Int) := this; omega
    · intro p hp; exact h.gens_le p (mem_removeId hp).1
    · intro ho p hp; exact h.opn_none ho p (mem_removeId hp).1
    · intro hh; have h3 := h.half_cap hh
      have := countGen_removeId_le l i b.gen
      simp [decr] at *; omega
  have h1 := inv_cs P hmax _ _ h0
  rw [afterRequest_eq]
  exact inv_afterCore P _ _ ok n h1

theorem step_inv (P : Params) (hmax : 0 ≤ P.halfOpenMax) (g : G) (e : Ev) (h : Inv P g) :
    Inv P (step P g e).1 := by
  obtain ⟨b, l⟩ := g
  cases e with
  | tick d =>
    simp only [step]
    exact ⟨h.cur_len, h.gens_le, h.opn_none, h.half_cap, h.nodup⟩
  | start i =>
    simp only [step]
    cases hl : lookupGen l i with
    | some n => simpa using h
    | none =>
      simp only
      have hib := inv_before P hmax b l i h (lookupGen_none hl)
      rcases hbr : beforeRequest P b with ⟨b', a, hk⟩
      cases a with
      | admitted n => exact hib.1 b' n hk hbr
      | rejected n => exact hib.2 b' n hk hbr
  | complete i ok =>
    simp only [step]
    cases hl : lookupGen l i with
    | none => simpa using h
    | some n => exact inv_after P hmax b l i ok n h (lookupGen_some hl)

theorem runState_inv (P : Params) (hmax : 0 ≤ P.halfOpenMax) (g : G) (es : List Ev) (h : Inv P g) :
    Inv P (runState P g es) := by
  induction es generalizing g with
  | nil => exact h
  | cons e es ih => exact ih _ (step_inv P hmax g e h)

theorem reachable_inv (P : Params) (hmax : 0 ≤ P.halfOpenMax) (g : G) (h : Reachable P g) : Inv P g := by
  obtain ⟨es, rfl⟩ := h
  exact runState_inv P hmax _ es (inv_init P hmax)

end Sso.Breaker
