import SsoModel.Prim.Base64

namespace Sso.Base64

theorem decChar_encChar_fin : ∀ n : Fin 64, decChar (encChar n.val) = some n.val := by decide

theorem decChar_encChar (n : Nat) (h : n < 64) : decChar (encChar n) = some n :=
  decChar_encChar_fin ⟨n, h⟩

theorem encChar_notCRLF (n : Nat) : notCRLF (encChar n) = true := by
  unfold notCRLF encChar
  split <;> (try split) <;> (try split) <;> (try split) <;> simp <;> omega

def Bytes (b : List Nat) : Prop := ∀ x ∈ b, x < 256

theorem filter_encode (b : List Nat) : (encode b).filter notCRLF = encode b := by
  rw [List.filter_eq_self]
  intro c hc
  -- every character of `encode b` is an `encChar _`
  have : ∀ (b : List Nat) (c : Nat), c ∈ encode b → ∃ n, c = encChar n := by
    intro b
    induction b using encode.induct with
    | case1 => intro c h; simp [encode] at h
    | case2 b0 => intro c h; simp [encode] at h; rcases h with h | h <;> exact ⟨_, h⟩
    | case3 b0 b1 => intro c h; simp [encode] at h; rcases h with h | h | h <;> exact ⟨_, h⟩
    | case4 b0 b1 b2 t ih =>
      intro c h
      simp only [encode, List.mem_cons] at h
      rcases h with h | h | h | h | h
      · exact ⟨_, h⟩
      · exact ⟨_, h⟩
      · exact ⟨_, h⟩
      · exact ⟨_, h⟩
      · exact ih c h
  obtain ⟨n, rfl⟩ := this b c hc
  exact encChar_notCRLF n

theorem decodeChars_encode (b : List Nat) (hb : Bytes b) : decodeChars (encode b) = some b := by
  induction b using encode.induct with
  | case1 => rfl
  | case2 b0 =>
    have h0 : b0 < 256 := hb b0 (by simp)
    simp only [encode, decodeChars]
    rw [decChar_encChar _ (by omega), decChar_encChar _ (by omega)]
    simp; omega
  | case3 b0 b1 =>
    have h0 : b0 < 256 := hb b0 (by simp)
    have h1 : b1 < 256 := hb b1 (by simp)
    simp only [encode, decodeChars]
    rw [decChar_encChar _ (by omega), decChar_encChar _ (by omega), decChar_encChar _ (by omega)]
    simp; omega
  | case4 b0 b1 b2 t ih =>
    have h0 : b0 < 256 := hb b0 (by simp)
    have h1 : b1 < 256 := hb b1 (by simp)
    have h2 : b2 < 256 := hb b2 (by simp)
    have ht : Bytes t := fun x hx => hb x (by simp [hx])
    simp only [encode, decodeChars]
    rw [decChar_encChar _ (by omega), decChar_encChar _ (by omega), decChar_encChar _ (by omega),
      decChar_encChar _ (by omega), ih ht]
    simp; omega

end Sso.Base64
