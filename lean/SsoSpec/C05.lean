import SsoSpec.C04
import Generated.Facts

/-!
# C05 — outage grace is bounded: only 429/503, only the grace TTL from the first failure
-/
namespace Sso.Proxy
open Sso.Validators

/-- Tie (T1): the status set the model calls "unavailable" is the one `isProviderUnavailable` tests for. -/
theorem C05_unavailable_set : ∀ n, unavailable n = true ↔ n ∈ Sso.Generated.unavailableStatuses := by
  intro n
  simp [unavailable, Sso.Generated.unavailableStatuses]

/-- **Grace only for 429/503.** A due check that lets the request through without the authenticator's confirmation
did so because `/refresh`, `/validate` or `/profile` answered with an *unavailable* status — never for any other
status, a transport error or a malformed body — and the grace window was open. -/
theorem C05_grace_only_unavailable (P : Policy) (now : Int) (s : Sess) (a : Ans) :
    (refreshWhy P now s a = some .grace →
        ((∃ n, a.refresh = .status n ∧ unavailable n = true) ∨
         ((∃ t, a.refresh = .ok t) ∧ ∃ n, a.profile = .status n ∧ unavailable n = true)) ∧ (withinGrace s P.G now).2 = true) ∧
    (validateWhy P now s a = some .grace →
        ((∃ n, a.validate = .status n ∧ unavailable n = true) ∨ (∃ n, a.profile = .status n ∧ unavailable n = true)) ∧
        (withinGrace s P.G now).2 = true) := by
  have vg : ∀ x, (validateGroup P.allowedGroups a).1 = .unavail → x = () → ∃ n, a.profile = .status n ∧ unavailable n = true := by
    intro _ h _
    unfold validateGroup at h
    split at h
    · simp at h
    · cases hp : a.profile with
      | ok ug => rw [hp] at h; simp at h
      | status n => rw [hp] at h; simp at h; exact ⟨n, rfl, h⟩
      | transport => rw [hp] at h; simp at h
      | malformed => rw [hp] at h; simp at h
  constructor
  · intro h
    unfold refreshWhy at h
    split at h; · simp at h
    cases hr : a.refresh with
    | status n =>
      rw [hr] at h; simp only at h
      split at h
      · next hc => exact ⟨Or.inl ⟨n, rfl, hc.1⟩, hc.2⟩
      · simp at h
    | transport => rw [hr] at h; simp at h
    | malformed => rw [hr] at h; simp at h
    | ok t =>
      rw [hr] at h; simp only at h
      cases hg : (validateGroup P.allowedGroups a).1 with
      | unavail =>
        rw [hg] at h; simp only at h
        split at h
        · next hc => exact ⟨Or.inr ⟨⟨t, rfl⟩, vg () hg rfl⟩, hc⟩
        · simp at h
      | err => rw [hg] at h; simp at h
      | ok ig v => rw [hg] at h; cases v <;> simp at h
  · intro h
    unfold validateWhy at h
    have viaGroup : (match (validateGroup P.allowedGroups a).1 with
        | .ok _ true => some ValidateWhy.confirmed
        | .unavail => if (withinGrace s P.G now).2 then some .grace else none
        | _ => none) = some .grace →
        (∃ n, a.profile = .status n ∧ unavailable n = true) ∧ (withinGrace s P.G now).2 = true := by
      intro h
      cases hg : (validateGroup P.allowedGroups a).1 with
      | unavail =>
        rw [hg] at h; simp only at h
        split at h
        · next hc => exact ⟨vg () hg rfl, hc⟩
        · simp at h
      | err => rw [hg] at h; simp at h
      | ok ig v => rw [hg] at h; cases v <;> simp at h
    cases hr : a.validate with
    | transport => rw [hr] at h; simp at h
    | status n =>
      rw [hr] at h; simp only at h
      split at h
      · next hc => exact ⟨Or.inl ⟨n, rfl, hc.1⟩, hc.2⟩
      · simp at h
    | malformed => rw [hr] at h; simp only at h; have := viaGroup h; exact ⟨Or.inr this.1, this.2⟩
    | ok u => rw [hr] at h; simp only at h; have := viaGroup h; exact ⟨Or.inr this.1, this.2⟩

/-- **The window.** Grace is open exactly while `now < start + G`, where `start` is the stamped start of the current
outage, or `now` if this is its first failure; a grace-served check keeps that start (it is never re-stamped), so the
window is counted from the *first* unavailable answer of the episode; with `G = 0` there is no grace at all. -/
theorem C05_grace_window (s : Sess) (G now : Int) :
    ((withinGrace s G now).2 = true ↔ s.grace.getD now + G > now) ∧
    (withinGrace s G now).1.grace = some (s.grace.getD now) ∧
    (∀ g, s.grace = some g → (withinGrace s G now).1.grace = some g) ∧
    (G ≤ 0 → s.grace = none → (withinGrace s G now).2 = false) := by
  refine ⟨by simp [withinGrace], by simp [withinGrace], ?_, ?_⟩
  · intro g h; simp [withinGrace, h]
  · intro hG h; simp [withinGrace, h]; omega

/-- A grace-served refresh extends the *refresh* deadline by the validity TTL (not the token TTL) and keeps the start;
a grace-served revalidation extends the validity deadline by `V` and keeps the start. -/
theorem C05_grace_step_effect (P : Policy) (now : Int) (s : Sess) (a : Ans) :
    (refreshWhy P now s a = some .grace →
        (refreshSession P now s a).1.grace = some (s.grace.getD now) ∧ (refreshSession P now s a).1.refresh = now + P.V ∧
        (refreshSession P now s a).1.access = s.access) ∧
    (validateWhy P now s a = some .grace →
        (validateSession P now s a).1.grace = some (s.grace.getD now) ∧ (validateSession P now s a).1.valid = now + P.V) := by
  constructor
  · intro h
    unfold refreshWhy at h
    unfold refreshSession
    split at h; · simp at h
    next ht =>
    simp only [ht, if_false]
    cases hr : a.refresh with
    | status n =>
      rw [hr] at h; simp only at h
      split at h
      · next hc =>
        have hw : now < s.grace.getD now + P.G := by simpa [withinGrace] using hc.2
        simp [hc.1, withinGrace, hw]
      · simp at h
    | transport => rw [hr] at h; simp at h
    | malformed => rw [hr] at h; simp at h
    | ok t =>
      rw [hr] at h; simp only at h
      obtain ⟨tok, ttl⟩ := t
      rcases hv : validateGroup P.allowedGroups a with ⟨g, c⟩
      rw [hv] at h
      cases g with
      | unavail =>
        simp only at h
        split at h
        · next hc =>
          have hw : now < s.grace.getD now + P.G := by simpa [withinGrace] using hc
          simp [withinGrace, hw]
        · simp at h
      | err => simp at h
      | ok ig v => cases v <;> simp at h
  · intro h
    unfold validateWhy at h
    unfold validateSession
    cases hr : a.validate with
    | transport => rw [hr] at h; simp at h
    | status n =>
      rw [hr] at h; simp only at h
      split at h
      · next hc =>
        have hw : now < s.grace.getD now + P.G := by simpa [withinGrace] using hc.2
        simp [hc.1, withinGrace, hw]
      · simp at h
    | malformed =>
      rw [hr] at h; simp only at h ⊢
      rcases hv : validateGroup P.allowedGroups a with ⟨g, c⟩
      rw [hv] at h
      cases g with
      | unavail =>
        simp only at h
        split at h
        · next hc =>
          have hw : now < s.grace.getD now + P.G := by simpa [withinGrace] using hc
          simp [withinGrace, hw]
        · simp at h
      | err => simp at h
      | ok ig v => cases v <;> simp at h
    | ok u =>
      rw [hr] at h; simp only at h ⊢
      rcases hv : validateGroup P.allowedGroups a with ⟨g, c⟩
      rw [hv] at h
      cases g with
      | unavail =>
        simp only at h
        split at h
        · next hc =>
          have hw : now < s.grace.getD now + P.G := by simpa [withinGrace] using hc
          simp [withinGrace, hw]
        · simp at h
      | err => simp at h
      | ok ig v => cases v <;> simp at h

/-- **One successful check ends the episode**: the re-sealed session has no grace start, so the next outage stamps a new one. -/
theorem C05_success_resets (P : Policy) (now : Int) (s : Sess) (a : Ans) :
    (refreshWhy P now s a = some .confirmed → (refreshSession P now s a).1.grace = none) ∧
    (validateWhy P now s a = some .confirmed → (validateSession P now s a).1.grace = none) := by
  constructor
  · intro h
    unfold refreshWhy at h
    unfold refreshSession
    split at h; · simp at h
    next ht =>
    simp only [ht, if_false]
    cases hr : a.refresh with
    | status n => rw [hr] at h; simp only at h; split at h <;> simp at h
    | transport => rw [hr] at h; simp at h
    | malformed => rw [hr] at h; simp at h
    | ok t =>
      rw [hr] at h; simp only at h
      obtain ⟨tok, ttl⟩ := t
      rcases hv : validateGroup P.allowedGroups a with ⟨g, c⟩
      rw [hv] at h
      cases g with
      | unavail => simp only at h; split at h <;> simp at h
      | err => simp at h
      | ok ig v => cases v <;> simp at h ⊢
  · intro h
    unfold validateWhy at h
    unfold validateSession
    cases hr : a.validate with
    | transport => rw [hr] at h; simp at h
    | status n => rw [hr] at h; simp only at h; split at h <;> simp at h
    | malformed =>
      rw [hr] at h; simp only at h ⊢
      rcases hv : validateGroup P.allowedGroups a with ⟨g, c⟩
      rw [hv] at h
      cases g with
      | unavail => simp only at h; split at h <;> simp at h
      | err => simp at h
      | ok ig v => cases v <;> simp at h ⊢
    | ok u =>
      rw [hr] at h; simp only at h ⊢
      rcases hv : validateGroup P.allowedGroups a with ⟨g, c⟩
      rw [hv] at h
      cases g with
      | unavail => simp only at h; split at h <;> simp at h
      | err => simp at h
      | ok ig v => cases v <;> simp at h ⊢

/-- **After the window: refused and cleared**; and grace never outlives the lifetime, because the lifetime check
precedes every provider call (C04's bound covers grace-served requests too). -/
theorem C05_grace_expired_refuses (lower : Bytes → Bytes) (P : Policy) (now : Int) (r : ReqIn) (s : Sess) (a : Ans) (g : Int)
    (hw : whitelisted P r = false) (hg : s.grace = some g) (hexp : g + P.G ≤ now)
    (hdue : exp s.refresh now = true ∨ exp s.valid now = true)
    (hun : (∃ n, a.refresh = .status n ∧ unavailable n = true) ∧ (∃ n, a.validate = .status n ∧ unavailable n = true)) :
    (∀ id, (proxy lower P now r (.opens s) a).outcome ≠ .forward id) ∧
    (proxy lower P now r (.opens s) a).writes.getLast? = some .clear := by
  have hwin : (withinGrace s P.G now).2 = false := by simp [withinGrace, hg]; omega
  obtain ⟨⟨n1, h1, u1⟩, ⟨n2, h2, u2⟩⟩ := hun
  apply C04_denied_refuses lower P now r s a hw
  by_cases hr : exp s.refresh now = true
  · left; refine ⟨hr, ?_⟩
    unfold refreshWhy; split; · rfl
    simp [h1, u1, hwin]
  · right
    have hv : exp s.valid now = true := by rcases hdue with h | h; exact absurd h hr; exact h
    refine ⟨by simpa using hr, hv, ?_⟩
    unfold validateWhy; simp [h2, u2, hwin]

/-- No grace for anything else: a transport error, a malformed body or any status outside {429, 503} at the first
call of a due check refuses the request (instance of C04's `denied_refuses`). -/
theorem C05_no_grace_for_others (lower : Bytes → Bytes) (P : Policy) (now : Int) (r : ReqIn) (s : Sess) (a : Ans)
    (hw : whitelisted P r = false) (hr : exp s.refresh now = false) (hv : exp s.valid now = true)
    (hbad : a.validate = .transport ∨ ∃ n, a.validate = .status n ∧ unavailable n = false) :
    ∀ id, (proxy lower P now r (.opens s) a).outcome ≠ .forward id := by
  apply (C04_denied_refuses lower P now r s a hw ?_).1
  right; refine ⟨hr, hv, ?_⟩
  unfold validateWhy
  rcases hbad with h | ⟨n, h, hu⟩ <;> simp [h, *]

/-! ### Non-vacuity -/
def exOut : Ans := { refresh := .status 503, validate := .status 503, profile := .status 503 }
-- first failure at t=150 stamps the start; served; at t=700 (< 150+600) still served with the same start; at t=760 refused
example : (proxy id exPol 150 exReq (.opens exSess) exOut).writes = [.save { exSess with valid := 210, grace := some 150 }] := by decide
example : (proxy id exPol 700 exReq (.opens { exSess with valid := 210, refresh := 2000, grace := some 150 }) exOut).outcome
    = .forward (some ⟨"a", [97, 64, 120], [], none⟩) := by decide
example : (proxy id exPol 760 exReq (.opens { exSess with valid := 210, grace := some 150 }) exOut).outcome = .errorPage 500 := by decide
example : (proxy id exPol 150 exReq (.opens exSess) { exOut with validate := .status 500 }).outcome = .errorPage 403 := by decide

end Sso.Proxy
