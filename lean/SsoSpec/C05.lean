import SsoSpec.C04
import Generated.Facts

/-!
# C05 — outage grace is bounded: only 429/503, only the grace TTL from the first failure
-/
namespace Sso.Proxy
open Sso.Validators

/-- Tie (T1): the status set the model calls "unavailable" is the one `isProviderUnavailable` tests for. -/
theorem C05_unavailable_set : ∀ n, unavailable n = true ↔ n ∈ Sso.Generated.unavailableStatuses := by
  intro n
  simp [unavailable, Sso.Generated.unavailableStatuses]

/-- **Grace only for 429/503.** A due check that lets the request through without the authenticator's confirmation
did so because `/refresh`, `/validate` or `/profile` answered with an *unavailable* status — never for any other
status, a transport error or a malformed body — and the grace window was open. -/
theorem C05_grace_only_unavailable (P : Policy) (now : Int) (s : Sess) (a : Ans) :
    (refreshWhy P now s a = some .grace →
        ((∃ n, a.refresh = .status n ∧ unavailable n = true) ∨
         ((∃ t, a.refresh = .ok t) ∧ ∃ n, a.profile = .status n ∧ unavailable n = true)) ∧ (withinGrace s P.G now).2 = true) ∧
    (validateWhy P now s a = some .grace →
        ((∃ n, a.validate = .status n ∧ unavailable n = true) ∨ (∃ n, a.profile = .status n ∧ unavailable n = true)) ∧
        (withinGrace s P.G now).2 = true) := by
  have vg : ∀ x, (validateGroup P.allowedGroups a).1 = .unavail → x = () → ∃ n, a.profile = .status n ∧ unavailable n = true := by
    intro _ h _
    unfold validateGroup at h
    split at h
    · simp at h
    · cases hp : a.profile with
      | ok ug => rw [hp] at h; simp at h
      | status n => rw [hp] at h; simp at h; exact ⟨n, rfl, h⟩
      | transport => rw [hp] at h; simp at h
      | malformed => rw [hp] at h; simp at h
  constructor
  · intro h
    unfold refreshWhy at h
    split at h; · simp at h
    cases hr : a.refresh with
    | status n =>
      rw [hr] at h; simp only at h
      split at h
      · next hc => exact ⟨Or.inl ⟨n, rfl, hc.1⟩, hc.2⟩
      · simp at h
    | transport => rw [hr] at h; simp at h
    | malformed => rw [hr] at h; simp at h
    | ok t =>
      rw [hr] at h; simp only at h
      cases hg : (validateGroup P.allowedGroups a).1 with
      | unavail =>
        rw [hg] at h; simp only at h
        split at h
        · next hc => exact ⟨Or.inr ⟨⟨t, rfl⟩, vg () hg rfl⟩, hc⟩
        · simp at h
      | err => rw [hg] at h; simp at h
      | ok ig v => rw [hg] at h; cases v <;> simp at h
  · intro h
    unfold validateWhy at h
    have viaGroup : (match (validateGroup P.allowedGroups a).1 with
        | .ok _ true => some ValidateWhy.confirmed
        | .unavail => if (withinGrace s P.G now).2 then some .grace else none
        | _ => none) = some .grace →
        (∃ n, a.profile = .status n ∧ unavailable n = true) ∧ (withinGrace s P.G now).2 = true := by
      intro h
      cases hg : (validateGroup P.allowedGroups a).1 with
      | unavail =>
        rw [hg] at h; simp only at h
        split at h
        · next hc => exact ⟨vg () hg rfl, hc⟩
        · simp at h
      | err => rw [hg] at h; simp at h
      | ok ig v => rw [hg] at h; cases v <;> simp at h
    cases hr : a.validate with
    | transport => rw [hr] at h; simp at h
    | status n =>
      rw [hr] at h; simp only at h
      split at h
      · next hc => exact ⟨Or.inl ⟨n, rfl, hc.1⟩, hc.2⟩
      · simp at h
    | malformed => rw [hr] at h; simp only at h; have := viaGroup h; exact ⟨Or.inr this.1, this.2⟩
    | ok u => rw [hr] at h; simp only at h; have := viaGroup h; exact ⟨Or.inr this.1, this.2⟩

/-- **The window.** Grace is open exactly while `now < start + G`, where `start` is the stamped start of the current
outage, or `now` if this is its first failure; a grace-served check keeps that start (it is never re-stamped), so the
window is counted from the *first* unavailable answer of the episode; with `G = 0` there is no grace at all. -/
theorem C05_grace_window (s : Sess) (G now : Int) :
    ((withinGrace s G now).2 = true ↔ s.grace.getD now + G > now) ∧
    (withinGrace s G now).1.grace = some (s.grace.getD now) ∧
    (∀ g, s.grace = some g → (withinGrace s G now).1.grace = some g) ∧
    (G ≤ 0 → s.grace = none → (withinGrace s G now).2 = false) := by
  refine ⟨by simp [withinGrace], by simp [withinGrace], ?_, ?_⟩
  · intro g h; simp [withinGrace, h]
  · intro hG h; simp [withinGrace, h]; omega

/-- A grace-served refresh extends the *refresh* deadline by the validity TTL (not the token TTL) and keeps the start;
a grace-served revalidation extends the validity deadline by `V` and keeps the start. -/
theorem C05_grace_step_effect (P : Policy) (now : Int) (s : Sess) (a : Ans) :
    (refreshWhy P now s a = some .grace →
        (refreshSession P now s a).1.grace = some (s.grace.getD now) ∧ (refreshSession P now s a).1.refresh = now + P.V ∧
        (refreshSession P now s a).1.access = s.access) ∧
    (validateWhy P now s a = some .grace →
        (validateSession P now s a).1.grace = some (s.grace.getD now) ∧ (validateSession P now s a).1.valid = now + P.V) := by
  constructor
  · intro h
    unfold refreshWhy at h
    unfold refreshSession
    split at h; · simp at h
    next ht =>
    simp only [ht, if_false]
    cases hr : a.refresh with
    | status n =>
      rw [hr] at h; simp only at h
      split at h
      · next hc =>
        have hw : now < s.grace.getD now + P.G := by simpa [withinGrace] using hc.2
        simp [hc.1, withinGrace, hw]
      · simp at h
    | transport => rw [hr] at h; simp at h
    | malformed => rw [hr] at h; simp at h
    | ok t =>
      rw [hr] at h; simp only at h
      obtain ⟨tok, ttl⟩ := t
      rcases hv : validateGroup P.allowedGroups a with ⟨g, c⟩
      rw [hv] at h
      cases g with
      | unavail =>
        simp only at h
        split at h
        · next hc =>
          have hw : now < s.grace.getD now + P.G := by simpa [withinGrace] using hc
          simp [withinGrace, hw]
        · simp at h
      | err => simp at h
      | ok ig v => cases v <;> simp at h
  · intro h
    unfold validateWhy at h
    unfold validateSession
    cases hr : a.validate with
    | transport => rw [hr] at h; simp at h
    | status n =>
      rw [hr] at h; simp only at h
      split at h
      · next hc =>
        have hw : now < s.grace.getD now + P.G := by simpa [withinGrace] using hc.2
        simp [hc.1, withinGrace, hw]
      · simp at h
    | malformed =>
      rw [hr] at h; simp only at h ⊢
      rcases hv : validateGroup P.allowedGroups a with ⟨g, c⟩
      rw [hv] at h
      cases g with
      | unavail =>
        simp only at h
        split at h
        · next hc =>
          have hw : now < s.grace.getD now + P.G := by simpa [withinGrace] using hc
          simp [withinGrace, hw]
        · simp at h
      | err => simp at h
      | ok ig v => cases v <;> simp at h
    | ok u =>
      rw [hr] at h; simp only at h ⊢
      rcases hv : validateGroup P.allowedGroups a with ⟨g, c⟩
      rw [hv] at h
      cases g with
      | unavail =>
        simp only at h
        split at h
        · next hc =>
          have hw : now < s.grace.getD now + P.G := by simpa [withinGrace] using hc
          simp [withinGrace, hw]
        · simp at h
      | err => simp at h
      | ok ig v => cases v <;> simp at h

/-- **One successful check ends the episode**: the re-sealed session has no grace start, so the next outage stamps a new one. -/
theorem C05_success_resets (P : Policy) (now : Int) (s : Sess) (a : Ans) :
    (refreshWhy P now s a = some .confirmed → (refreshSession P now s a).1.grace = none) ∧
    (validateWhy P now s a = some .confirmed → (validateSession P now s a).1.grace = none) := by
  constructor
  · intro h
    unfold refreshWhy at h
    unfold refreshSession
    split at h; · simp at h
    next ht =>
    simp only [ht, if_false]
    cases hr : a.refresh with
    | status n => rw [hr] at h; simp only at h; split at h <;> simp at h
    | transport => rw [hr] at h; simp at h
    | malformed => rw [hr] at h; simp at h
    | ok t =>
      rw [hr] at h; simp only at h
      obtain ⟨tok, ttl⟩ := t
      rcases hv : validateGroup P.allowedGroups a with ⟨g, c⟩
      rw [hv] at h
      cases g with
      | unavail => simp only at h; split at h <;> simp at h
      | err => simp at h
      | ok ig v => cases v <;> simp at h ⊢
  · intro h
    unfold validateWhy at h
    unfold validateSession
    cases hr : a.validate with
    | transport => rw [hr] at h; simp at h
    | status n => rw [hr] at h; simp only at h; split at h <;> simp at h
    | malformed =>
      rw [hr] at h; simp only at h ⊢
      rcases hv : validateGroup P.allowedGroups a with ⟨g, c⟩
      rw [hv] at h
      cases g with
      | unavail => simp only at h; split at h <;> simp at h
      | err => simp at h
      | ok ig v => cases v <;> simp at h ⊢
    | ok u =>
      rw [hr] at h; simp only at h ⊢
      rcases hv : validateGroup P.allowedGroups a with ⟨g, c⟩
      rw [hv] at h
      cases g with
      | unavail => simp only at h; split at h <;> simp at h
      | err => simp at h
      | ok ig v => cases v <;> simp at h ⊢

/-- **After the window: refused and cleared**; and grace never outlives the lifetime, because the lifetime check
precedes every provider call (C04's bound covers grace-served requests too). -/
theorem C05_grace_expired_refuses (lower : Bytes → Bytes) (P : Policy) (now : Int) (r : ReqIn) (s : Sess) (a : Ans) (g : Int)
    (hw : whitelisted P r = false) (hg : s.grace = some g) (hexp : g + P.G ≤ now)
    (hdue : exp s.refresh now = true ∨ exp s.valid now = true)
    (hun : (∃ n, a.refresh = .status n ∧ unavailable n = true) ∧ (∃ n, a.validate = .status n ∧ unavailable n = true)) :
    (∀ id, (proxy lower P now r (.opens s) a).outcome ≠ .forward id) ∧
    (proxy lower P now r (.opens s) a).writes.getLast? = some .clear := by
  have hwin : (withinGrace s P.G now).2 = false := by simp [withinGrace, hg]; omega
  obtain ⟨⟨n1, h1, u1⟩, ⟨n2, h2, u2⟩⟩ := hun
  apply C04_denied_refuses lower P now r s a hw
  by_cases hr : exp s.refresh now = true
  · left; refine ⟨hr, ?_⟩
    unfold refreshWhy; split; · rfl
    simp [h1, u1, hwin]
  · right
    have hv : exp s.valid now = true := by rcases hdue with h | h; exact absurd h hr; exact h
    refine ⟨by simpa using hr, hv, ?_⟩
    unfold validateWhy; simp [h2, u2, hwin]

/-- No grace for anything else: a transport error, a malformed body or any status outside {429, 503} at the first
call of a due check refuses the request (instance of C04's `denied_refuses`). -/
theorem C05_no_grace_for_others (lower : Bytes → Bytes) (P : Policy) (now : Int) (r : ReqIn) (s : Sess) (a : Ans)
    (hw : whitelisted P r = false) (hr : exp s.refresh now = false) (hv : exp s.valid now = true)
    (hbad : a.validate = .transport ∨ ∃ n, a.validate = .status n ∧ unavailable n = false) :
    ∀ id, (proxy lower P now r (.opens s) a).outcome ≠ .forward id := by
  apply (C04_denied_refuses lower P now r s a hw ?_).1
  right; refine ⟨hr, hv, ?_⟩
  unfold validateWhy
  rcases hbad with h | ⟨n, h, hu⟩ <;> simp [h, *]

/-! ### Histories: one browser session, one request at a time

The property quantifies over *sequences*: "until the grace TTL has elapsed since the **first** such answer of the current
outage … one successful check ends the episode". The single-step theorems above speak about the `grace` field of the
session; the history theorem below ties that field to a quantity defined from the history alone. -/

/-- how the provider check of a request came out -/
inductive CheckOutcome where
  | noCheck       -- skip-auth request, no check due, or the session was refused before any provider call
  | confirmed     -- the due check was confirmed by the authenticator
  | grace         -- the due check was let through under the outage grace
  | refused       -- the due check failed
  deriving DecidableEq, Repr

def checkOutcome (P : Policy) (now : Int) (r : ReqIn) (s : Sess) (a : Ans) : CheckOutcome :=
  if whitelisted P r then .noCheck
  else if s.slug ≠ P.slug ∨ r.host ≠ s.host ∨ exp s.lifetime now = true then .noCheck
  else if exp s.refresh now then
    (match refreshWhy P now s a with | some .confirmed => .confirmed | some .grace => .grace | none => .refused)
  else if exp s.valid now then
    (match validateWhy P now s a with | some .confirmed => .confirmed | some .grace => .grace | none => .refused)
  else .noCheck

/-- **The first failure of the current outage, defined from the history alone**: set by the first grace-served check
while unset, kept while further checks are grace-served or none is due, forgotten by a confirmed (or refused) check. -/
def episodeAfter (ep : Option Int) (o : CheckOutcome) (now : Int) : Option Int :=
  match o with
  | .noCheck => ep
  | .grace => some (ep.getD now)
  | .confirmed => none
  | .refused => none

structure LStep where
  now : Int
  req : ReqIn
  ans : Ans

/-- the browser's cookie jar after a response: the last `Set-Cookie` wins -/
def jarAfter (c : CookieIn) (ws : List CookieWrite) : CookieIn :=
  match ws.getLast? with
  | some (.save s) => .opens s
  | some .clear => .absent
  | none => c

/-- a linear history: every request presents the cookie the previous response left. For each step: the cookie
presented and the episode start *as the history defines it*. -/
def runL (lower : Bytes → Bytes) (P : Policy) : CookieIn → Option Int → List LStep → List (CookieIn × Option Int × LStep)
  | _, _, [] => []
  | c, ep, st :: t =>
    let o := match c with | .opens s => checkOutcome P st.now st.req s st.ans | _ => .noCheck
    (c, ep, st) :: runL lower P (jarAfter c (proxy lower P st.now st.req c st.ans).writes) (episodeAfter ep o st.now) t

/-- one step: whatever session the response leaves in the jar carries, as its grace start, exactly the episode start
the history defines. -/
theorem step_grace_is_episode (lower : Bytes → Bytes) (P : Policy) (st : LStep) (s s' : Sess)
    (h : jarAfter (.opens s) (proxy lower P st.now st.req (.opens s) st.ans).writes = .opens s') :
    s'.grace = episodeAfter s.grace (checkOutcome P st.now st.req s st.ans) st.now := by
  unfold checkOutcome
  unfold proxy at h
  by_cases hw : whitelisted P st.req = true
  · simp [hw, jarAfter] at h ⊢; subst h; rfl
  · simp only [hw, Bool.false_eq_true, if_false] at h ⊢
    replace h : jarAfter (.opens s) (authenticate lower P st.now st.req.host (.opens s) st.ans).writes = .opens s' := by
      cases hres : (authenticate lower P st.now st.req.host (.opens s) st.ans).res <;> simpa [hres] using h
    unfold authenticate at h
    simp only at h
    by_cases h1 : s.slug ≠ P.slug
    · simp [h1, jarAfter] at h
    · by_cases h2 : st.req.host ≠ s.host
      · simp [h1, h2, jarAfter] at h
      · by_cases h3 : exp s.lifetime st.now = true
        · simp [h1, h2, h3, jarAfter] at h
        · have hpre : ¬ (s.slug ≠ P.slug ∨ st.req.host ≠ s.host ∨ exp s.lifetime st.now = true) := by
            simp only [not_or]; exact ⟨h1, h2, h3⟩
          simp only [h1, h2, h3, hpre, if_false] at h ⊢
          by_cases hr : exp s.refresh st.now = true
          · simp only [hr, if_true] at h ⊢
            have hiff := refreshSession_ok_iff P st.now s st.ans
            have heff := (C05_grace_step_effect P st.now s st.ans).1
            have hres := (C05_success_resets P st.now s st.ans).1
            rcases hrs : refreshSession P st.now s st.ans with ⟨s1, r, calls⟩
            rw [hrs] at h hiff heff hres
            cases r with
            | error e => simp [jarAfter] at h
            | ok b =>
              cases b with
              | false => simp [jarAfter] at h
              | true =>
                have hsome : (refreshWhy P st.now s st.ans).isSome = true := hiff.1 rfl
                have hs1 : s' = s1 := by
                  by_cases hv : requestValidators lower P s1 = true
                  · simp [hv, jarAfter] at h; exact h.symm
                  · simp [hv, jarAfter] at h
                subst hs1
                cases hwy : refreshWhy P st.now s st.ans with
                | none => rw [hwy] at hsome; simp at hsome
                | some w =>
                  cases w with
                  | confirmed => simp [episodeAfter]; exact hres hwy
                  | grace => simp [episodeAfter]; exact (heff hwy).1
          · simp only [hr, Bool.false_eq_true, if_false] at h ⊢
            by_cases hv0 : exp s.valid st.now = true
            · simp only [hv0, if_true] at h ⊢
              have hiff := validateSession_true_iff P st.now s st.ans
              have heff := (C05_grace_step_effect P st.now s st.ans).2
              have hres := (C05_success_resets P st.now s st.ans).2
              rcases hrs : validateSession P st.now s st.ans with ⟨s1, b, calls⟩
              rw [hrs] at h hiff heff hres
              cases b with
              | false => simp [jarAfter] at h
              | true =>
                have hsome : (validateWhy P st.now s st.ans).isSome = true := hiff.1 rfl
                have hs1 : s' = s1 := by
                  by_cases hv : requestValidators lower P s1 = true
                  · simp [hv, jarAfter] at h; exact h.symm
                  · simp [hv, jarAfter] at h
                subst hs1
                cases hwy : validateWhy P st.now s st.ans with
                | none => rw [hwy] at hsome; simp at hsome
                | some w =>
                  cases w with
                  | confirmed => simp [episodeAfter]; exact hres hwy
                  | grace => simp [episodeAfter]; exact (heff hwy).1
            · simp only [hv0, Bool.false_eq_true, if_false] at h ⊢
              by_cases hv : requestValidators lower P s = true
              · simp [hv, jarAfter] at h; subst h; rfl
              · simp [hv, jarAfter] at h

/-- a cookie that is absent or undecodable never turns into a session by being presented -/
theorem jar_stays_empty (lower : Bytes → Bytes) (P : Policy) (st : LStep) (c : CookieIn) (hc : ∀ s, c ≠ .opens s) (s' : Sess) :
    jarAfter c (proxy lower P st.now st.req c st.ans).writes ≠ .opens s' := by
  cases c with
  | opens s => exact absurd rfl (hc s)
  | absent => unfold proxy; split <;> simp [jarAfter, authenticate]
  | junk => unfold proxy; split <;> simp [jarAfter, authenticate]

/-- **Grace start = first failure of the current outage, along every history.** Start from any session whose grace
start agrees with the episode start (a fresh login: both unset). At every step of every linear history — any time gaps,
any answers at `/refresh`, `/validate`, `/profile` — the session presented carries, as its grace start, exactly the time of
the first grace-served check since the last confirmed one. -/
theorem C05_grace_start_is_first_failure (lower : Bytes → Bytes) (P : Policy) (c : CookieIn) (ep : Option Int) (sts : List LStep)
    (h0 : ∀ s, c = .opens s → s.grace = ep) :
    ∀ x ∈ runL lower P c ep sts, ∀ s, x.1 = .opens s → s.grace = x.2.1 := by
  induction sts generalizing c ep with
  | nil => intro x hx; simp [runL] at hx
  | cons st t ih =>
    intro x hx s hs
    simp only [runL, List.mem_cons] at hx
    rcases hx with rfl | hx
    · exact h0 s hs
    · refine ih _ _ ?_ x hx s hs
      intro s' hs'
      cases c with
      | opens s0 =>
        have := step_grace_is_episode lower P st s0 s' hs'
        rw [h0 s0 rfl] at this
        exact this
      | absent => exact absurd hs' (jar_stays_empty lower P st .absent (by intro s; simp) s')
      | junk => exact absurd hs' (jar_stays_empty lower P st .junk (by intro s; simp) s')

/-- **Bounded along every history.** A check that is let through under grace at time `now` happens strictly less than
the grace TTL after the first failure of the current outage *as the history defines it* (or is itself that first
failure) — however many requests, refreshes, revalidations and partial recoveries lie in between; with `G = 0` no check
is ever grace-served. -/
theorem C05_grace_bounded_history (lower : Bytes → Bytes) (P : Policy) (s0 : Sess) (sts : List LStep) (h0 : s0.grace = none) :
    ∀ x ∈ runL lower P (.opens s0) none sts, ∀ s, x.1 = .opens s →
      checkOutcome P x.2.2.now x.2.2.req s x.2.2.ans = .grace → x.2.2.now < x.2.1.getD x.2.2.now + P.G := by
  intro x hx s hs hg
  have hep := C05_grace_start_is_first_failure lower P (.opens s0) none sts (by intro s h; cases h; exact h0) x hx s hs
  have hwin : (withinGrace s P.G x.2.2.now).2 = true := by
    unfold checkOutcome at hg
    split at hg; · simp at hg
    split at hg; · simp at hg
    split at hg
    · cases hwy : refreshWhy P x.2.2.now s x.2.2.ans with
      | none => rw [hwy] at hg; simp at hg
      | some w => cases w with
        | confirmed => rw [hwy] at hg; simp at hg
        | grace => exact ((C05_grace_only_unavailable P x.2.2.now s x.2.2.ans).1 hwy).2
    · split at hg
      · cases hwy : validateWhy P x.2.2.now s x.2.2.ans with
        | none => rw [hwy] at hg; simp at hg
        | some w => cases w with
          | confirmed => rw [hwy] at hg; simp at hg
          | grace => exact ((C05_grace_only_unavailable P x.2.2.now s x.2.2.ans).2 hwy).2
      · simp at hg
  have := ((C05_grace_window s P.G x.2.2.now).1).1 hwin
  rw [hep] at this
  omega

/-! ### Non-vacuity -/
def exOut : Ans := { refresh := .status 503, validate := .status 503, profile := .status 503 }
-- first failure at t=150 stamps the start; served; at t=700 (< 150+600) still served with the same start; at t=760 refused
example : (proxy id exPol 150 exReq (.opens exSess) exOut).writes = [.save { exSess with valid := 210, grace := some 150 }] := by decide
example : (proxy id exPol 700 exReq (.opens { exSess with valid := 210, refresh := 2000, grace := some 150 }) exOut).outcome
    = .forward (some ⟨"a", [97, 64, 120], [], none⟩) := by decide
example : (proxy id exPol 760 exReq (.opens { exSess with valid := 210, grace := some 150 }) exOut).outcome = .errorPage 500 := by decide
example : (proxy id exPol 150 exReq (.opens exSess) { exOut with validate := .status 500 }).outcome = .errorPage 403 := by decide
-- a history: outage at 150 (first failure), still out at 400 and 700, back at 720 (episode ends), out again at 800 (fresh start)
def exLin : List LStep := [⟨150, exReq, exOut⟩, ⟨400, exReq, exOut⟩, ⟨700, exReq, exOut⟩, ⟨720, exReq, exAns⟩, ⟨800, exReq, exOut⟩]
example : (runL id exPol (.opens exSess) none exLin).map (·.2.1) = [none, some 150, some 150, some 150, none] := by decide
example : (runL id exPol (.opens exSess) none exLin).map (fun x => match x.1 with | .opens s => s.grace | _ => some (-1))
    = [none, some 150, some 150, some 150, none] := by decide
example : (runL id exPol (.opens exSess) none exLin).map (fun x => match x.1 with
    | .opens s => checkOutcome exPol x.2.2.now x.2.2.req s x.2.2.ans | _ => .noCheck) = [.grace, .grace, .grace, .confirmed, .grace] := by decide

/-- Tie (T1): the grace predicate (stamps the start on first use) and the deadline helpers — call/branch/store skeletons regenerated from the source on every run; the expectations below are
what the model in this file transliterates. A structural edit of any of these functions breaks this theorem and sends the
check searching for a failing input. -/
theorem C05_wiring :
    Sso.Generated.skel_sessions_IsWithinGracePeriod =
      ["call:IsZero", "if{", "call:Now", "store:s.GracePeriodStart", "}", "call:Now", "call:Add", "call:After", "return"] ∧
    Sso.Generated.skel_sessions_isExpired =
      ["call:Now", "call:Before", "if{", "return", "}", "return"] ∧
    Sso.Generated.skel_sessions_ExtendDeadline =
      ["call:Now", "call:Add", "call:Truncate", "return"] := by decide

/-! ### The history-defined episode start, spelled out -/

/-- the episode start after a whole list of (outcome, time) pairs -/
def epFold : Option Int → List (CheckOutcome × Int) → Option Int
  | ep, [] => ep
  | ep, (o, t) :: rest => epFold (episodeAfter ep o t) rest

/-- **What the history-defined episode start means.** If after a sequence of checks the episode start is `g`, then either it
was `g` before and every check since was grace-served or not due, or there is a point in the sequence where a check at time
`g` was grace-served *with no episode open*, and every check after it was grace-served or not due — no confirmation, no
refusal in between. -/
theorem episode_meaning (ep0 : Option Int) (l : List (CheckOutcome × Int)) (g : Int) (h : epFold ep0 l = some g) :
    (ep0 = some g ∧ ∀ x ∈ l, x.1 = .grace ∨ x.1 = .noCheck) ∨
    (∃ pre post, l = pre ++ (.grace, g) :: post ∧ epFold ep0 pre = none ∧ ∀ x ∈ post, x.1 = .grace ∨ x.1 = .noCheck) := by
  induction l generalizing ep0 with
  | nil => left; exact ⟨by simpa [epFold] using h, by simp⟩
  | cons x rest ih =>
    obtain ⟨o, t⟩ := x
    simp only [epFold] at h
    rcases ih _ h with ⟨h1, hall⟩ | ⟨pre, post, hl, hpre, hpost⟩
    · cases o with
      | noCheck =>
        left; refine ⟨by simpa [episodeAfter] using h1, ?_⟩
        intro y hy; simp only [List.mem_cons] at hy
        rcases hy with rfl | hy; · right; rfl
        exact hall y hy
      | grace =>
        cases hep : ep0 with
        | some g' =>
          left
          have : g' = g := by simpa [episodeAfter, hep] using h1
          subst this
          refine ⟨rfl, ?_⟩
          intro y hy; simp only [List.mem_cons] at hy
          rcases hy with rfl | hy; · left; rfl
          exact hall y hy
        | none =>
          right
          have : t = g := by simpa [episodeAfter, hep] using h1
          subst this
          exact ⟨[], rest, rfl, by simp [epFold], hall⟩
      | confirmed => simp [episodeAfter] at h1
      | refused => simp [episodeAfter] at h1
    · right
      exact ⟨(o, t) :: pre, post, by simp [hl], by simpa [epFold] using hpre, hpost⟩

/-- outcome and time of one executed step of a linear history -/
def outcomeOf (P : Policy) (x : CookieIn × Option Int × LStep) : CheckOutcome × Int :=
  (match x.1 with | .opens s => checkOutcome P x.2.2.now x.2.2.req s x.2.2.ans | _ => .noCheck, x.2.2.now)

/-- the episode component of `runL` at position `i` is the fold over the outcomes of the first `i` steps -/
theorem runL_episode (lower : Bytes → Bytes) (P : Policy) (c : CookieIn) (ep : Option Int) (sts : List LStep) (i : Nat)
    (x : CookieIn × Option Int × LStep) (hx : (runL lower P c ep sts)[i]? = some x) :
    x.2.1 = epFold ep (((runL lower P c ep sts).take i).map (outcomeOf P)) := by
  induction sts generalizing c ep i with
  | nil => simp [runL] at hx
  | cons st t ih =>
    cases i with
    | zero => simp [runL] at hx; subst hx; simp [epFold]
    | succ k =>
      simp only [runL, List.getElem?_cons_succ] at hx
      have := ih _ _ k hx
      simp only [runL, List.take_succ_cons, List.map_cons, epFold]
      rw [this]
      rfl

/-- **C05 along histories, spelled out.** Whenever a check is grace-served at step `i` of a linear history that began with a
fresh session, there is a step `j ≤ i` — the first failure of the current outage — that was itself grace-served with no
episode open, such that every step strictly between `j` and `i` was grace-served or needed no check (no confirmed check,
no refusal in between), and step `i` happens strictly less than the grace TTL after step `j`. -/
theorem C05_grace_counts_from_first_failure (lower : Bytes → Bytes) (P : Policy) (s0 : Sess) (sts : List LStep) (h0 : s0.grace = none)
    (i : Nat) (x : CookieIn × Option Int × LStep) (hx : (runL lower P (.opens s0) none sts)[i]? = some x)
    (hg : (outcomeOf P x).1 = .grace) :
    ∃ j, j ≤ i ∧ ∃ y, (runL lower P (.opens s0) none sts)[j]? = some y ∧ (outcomeOf P y).1 = .grace ∧
      x.2.2.now < y.2.2.now + P.G ∧
      ∀ k z, j < k → k < i → (runL lower P (.opens s0) none sts)[k]? = some z → (outcomeOf P z).1 = .grace ∨ (outcomeOf P z).1 = .noCheck := by
  have hmem : x ∈ runL lower P (.opens s0) none sts := List.mem_of_getElem? hx
  obtain ⟨s, hs⟩ : ∃ s, x.1 = .opens s := by
    unfold outcomeOf at hg
    cases hc : x.1 with
    | opens s => exact ⟨s, rfl⟩
    | absent => rw [hc] at hg; simp at hg
    | junk => rw [hc] at hg; simp at hg
  have hgs : checkOutcome P x.2.2.now x.2.2.req s x.2.2.ans = .grace := by
    unfold outcomeOf at hg; rw [hs] at hg; exact hg
  have hb := C05_grace_bounded_history lower P s0 sts h0 x hmem s hs hgs
  have hep := runL_episode lower P (.opens s0) none sts i x hx
  cases hxe : x.2.1 with
  | none =>
    -- this very step is the first failure
    refine ⟨i, Nat.le_refl _, x, hx, hg, ?_, ?_⟩
    · rw [hxe] at hb; simpa using hb
    · intro k z h1 h2; omega
  | some g =>
    rw [hxe] at hep hb
    rcases episode_meaning none _ g hep.symm with ⟨h, _⟩ | ⟨pre, post, hl, _, hpost⟩
    · cases h
    · -- the stamp step sits at index `pre.length` of the prefix
      let L := runL lower P (.opens s0) none sts
      have hlen : pre.length < i := by
        have : ((L.take i).map (outcomeOf P)).length = (pre ++ (CheckOutcome.grace, g) :: post).length := by rw [hl]
        simp at this
        have h2 : (L.take i).length ≤ i := List.length_take_le _ _
        omega
      have hj : ((L.take i).map (outcomeOf P))[pre.length]? = some (CheckOutcome.grace, g) := by
        rw [hl]; simp
      obtain ⟨y, hy, hyo⟩ : ∃ y, L[pre.length]? = some y ∧ outcomeOf P y = (.grace, g) := by
        have h1 : ((L.take i)[pre.length]?).map (outcomeOf P) = some (CheckOutcome.grace, g) := by
          rw [← List.getElem?_map]; exact hj
        have h2 : (L.take i)[pre.length]? = L[pre.length]? := by simp [List.getElem?_take, hlen]
        rw [h2] at h1
        cases hL : L[pre.length]? with
        | none => rw [hL] at h1; simp at h1
        | some y => rw [hL] at h1; simp at h1; exact ⟨y, rfl, h1⟩
      refine ⟨pre.length, Nat.le_of_lt hlen, y, hy, by simp [hyo], ?_, ?_⟩
      · have : y.2.2.now = g := by have := congrArg Prod.snd hyo; simpa [outcomeOf] using this
        rw [this]; simpa using hb
      · intro k z h1 h2 hz
        have hk : ((L.take i).map (outcomeOf P))[k]? = some (outcomeOf P z) := by
          have e1 : (L.take i)[k]? = L[k]? := by simp [List.getElem?_take, h2]
          rw [List.getElem?_map, e1]
          show Option.map (outcomeOf P) (L[k]?) = _
          rw [show L[k]? = some z from hz]; rfl
        rw [hl] at hk
        have : (post)[k - pre.length - 1]? = some (outcomeOf P z) := by
          rw [List.getElem?_append_right (by omega)] at hk
          have : k - pre.length = (k - pre.length - 1) + 1 := by omega
          rw [this, List.getElem?_cons_succ] at hk
          exact hk
        exact hpost _ (List.mem_of_getElem? this)


/-- Tie (T1), second wave: helpers, stores and second callers on this property's path (sso_isProviderUnavailable) — call/branch/store skeletons
regenerated from the source on every run against the expectations frozen here. -/
theorem C05_wiring2 :
    Sso.Generated.skel_sso_isProviderUnavailable =
      ["return"] := by decide

/-- Tie (T1): the decoder tags of sso-proxy's configuration structs (`internal/proxy/configuration.go`) — the names under which the environment and the files reach each setting this
property depends on (TTLs, cookie flags, client credentials, root domains, allow rules …). A tag that changes re-routes or drops a
setting without any code noticing. -/
theorem C05_tags_proxyConfigTags : Sso.Generated.proxyConfigTags =
    ["Configuration.ServerConfig mapstructure:\"server\"", "Configuration.ProviderConfig mapstructure:\"provider\"", "Configuration.ClientConfig mapstructure:\"client\"", "Configuration.SessionConfig mapstructure:\"session\"", "Configuration.UpstreamConfigs mapstructure:\"upstream\"", "Configuration.MetricsConfig mapstructure:\"metrics\"", "Configuration.LoggingConfig mapstructure:\"logging\"", "Configuration.RequestSignerConfig mapstructure:\"requestsigner\"", "ProviderConfig.ProviderType mapstructure:\"type\"", "ProviderConfig.Scope mapstructure:\"scope\"", "ProviderConfig.ProviderURLConfig mapstructure:\"url\"", "ProviderURLConfig.External mapstructure:\"external\"", "ProviderURLConfig.Internal mapstructure:\"internal\"", "SessionConfig.CookieConfig mapstructure:\"cookie\"", "SessionConfig.TTLConfig mapstructure:\"ttl\"", "CookieConfig.Name mapstructure:\"name\"", "CookieConfig.Secret mapstructure:\"secret\"", "CookieConfig.Expire mapstructure:\"expire\"", "CookieConfig.Domain mapstructure:\"domain\"", "CookieConfig.Secure mapstructure:\"secure\"", "CookieConfig.HTTPOnly mapstructure:\"httponly\"", "TTLConfig.Lifetime mapstructure:\"lifetime\"", "TTLConfig.Valid mapstructure:\"valid\"", "TTLConfig.GracePeriod mapstructre:\"grace_period\"", "ClientConfig.ID mapstructure:\"id\"", "ClientConfig.Secret mapstructure:\"secret\"", "ServerConfig.Port mapstructure:\"port\"", "ServerConfig.TimeoutConfig mapstructure:\"timeout\"", "TimeoutConfig.Write mapstructure:\"write\"", "TimeoutConfig.Read mapstructure:\"read\"", "TimeoutConfig.Shutdown mapstructure:\"shutdown\"", "MetricsConfig.StatsdConfig mapstructure:\"statsd\"", "StatsdConfig.Port mapstructure:\"port\"", "StatsdConfig.Host mapstructure:\"host\"", "LoggingConfig.Enable mapstructure:\"enable\"", "UpstreamConfigs.DefaultConfig mapstructure:\"default\"", "UpstreamConfigs.ConfigsFile mapstructure:\"configfile\"", "UpstreamConfigs.testTemplateVars ", "UpstreamConfigs.upstreamConfigs ", "UpstreamConfigs.Cluster mapstructure:\"cluster\"", "UpstreamConfigs.Scheme mapstructure:\"scheme\"", "DefaultConfig.EmailConfig mapstructure:\"email\"", "DefaultConfig.AllowedGroups mapstructure:\"groups\"", "DefaultConfig.ProviderSlug mapstructure:\"provider\"", "DefaultConfig.Timeout mapstructure:\"timeout\"", "DefaultConfig.ResetDeadline mapstructure:\"resetdeadline\"", "EmailConfig.AllowedDomains mapstructure:\"domains\"", "EmailConfig.AllowedAddresses mapstructure:\"addresses\"", "RequestSignerConfig.Key mapstructure:\"key\""] := by decide

/-- Tie (T1), third wave: the constructors and option functions that hand configured values to the components this property
speaks about (proxy_newProvider). -/
theorem C05_wiring3 :
    Sso.Generated.skel_proxy_newProvider =
      ["call:Parse", "if{", "return", "}", "if{", "call:Parse", "if{", "return", "}", "}", "call:New", "call:NewSingleFlightProvider", "return"] := by decide

end Sso.Proxy
