import Generated.Facts
import SsoSpec.C03

/-!
# C12 — forwarded requests carry signatures that verify over what the upstream received

The RSA-PKCS1v15/SHA-256 and HMAC-SHA256 primitives are idealised: a signature made over document `d` verifies over
`d'` iff `d = d'` (EUF-CMA / PRF assumptions; the real signatures are verified by the harness backend with the real
published key). What is proved here is everything around them: which document is signed, that the forwarding pipeline
preserves every component of it (under the hypotheses the proof forces, each an open finding), and that the document
determines its URL and body.
-/
namespace Sso.Forward
open Sso.Harden

/-- Tie (T1): both services of the proxy agree on the covered header list, in the same order, and none of them is a
hop-by-hop header; the signing middleware applies HMAC then RSA; `kid` is derived from the published key. -/
theorem C12_covered_headers :
    Sso.Generated.signedHeaders = Sso.Generated.signatureHeaders ∧
    Sso.Generated.signedHeaders = ["Content-Length", "Content-Md5", "Content-Type", "Date", "Authorization", "X-Forwarded-User",
      "X-Forwarded-Email", "X-Forwarded-Groups", "X-Forwarded-Access-Token", "Cookie"] ∧
    (∀ k ∈ Sso.Generated.signedHeaders, k ∉ hopHeaders) ∧
    Sso.Generated.skel_proxy_newSigningHandler =
      ["func{", "if{", "call:SignRequest", "}", "if{", "call:Sign", "}", "call:ServeHTTP", "}", "call:HandlerFunc", "return"] := by decide

/-- the signing document depends on the header multimap only through the covered headers -/
theorem canonHeaders_congr (covered : List String) (h₁ h₂ : HMap) (h : ∀ k ∈ covered, hget h₁ k = hget h₂ k) :
    canonHeaders covered h₁ = canonHeaders covered h₂ := by
  unfold canonHeaders
  induction covered with
  | nil => rfl
  | cons k t ih =>
    simp only [List.filterMap_cons]
    rw [h k List.mem_cons_self, ih (fun k' hk' => h k' (List.mem_cons_of_mem _ hk'))]

/-- **Received document = signed document**: the reverse proxy's header editing leaves every covered header exactly as it
was signed, provided the client's `Connection` header nominates no covered header (hypothesis forced by the proof: finding
`connection-nominated-covered`); with path, query and body untouched (bare-host `to`, transport framing aside) the
document the upstream rebuilds is the one that was signed. -/
theorem C12_partial_received_canon_eq_signed (covered conn : List String) (signed : HMap) (path query frag body : String)
    (hhop : ∀ k ∈ covered, k ∉ hopHeaders) (hconn : ∀ k ∈ covered, k ∉ conn) :
    canonRSA covered (stripHop conn signed) path query frag body = canonRSA covered signed path query frag body := by
  unfold canonRSA
  rw [canonHeaders_congr covered (stripHop conn signed) signed]
  intro k hk
  unfold stripHop
  rw [hget_foldl_hdel_not_mem hopHeaders _ k (hhop k hk), hget_foldl_hdel_not_mem conn _ k (hconn k hk)]

/-- **What the upstream rebuilds is the signed document minus exactly the nominated lines** (full strength, any
`Connection` token list): the header part of the received document equals the signed one computed over the covered
headers the client's `Connection` header did not nominate. A client can make a verifier see a *shorter* document (the open
finding), never one in which a covered header has a different value. -/
theorem C12_received_headers_are_signed_minus_nominated (covered conn : List String) (signed : HMap)
    (hhop : ∀ k ∈ covered, k ∉ hopHeaders) :
    canonHeaders covered (stripHop conn signed) = canonHeaders (covered.filter (fun k => decide (k ∉ conn))) signed := by
  unfold canonHeaders
  induction covered with
  | nil => rfl
  | cons k t ih =>
    have iht := ih (fun k' hk' => hhop k' (List.mem_cons_of_mem _ hk'))
    have hk : k ∉ hopHeaders := hhop k List.mem_cons_self
    simp only [List.filterMap_cons, List.filter_cons]
    by_cases hc : k ∈ conn
    · have e : hget (stripHop conn signed) k = [] := by
        unfold stripHop
        rw [hget_foldl_hdel_not_mem hopHeaders _ k hk]
        exact hget_foldl_hdel_mem conn _ k hc
      simp only [e, nonEmpty, List.filter_nil, if_true, hc, not_true_eq_false, decide_false, Bool.false_eq_true, if_false]
      exact iht
    · have e : hget (stripHop conn signed) k = hget signed k := by
        unfold stripHop
        rw [hget_foldl_hdel_not_mem hopHeaders _ k hk, hget_foldl_hdel_not_mem conn _ k hc]
      simp only [e, hc, not_false_eq_true, decide_true, if_true, List.filterMap_cons]
      rw [iht]
example : canonHeaders ["Authorization", "Date"] (stripHop ["Authorization"] [("Authorization", ["Bearer x"]), ("Date", ["d"])]) = ["d"] := by decide

/-- without that hypothesis the documents differ: a nominated covered header is signed, then stripped -/
theorem C12_connection_refuted :
    canonRSA ["Authorization"] (stripHop ["Authorization"] [("Authorization", ["Bearer x"])]) "/" "" "" "" ≠
    canonRSA ["Authorization"] [("Authorization", ["Bearer x"])] "/" "" "" "" := by decide

theorem joinNL_snoc_inj (pre : List String) (a b : String) (h : joinNL (pre ++ [a]) = joinNL (pre ++ [b])) : a = b := by
  induction pre with
  | nil => simpa [joinNL] using h
  | cons x t ih =>
    cases t with
    | nil =>
      simp only [List.cons_append, List.nil_append, joinNL] at h
      exact (String.append_right_inj _).1 h
    | cons y u =>
      simp only [List.cons_append, joinNL] at h
      exact ih ((String.append_right_inj _).1 h)

/-- **Changing the body invalidates the signature**: with headers and URL fixed the document determines the body
(no assumption on the body's bytes — it is the last entry). -/
theorem C12_body_determined (covered : List String) (h : HMap) (path query frag b₁ b₂ : String)
    (he : canonRSA covered h path query frag b₁ = canonRSA covered h path query frag b₂) : b₁ = b₂ := by
  unfold canonRSA at he
  have : ∀ b, canonHeaders covered h ++ [canonURL path query frag, b] = (canonHeaders covered h ++ [canonURL path query frag]) ++ [b] := by
    intro b; simp
  rw [this b₁, this b₂] at he
  exact joinNL_snoc_inj _ _ _ he

theorem joinNL_two_inj (pre : List String) (u₁ u₂ body : String)
    (he : joinNL (pre ++ [u₁, body]) = joinNL (pre ++ [u₂, body])) : u₁ = u₂ := by
  have two : ∀ u, joinNL [u, body] = u ++ "\n" ++ body := fun u => rfl
  induction pre with
  | nil =>
    have he' : joinNL [u₁, body] = joinNL [u₂, body] := he
    rw [two, two] at he'
    exact (String.append_left_inj "\n").1 ((String.append_left_inj body).1 he')
  | cons x t ih =>
    cases t with
    | nil =>
      have he' : joinNL [x, u₁, body] = joinNL [x, u₂, body] := he
      have e : ∀ u, joinNL [x, u, body] = x ++ "\n" ++ joinNL [u, body] := fun u => rfl
      rw [e, e] at he'
      exact ih ((String.append_right_inj _).1 he')
    | cons y u =>
      have e : ∀ w, joinNL (x :: y :: u ++ [w, body]) = x ++ "\n" ++ joinNL (y :: u ++ [w, body]) := fun w => rfl
      have he' : joinNL (x :: y :: u ++ [u₁, body]) = joinNL (x :: y :: u ++ [u₂, body]) := he
      rw [e, e] at he'
      exact ih ((String.append_right_inj _).1 he')

/-- … and with headers and body fixed it determines the URL entry (path?query#fragment). -/
theorem C12_url_determined (covered : List String) (h : HMap) (u₁ u₂ body : String)
    (he : joinNL (canonHeaders covered h ++ [u₁, body]) = joinNL (canonHeaders covered h ++ [u₂, body])) : u₁ = u₂ :=
  joinNL_two_inj _ u₁ u₂ body he

/-- The entries of the document are *positional and unnamed*: moving a value from one covered header to the next keeps
the document — an honest limit of the format (recorded, not a finding of this property's statement, which fixes the
other components while one changes). -/
theorem C12_canon_not_injective_across_headers :
    canonRSA ["Content-Type", "Date"] [("Content-Type", ["x"])] "/" "" "" "" =
    canonRSA ["Content-Type", "Date"] [("Date", ["x"])] "/" "" "" "" := by decide

/-- Changing the value list of one covered header (others, URL, body fixed) changes that header's entry. -/
theorem C12_header_entry_determined (k : String) (vs₁ vs₂ : List String) (h₁ h₂ : HMap)
    (e₁ : hget h₁ k = vs₁) (e₂ : hget h₂ k = vs₂) (hne : ",".intercalate (nonEmpty vs₁) ≠ ",".intercalate (nonEmpty vs₂))
    (hn₁ : nonEmpty vs₁ ≠ []) (hn₂ : nonEmpty vs₂ ≠ []) :
    canonHeaders [k] h₁ ≠ canonHeaders [k] h₂ := by
  simp [canonHeaders, e₁, e₂, hn₁, hn₂, hne]

/-! ### Non-vacuity -/
example : canonRSA ["Content-Type", "Cookie"] [("Content-Type", ["a/b", ""]), ("Cookie", ["x=1;y=2"])] "/p" "q=1" "" "body"
    = "a/b\nx=1;y=2\n/p?q=1\nbody" := by decide

/-- Tie (T1): `mapRequestToHashInput` reads the body once (`ReadAll`) into a buffer of its own and hands the request a
reader over it (`NewBuffer`, `NopCloser`, `store:req.Body`) — no pooled or shared storage between requests. -/
theorem C12_skeleton_mapRequestToHashInput : Sso.Generated.skel_proxy_mapRequestToHashInput =
    ["range{", "call:removeEmpty", "call:len", "if{", "call:Join", "call:append", "}", "}", "func{", "call:len", "if{", "}", "call:len", "if{", "}", "return", "}", "call:funclit", "call:append", "if{", "call:ReadAll", "call:NewBuffer", "call:NopCloser", "store:req.Body", "call:string", "call:append", "}", "call:Join", "return"] := by decide

/-- Tie (T1): the signer — call/branch/store skeletons regenerated from the source on every run; the expectations below are
what the model in this file transliterates. A structural edit of any of these functions breaks this theorem and sends the
check searching for a failing input. -/
theorem C12_wiring :
    Sso.Generated.skel_signer_Sign =
      ["call:mapRequestToHashInput", "if{", "call:Errorf", "return", "}", "call:newHasher", "call:Reset", "call:?", "call:Write", "call:Sum", "call:Sign", "if{", "call:Errorf", "return", "}", "call:EncodeToString", "call:Set", "call:Set", "return"] ∧
    Sso.Generated.skel_signer_removeEmpty =
      ["range{", "call:len", "if{", "call:append", "}", "}", "return"] := by decide

/-- Tie (T1): the per-upstream HMAC key reaches the signer as configured: `parseEnvironment` keeps everything after the first `=`. -/
theorem C12_signing_key_env : Sso.Generated.skel_proxy_parseEnvironment =
    ["call:make", "call:len", "if{", "return", "}", "range{", "call:HasPrefix", "if{", "continue", "}", "call:SplitN", "call:TrimPrefix", "call:ToLower", "store:env[]", "}", "return"] := by decide

/-- Tie (T1), second wave: helpers, stores and second callers on this property's path (cfg_generateHmacAuth, proxy_upstreamTransport_RoundTrip) — call/branch/store skeletons
regenerated from the source on every run against the expectations frozen here. -/
theorem C12_wiring2 :
    Sso.Generated.skel_cfg_generateHmacAuth =
      ["call:Split", "call:len", "if{", "call:Errorf", "return", "}", "call:DigestNameToCryptoHash", "if{", "call:Errorf", "return", "}", "call:?", "call:NewHmacAuth", "return"] ∧
    Sso.Generated.skel_proxy_upstreamTransport_RoundTrip =
      ["call:getTransport", "call:RoundTrip", "if{", "return", "}", "return"] := by decide

/-- Tie (T1), third wave: the constructors and option functions that hand configured values to the components this property
speaks about (proxy_SetRequestSigner, signer_NewRequestSigner, signer_PublicKey). -/
theorem C12_wiring3 :
    Sso.Generated.skel_proxy_SetRequestSigner =
      ["func{", "if{", "return", "}", "call:make", "call:PublicKey", "store:certs[]", "call:MarshalIndent", "if{", "call:Errorf", "return", "}", "store:op.requestSigner", "store:op.publicCertsJSON", "return", "}", "return"] ∧
    Sso.Generated.skel_signer_NewRequestSigner =
      ["call:?", "call:Decode", "if{", "call:Errorf", "return", "}", "call:ParsePKCS8PrivateKey", "if{", "call:Errorf", "return", "}", "call:Public", "if{", "call:Errorf", "return", "}", "call:MarshalPKCS1PublicKey", "call:EncodeToMemory", "call:New", "call:Write", "call:Sum", "func{", "call:New", "return", "}", "call:string", "call:EncodeToString", "return"] ∧
    Sso.Generated.skel_signer_PublicKey =
      ["return"] := by decide

/-- Tie (T1): the transport to the upstreams — exactly these fields of `http.Transport` are set (no `ForceAttemptHTTP2`, no
custom `DialTLS`): requests reach an upstream with HTTP/1.1 framing, the framing the signing document, the `Cookie` rendering and the
forward engine's recording backend are written for. -/
theorem C12_upstream_transport :
    Sso.Generated.upstreamTransportFields =
      ["Proxy,DialContext,MaxIdleConns,IdleConnTimeout,TLSHandshakeTimeout,TLSClientConfig,ExpectContinueTimeout"] ∧
    Sso.Generated.skel_proxy_getTransport =
      ["call:Lock", "defer:Unlock", "call:Now", "call:After", "if{", "call:Now", "call:Add", "store:t.deadAfter", "store:t.transport", "}", "return"] ∧
    Sso.Generated.upstreamDialerFields =
      ["Timeout,KeepAlive,DualStack"] := by decide

end Sso.Forward
