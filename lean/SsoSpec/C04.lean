import Generated.Facts
import SsoSpec.C01

/-!
# C04 — sessions end: hard lifetime bound, periodic revalidation, effective revocation
-/
namespace Sso.Proxy
open Sso.Validators

def saves : List CookieWrite → List Sess
  | [] => []
  | .save s :: t => s :: saves t
  | .clear :: t => saves t

/-- Whatever `Authenticate` re-seals has the identity **and lifetime deadline** of the session that was presented:
no refresh, revalidation or grace episode moves the lifetime. -/
theorem C04_checks_keep_lifetime (lower : Bytes → Bytes) (P : Policy) (now : Int) (host : String) (s : Sess) (a : Ans) :
    ∀ s' ∈ saves (authenticate lower P now host (.opens s) a).writes, sameIdentity s s' := by
  unfold authenticate
  simp only
  by_cases h1 : s.slug ≠ P.slug
  · simp [h1, saves]
  · by_cases h2 : host ≠ s.host
    · simp [h1, h2, saves]
    · by_cases h3 : exp s.lifetime now = true
      · simp [h1, h2, h3, saves]
      · simp only [h1, h2, h3, if_false]
        by_cases hr : exp s.refresh now = true
        · simp only [hr, if_true]
          have hf := (refreshSession_frame P now s a).1
          rcases hrs : refreshSession P now s a with ⟨s', r, calls⟩
          rw [hrs] at hf
          cases r with
          | error e => simp [saves]
          | ok b =>
            cases b with
            | false => simp [saves]
            | true =>
              by_cases hv : requestValidators lower P s' = true <;> simp [hv, saves] <;> exact hf
        · simp only [hr]
          by_cases hv0 : exp s.valid now = true
          · simp only [hv0, if_true, Bool.false_eq_true, if_false]
            have hf := (validateSession_frame P now s a).1
            rcases hrs : validateSession P now s a with ⟨s', b, calls⟩
            rw [hrs] at hf
            cases b with
            | false => simp [saves]
            | true => by_cases hv : requestValidators lower P s' = true <;> simp [hv, saves] <;> exact hf
          · by_cases hv : requestValidators lower P s = true <;> simp [hv0, hv, saves]

theorem saves_absent_junk (lower : Bytes → Bytes) (P : Policy) (now : Int) (host : String) (a : Ans) :
    saves (authenticate lower P now host .absent a).writes = [] ∧ saves (authenticate lower P now host .junk a).writes = [] := by
  simp [authenticate, saves]

/-! ### histories -/

/-- One browser's history: the login session and everything re-sealed since (newest first). The client may present
*any* of them at any time (replays of older cookies included), or nothing, or garbage. -/
structure World where
  root : Sess
  issued : List Sess

inductive Presented where
  | nth (i : Nat)       -- the i-th most recent sealed session (0 = newest), the root if `i` is out of range
  | none
  | garbage

def World.cookie (w : World) : Presented → CookieIn
  | .nth i => .opens ((w.issued ++ [w.root])[i]?.getD w.root)
  | .none => .absent
  | .garbage => .junk

structure Step where
  now : Int
  req : ReqIn
  presented : Presented
  ans : Ans

def stepW (lower : Bytes → Bytes) (P : Policy) (w : World) (st : Step) : World × HandlerOut :=
  let o := proxy lower P st.now st.req (w.cookie st.presented) st.ans
  ({ w with issued := saves o.writes ++ w.issued }, o)

def runW (lower : Bytes → Bytes) (P : Policy) (w : World) : List Step → World × List HandlerOut
  | [] => (w, [])
  | st :: t =>
    let (w', o) := stepW lower P w st
    let (w'', os) := runW lower P w' t
    (w'', o :: os)

def WInv (w : World) : Prop := ∀ s ∈ w.issued, sameIdentity w.root s

theorem cookie_identity (w : World) (hw : WInv w) (p : Presented) (s : Sess) (h : w.cookie p = .opens s) :
    sameIdentity w.root s := by
  cases p with
  | none => simp [World.cookie] at h
  | garbage => simp [World.cookie] at h
  | nth i =>
    simp only [World.cookie, CookieIn.opens.injEq] at h
    cases hg : (w.issued ++ [w.root])[i]? with
    | none => rw [hg] at h; simp at h; subst h; exact sameIdentity_refl _
    | some x =>
      rw [hg] at h; simp at h; subst h
      have := List.mem_of_getElem? hg
      rcases List.mem_append.1 this with h1 | h1
      · exact hw _ h1
      · simp at h1; subst h1; exact sameIdentity_refl _

theorem sameIdentity_trans {a b c : Sess} (h1 : sameIdentity a b) (h2 : sameIdentity b c) : sameIdentity a c := by
  unfold sameIdentity at *; simp_all

theorem proxy_saves_identity (lower : Bytes → Bytes) (P : Policy) (now : Int) (r : ReqIn) (s : Sess) (a : Ans) :
    ∀ s' ∈ saves (proxy lower P now r (.opens s) a).writes, sameIdentity s s' := by
  unfold proxy
  by_cases hw : whitelisted P r = true
  · simp [hw, saves]
  · simp only [hw, Bool.false_eq_true, if_false]
    have := C04_checks_keep_lifetime lower P now r.host s a
    cases hres : (authenticate lower P now r.host (.opens s) a).res <;> simpa using this

theorem stepW_inv (lower : Bytes → Bytes) (P : Policy) (w : World) (st : Step) (hw : WInv w) : WInv (stepW lower P w st).1 := by
  intro s hs
  simp only [stepW, List.mem_append] at hs
  rcases hs with hs | hs
  · cases hc : w.cookie st.presented with
    | absent => rw [hc] at hs; unfold proxy at hs; split at hs <;> simp [saves, authenticate] at hs
    | junk => rw [hc] at hs; unfold proxy at hs; split at hs <;> simp [saves, authenticate] at hs
    | opens s0 =>
      rw [hc] at hs
      exact sameIdentity_trans (cookie_identity w hw _ s0 hc) (proxy_saves_identity lower P st.now st.req s0 st.ans s hs)
  · exact hw s hs

theorem runW_inv (lower : Bytes → Bytes) (P : Policy) (w : World) (sts : List Step) (hw : WInv w) :
    WInv (runW lower P w sts).1 ∧
    ∀ p ∈ (sts.zip (runW lower P w sts).2), ∀ id, p.2.outcome = .forward (some id) → p.1.now ≤ w.root.lifetime := by
  induction sts generalizing w with
  | nil => simp [runW]; exact hw
  | cons st t ih =>
    have h1 := stepW_inv lower P w st hw
    have ih' := ih (stepW lower P w st).1 h1
    simp only [runW]
    refine ⟨ih'.1, ?_⟩
    intro p hp id hf
    simp only [List.zip_cons_cons, List.mem_cons] at hp
    rcases hp with rfl | hp
    · simp only [stepW] at hf
      rcases C01_forward_sound lower P st.now st.req _ st.ans (some id) hf with ⟨_, h⟩ | ⟨_, s, hc, _, _, hl, _⟩
      · cases h
      · have := cookie_identity w hw _ s hc
        have hlt : ¬ s.lifetime < st.now := by simpa [exp] using hl
        have : w.root.lifetime = s.lifetime := this.2.2.2.2.1
        show st.now ≤ w.root.lifetime
        omega
    · have := ih'.2 p hp id hf
      have hr : (stepW lower P w st).1.root = w.root := rfl
      rw [hr] at this; exact this

/-- **Hard lifetime bound.** Along every history of requests that starts from a login at `t₀` — any time gaps, any
authenticator answers, any refreshes, revalidations, grace episodes, replays of older cookies of the chain — every
request that reaches the upstream as an authenticated request happens no later than `t₀ + L`. -/
theorem C04_lifetime_bound (lower : Bytes → Bytes) (P : Policy) (t0 : Int) (host : String) (rd : Redeemed) (gs : List String)
    (sts : List Step) :
    ∀ p ∈ sts.zip (runW lower P ⟨mintSession P t0 host rd gs, []⟩ sts).2, ∀ id,
      p.2.outcome = .forward (some id) → p.1.now ≤ t0 + P.L := by
  have := (runW_inv lower P ⟨mintSession P t0 host rd gs, []⟩ sts (by intro s hs; cases hs)).2
  simpa [mintSession] using this

/-- … and no step of any history ever seals a session with a later lifetime deadline (nor another host, user or provider). -/
theorem C04_lifetime_never_moves (lower : Bytes → Bytes) (P : Policy) (w : World) (sts : List Step) (hw : WInv w) :
    ∀ s ∈ (runW lower P w sts).1.issued, s.lifetime = w.root.lifetime ∧ s.host = w.root.host ∧ s.email = w.root.email := by
  intro s hs
  have := (runW_inv lower P w sts hw).1 s hs
  have hr : ∀ (w : World) (sts : List Step), (runW lower P w sts).1.root = w.root := by
    intro w sts
    induction sts generalizing w with
    | nil => rfl
    | cons st t ih => simp only [runW]; rw [ih]; rfl
  rw [hr] at this
  exact ⟨this.2.2.2.2.1.symm, this.2.1.symm, this.2.2.1.symm⟩

/-- **Due means checked.** A request served from a session whose refresh (or validity) deadline has passed was
served only after the authenticator confirmed it — `/refresh` 201 (resp. `/validate` 200) and the group question answered
positively — or under the outage grace of C05. -/
theorem C04_due_means_checked (lower : Bytes → Bytes) (P : Policy) (now : Int) (r : ReqIn) (s : Sess) (a : Ans) (id : Identity)
    (h : (proxy lower P now r (.opens s) a).outcome = .forward (some id)) :
    (exp s.refresh now = true → (refreshWhy P now s a).isSome = true) ∧
    (exp s.refresh now = false → exp s.valid now = true → (validateWhy P now s a).isSome = true) := by
  rcases C01_forward_sound lower P now r _ a (some id) h with ⟨_, h⟩ | ⟨_, s', hc, _, _, _, hd, _⟩
  · cases h
  · cases hc; exact hd

/-- **Effective revocation.** If a check is due and the authenticator denies — token invalid/revoked, user left the
groups, transport error, malformed body; anything that is not a confirmation or an unavailable-within-grace — the
request is refused, the upstream is not reached and the cookie is cleared. -/
theorem C04_denied_refuses (lower : Bytes → Bytes) (P : Policy) (now : Int) (r : ReqIn) (s : Sess) (a : Ans)
    (hw : whitelisted P r = false)
    (hdue : (exp s.refresh now = true ∧ refreshWhy P now s a = none) ∨
            (exp s.refresh now = false ∧ exp s.valid now = true ∧ validateWhy P now s a = none)) :
    (∀ id, (proxy lower P now r (.opens s) a).outcome ≠ .forward id) ∧
    (proxy lower P now r (.opens s) a).writes.getLast? = some .clear := by
  have nf : ∀ id, (proxy lower P now r (.opens s) a).outcome ≠ .forward id := by
    intro id h
    rcases C01_forward_sound lower P now r _ a id h with ⟨h1, _⟩ | ⟨_, s', hc, _, _, _, hd, _⟩
    · simp [hw] at h1
    · cases hc
      rcases hdue with ⟨h1, h2⟩ | ⟨h1, h2, h3⟩
      · have := hd.1 h1; simp [h2] at this
      · have := hd.2 h1 h2; simp [h3] at this
  refine ⟨nf, ?_⟩
  unfold proxy at nf ⊢
  simp only [hw, Bool.false_eq_true, if_false] at nf ⊢
  cases hres : (authenticate lower P now r.host (.opens s) a).res with
  | ok id => rw [hres] at nf; exact absurd rfl (nf (some id))
  | error e => simp only; exact C01_refused_clears lower P now r.host _ a e hres

/-- Validity provenance: a re-sealed session's validity deadline is `now + V` (stamped by the check that just
succeeded) or unchanged; its refresh deadline is the new token's expiry, `now + V` (grace), or unchanged. -/
theorem C04_valid_provenance (P : Policy) (now : Int) (s : Sess) (a : Ans) :
    ((validateSession P now s a).2.1 = true → (validateSession P now s a).1.valid = now + P.V) ∧
    (refreshSession P now s a).1.valid = s.valid := by
  refine ⟨?_, (refreshSession_frame P now s a).2⟩
  unfold validateSession
  cases a.validate with
  | transport => simp
  | status n => by_cases hu : unavailable n = true <;> by_cases hg : (withinGrace s P.G now).2 = true <;> simp [hu, hg]
  | malformed =>
    simp only
    rcases validateGroup P.allowedGroups a with ⟨g, c⟩
    cases g with
    | unavail => by_cases hg : (withinGrace s P.G now).2 = true <;> simp [hg]
    | err => simp
    | ok ig v => cases v <;> simp
  | ok u =>
    simp only
    rcases validateGroup P.allowedGroups a with ⟨g, c⟩
    cases g with
    | unavail => by_cases hg : (withinGrace s P.G now).2 = true <;> simp [hg]
    | err => simp
    | ok ig v => cases v <;> simp

/-! ### Non-vacuity: a history with a replayed old cookie -/
def exHist : List Step :=
  [⟨50, exReq, .nth 0, exAns⟩, ⟨150, exReq, .nth 0, exAns⟩, ⟨900, exReq, .nth 1, exAns⟩, ⟨1001, exReq, .nth 0, exAns⟩]
example : (runW id exPol ⟨exSess, []⟩ exHist).2.map (·.outcome) =
    [.forward (some ⟨"a", [97, 64, 120], [], none⟩), .forward (some ⟨"a", [97, 64, 120], [], none⟩),
     .errorPage 500, .startOAuth] := by decide

/-- Tie (T1): the proxy coalesces concurrent revalidations **by access token** and refreshes **by refresh token**
(key expressions regenerated from `SingleFlightProvider`), so — by C16's key injectivity — a due check is merged only into
a provider call made with the session's *own* token: a revoked token is never vouched for by another session of the user. -/
theorem C04_checks_keyed_by_token :
    Sso.Generated.sf_keys_proxy.lookup "ValidateSessionState" = some "s.AccessToken" ∧
    Sso.Generated.sf_keys_proxy.lookup "RefreshSession" = some "s.RefreshToken" := by decide

/-- Tie (T1): the provider client's three checks — call/branch/store skeletons regenerated from the source on every run; the expectations below are
what the model in this file transliterates. A structural edit of any of these functions breaks this theorem and sends the
check searching for a failing input. -/
theorem C04_wiring :
    Sso.Generated.skel_sso_RefreshSession =
      ["if{", "return", "}", "call:redeemRefreshToken", "if{", "call:IsWithinGracePeriod", "if{", "call:ExtendDeadline", "store:s.RefreshDeadline", "return", "}", "return", "}", "call:ValidateGroup", "if{", "call:IsWithinGracePeriod", "if{", "call:ExtendDeadline", "store:s.RefreshDeadline", "return", "}", "return", "}", "if{", "call:New", "return", "}", "store:s.Groups", "store:s.AccessToken", "call:ExtendDeadline", "store:s.RefreshDeadline", "store:s.GracePeriodStart", "return"] ∧
    Sso.Generated.skel_sso_ValidateSessionState =
      ["call:Add", "call:String", "call:Encode", "call:Sprintf", "call:newRequest", "if{", "return", "}", "call:Set", "call:Set", "call:Do", "if{", "return", "}", "if{", "call:isProviderUnavailable", "call:IsWithinGracePeriod", "if{", "call:ExtendDeadline", "store:s.ValidDeadline", "return", "}", "return", "}", "call:ValidateGroup", "if{", "call:IsWithinGracePeriod", "if{", "call:ExtendDeadline", "store:s.ValidDeadline", "return", "}", "return", "}", "if{", "return", "}", "store:s.Groups", "call:ExtendDeadline", "store:s.ValidDeadline", "store:s.GracePeriodStart", "return"] ∧
    Sso.Generated.skel_sso_ValidateGroup =
      ["call:len", "call:len", "if{", "return", "}", "call:UserGroups", "if{", "return", "}", "range{", "range{", "if{", "call:append", "}", "}", "}", "return"] ∧
    Sso.Generated.skel_sso_redeemRefreshToken =
      ["call:Add", "call:Add", "call:Add", "call:String", "call:Encode", "call:NewBufferString", "call:newRequest", "if{", "return", "}", "call:Set", "call:Do", "if{", "return", "}", "call:ReadAll", "call:Close", "if{", "return", "}", "if{", "call:isProviderUnavailable", "if{", "}", "else{", "if{", "}", "else{", "call:String", "call:Errorf", "}", "}", "return", "}", "call:Unmarshal", "if{", "return", "}", "call:Duration", "return"] := by decide

/-- Tie (T1), second wave: helpers, stores and second callers on this property's path (sessions_LifetimePeriodExpired, sessions_RefreshPeriodExpired, sessions_ValidationPeriodExpired, store_SaveSession, sso_UserGroups) — call/branch/store skeletons
regenerated from the source on every run against the expectations frozen here. -/
theorem C04_wiring2 :
    Sso.Generated.skel_sessions_LifetimePeriodExpired =
      ["call:isExpired", "return"] ∧
    Sso.Generated.skel_sessions_RefreshPeriodExpired =
      ["call:isExpired", "return"] ∧
    Sso.Generated.skel_sessions_ValidationPeriodExpired =
      ["call:isExpired", "return"] ∧
    Sso.Generated.skel_store_SaveSession =
      ["call:MarshalSession", "if{", "return", "}", "call:setSessionCookie", "return"] ∧
    Sso.Generated.skel_sso_UserGroups =
      ["call:Add", "call:Add", "call:Join", "call:Add", "call:String", "call:Encode", "call:Sprintf", "call:newRequest", "if{", "return", "}", "call:Set", "call:Set", "call:Do", "if{", "return", "}", "call:ReadAll", "call:Close", "if{", "return", "}", "if{", "call:isProviderUnavailable", "if{", "return", "}", "call:String", "call:Errorf", "return", "}", "call:Unmarshal", "if{", "return", "}", "return"] := by decide

/-- Tie (T1): the decoder tags of sso-proxy's configuration structs (`internal/proxy/configuration.go`) — the names under which the environment and the files reach each setting this
property depends on (TTLs, cookie flags, client credentials, root domains, allow rules …). A tag that changes re-routes or drops a
setting without any code noticing. -/
theorem C04_tags_proxyConfigTags : Sso.Generated.proxyConfigTags =
    ["Configuration.ServerConfig mapstructure:\"server\"", "Configuration.ProviderConfig mapstructure:\"provider\"", "Configuration.ClientConfig mapstructure:\"client\"", "Configuration.SessionConfig mapstructure:\"session\"", "Configuration.UpstreamConfigs mapstructure:\"upstream\"", "Configuration.MetricsConfig mapstructure:\"metrics\"", "Configuration.LoggingConfig mapstructure:\"logging\"", "Configuration.RequestSignerConfig mapstructure:\"requestsigner\"", "ProviderConfig.ProviderType mapstructure:\"type\"", "ProviderConfig.Scope mapstructure:\"scope\"", "ProviderConfig.ProviderURLConfig mapstructure:\"url\"", "ProviderURLConfig.External mapstructure:\"external\"", "ProviderURLConfig.Internal mapstructure:\"internal\"", "SessionConfig.CookieConfig mapstructure:\"cookie\"", "SessionConfig.TTLConfig mapstructure:\"ttl\"", "CookieConfig.Name mapstructure:\"name\"", "CookieConfig.Secret mapstructure:\"secret\"", "CookieConfig.Expire mapstructure:\"expire\"", "CookieConfig.Domain mapstructure:\"domain\"", "CookieConfig.Secure mapstructure:\"secure\"", "CookieConfig.HTTPOnly mapstructure:\"httponly\"", "TTLConfig.Lifetime mapstructure:\"lifetime\"", "TTLConfig.Valid mapstructure:\"valid\"", "TTLConfig.GracePeriod mapstructre:\"grace_period\"", "ClientConfig.ID mapstructure:\"id\"", "ClientConfig.Secret mapstructure:\"secret\"", "ServerConfig.Port mapstructure:\"port\"", "ServerConfig.TimeoutConfig mapstructure:\"timeout\"", "TimeoutConfig.Write mapstructure:\"write\"", "TimeoutConfig.Read mapstructure:\"read\"", "TimeoutConfig.Shutdown mapstructure:\"shutdown\"", "MetricsConfig.StatsdConfig mapstructure:\"statsd\"", "StatsdConfig.Port mapstructure:\"port\"", "StatsdConfig.Host mapstructure:\"host\"", "LoggingConfig.Enable mapstructure:\"enable\"", "UpstreamConfigs.DefaultConfig mapstructure:\"default\"", "UpstreamConfigs.ConfigsFile mapstructure:\"configfile\"", "UpstreamConfigs.testTemplateVars ", "UpstreamConfigs.upstreamConfigs ", "UpstreamConfigs.Cluster mapstructure:\"cluster\"", "UpstreamConfigs.Scheme mapstructure:\"scheme\"", "DefaultConfig.EmailConfig mapstructure:\"email\"", "DefaultConfig.AllowedGroups mapstructure:\"groups\"", "DefaultConfig.ProviderSlug mapstructure:\"provider\"", "DefaultConfig.Timeout mapstructure:\"timeout\"", "DefaultConfig.ResetDeadline mapstructure:\"resetdeadline\"", "EmailConfig.AllowedDomains mapstructure:\"domains\"", "EmailConfig.AllowedAddresses mapstructure:\"addresses\"", "RequestSignerConfig.Key mapstructure:\"key\""] := by decide

/-- Tie (T1), third wave: the constructors and option functions that hand configured values to the components this property
speaks about (proxy_SetProvider, proxy_newProvider). -/
theorem C04_wiring3 :
    Sso.Generated.skel_proxy_SetProvider =
      ["func{", "store:op.provider", "return", "}", "return"] ∧
    Sso.Generated.skel_proxy_newProvider =
      ["call:Parse", "if{", "return", "}", "if{", "call:Parse", "if{", "return", "}", "}", "call:New", "call:NewSingleFlightProvider", "return"] := by decide

end Sso.Proxy
