import Generated.Facts
import SsoModel.Config

/-!
# C14 — upstream configuration resolves fail-closed and field by field
All theorems hold for every behaviour of `url.Parse` / `regexp.Compile` (the oracles).
-/
namespace Sso.Config

theorem firstE_none {l : List (Option LoadErr)} (h : firstE l = none) : ∀ x ∈ l, x = none := by
  induction l with
  | nil => intro x hx; cases hx
  | cons a t ih =>
    intro x hx
    cases a with
    | some e => simp [firstE] at h
    | none =>
      simp only [firstE] at h
      rcases List.mem_cons.1 hx with rfl | hx
      · rfl
      · exact ih h x hx

theorem orE_none {a b : Option LoadErr} (h : orE a b = none) : a = none ∧ b = none := by
  cases a <;> simp_all [orE]

/-- Fail-closed: whenever loading succeeds, every resulting upstream has a service name, `from`, `to`, a known
route type whose `from`/`to` parsed (or compiled), every skip-auth pattern compiled, and **at least one allow
rule** — an upstream open to everyone never results from omission. -/
theorem C14_load_fail_closed (O : Oracles) (services : List Service) (cluster : String) (defaults : Opts)
    (keys : List (String × String)) (ups : List Resolved) (h : load O services cluster defaults keys = .ok ups) :
    ∀ u ∈ ups, u.service ≠ "" ∧ u.from' ≠ "" ∧ u.to ≠ "" ∧ validType u.type = true ∧
      (u.type = "rewrite" → O.okRegex u.from' = true) ∧
      (u.type ≠ "rewrite" → O.okUrl u.from' = true ∧ O.okUrl u.to = true) ∧
      u.opts.skipAuthRegex.all O.okRegex = true ∧
      ¬ (u.opts.domains = [] ∧ u.opts.addrs = [] ∧ u.opts.groups = []) := by
  unfold load at h
  simp only at h
  split at h
  · simp at h
  · next hnone =>
    simp only [Except.ok.injEq] at h
    subst h
    unfold loadErr at hnone
    obtain ⟨h1, hnone⟩ := orE_none hnone
    obtain ⟨h2, hnone⟩ := orE_none hnone
    obtain ⟨h3, hnone⟩ := orE_none hnone
    obtain ⟨_, h5⟩ := orE_none hnone
    intro u hu
    rcases List.mem_map.1 hu with ⟨p, hmem, rfl⟩
    have e1 := firstE_none h1 _ (List.mem_map.2 ⟨p, hmem, rfl⟩)
    have e2 := firstE_none h2 _ (List.mem_map.2 ⟨p, hmem, rfl⟩)
    have e3 := firstE_none h3 _ (List.mem_map.2 ⟨p, hmem, rfl⟩)
    have e5 := firstE_none h5 _ (List.mem_map.2 ⟨p, hmem, rfl⟩)
    simp only [resolve]
    unfold checkRoute at e1
    unfold checkType at e2
    unfold checkSkip at e3
    unfold checkRule at e5
    refine ⟨?_, ?_, ?_, ?_, ?_, ?_, ?_, ?_⟩
    · intro hs; simp [hs] at e1
    · intro hs; split at e1 <;> simp_all
    · intro hs; split at e1 <;> (try simp at e1); split at e1 <;> simp_all
    · unfold validType
      split at e2
      · next ht => simp at ht; rcases ht with ht | ht <;> simp [ht]
      · split at e2
        · next ht => simp [ht]
        · simp at e2
    · intro ht; simp [ht] at e2; exact e2
    · intro ht
      by_cases hty : (p.2.type = "" || p.2.type = "simple") = true
      · simp only [hty, if_true] at e2
        by_cases h1 : O.okUrl p.2.from' = true <;> by_cases h2 : O.okUrl p.2.to = true <;> simp_all
      · simp only [hty] at e2
        simp [ht] at e2
    · split at e3 <;> simp_all
    · simp only at e5; split at e5 <;> simp_all

/-- A cluster block that states no `options` keeps the default block's options in force, field by field. -/
theorem C14_partial_cluster_inherits (d s : Block) (h : s.route.options = none) :
    (ovBlock d s).route.options = d.route.options := by
  simp [ovBlock, h]

/-- Route fields a cluster block does not state are inherited from the default block. -/
theorem C14_cluster_route_fields (d s : Block) :
    (s.route.from' = "" → (ovBlock d s).route.from' = d.route.from') ∧
    (s.route.to = "" → (ovBlock d s).route.to = d.route.to) ∧
    (s.route.from' ≠ "" → (ovBlock d s).route.from' = s.route.from') ∧
    (s.extraRoutes = [] → (ovBlock d s).extraRoutes = d.extraRoutes) := by
  refine ⟨?_, ?_, ?_, ?_⟩ <;> intro h <;> simp [ovBlock, ovS, h]

/-- Full strength ("a cluster block changes only the settings it states") is **refuted**: a cluster block
whose `options` states only a timeout drops the default block's `allowed_groups` and `skip_auth_regex`.
KNOWN FINDING `cluster-options-replace-default`. -/
theorem C14_cluster_inherits_refuted :
    ¬ ∀ (d s : Block) (od os : Opts), d.route.options = some od → s.route.options = some os → os.groups = [] →
        ∃ o, (ovBlock d s).route.options = some o ∧ o.groups = od.groups := by
  intro h
  obtain ⟨o, ho, hg⟩ := h { route := { options := some { groups := ["admins"], skipAuthRegex := ["^/health$"] } } }
    { route := { options := some { timeout := 5 } } } _ _ rfl rfl rfl
  simp [ovBlock] at ho
  subst ho
  simp at hg

/-- An extra route that states no options gets its parent's options; one that states some keeps every list it
states and inherits every list it leaves empty (and every unset scalar). -/
theorem C14_extra_route_inherits (extra parent : RouteCfg) :
    (extra.options = none → (fillRoute extra parent).options = parent.options) ∧
    (∀ e p, extra.options = some e → parent.options = some p →
      ∃ o, (fillRoute extra parent).options = some o ∧
        o.groups = (if e.groups = [] then p.groups else e.groups) ∧
        o.domains = (if e.domains = [] then p.domains else e.domains) ∧
        o.addrs = (if e.addrs = [] then p.addrs else e.addrs) ∧
        o.skipAuthRegex = (if e.skipAuthRegex = [] then p.skipAuthRegex else e.skipAuthRegex) ∧
        o.providerSlug = (if e.providerSlug = "" then p.providerSlug else e.providerSlug) ∧
        o.timeout = (if e.timeout = 0 then p.timeout else e.timeout)) ∧
    (extra.from' ≠ "" → (fillRoute extra parent).from' = extra.from') ∧
    (extra.to = "" → (fillRoute extra parent).to = parent.to) := by
  refine ⟨?_, ?_, ?_, ?_⟩
  · intro h; simp [fillRoute, h]
  · intro e p he hp
    refine ⟨fillOpts e p, by simp [fillRoute, he, hp], ?_⟩
    simp [fillOpts, ovOpts, ovL, ovS, ovI]
  · intro h; simp [fillRoute, ovS, h]
  · intro h; simp [fillRoute, ovS, h]

/-- Deployment defaults apply exactly where the route's own options leave a field empty. -/
theorem C14_defaults_fill_gaps (defaults : Opts) (r : RouteCfg) (o : Opts) (h : r.options = some o) :
    (parseOptions defaults r).groups = (if o.groups = [] then defaults.groups else o.groups) ∧
    (parseOptions defaults r).domains = (if o.domains = [] then defaults.domains else o.domains) ∧
    (parseOptions defaults r).addrs = (if o.addrs = [] then defaults.addrs else o.addrs) ∧
    (parseOptions defaults r).skipAuthRegex = (if o.skipAuthRegex = [] then defaults.skipAuthRegex else o.skipAuthRegex) := by
  simp only [parseOptions, h, ovOpts, ovL]
  refine ⟨?_, ?_, ?_, ?_⟩ <;> (split <;> simp_all)

/-! ### Non-vacuity -/

def exDefault : Block :=
  { route := { from' := "app.x.io", to := "app.internal", options := some { groups := ["admins"], skipAuthRegex := ["^/health$"] } } }
def exProd : Block := { route := { options := some { timeout := 5 } } }

-- the open finding on a concrete document: in cluster "prod" the allowed_groups of the default block are gone …
example : (ovBlock exDefault exProd).route.options.map (·.groups) = some [] := by decide
-- … so the deployment default is all that is left
example : (parseOptions { domains := ["x.io"] } (ovBlock exDefault exProd).route).groups = [] := by decide
example : (parseOptions { domains := ["x.io"] } exDefault.route).groups = ["admins"] := by decide
-- no rule anywhere ⇒ refused
example : checkRule {} (ovBlock exDefault exProd).route = some .noAllowRule := by decide
example : checkRule {} exDefault.route = none := by decide

/-- Tie (T1): the loader — call/branch/store skeletons regenerated from the source on every run; the expectations below are
what the model in this file transliterates. A structural edit of any of these functions breaks this theorem and sends the
check searching for a failing input. -/
theorem C14_wiring :
    Sso.Generated.skel_cfg_loadServiceConfigs =
      ["call:resolveTemplates", "call:parseServiceConfigs", "if{", "return", "}", "call:make", "range{", "call:resolveUpstreamConfig", "if{", "return", "}", "if{", "call:append", "}", "}", "call:make", "range{", "call:len", "if{", "continue", "}", "range{", "call:resolveExtraRoute", "if{", "return", "}", "call:append", "}", "store:proxy.ExtraRoutes", "}", "call:append", "range{", "call:validateUpstreamConfig", "if{", "return", "}", "}", "range{", "switch{", "case simple,\"\"{", "call:simpleRoute", "if{", "return", "}", "store:proxy.Route", "}", "case rewrite{", "call:rewriteRoute", "if{", "return", "}", "store:proxy.Route", "}", "default{", "call:Sprintf", "return", "}", "}", "}", "range{", "call:parseOptionsConfig", "if{", "return", "}", "}", "range{", "call:Sprintf", "if{", "continue", "}", "call:generateHmacAuth", "if{", "call:Sprintf", "return", "}", "store:proxy.HMACAuth", "}", "return"] ∧
    Sso.Generated.skel_cfg_parseOptionsConfig =
      ["if{", "}", "call:Merge", "if{", "return", "}", "if{", "call:Merge", "if{", "return", "}", "}", "range{", "call:Compile", "if{", "return", "}", "call:append", "store:proxy.SkipAuthCompiledRegex", "}", "store:proxy.AllowedGroups", "store:proxy.AllowedEmailDomains", "store:proxy.AllowedEmailAddresses", "store:proxy.Timeout", "store:proxy.ResetDeadline", "store:proxy.FlushInterval", "store:proxy.HeaderOverrides", "store:proxy.InjectRequestHeaders", "store:proxy.TLSSkipVerify", "store:proxy.PreserveHost", "store:proxy.SkipRequestSigning", "store:proxy.CookieName", "store:proxy.ProviderSlug", "store:proxy.RouteConfig.Options", "return"] ∧
    Sso.Generated.skel_cfg_resolveUpstreamConfig =
      ["if{", "return", "}", "if{", "}", "if{", "}", "call:Merge", "if{", "return", "}", "call:cleanWhiteSpace", "store:dst.Service", "return"] ∧
    Sso.Generated.skel_cfg_resolveExtraRoute =
      ["call:Merge", "if{", "return", "}", "store:dst.ExtraRoutes", "return"] ∧
    Sso.Generated.skel_cfg_validateUpstreamConfig =
      ["if{", "return", "}", "if{", "return", "}", "if{", "return", "}", "return"] ∧
    Sso.Generated.skel_cfg_SetUpstreamConfigs =
      ["if{", "call:ReadFile", "if{", "call:Errorf", "return", "}", "call:Environ", "call:parseEnvironment", "if{", "}", "call:loadServiceConfigs", "store:uc.upstreamConfigs", "if{", "call:Errorf", "return", "}", "}", "if{", "range{", "if{", "store:svc.TimeoutConfig.Write", "}", "call:len", "call:len", "call:len", "if{", "call:append", "}", "}", "call:len", "if{", "call:Errorf", "return", "}", "}", "return"] := by decide

/-- Tie (T1): configuration decoding is **strict** — the `mapstructure.DecoderConfig` names a decode hook and a result and
nothing else (no `WeaklyTypedInput`: a boolean-looking environment value is never silently turned into "1"), `LoadConfig`
composes exactly the duration and comma-list hooks, and `parseEnvironment` splits each `SSO_CONFIG_…` entry at its *first*
`=` (`SplitN`). -/
theorem C14_config_decoding_strict :
    Sso.Generated.proxyDecoderConfig =
      ["DecodeHook,Result"] ∧
    Sso.Generated.skel_proxy_LoadConfig =
      ["call:DefaultProxyConfig", "call:NewConfig", "call:NewSource", "call:Load", "if{", "return", "}", "call:StringToTimeDurationHookFunc", "call:StringToSliceHookFunc", "call:ComposeDecodeHookFunc", "call:NewDecoder", "if{", "return", "}", "call:Map", "call:Decode", "if{", "return", "}", "return"] ∧
    Sso.Generated.skel_proxy_parseEnvironment =
      ["call:make", "call:len", "if{", "return", "}", "range{", "call:HasPrefix", "if{", "continue", "}", "call:SplitN", "call:TrimPrefix", "call:ToLower", "store:env[]", "}", "return"] := by decide

/-- Tie (T1), second wave: helpers, stores and second callers on this property's path (cfg_resolveTemplates, cfg_rewriteRoute, cfg_simpleRoute, cfg_urlParse, cfg_cleanWhiteSpace) — call/branch/store skeletons
regenerated from the source on every run against the expectations frozen here. -/
theorem C14_wiring2 :
    Sso.Generated.skel_cfg_resolveTemplates =
      ["call:string", "range{", "call:Sprintf", "call:Replace", "}", "call:?", "return"] ∧
    Sso.Generated.skel_cfg_rewriteRoute =
      ["call:Compile", "if{", "return", "}", "return"] ∧
    Sso.Generated.skel_cfg_simpleRoute =
      ["call:urlParse", "if{", "return", "}", "call:urlParse", "if{", "return", "}", "return"] ∧
    Sso.Generated.skel_cfg_urlParse =
      ["call:Contains", "if{", "call:Sprintf", "}", "call:Parse", "return"] ∧
    Sso.Generated.skel_cfg_cleanWhiteSpace =
      ["call:TrimSpace", "call:ReplaceAllString", "return"] := by decide

/-- Tie (T1): the decoder tags of sso-proxy's configuration structs (`internal/proxy/configuration.go`) — the names under which the environment and the files reach each setting this
property depends on (TTLs, cookie flags, client credentials, root domains, allow rules …). A tag that changes re-routes or drops a
setting without any code noticing. -/
theorem C14_tags_proxyConfigTags : Sso.Generated.proxyConfigTags =
    ["Configuration.ServerConfig mapstructure:\"server\"", "Configuration.ProviderConfig mapstructure:\"provider\"", "Configuration.ClientConfig mapstructure:\"client\"", "Configuration.SessionConfig mapstructure:\"session\"", "Configuration.UpstreamConfigs mapstructure:\"upstream\"", "Configuration.MetricsConfig mapstructure:\"metrics\"", "Configuration.LoggingConfig mapstructure:\"logging\"", "Configuration.RequestSignerConfig mapstructure:\"requestsigner\"", "ProviderConfig.ProviderType mapstructure:\"type\"", "ProviderConfig.Scope mapstructure:\"scope\"", "ProviderConfig.ProviderURLConfig mapstructure:\"url\"", "ProviderURLConfig.External mapstructure:\"external\"", "ProviderURLConfig.Internal mapstructure:\"internal\"", "SessionConfig.CookieConfig mapstructure:\"cookie\"", "SessionConfig.TTLConfig mapstructure:\"ttl\"", "CookieConfig.Name mapstructure:\"name\"", "CookieConfig.Secret mapstructure:\"secret\"", "CookieConfig.Expire mapstructure:\"expire\"", "CookieConfig.Domain mapstructure:\"domain\"", "CookieConfig.Secure mapstructure:\"secure\"", "CookieConfig.HTTPOnly mapstructure:\"httponly\"", "TTLConfig.Lifetime mapstructure:\"lifetime\"", "TTLConfig.Valid mapstructure:\"valid\"", "TTLConfig.GracePeriod mapstructre:\"grace_period\"", "ClientConfig.ID mapstructure:\"id\"", "ClientConfig.Secret mapstructure:\"secret\"", "ServerConfig.Port mapstructure:\"port\"", "ServerConfig.TimeoutConfig mapstructure:\"timeout\"", "TimeoutConfig.Write mapstructure:\"write\"", "TimeoutConfig.Read mapstructure:\"read\"", "TimeoutConfig.Shutdown mapstructure:\"shutdown\"", "MetricsConfig.StatsdConfig mapstructure:\"statsd\"", "StatsdConfig.Port mapstructure:\"port\"", "StatsdConfig.Host mapstructure:\"host\"", "LoggingConfig.Enable mapstructure:\"enable\"", "UpstreamConfigs.DefaultConfig mapstructure:\"default\"", "UpstreamConfigs.ConfigsFile mapstructure:\"configfile\"", "UpstreamConfigs.testTemplateVars ", "UpstreamConfigs.upstreamConfigs ", "UpstreamConfigs.Cluster mapstructure:\"cluster\"", "UpstreamConfigs.Scheme mapstructure:\"scheme\"", "DefaultConfig.EmailConfig mapstructure:\"email\"", "DefaultConfig.AllowedGroups mapstructure:\"groups\"", "DefaultConfig.ProviderSlug mapstructure:\"provider\"", "DefaultConfig.Timeout mapstructure:\"timeout\"", "DefaultConfig.ResetDeadline mapstructure:\"resetdeadline\"", "EmailConfig.AllowedDomains mapstructure:\"domains\"", "EmailConfig.AllowedAddresses mapstructure:\"addresses\"", "RequestSignerConfig.Key mapstructure:\"key\""] := by decide

/-- Tie (T1): the decoder tags of the upstream file's structs (`internal/proxy/proxy_config.go`) — the names under which the environment and the files reach each setting this
property depends on (TTLs, cookie flags, client credentials, root domains, allow rules …). A tag that changes re-routes or drops a
setting without any code noticing. -/
theorem C14_tags_proxyUpstreamTags : Sso.Generated.proxyUpstreamTags =
    ["ServiceConfig.Service yaml:\"service\"", "ServiceConfig.ClusterConfigs yaml:\",inline\"", "SimpleRoute.FromURL ", "SimpleRoute.ToURL ", "RewriteRoute.FromRegex ", "RewriteRoute.ToTemplate ", "UpstreamConfig.Service ", "UpstreamConfig.RouteConfig yaml:\",inline\"", "UpstreamConfig.ExtraRoutes yaml:\"extra_routes\"", "UpstreamConfig.Route ", "UpstreamConfig.SkipAuthCompiledRegex ", "UpstreamConfig.AllowedGroups ", "UpstreamConfig.AllowedEmailDomains ", "UpstreamConfig.AllowedEmailAddresses ", "UpstreamConfig.TLSSkipVerify ", "UpstreamConfig.SkipAuthPreflight ", "UpstreamConfig.PassAccessToken ", "UpstreamConfig.PreserveHost ", "UpstreamConfig.HMACAuth ", "UpstreamConfig.Timeout ", "UpstreamConfig.ResetDeadline ", "UpstreamConfig.FlushInterval ", "UpstreamConfig.HeaderOverrides ", "UpstreamConfig.InjectRequestHeaders ", "UpstreamConfig.SkipRequestSigning ", "UpstreamConfig.CookieName ", "UpstreamConfig.ProviderSlug ", "RouteConfig.From yaml:\"from\"", "RouteConfig.To yaml:\"to\"", "RouteConfig.Type yaml:\"type\"", "RouteConfig.Options yaml:\"options\"", "OptionsConfig.HeaderOverrides yaml:\"header_overrides\"", "OptionsConfig.InjectRequestHeaders yaml:\"inject_request_headers\"", "OptionsConfig.SkipAuthRegex yaml:\"skip_auth_regex\"", "OptionsConfig.AllowedGroups yaml:\"allowed_groups\"", "OptionsConfig.AllowedEmailDomains yaml:\"allowed_email_domains\"", "OptionsConfig.AllowedEmailAddresses yaml:\"allowed_email_addresses\"", "OptionsConfig.TLSSkipVerify yaml:\"tls_skip_verify\"", "OptionsConfig.SkipAuthPreflight yaml:\"skip_auth_preflight\"", "OptionsConfig.PassAccessToken yaml:\"pass_access_token\"", "OptionsConfig.PreserveHost yaml:\"preserve_host\"", "OptionsConfig.Timeout yaml:\"timeout\"", "OptionsConfig.ResetDeadline yaml:\"reset_deadline\"", "OptionsConfig.FlushInterval yaml:\"flush_interval\"", "OptionsConfig.SkipRequestSigning yaml:\"skip_request_signing\"", "OptionsConfig.ProviderSlug yaml:\"provider_slug\"", "OptionsConfig.CookieName ", "ErrParsingConfig.Message ", "ErrParsingConfig.Err "] := by decide

/-- Tie (T1): `cmd/sso-proxy/main.go`: load the configuration from the environment, validate it, `proxy.New`, wrap in the logging handler, serve — the sequence the harness reproduces when it builds the service in-process (configuration validated before
anything is served; the handler wrapping). -/
theorem C14_skeleton_cmd_proxy_main : Sso.Generated.skel_cmd_proxy_main =
    ["call:LoadConfig", "if{", "call:Exit", "}", "call:Validate", "if{", "call:Exit", "}", "call:NewStatsdClient", "if{", "call:Exit", "}", "go{", "call:New", "call:Run", "}", "call:SetUpstreamConfigs", "if{", "call:Exit", "}", "call:New", "if{", "call:Exit", "}", "call:NewLoggingHandler", "call:Sprintf", "call:Run", "if{", "}"] := by decide

end Sso.Config
