import SsoModel.AuthN
import Generated.Facts

/-!
# C07 — the authenticator redirects and hands codes only to signed, in-domain, fresh URIs
`url.Parse`, base64 and `ParseInt` are oracles; the HMAC is idealised as `macEqual`.
-/
namespace Sso.AuthN

/-- Tie (T1): `/sign_in` and `/sign_out` sit behind `validateRedirectURI ▸ validateSignature` (sign_in also behind
`validateClientID`), in that order, inside `withMethods`; `/start` and `/callback` validate inside their handlers. -/
theorem C07_routes_gated :
    Sso.Generated.authRoutes =
      [("/start", ["GET"], ["withMethods"], "OAuthStart"),
       ("/sign_in", ["GET"], ["withMethods", "validateClientID", "validateRedirectURI", "validateSignature"], "SignIn"),
       ("/sign_out", ["GET", "POST"], ["withMethods", "validateRedirectURI", "validateSignature"], "SignOut"),
       ("/callback", ["GET"], ["withMethods"], "OAuthCallback"),
       ("/profile", ["GET"], ["withMethods", "validateClientID", "validateClientSecret"], "GetProfile"),
       ("/validate", ["GET"], ["withMethods", "validateClientID", "validateClientSecret"], "ValidateToken"),
       ("/redeem", ["POST"], ["withMethods", "validateClientID", "validateClientSecret"], "Redeem"),
       ("/refresh", ["POST"], ["withMethods", "validateClientID", "validateClientSecret"], "Refresh")] := by decide

/-- An accepted redirect URI has a host Go parsed, that is not an IP literal, and whose name ends with a configured
root domain *including its leading dot*, or equals the root itself — never a mere look-alike suffix. -/
theorem C07_valid_redirect_in_domain (roots : List (List Char)) (uri : String) (p : ParsedURL)
    (h : validRedirect roots uri p = true) :
    uri ≠ "" ∧ p.ok = true ∧ p.host ≠ "" ∧ p.hostname.contains ':' = false ∧ p.hostname.contains '%' = false ∧
    ∃ d ∈ roots, d <:+ p.hostname ∨ p.hostname = trimLeftDots d := by
  unfold validRedirect at h
  simp only [Bool.and_eq_true, decide_eq_true_eq, Bool.not_eq_eq_eq_not, Bool.not_true, Bool.or_eq_false_iff,
    List.any_eq_true, Bool.or_eq_true] at h
  obtain ⟨⟨⟨⟨h1, h2⟩, h3⟩, h4, h5⟩, d, hd, hm⟩ := h
  exact ⟨h1, h2, h3, h4, h5, d, hd, by simpa using hm⟩

/-- with roots normalised by `NewAuthenticator` (leading dot), a name that merely *contains* the root as a suffix
without the dot — `evilx.io` for root `.x.io` — is not accepted -/
theorem C07_no_lookalike :
    validRedirect [".x.io".toList] "https://evilx.io/" ⟨true, "evilx.io", "evilx.io".toList⟩ = false ∧
    validRedirect [".x.io".toList] "https://x.io.evil.io/" ⟨true, "x.io.evil.io", "x.io.evil.io".toList⟩ = false ∧
    validRedirect [".x.io".toList] "https://x.io/" ⟨true, "x.io", "x.io".toList⟩ = true ∧
    validRedirect [".x.io".toList] "https://a.x.io/" ⟨true, "a.x.io", "a.x.io".toList⟩ = true ∧
    validRedirect [".x.io".toList] "https://[::1%25.x.io]/" ⟨true, "[::1%25.x.io]", "::1%.x.io".toList⟩ = false := by decide

/-- **Signed and fresh**: whatever passes `validSignature` carried a MAC equal to the one the authenticator computes over
`redirect_uri ++ decimal(ts)` under the proxy's secret, with a parseable `ts` at most five minutes old. -/
theorem C07_valid_signature_sound (secret : String) (now : Int) (s : SigIn) (h : validSignature secret now s = true) :
    s.uri ≠ "" ∧ s.sig ≠ "" ∧ secret ≠ "" ∧ s.macEqual = true ∧ ∃ t, s.tsValue = some t ∧ now - t ≤ sigTTL := by
  unfold validSignature at h
  cases ht : s.tsValue with
  | none => simp [ht] at h
  | some t =>
    simp only [ht, Bool.and_eq_true, decide_eq_true_eq] at h
    obtain ⟨⟨⟨⟨⟨⟨h1, h2⟩, _⟩, h4⟩, _⟩, _⟩, h7, h8⟩ := h
    exact ⟨h1, h2, h4, h8, t, rfl, h7⟩

/-- **Gates**: a handler behind `validateRedirectURI ▸ validateSignature` runs only for an in-domain, signed, fresh
redirect URI; every other request gets an error page and the handler does not run. -/
theorem C07_gated_handler_runs_only_if (c : Cfg) (now : Int) (r : Req) (pre post : List Gate)
    (h : firstFail c now r (pre ++ [.redirectURI, .signature] ++ post) = none) :
    validRedirect c.roots r.redirect r.redirectParsed = true ∧ validSignature c.proxySecret now r.sig = true := by
  induction pre with
  | nil =>
    simp only [List.nil_append, List.cons_append, firstFail] at h
    cases h1 : gateFail c now r .redirectURI with
    | some e => simp [h1] at h
    | none =>
      simp only [h1] at h
      cases h2 : gateFail c now r .signature with
      | some e => simp [h2] at h
      | none =>
        simp only [gateFail] at h1 h2
        constructor
        · by_cases hf : r.formOK = true
          · by_cases hv : validRedirect c.roots r.redirect r.redirectParsed = true
            · exact hv
            · simp [hf, hv] at h1
          · simp [hf] at h1
        · by_cases hf : r.formOK = true
          · by_cases hv : validSignature c.proxySecret now r.sig = true
            · exact hv
            · simp [hf, hv] at h2
          · simp [hf] at h2
  | cons g t ih =>
    simp only [List.cons_append, firstFail] at h
    cases hg : gateFail c now r g with
    | some e => simp [hg] at h
    | none => simp only [hg] at h; exact ih h

/-- The MAC input `redirect_uri ++ decimal(ts)` has no separator, so the same input can be split differently: the
leading digit(s) of a genuine timestamp `T` can be moved to the end of the URI. The remaining timestamp `ts'` then lacks the
leading digit's weight `p = 10^(k-1)·a ≥ 1000` (any `T` with at least four digits): with the signer's clock at most ten
minutes ahead, `ts'` is stale, so the re-split signature is rejected by the freshness check. -/
theorem C07_sig_resplit_is_stale (p ts' T now : Int) (hp : 1000 ≤ p) (hsplit : ts' + p ≤ T) (hclock : T ≤ now + 600) :
    ¬ (now - ts' ≤ sigTTL) := by
  unfold sigTTL; omega

/-! ### Non-vacuity -/
example : validSignature "s" 1000 ⟨"u", "x", "900", true, true, some 900, true⟩ = true := by decide
example : validSignature "s" 1000 ⟨"u", "x", "600", true, true, some 600, true⟩ = false := by decide

/-- Tie (T1): `validSignature` reads the clock itself, at the moment of the check (`Now` … `Sub`), and the middleware calls
it per request inside the handler closure — the five-minute window is never anchored at start-up. -/
theorem C07_skeleton_validSignature :
    Sso.Generated.skel_auth_validSignature = ["if{", "return", "}", "call:Parse", "if{", "return", "}", "call:DecodeString", "if{", "return", "}", "call:ParseInt", "if{", "return", "}", "call:Unix", "call:Now", "call:Sub", "if{", "return", "}", "call:redirectURLSignature", "call:Equal", "return"] ∧
    Sso.Generated.skel_auth_validateSignature = ["func{", "call:ParseForm", "if{", "call:Error", "call:ErrorResponse", "return", "}", "call:Get", "call:Get", "call:Get", "call:validSignature", "if{", "call:ErrorResponse", "return", "}", "call:f", "}", "return"] := by decide

/-- Tie (T1): the redirect-URI predicate and its middleware — call/branch/store skeletons regenerated from the source on every run; the expectations below are
what the model in this file transliterates. A structural edit of any of these functions breaks this theorem and sends the
check searching for a failing input. -/
theorem C07_wiring :
    Sso.Generated.skel_auth_validRedirectURI =
      ["call:Parse", "if{", "return", "}", "call:Hostname", "call:ContainsAny", "if{", "return", "}", "range{", "call:Hostname", "call:HasSuffix", "call:Hostname", "call:TrimLeft", "if{", "return", "}", "}", "return"] ∧
    Sso.Generated.skel_auth_validateRedirectURI =
      ["func{", "call:ParseForm", "if{", "call:Error", "call:ErrorResponse", "return", "}", "call:Get", "call:validRedirectURI", "if{", "call:ErrorResponse", "return", "}", "call:f", "}", "return"] ∧
    Sso.Generated.skel_auth_redirectURLSignature =
      ["call:?", "call:New", "call:?", "call:Write", "call:Unix", "call:Sprint", "call:?", "call:Write", "call:Sum", "return"] := by decide

/-- Tie (T1): `SetRedirectURL` only records the authenticator's own callback URL; it does not touch the root-domain list. -/
theorem C07_skeleton_SetRedirectURL : Sso.Generated.skel_auth_SetRedirectURL =
    ["func{", "call:Join", "store:a.redirectURL", "return", "}", "return"] := by decide

/-- Tie (T1), second wave: helpers, stores and second callers on this property's path (auth_OAuthStart, auth_OAuthCallback, auth_getOAuthCallback) — call/branch/store skeletons
regenerated from the source on every run against the expectations frozen here. -/
theorem C07_wiring2 :
    Sso.Generated.skel_auth_OAuthStart =
      ["call:GenerateKey", "call:Sprintf", "call:SetCSRF", "call:Query", "call:Get", "call:Parse", "call:String", "call:validRedirectURI", "if{", "call:ErrorResponse", "return", "}", "call:Query", "call:Get", "call:Parse", "call:String", "call:validRedirectURI", "if{", "call:ErrorResponse", "return", "}", "call:Query", "call:Get", "call:Query", "call:Get", "call:String", "call:validSignature", "if{", "call:ErrorResponse", "return", "}", "call:GetRedirectURI", "call:String", "call:Sprintf", "call:?", "call:EncodeToString", "call:GetSignInURL", "call:Redirect"] ∧
    Sso.Generated.skel_auth_OAuthCallback =
      ["call:getOAuthCallback", "typeswitch{", "case{", "break", "}", "case{", "call:ErrorResponse", "return", "}", "case{", "call:ErrorResponse", "return", "}", "}", "call:Redirect"] ∧
    Sso.Generated.skel_auth_getOAuthCallback =
      ["call:getRemoteAddr", "call:ParseForm", "if{", "call:Error", "return", "}", "call:Get", "if{", "return", "}", "call:Get", "if{", "return", "}", "call:redeemCode", "if{", "return", "}", "call:Get", "call:DecodeString", "if{", "return", "}", "call:string", "call:SplitN", "call:len", "if{", "return", "}", "call:GetCSRF", "if{", "return", "}", "call:ClearCSRF", "if{", "return", "}", "call:validRedirectURI", "if{", "return", "}", "call:RunValidators", "call:len", "call:len", "if{", "call:len", "call:make", "range{", "call:Error", "call:append", "}", "call:Join", "call:Sprintf", "return", "}", "call:SaveSession", "if{", "return", "}", "return"] := by decide

/-- Tie (T1): the decoder tags of sso-auth's configuration structs (`internal/auth/configuration.go`) — the names under which the environment and the files reach each setting this
property depends on (TTLs, cookie flags, client credentials, root domains, allow rules …). A tag that changes re-routes or drops a
setting without any code noticing. -/
theorem C07_tags_authConfigTags : Sso.Generated.authConfigTags =
    ["Configuration.ProviderConfigs mapstructure:\"provider\"", "Configuration.ClientConfigs mapstructure:\"client\"", "Configuration.GroupCacheConfig mapstructure:\"groupcache\"", "Configuration.AuthorizeConfig mapstructure:\"authorize\"", "Configuration.SessionConfig mapstructure:\"session\"", "Configuration.ServerConfig mapstructure:\"server\"", "Configuration.MetricsConfig mapstructure:\"metrics\"", "Configuration.LoggingConfig mapstructure:\"logging\"", "ProviderConfig.ProviderType mapstructure:\"type\"", "ProviderConfig.ProviderSlug mapstructure:\"slug\"", "ProviderConfig.ClientConfig mapstructure:\"client\"", "ProviderConfig.Scope mapstructure:\"scope\"", "ProviderConfig.GoogleProviderConfig mapstructure:\"google\"", "ProviderConfig.OktaProviderConfig mapstructure:\"okta\"", "ProviderConfig.AmazonCognitoProviderConfig mapstructure:\"cognito\"", "ProviderConfig.GroupCacheConfig mapstructure:\"groupcache\"", "GoogleProviderConfig.Credentials mapstructure:\"credentials\"", "GoogleProviderConfig.Impersonate mapstructure:\"impersonate\"", "GoogleProviderConfig.ApprovalPrompt mapstructure:\"prompt\"", "GoogleProviderConfig.HostedDomain mapstructure:\"domain\"", "OktaProviderConfig.ServerID mapstructure:\"server\"", "OktaProviderConfig.OrgURL mapstructure:\"url\"", "AmazonCognitoProviderConfig.OrgURL mapstructure:\"url\"", "AmazonCognitoProviderConfig.UserPoolID mapstructure:\"id\"", "AmazonCognitoProviderConfig.Region mapstructure:\"region\"", "AmazonCognitoProviderConfig.Credentials mapstructure:\"credentials\"", "CognitoCredentials.ID mapstructure:\"id\"", "CognitoCredentials.Secret mapstructure:\"secret\"", "GroupCacheConfig.CacheIntervalConfig mapstructure:\"interval\"", "CacheIntervalConfig.Provider mapstructure:\"provider\"", "CacheIntervalConfig.Refresh mapstructure:\"refresh\"", "SessionConfig.CookieConfig mapstructure:\"cookie\"", "SessionConfig.SessionLifetimeTTL mapstructure:\"lifetime\"", "SessionConfig.Key mapstructure:\"key\"", "CookieConfig.Name mapstructure:\"name\"", "CookieConfig.Secret mapstructure:\"secret\"", "CookieConfig.Domain mapstructure:\"domain\"", "CookieConfig.Expire mapstructure:\"expire\"", "CookieConfig.Secure mapstructure:\"secure\"", "CookieConfig.HTTPOnly mapstructure:\"httponly\"", "ServerConfig.Host mapstructure:\"host\"", "ServerConfig.Port mapstructure:\"port\"", "ServerConfig.Scheme mapstructure:\"scheme\"", "ServerConfig.TimeoutConfig mapstructure:\"timeout\"", "TimeoutConfig.Write mapstructure:\"write\"", "TimeoutConfig.Read mapstructure:\"read\"", "TimeoutConfig.Request mapstructure:\"request\"", "TimeoutConfig.Shutdown mapstructure:\"shutdown\"", "ClientConfig.ID mapstructure:\"id\"", "ClientConfig.Secret mapstructure:\"secret\"", "AuthorizeConfig.EmailConfig mapstructure:\"email\"", "AuthorizeConfig.ProxyConfig mapstructure:\"proxy\"", "EmailConfig.Domains mapstructure:\"domains\"", "EmailConfig.Addresses mapstructure:\"addresses\"", "ProxyConfig.Domains mapstructure:\"domains\"", "MetricsConfig.StatsdConfig mapstructure:\"statsd\"", "LoggingConfig.Enable mapstructure:\"enable\"", "LoggingConfig.Level mapstructure:\"level\"", "StatsdConfig.Port mapstructure:\"port\"", "StatsdConfig.Host mapstructure:\"host\""] := by decide

/-- Tie (T1): `cmd/sso-auth/main.go`: load the configuration from the environment, validate it, `NewAuthenticatorMux`, wrap in the timeout and logging handlers, serve — the sequence the harness reproduces when it builds the service in-process (configuration validated before
anything is served; the handler wrapping). -/
theorem C07_skeleton_cmd_auth_main : Sso.Generated.skel_cmd_auth_main =
    ["call:LoadConfig", "if{", "call:Exit", "}", "call:Validate", "if{", "call:Exit", "}", "call:NewStatsdClient", "if{", "call:Exit", "}", "call:NewAuthenticatorMux", "if{", "call:Exit", "}", "defer:Stop", "call:TimeoutHandler", "call:Sprintf", "call:NewLoggingHandler", "call:Run", "if{", "}"] := by decide

/-- Tie (T1), third wave: the constructors and option functions that hand configured values to the components this property
speaks about (auth_NewAuthenticator, auth_GetRedirectURI, auth_getAuthCodeRedirectURL). -/
theorem C07_wiring3 :
    Sso.Generated.skel_auth_NewAuthenticator =
      ["call:NewHTMLTemplate", "range{", "call:HasPrefix", "if{", "call:Sprintf", "}", "call:append", "}", "call:newMux", "store:p.ServeMux", "range{", "call:optFunc", "if{", "return", "}", "}", "return"] ∧
    Sso.Generated.skel_auth_GetRedirectURI =
      ["call:String", "return"] ∧
    Sso.Generated.skel_auth_getAuthCodeRedirectURL =
      ["call:String", "call:Parse", "if{", "return", "}", "call:ParseQuery", "if{", "return", "}", "call:Set", "call:Set", "call:Encode", "store:u.RawQuery", "store:u.Scheme", "call:String", "return"] := by decide

end Sso.AuthN
