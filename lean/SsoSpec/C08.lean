import Generated.Facts
import SsoSpec.C07

/-!
# C08 — the back channel needs client credentials; only genuine codes redeem
-/
namespace Sso.AuthN

/-- Tie (T1): every one of the four back-channel routes carries `validateClientID` and `validateClientSecret` between
`withMethods` and the handler. -/
theorem C08_backchannel_gated :
    ∀ r ∈ Sso.Generated.authRoutes, r.1 ∈ ["/profile", "/validate", "/redeem", "/refresh"] →
      r.2.2.1 = ["withMethods", "validateClientID", "validateClientSecret"] := by decide

/-- **Gate soundness**: behind `validateClientID ▸ validateClientSecret` the handler runs only for the exact configured
client id and secret — wherever the parameters were placed (the request model carries what `FormValue` / `Form.Get` /
the header lookup return); with non-empty configured credentials an absent credential never passes. -/
theorem C08_gate_sound (c : Cfg) (now : Int) (r : Req) (pre post : List Gate)
    (h : firstFail c now r (pre ++ [.clientID, .clientSecret] ++ post) = none) :
    r.clientID = c.proxyID ∧ r.clientSecret = c.proxySecret := by
  induction pre with
  | nil =>
    simp only [List.nil_append, List.cons_append, firstFail] at h
    cases h1 : gateFail c now r .clientID with
    | some e => simp [h1] at h
    | none =>
      simp only [h1] at h
      cases h2 : gateFail c now r .clientSecret with
      | some e => simp [h2] at h
      | none =>
        simp only [gateFail] at h1 h2
        constructor
        · by_cases hf : r.formOK = true
          · by_cases hv : r.clientID = c.proxyID
            · exact hv
            · simp [hf, hv] at h1
          · simp [hf] at h1
        · by_cases hf : r.formOK = true
          · by_cases hv : r.clientSecret = c.proxySecret
            · exact hv
            · simp [hf, hv] at h2
          · simp [hf] at h2
  | cons g t ih =>
    simp only [List.cons_append, firstFail] at h
    cases hg : gateFail c now r g with
    | some e => simp [hg] at h
    | none => simp only [hg] at h; exact ih h

theorem C08_absent_credential_never_passes (c : Cfg) (now : Int) (r : Req)
    (hid : c.proxyID ≠ "") (hsec : c.proxySecret ≠ "") (habs : r.clientID = "" ∨ r.clientSecret = "") :
    firstFail c now r [.clientID, .clientSecret] ≠ none := by
  intro h
  have := C08_gate_sound c now r [] [] (by simpa using h)
  rcases habs with e | e
  · exact hid (this.1 ▸ e)
  · exact hsec (this.2 ▸ e)

/-- **Only genuine, unexpired codes redeem, and they return exactly the sealed session**: `/redeem` answers with tokens only
if the code opens under the authorization-code key to a session whose refresh and lifetime deadlines have not passed; the
e-mail and tokens in the answer are that session's. -/
theorem C08_redeem_sound (now : Int) (c : CodeIn) (e : Validators.Bytes) (at' rt : String) (ttl : Int)
    (h : redeem now c = .tokens e at' rt ttl) :
    ∃ s, c.opens = some s ∧ aexp s.refresh now = false ∧ aexp s.lifetime now = false ∧
      e = s.email ∧ at' = s.access ∧ rt = s.refreshTok ∧ ttl = s.refresh - now := by
  unfold redeem at h
  cases ho : c.opens with
  | none => simp [ho] at h
  | some s =>
    simp only [ho] at h
    by_cases hx : (aexp s.refresh now || aexp s.lifetime now) = true
    · simp [hx] at h
    · simp only [hx, Bool.false_eq_true, if_false, RedeemOut.tokens.injEq] at h
      simp only [Bool.or_eq_true, not_or, Bool.not_eq_true] at hx
      exact ⟨s, rfl, hx.1, hx.2, h.1.symm, h.2.1.symm, h.2.2.1.symm, h.2.2.2.symm⟩

/-- key separation (instance of C02): a value sealed under the cookie secret does not open under a different
authorization-code key, so a session cookie cannot be redeemed as a code. -/
theorem C08_redeem_key_separation (c : CodeIn) (now : Int) (h : c.opens = none) : redeem now c = .error 401 := by
  simp [redeem, h]

/-- Tie (T1): `Redeem` opens the code (`UnmarshalSession`) and checks both deadlines (`RefreshPeriodExpired`,
`LifetimePeriodExpired`) on **every** request, before anything is marshalled — no cache, no fast path. -/
theorem C08_skeleton_Redeem : Sso.Generated.skel_auth_Redeem =
    ["call:ParseForm", "if{", "call:Error", "call:Sprintf", "call:Error", "return", "}", "call:Get", "call:UnmarshalSession", "if{", "call:Error", "call:Sprintf", "call:Error", "return", "}", "if{", "call:Error", "call:Sprintf", "call:Error", "return", "}", "call:RefreshPeriodExpired", "call:LifetimePeriodExpired", "if{", "call:ClearSession", "call:Sprintf", "call:Error", "return", "}", "call:Now", "call:Sub", "call:Seconds", "call:int64", "call:Marshal", "if{", "call:WriteHeader", "return", "}", "call:Header", "call:Set", "call:Header", "call:Set", "call:Write"] := by decide

/-- Tie (T1): the client-credential middlewares and the other three back-channel handlers — call/branch/store skeletons regenerated from the source on every run; the expectations below are
what the model in this file transliterates. A structural edit of any of these functions breaks this theorem and sends the
check searching for a failing input. -/
theorem C08_wiring :
    Sso.Generated.skel_auth_validateClientID =
      ["func{", "call:ParseForm", "if{", "call:Error", "call:ErrorResponse", "return", "}", "call:FormValue", "if{", "call:Query", "call:Get", "}", "if{", "call:ErrorResponse", "return", "}", "call:f", "}", "return"] ∧
    Sso.Generated.skel_auth_validateClientSecret =
      ["func{", "call:ParseForm", "if{", "call:Error", "call:ErrorResponse", "return", "}", "call:Get", "if{", "call:Get", "}", "if{", "call:ErrorResponse", "return", "}", "call:f", "}", "return"] ∧
    Sso.Generated.skel_auth_Refresh =
      ["call:ParseForm", "if{", "call:Error", "call:Sprintf", "call:Error", "return", "}", "call:Get", "if{", "call:Error", "return", "}", "call:RefreshAccessToken", "if{", "call:Error", "call:codeForError", "call:ErrorResponse", "return", "}", "call:Seconds", "call:int64", "call:Marshal", "if{", "call:WriteHeader", "return", "}", "call:WriteHeader", "call:Header", "call:Set", "call:Write"] ∧
    Sso.Generated.skel_auth_ValidateToken =
      ["call:Get", "if{", "call:WriteHeader", "return", "}", "call:ValidateSessionState", "if{", "call:WriteHeader", "return", "}", "call:WriteHeader", "return"] := by decide

/-- **The other three back-channel endpoints say only what the provider said.** `/refresh` answers 201 with a token exactly
when the provider refreshed, and then with *that* token and lifetime; `/validate` answers 200 exactly when a token was
presented and the provider accepts it; `/profile` returns the e-mail asked about with exactly the provider's groups. With the
required parameter missing the provider is not even asked. -/
theorem C08_backchannel_echoes_provider :
    (∀ rt p tok ttl, (refreshH rt p).1 = .refreshed tok ttl ↔ rt ≠ "" ∧ p = .ok (tok, ttl)) ∧
    (∀ at' ok, (validateH at' ok).1 = .status 200 ↔ at' ≠ "" ∧ ok = true) ∧
    (∀ em m gs e, (profileH em m).1 = .profile e gs ↔ em ≠ "" ∧ e = em ∧ m = .ok gs) ∧
    (∀ p, (refreshH "" p).2 = []) ∧ (∀ ok, (validateH "" ok).2 = []) ∧ (∀ m, (profileH "" m).2 = []) := by
  refine ⟨?_, ?_, ?_, ?_, ?_, ?_⟩
  · intro rt p tok ttl
    unfold refreshH
    by_cases h : rt = ""
    · simp [h]
    · cases p with
      | error e => simp [h]
      | ok q => obtain ⟨t, l⟩ := q; simp [h]
  · intro at' ok
    unfold validateH
    by_cases h : at' = ""
    · simp [h]
    · cases ok <;> simp [h]
  · intro em m gs e
    unfold profileH
    by_cases h : em = ""
    · simp [h]
    · cases m with
      | error x => simp [h]
      | ok g => simp [h]; intro _; exact ⟨fun a => a.symm, fun a => a.symm⟩
  · intro p; simp [refreshH]
  · intro ok; simp [validateH]
  · intro m; simp [profileH]

/-- `/profile` at Okta names a group only if it was asked about **and** the identity provider lists it for the token's
user; without a token the provider is not called. -/
theorem C08_profile_names_only_asked_and_vouched_groups (allowed : List String) (access : String) (ui : Except PErr (List String)) (gs : List String)
    (h : (oktaMembership allowed access ui).1 = .ok gs) :
    access ≠ "" ∧ ∀ g ∈ gs, g ∈ allowed ∧ ∃ us, ui = .ok us ∧ g ∈ us := by
  unfold oktaMembership at h
  by_cases ha : access = ""
  · simp [ha] at h
  · refine ⟨ha, ?_⟩
    simp only [ha, if_false] at h
    by_cases hl : allowed = []
    · simp [hl] at h; subst h; simp
    · simp only [hl, if_false] at h
      cases ui with
      | error e => simp at h
      | ok us =>
        simp only at h
        by_cases hu : us = []
        · simp [hu] at h
        · simp only [hu, if_false] at h
          cases h
          intro g hg
          simp only [List.mem_filter] at hg
          exact ⟨hg.1, us, rfl, by simpa using hg.2⟩

/-- Tie (T1), second wave: helpers, stores and second callers on this property's path (auth_GetProfile, okta_ValidateGroupMembership) — call/branch/store skeletons
regenerated from the source on every run against the expectations frozen here. -/
theorem C08_wiring2 :
    Sso.Generated.skel_auth_GetProfile =
      ["call:FormValue", "if{", "call:Error", "return", "}", "call:Get", "if{", "}", "call:FormValue", "if{", "call:Split", "}", "call:ValidateGroupMembership", "if{", "call:Error", "call:codeForError", "call:ErrorResponse", "return", "}", "call:Marshal", "if{", "call:Error", "call:Sprintf", "call:Error", "return", "}", "call:Header", "call:Set", "call:Header", "call:Set", "call:Write"] ∧
    Sso.Generated.skel_okta_ValidateGroupMembership =
      ["if{", "return", "}", "call:len", "if{", "return", "}", "call:GetUserProfile", "if{", "return", "}", "call:len", "if{", "call:New", "return", "}", "range{", "range{", "if{", "call:append", "break", "}", "}", "}", "return"] := by decide

/-- Tie (T1): `SetCookieStore` of the authenticator — two decodes of two configured secrets, the cookie store built from the cookie
secret and the authorization-code cipher from the session key, in this order (a code and a session cookie are the same sealed
format; only their keys keep them apart). -/
theorem C08_skeleton_SetCookieStore : Sso.Generated.skel_auth_SetCookieStore =
    ["func{", "call:DecodeString", "if{", "return", "}", "call:?", "call:NewMiscreantCipher", "if{", "return", "}", "call:DecodeString", "if{", "return", "}", "call:Sprintf", "call:CreateMiscreantCookieCipher", "func{", "store:c.CookieDomain", "store:c.CookieHTTPOnly", "store:c.CookieExpire", "store:c.CookieSecure", "return", "}", "call:NewCookieStore", "if{", "return", "}", "store:a.csrfStore", "store:a.sessionStore", "store:a.AuthCodeCipher", "return", "}", "return"] := by decide

/-- Tie (T1): the decoder tags of sso-auth's configuration structs (`internal/auth/configuration.go`) — the names under which the environment and the files reach each setting this
property depends on (TTLs, cookie flags, client credentials, root domains, allow rules …). A tag that changes re-routes or drops a
setting without any code noticing. -/
theorem C08_tags_authConfigTags : Sso.Generated.authConfigTags =
    ["Configuration.ProviderConfigs mapstructure:\"provider\"", "Configuration.ClientConfigs mapstructure:\"client\"", "Configuration.GroupCacheConfig mapstructure:\"groupcache\"", "Configuration.AuthorizeConfig mapstructure:\"authorize\"", "Configuration.SessionConfig mapstructure:\"session\"", "Configuration.ServerConfig mapstructure:\"server\"", "Configuration.MetricsConfig mapstructure:\"metrics\"", "Configuration.LoggingConfig mapstructure:\"logging\"", "ProviderConfig.ProviderType mapstructure:\"type\"", "ProviderConfig.ProviderSlug mapstructure:\"slug\"", "ProviderConfig.ClientConfig mapstructure:\"client\"", "ProviderConfig.Scope mapstructure:\"scope\"", "ProviderConfig.GoogleProviderConfig mapstructure:\"google\"", "ProviderConfig.OktaProviderConfig mapstructure:\"okta\"", "ProviderConfig.AmazonCognitoProviderConfig mapstructure:\"cognito\"", "ProviderConfig.GroupCacheConfig mapstructure:\"groupcache\"", "GoogleProviderConfig.Credentials mapstructure:\"credentials\"", "GoogleProviderConfig.Impersonate mapstructure:\"impersonate\"", "GoogleProviderConfig.ApprovalPrompt mapstructure:\"prompt\"", "GoogleProviderConfig.HostedDomain mapstructure:\"domain\"", "OktaProviderConfig.ServerID mapstructure:\"server\"", "OktaProviderConfig.OrgURL mapstructure:\"url\"", "AmazonCognitoProviderConfig.OrgURL mapstructure:\"url\"", "AmazonCognitoProviderConfig.UserPoolID mapstructure:\"id\"", "AmazonCognitoProviderConfig.Region mapstructure:\"region\"", "AmazonCognitoProviderConfig.Credentials mapstructure:\"credentials\"", "CognitoCredentials.ID mapstructure:\"id\"", "CognitoCredentials.Secret mapstructure:\"secret\"", "GroupCacheConfig.CacheIntervalConfig mapstructure:\"interval\"", "CacheIntervalConfig.Provider mapstructure:\"provider\"", "CacheIntervalConfig.Refresh mapstructure:\"refresh\"", "SessionConfig.CookieConfig mapstructure:\"cookie\"", "SessionConfig.SessionLifetimeTTL mapstructure:\"lifetime\"", "SessionConfig.Key mapstructure:\"key\"", "CookieConfig.Name mapstructure:\"name\"", "CookieConfig.Secret mapstructure:\"secret\"", "CookieConfig.Domain mapstructure:\"domain\"", "CookieConfig.Expire mapstructure:\"expire\"", "CookieConfig.Secure mapstructure:\"secure\"", "CookieConfig.HTTPOnly mapstructure:\"httponly\"", "ServerConfig.Host mapstructure:\"host\"", "ServerConfig.Port mapstructure:\"port\"", "ServerConfig.Scheme mapstructure:\"scheme\"", "ServerConfig.TimeoutConfig mapstructure:\"timeout\"", "TimeoutConfig.Write mapstructure:\"write\"", "TimeoutConfig.Read mapstructure:\"read\"", "TimeoutConfig.Request mapstructure:\"request\"", "TimeoutConfig.Shutdown mapstructure:\"shutdown\"", "ClientConfig.ID mapstructure:\"id\"", "ClientConfig.Secret mapstructure:\"secret\"", "AuthorizeConfig.EmailConfig mapstructure:\"email\"", "AuthorizeConfig.ProxyConfig mapstructure:\"proxy\"", "EmailConfig.Domains mapstructure:\"domains\"", "EmailConfig.Addresses mapstructure:\"addresses\"", "ProxyConfig.Domains mapstructure:\"domains\"", "MetricsConfig.StatsdConfig mapstructure:\"statsd\"", "LoggingConfig.Enable mapstructure:\"enable\"", "LoggingConfig.Level mapstructure:\"level\"", "StatsdConfig.Port mapstructure:\"port\"", "StatsdConfig.Host mapstructure:\"host\""] := by decide

/-- Tie (T1): `cmd/sso-auth/main.go`: load the configuration from the environment, validate it, `NewAuthenticatorMux`, wrap in the timeout and logging handlers, serve — the sequence the harness reproduces when it builds the service in-process (configuration validated before
anything is served; the handler wrapping). -/
theorem C08_skeleton_cmd_auth_main : Sso.Generated.skel_cmd_auth_main =
    ["call:LoadConfig", "if{", "call:Exit", "}", "call:Validate", "if{", "call:Exit", "}", "call:NewStatsdClient", "if{", "call:Exit", "}", "call:NewAuthenticatorMux", "if{", "call:Exit", "}", "defer:Stop", "call:TimeoutHandler", "call:Sprintf", "call:NewLoggingHandler", "call:Run", "if{", "}"] := by decide

/-- Tie (T1), third wave: the constructors and option functions that hand configured values to the components this property
speaks about (auth_NewAuthenticator). -/
theorem C08_wiring3 :
    Sso.Generated.skel_auth_NewAuthenticator =
      ["call:NewHTMLTemplate", "range{", "call:HasPrefix", "if{", "call:Sprintf", "}", "call:append", "}", "call:newMux", "store:p.ServeMux", "range{", "call:optFunc", "if{", "return", "}", "}", "return"] := by decide

end Sso.AuthN
