import SsoModel.AuthN
import Generated.Facts

/-!
# C10 — a login yields a session only for an e-mail the identity provider vouches for
JSON decoding and base64 are oracles (`IDTok`, `TokenResp`, `UserinfoResp` carry what they produced).
-/
namespace Sso.AuthN
open Sso.Validators

/-- Google: a session only if the token endpoint answered 200 with a decodable body, the id_token has a second segment
that decodes to claims with a non-empty, **verified** e-mail — and the session's e-mail is that one. -/
theorem C10_google_session_only_if (t : TokenResp) (idt : IDTok) (e : Bytes) (at' rt : String) (ttl : Int)
    (h : googleRedeem t idt = .session e at' rt ttl) :
    (∃ idTok, t = .ok at' rt idTok ttl) ∧ idt = .claims e true ∧ e ≠ [] := by
  unfold googleRedeem at h
  cases t with
  | status n => simp at h
  | transport => simp at h
  | malformed => simp at h
  | ok a r i l =>
    simp only at h
    cases idt with
    | noSecondSegment => simp at h
    | undecodable => simp at h
    | claims em v =>
      simp only at h
      by_cases h1 : em = []
      · simp [h1] at h
      · cases v with
        | false => simp [h1] at h
        | true =>
          simp only [h1, if_false, Bool.not_true, Bool.false_eq_true, LoginRes.session.injEq] at h
          obtain ⟨he, ha, hr, hl⟩ := h
          subst he ha hr hl
          exact ⟨⟨i, rfl⟩, rfl, h1⟩

/-- Okta: a session only if the token endpoint answered with a non-empty access token and `/userinfo` answered 200 with a
non-empty, verified e-mail. -/
theorem C10_okta_session_only_if (t : TokenResp) (u : UserinfoResp) (e : Bytes) (at' rt : String) (ttl : Int)
    (h : (oktaRedeem t u).1 = .session e at' rt ttl) :
    (∃ idTok, t = .ok at' rt idTok ttl) ∧ at' ≠ "" ∧ u = .ok e true ∧ e ≠ [] := by
  unfold oktaRedeem at h
  cases t with
  | status n => simp at h
  | transport => simp at h
  | malformed => simp at h
  | ok a r i l =>
    simp only at h
    by_cases h0 : a = ""
    · simp [h0] at h
    · simp only [h0, if_false] at h
      cases u with
      | status n => simp at h
      | transport => simp at h
      | malformed => simp at h
      | ok em v =>
        simp only at h
        by_cases h1 : em = []
        · simp [h1] at h
        · cases v with
          | false => simp [h1] at h
          | true =>
            simp only [h1, if_false, Bool.not_true, Bool.false_eq_true, LoginRes.session.injEq] at h
            obtain ⟨he, ha, hr, hl⟩ := h
            subst he ha hr hl
            exact ⟨⟨i, rfl⟩, h0, rfl, h1⟩

/-- **Never a crash**: for every provider answer the (repaired) Google login path returns a session or an error. -/
theorem C10_never_panics (t : TokenResp) (idt : IDTok) : googleRedeem t idt ≠ .panic := by
  unfold googleRedeem
  cases t <;> simp
  cases idt <;> simp
  rename_i e v
  by_cases h1 : e = [] <;> cases v <;> simp [h1]

theorem C10_okta_never_panics (t : TokenResp) (u : UserinfoResp) : (oktaRedeem t u).1 ≠ .panic := by
  unfold oktaRedeem
  cases t <;> simp
  rename_i a r i l
  by_cases h0 : a = "" <;> simp [h0]
  cases u <;> simp
  rename_i e v
  by_cases h1 : e = [] <;> cases v <;> simp [h1]

/-- Cognito: a session only if the token endpoint answered with a non-empty access token and `/oauth2/userInfo` answered 200
with a non-empty e-mail — and the session's e-mail is that one. -/
theorem C10_cognito_session_only_if (t : TokenResp) (u : UserinfoResp) (e : Bytes) (at' rt : String) (ttl : Int)
    (h : (cognitoRedeem t u).1 = .session e at' rt ttl) :
    (∃ idTok, t = .ok at' rt idTok ttl) ∧ at' ≠ "" ∧ (∃ v, u = .ok e v) ∧ e ≠ [] := by
  unfold cognitoRedeem at h
  cases t with
  | status n => simp at h
  | transport => simp at h
  | malformed => simp at h
  | ok a r i l =>
    simp only at h
    by_cases h0 : a = ""
    · simp [h0] at h
    · simp only [h0, if_false] at h
      cases u with
      | status n => simp at h
      | transport => simp at h
      | malformed => simp at h
      | ok em v =>
        simp only at h
        by_cases h1 : em = []
        · simp [h1] at h
        · simp only [h1, if_false, LoginRes.session.injEq] at h
          obtain ⟨he, ha, hr, hl⟩ := h
          subst he ha hr hl
          exact ⟨⟨i, rfl⟩, h0, ⟨v, rfl⟩, h1⟩

theorem C10_cognito_never_panics (t : TokenResp) (u : UserinfoResp) : (cognitoRedeem t u).1 ≠ .panic := by
  unfold cognitoRedeem
  cases t <;> simp
  rename_i a r i l
  by_cases h0 : a = "" <;> simp [h0]
  cases u <;> simp
  rename_i e v
  by_cases h1 : e = [] <;> simp [h1]

/-- every failing answer (any non-200, transport error, malformed body, empty access token, empty e-mail) ends in an error and
the userinfo endpoint is not even asked when the token call failed -/
theorem C10_cognito_error_cases (t : TokenResp) (u : UserinfoResp)
    (h : (∀ a r i l, t ≠ .ok a r i l) ∨ (∃ r i l, t = .ok "" r i l) ∨ (∀ e v, u ≠ .ok e v) ∨ (∃ v, u = .ok [] v)) :
    (cognitoRedeem t u).1 = .error := by
  unfold cognitoRedeem
  cases t with
  | status n => rfl
  | transport => rfl
  | malformed => rfl
  | ok a r i l =>
    simp only
    by_cases h0 : a = ""
    · simp [h0]
    · simp only [h0, if_false]
      rcases h with h | ⟨r', i', l', h⟩ | h | ⟨v, h⟩
      · exact absurd rfl (h a r i l)
      · cases h; exact absurd rfl h0
      · cases u with
        | ok e v => exact absurd rfl (h e v)
        | _ => rfl
      · subst h; simp

example : (cognitoRedeem (.ok "at" "rt" "" 600) (.ok [97] false)).1 = .session [97] "at" "rt" 600 := rfl

/-- **C10, all three providers at once**: `Redeem` yields a session only for a non-empty code, a 200 token answer and an e-mail
the provider returned for it — for Google the id_token's verified claim, for Okta the verified userinfo e-mail, for Cognito the
userinfo e-mail — and it never crashes. -/
theorem C10_redeem_session_only_vouched (k : ProvKind) (code : String) (t : TokenResp) (idt : IDTok) (u : UserinfoResp)
    (e : Bytes) (at' rt : String) (ttl : Int) (h : (redeemOf k code t idt u).1 = .session e at' rt ttl) :
    code ≠ "" ∧ e ≠ [] ∧ (∃ idTok, t = .ok at' rt idTok ttl) ∧
      (match k with
       | .google => idt = .claims e true
       | .okta => u = .ok e true
       | .cognito => ∃ v, u = .ok e v) := by
  unfold redeemOf at h
  by_cases hc : code = ""
  · simp [hc] at h
  · simp only [hc, if_false] at h
    cases k with
    | google =>
      have := C10_google_session_only_if t idt e at' rt ttl h
      exact ⟨hc, this.2.2, this.1, this.2.1⟩
    | okta =>
      have := C10_okta_session_only_if t u e at' rt ttl h
      exact ⟨hc, this.2.2.2, this.1, this.2.2.1⟩
    | cognito =>
      have := C10_cognito_session_only_if t u e at' rt ttl h
      exact ⟨hc, this.2.2.2, this.1, this.2.2.1⟩

theorem C10_redeem_never_panics (k : ProvKind) (code : String) (t : TokenResp) (idt : IDTok) (u : UserinfoResp) :
    (redeemOf k code t idt u).1 ≠ .panic := by
  unfold redeemOf
  by_cases hc : code = ""
  · simp [hc]
  · simp only [hc, if_false]
    cases k with
    | google => exact C10_never_panics t idt
    | okta => exact C10_okta_never_panics t u
    | cognito => exact C10_cognito_never_panics t u

/-- the pinned tree crashed on an id_token without a second segment (finding (g), fixed) -/
theorem C10_unfixed_panics : googleRedeemUnfixed (.ok "a" "r" "nodots" 60) .noSecondSegment = .panic := rfl

/-- Tie (T1): `emailFromIDToken` checks the number of segments before indexing. -/
theorem C10_skeleton_emailFromIDToken : Sso.Generated.skel_auth_emailFromIDToken =
    ["call:Split", "call:len", "if{", "call:New", "return", "}", "call:jwtDecodeSegment", "if{", "return", "}", "call:Unmarshal", "if{", "return", "}",
     "if{", "call:New", "return", "}", "if{", "call:Errorf", "return", "}", "return"] := by decide

/-- No session cookie on any error: the callback sets a session only through the `session` outcome, which requires a
`LoginRes.session` (C09's theorem gives the remaining conjuncts). -/
theorem C10_no_session_on_error (emailOK : Bytes → Bool) (i : CbIn) (h : i.login = .error) :
    ∃ n, oauthCallback emailOK i = .error n := by
  unfold oauthCallback
  by_cases h1 : i.errorParam ≠ ""
  · exact ⟨403, by simp [h1]⟩
  · by_cases h2 : i.code = ""
    · exact ⟨400, by simp [h1, h2]⟩
    · exact ⟨500, by simp [h1, h2, h]⟩

/-- Tie (T1): the authenticator's provider middleware passes `Redeem` straight through — two logins that overlap at the
token call are each redeemed with their own code; nobody is handed a copy of someone else's session. -/
theorem C10_redeem_not_coalesced : Sso.Generated.skel_auth_sf_Redeem = ["call:Redeem", "return"] := by decide

/-- Tie (T1): the IdP callback and both providers' `Redeem` — call/branch/store skeletons regenerated from the source on every run; the expectations below are
what the model in this file transliterates. A structural edit of any of these functions breaks this theorem and sends the
check searching for a failing input. -/
theorem C10_wiring :
    Sso.Generated.skel_auth_getOAuthCallback =
      ["call:getRemoteAddr", "call:ParseForm", "if{", "call:Error", "return", "}", "call:Get", "if{", "return", "}", "call:Get", "if{", "return", "}", "call:redeemCode", "if{", "return", "}", "call:Get", "call:DecodeString", "if{", "return", "}", "call:string", "call:SplitN", "call:len", "if{", "return", "}", "call:GetCSRF", "if{", "return", "}", "call:ClearCSRF", "if{", "return", "}", "call:validRedirectURI", "if{", "return", "}", "call:RunValidators", "call:len", "call:len", "if{", "call:len", "call:make", "range{", "call:Error", "call:append", "}", "call:Join", "call:Sprintf", "return", "}", "call:SaveSession", "if{", "return", "}", "return"] ∧
    Sso.Generated.skel_google_Redeem =
      ["if{", "return", "}", "call:Add", "call:Add", "call:Add", "call:Add", "call:Add", "call:String", "call:googleRequest", "if{", "return", "}", "call:emailFromIDToken", "if{", "return", "}", "call:Duration", "call:ExtendDeadline", "call:ExtendDeadline", "return"] ∧
    Sso.Generated.skel_okta_Redeem =
      ["if{", "return", "}", "call:Add", "call:Add", "call:Add", "call:Add", "call:Add", "call:Add", "call:String", "call:oktaRequest", "if{", "return", "}", "call:verifyEmailWithAccessToken", "if{", "return", "}", "call:Duration", "call:ExtendDeadline", "call:ExtendDeadline", "return"] ∧
    Sso.Generated.skel_okta_verifyEmailWithAccessToken =
      ["if{", "return", "}", "call:GetUserProfile", "if{", "return", "}", "if{", "call:New", "return", "}", "if{", "call:New", "return", "}", "return"] := by decide

/-- Tie (T1), second wave: helpers, stores and second callers on this property's path (auth_redeemCode, auth_jwtDecodeSegment, cognito_Redeem, cognito_verifyEmailWithAccessToken) — call/branch/store skeletons
regenerated from the source on every run against the expectations frozen here. -/
theorem C10_wiring2 :
    Sso.Generated.skel_auth_redeemCode =
      ["call:GetRedirectURI", "call:Redeem", "if{", "return", "}", "if{", "call:Errorf", "return", "}", "return"] ∧
    Sso.Generated.skel_auth_jwtDecodeSegment =
      ["call:len", "if{", "call:Repeat", "}", "call:DecodeString", "return"] ∧
    Sso.Generated.skel_cognito_Redeem =
      ["if{", "return", "}", "call:Add", "call:Add", "call:Add", "call:Add", "call:Add", "call:String", "call:amazonCognitoRequest", "if{", "return", "}", "call:verifyEmailWithAccessToken", "if{", "return", "}", "call:Duration", "call:ExtendDeadline", "call:ExtendDeadline", "return"] ∧
    Sso.Generated.skel_cognito_verifyEmailWithAccessToken =
      ["if{", "return", "}", "call:GetUserProfile", "if{", "return", "}", "if{", "call:New", "return", "}", "return"] := by decide

/-- Tie (T1), third wave: the constructors and option functions that hand configured values to the components this property
speaks about (auth_newProvider, auth_SetProvider, auth_GetRedirectURI). -/
theorem C10_wiring3 :
    Sso.Generated.skel_auth_newProvider =
      ["switch{", "case providers.GoogleProviderName{", "call:NewGoogleProvider", "if{", "return", "}", "call:NewFillCache", "store:googleProvider.GroupsCache", "call:NewSingleFlightProvider", "}", "case providers.OktaProviderName{", "call:NewOktaProvider", "if{", "return", "}", "call:NewGroupCache", "call:NewSingleFlightProvider", "}", "case providers.AmazonCognitoProviderName{", "call:NewAmazonCognitoProvider", "if{", "return", "}", "call:NewFillCache", "store:amazonCognitoProvider.GroupsCache", "call:NewSingleFlightProvider", "}", "case \"test\"{", "call:NewTestProvider", "return", "}", "default{", "call:Errorf", "return", "}", "}", "return"] ∧
    Sso.Generated.skel_auth_SetProvider =
      ["func{", "store:a.provider", "return", "}", "return"] ∧
    Sso.Generated.skel_auth_GetRedirectURI =
      ["call:String", "return"] := by decide

end Sso.AuthN
