import SsoModel.Prim.Html
import Generated.Facts

/-!
# C20 — rendered pages treat request-controlled text as inert
-/
namespace Sso.Html

theorem escChar_safe (c x : Char) (h : x ∈ escChar c) : x ≠ '<' ∧ x ≠ '>' ∧ x ≠ '"' ∧ x ≠ '\'' := by
  unfold escChar at h
  split at h
  · simp at h; subst h; decide
  · split at h
    · simp at h; rcases h with rfl | rfl | rfl | rfl | rfl <;> decide
    · split at h
      · simp at h; rcases h with rfl | rfl | rfl | rfl | rfl <;> decide
      · split at h
        · simp at h; rcases h with rfl | rfl | rfl | rfl | rfl <;> decide
        · split at h
          · simp at h; rcases h with rfl | rfl | rfl | rfl | rfl <;> decide
          · split at h
            · simp at h; rcases h with rfl | rfl | rfl | rfl <;> decide
            · split at h
              · simp at h; rcases h with rfl | rfl | rfl | rfl <;> decide
              · simp at h; subst h
                refine ⟨?_, ?_, ?_, ?_⟩ <;> (intro e; simp_all)

/-- **The escaped form of any string contains none of the structural characters** `<`, `>`, `"`, `'`. -/
theorem C20_escape_no_structural_char (s : List Char) : ∀ x ∈ htmlEscape s, x ≠ '<' ∧ x ≠ '>' ∧ x ≠ '"' ∧ x ≠ '\'' := by
  intro x hx
  unfold htmlEscape at hx
  rcases List.mem_flatMap.1 hx with ⟨c, _, hc⟩
  exact escChar_safe c x hc

theorem runTok_data (s : List Char) (h : ∀ x ∈ s, x ≠ '<') : runTok .data s = .data := by
  induction s with
  | nil => rfl
  | cons c t ih =>
    have hc : c ≠ '<' := h c List.mem_cons_self
    simp only [runTok, List.foldl_cons, stepTok, hc, if_false]
    exact ih (fun x hx => h x (List.mem_cons_of_mem _ hx))

theorem runTok_attr (s : List Char) (h : ∀ x ∈ s, x ≠ '"') : runTok .attrDQ s = .attrDQ := by
  induction s with
  | nil => rfl
  | cons c t ih =>
    have hc : c ≠ '"' := h c List.mem_cons_self
    simp only [runTok, List.foldl_cons, stepTok, hc, if_false]
    exact ih (fun x hx => h x (List.mem_cons_of_mem _ hx))

/-- **Escaped text is inert**: consumed in a text node, or inside a double-quoted attribute value, the escaped form of any
string leaves the tokenizer in the same state — it can only extend the text / the attribute value, never open a tag,
close the attribute or start a new one. -/
theorem C20_escape_preserves_state (s : List Char) :
    runTok .data (htmlEscape s) = .data ∧ runTok .attrDQ (htmlEscape s) = .attrDQ :=
  ⟨runTok_data _ (fun x hx => (C20_escape_no_structural_char s x hx).1),
   runTok_attr _ (fun x hx => (C20_escape_no_structural_char s x hx).2.2.1)⟩

theorem runTok_append (st : TState) (a b : List Char) : runTok st (a ++ b) = runTok (runTok st a) b := by
  simp [runTok, List.foldl_append]

/-- **The structure of a page does not depend on the request text spliced into it**: for any template text `pre` that
leaves the tokenizer in a text node or inside a double-quoted attribute value (the only contexts the templates use,
`C20_all_action_sites_safe`), and any remainder `post`, the tokenizer ends in the same state whatever string is
substituted — and in the state it reaches when nothing is substituted at all. Unbounded in `pre`, `post` and both texts. -/
theorem C20_page_structure_independent (pre post s₁ s₂ : List Char)
    (hctx : runTok .data pre = .data ∨ runTok .data pre = .attrDQ) :
    runTok .data (pre ++ htmlEscape s₁ ++ post) = runTok .data (pre ++ htmlEscape s₂ ++ post) ∧
    runTok .data (pre ++ htmlEscape s₁ ++ post) = runTok .data (pre ++ post) := by
  have key : ∀ s, runTok .data (pre ++ htmlEscape s ++ post) = runTok .data (pre ++ post) := by
    intro s
    rw [List.append_assoc, runTok_append, runTok_append, runTok_append .data pre post]
    rcases hctx with h | h <;> rw [h]
    · rw [(C20_escape_preserves_state s).1]
    · rw [(C20_escape_preserves_state s).2]
  exact ⟨(key s₁).trans (key s₂).symm, key s₁⟩

/-- Several substitutions on one page (the templates splice up to six values): by induction over the list of
(template text, request text) pieces, the final tokenizer state equals that of the template texts alone, provided each
splice point sits in a text node or a double-quoted attribute value. -/
def render : List (List Char × List Char) → List Char
  | [] => []
  | (t, v) :: r => t ++ htmlEscape v ++ render r

def skeletonOf : List (List Char × List Char) → List Char
  | [] => []
  | (t, _) :: r => t ++ skeletonOf r

def sitesSafe : TState → List (List Char × List Char) → Prop
  | _, [] => True
  | st, (t, _) :: r => (runTok st t = .data ∨ runTok st t = .attrDQ) ∧ sitesSafe (runTok st t) r

theorem C20_many_substitutions_inert (ps : List (List Char × List Char)) (st : TState) (tail : List Char)
    (h : sitesSafe st ps) :
    runTok st (render ps ++ tail) = runTok st (skeletonOf ps ++ tail) := by
  induction ps generalizing st with
  | nil => rfl
  | cons p r ih =>
    obtain ⟨t, v⟩ := p
    obtain ⟨hs, hr⟩ := h
    simp only [render, skeletonOf, List.append_assoc]
    rw [runTok_append, runTok_append st t]
    have hv : runTok (runTok st t) (htmlEscape v ++ (render r ++ tail)) = runTok (runTok st t) (render r ++ tail) := by
      rw [runTok_append]
      rcases hs with e | e <;> rw [e]
      · rw [(C20_escape_preserves_state v).1]
      · rw [(C20_escape_preserves_state v).2]
    rw [hv]
    exact ih _ hr

theorem decodeRefs_plain (c : Char) (r : List Char) (h : c ≠ '&') : decodeRefs (c :: r) = c :: decodeRefs r := by
  rw [decodeRefs.eq_def]
  split <;> simp_all

/-- **Escaping is faithful**: what a browser displays (or reads back as an attribute value) after decoding the character
references is exactly the request text — nothing is dropped, merged or reinterpreted, so one text cannot be made to
display as another. NUL is excluded: the escaper replaces it by U+FFFD (first row of `escChar`). -/
theorem C20_escape_faithful (s : List Char) (h : '\x00' ∉ s) : decodeRefs (htmlEscape s) = s := by
  induction s with
  | nil => rfl
  | cons c t ih =>
    have hc : c ≠ '\x00' := fun e => h (e ▸ List.mem_cons_self)
    have ht : '\x00' ∉ t := fun m => h (List.mem_cons_of_mem _ m)
    have e : htmlEscape (c :: t) = escChar c ++ htmlEscape t := by simp [htmlEscape]
    rw [e]
    unfold escChar
    split
    · contradiction
    · split
      · subst_vars; simp [decodeRefs, ih ht]
      · split
        · subst_vars; simp [decodeRefs, ih ht]
        · split
          · subst_vars; simp [decodeRefs, ih ht]
          · split
            · subst_vars; simp [decodeRefs, ih ht]
            · split
              · subst_vars; simp [decodeRefs, ih ht]
              · split
                · subst_vars; simp [decodeRefs, ih ht]
                · rename_i h2 h3 h4 h5 h6 h7
                  simp only [List.cons_append, List.nil_append]
                  rw [decodeRefs_plain c _ h3, ih ht]
/-- Full strength (no hypothesis): decoding the escaped form gives the text with each NUL shown as U+FFFD — the only
character the escaper does not carry over, and a replacement the client does not choose. -/
theorem C20_escape_faithful_total (s : List Char) :
    decodeRefs (htmlEscape s) = s.map (fun c => if c = '\x00' then '�' else c) := by
  induction s with
  | nil => rfl
  | cons c t ih =>
    have e : htmlEscape (c :: t) = escChar c ++ htmlEscape t := by simp [htmlEscape]
    rw [e, List.map_cons]
    by_cases h0 : c = '\x00'
    · subst h0
      have : escChar '\x00' = ['�'] := by decide
      rw [this]
      simp only [List.cons_append, List.nil_append, if_true]
      rw [decodeRefs_plain _ _ (by decide), ih]
    · have hd : decodeRefs (escChar c ++ htmlEscape t) = c :: decodeRefs (htmlEscape t) := by
        unfold escChar
        split
        · contradiction
        · split
          · subst_vars; simp [decodeRefs]
          · split
            · subst_vars; simp [decodeRefs]
            · split
              · subst_vars; simp [decodeRefs]
              · split
                · subst_vars; simp [decodeRefs]
                · split
                  · subst_vars; simp [decodeRefs]
                  · split
                    · subst_vars; simp [decodeRefs]
                    · rename_i h2 h3 h4 h5 h6 h7
                      simp only [List.cons_append, List.nil_append]
                      rw [decodeRefs_plain c _ h3]
      rw [hd, ih]; simp [h0]
/-- Tie (T1): every value-producing action of every template sso serves sits in a text node or inside a double-quoted
attribute value that is not a URL / script / style attribute; both template files import `html/template`. -/
theorem C20_all_action_sites_safe :
    (∀ a ∈ Sso.Generated.templateActions, a.2.2 = "text" ∨ a.2.2 ∈ ["attr-dq:value", "attr-dq:content", "attr-dq:class"]) ∧
    Sso.Generated.templateImports = ["html/template", "html/template"] ∧
    Sso.Generated.templateActions.length ≥ 20 := by decide

/-! ### Non-vacuity -/
example : htmlEscape "<script>\"x\"&'+".toList = "&lt;script&gt;&#34;x&#34;&amp;&#39;&#43;".toList := by decide
example : runTok .data "<b".toList = .other := by decide
example : sitesSafe .data [("Hi ".toList, "<i>".toList), (" and ".toList, "\" onclick=\"x".toList)] ∧
    runTok .data (render [("Hi ".toList, "<i>".toList), (" and ".toList, "\" onclick=\"x".toList)]) = .data := by
  refine ⟨⟨?_, ?_, trivial⟩, ?_⟩ <;> decide
example : decodeRefs (htmlEscape "<a href='x'>\"&+".toList) = "<a href='x'>\"&+".toList := by decide

/-- Tie (T1): the handlers that put request-controlled text on a page or into JSON — call/branch/store skeletons regenerated from the source on every run; the expectations below are
what the model in this file transliterates. A structural edit of any of these functions breaks this theorem and sends the
check searching for a failing input. -/
theorem C20_wiring :
    Sso.Generated.skel_proxy_ErrorPage =
      ["call:isXHR", "if{", "call:New", "call:XHRError", "return", "}", "call:getRemoteAddr", "call:WriteHeader", "call:ExecuteTemplate"] ∧
    Sso.Generated.skel_proxy_XHRError =
      ["call:getRemoteAddr", "call:Marshal", "if{", "call:WriteHeader", "return", "}", "call:Header", "call:Set", "call:WriteHeader", "call:Write"] ∧
    Sso.Generated.skel_auth_SignOutPage =
      ["call:Get", "call:LoadSession", "if{", "call:Redirect", "return", "}", "call:Get", "call:Get", "call:Parse", "if{", "call:WriteHeader", "}", "call:Data", "call:ExecuteTemplate", "return"] ∧
    Sso.Generated.skel_auth_SignInPage =
      ["call:WriteHeader", "call:TrimPrefix", "call:ResolveReference", "call:Query", "call:Get", "call:Parse", "call:Data", "call:Data", "call:String", "call:ExecuteTemplate"] := by decide

/-- Tie (T1): no non-test file of either service imports `text/template` (which renders without escaping): every page is
rendered by `html/template`, whose contextual escaper is what the theorems above are about. -/
theorem C20_no_text_template : Sso.Generated.textTemplateImporters = [] := by decide

/-- Tie (T1): none of html/template's *trusted content* types (`template.HTML`, `JS`, `URL`, … — values written without
escaping) is used anywhere in the services' sources: every value a template receives is escaped for its context. -/
theorem C20_no_trusted_template_types : Sso.Generated.trustedTemplateTypes = [] := by decide

/-- Tie (T1): the authenticator's `ErrorResponse` has two branches only — JSON (marshalled) and the HTML template — and sets
the status after choosing. -/
theorem C20_skeleton_ErrorResponse : Sso.Generated.skel_auth_ErrorResponse =
    ["call:Get", "if{", "store:response.Error", "call:writeJSONResponse", "}", "else{", "call:StatusText", "call:WriteHeader", "call:ExecuteTemplate", "}"] := by decide

/-- Tie (T1): JSON bodies are what `encoding/json` produced, written as is. -/
theorem C20_skeleton_writeJSONResponse : Sso.Generated.skel_auth_writeJSONResponse =
    ["call:Header", "call:Set", "call:WriteHeader", "call:NewEncoder", "call:Encode", "if{", "call:Error", "call:WriteString", "}"] := by decide

end Sso.Html
