import Generated.Facts
import SsoModel.Forward
import SsoSpec.C18

/-!
# C03 — the upstream sees only proxy-asserted identity headers, never the session cookie
-/
namespace Sso.Forward
open Sso.Harden

theorem hget_foldl_hdel_mem (ks : List String) (h : HMap) (k : String) (hk : k ∈ ks) : hget (ks.foldl hdel h) k = [] := by
  induction ks generalizing h with
  | nil => cases hk
  | cons a t ih =>
    simp only [List.foldl_cons]
    by_cases hat : k ∈ t
    · exact ih _ hat
    · have : k = a := by rcases List.mem_cons.1 hk with e | e; exact e; exact absurd e hat
      subst this
      -- deleting further names never resurrects k
      have key : ∀ (ks : List String) (m : HMap), hget m k = [] → hget (ks.foldl hdel m) k = [] := by
        intro ks
        induction ks with
        | nil => intro m hm; exact hm
        | cons b u ihu =>
          intro m hm
          simp only [List.foldl_cons]
          apply ihu
          by_cases hb : k = b
          · subst hb; exact hget_hdel m k
          · rw [hget_hdel_ne m b k hb]; exact hm
      exact key t _ (hget_hdel h k)

theorem hget_foldl_hdel_not_mem (ks : List String) (h : HMap) (k : String) (hk : k ∉ ks) : hget (ks.foldl hdel h) k = hget h k := by
  induction ks generalizing h with
  | nil => rfl
  | cons a t ih =>
    simp only [List.foldl_cons]
    rw [ih _ (fun hm => hk (List.mem_cons_of_mem _ hm))]
    exact hget_hdel_ne h a k (fun e => hk (e ▸ List.mem_cons_self))

/-- **Unauthenticated (skip-auth / preflight) passes carry no identity header**, whatever the client sent — any
spelling, any multiplicity (names are canonicalised by net/http before sso sees them). -/
theorem C03_identity_headers_skip_auth (c : Cfg) (cookies : List (String × String)) (render : String × String → String)
    (conn : List String) (h : HMap) (k : String) (hk : k ∈ identityHeaders) :
    hget (pipeline c none cookies render conn h) k = [] := by
  unfold pipeline stripHop
  simp only
  have hne : k ≠ "Cookie" := by
    simp only [identityHeaders, List.mem_cons, List.not_mem_nil, or_false] at hk
    rcases hk with rfl | rfl | rfl | rfl <;> decide
  have hnh : k ∉ hopHeaders := by
    simp only [identityHeaders, List.mem_cons, List.not_mem_nil, or_false] at hk
    rcases hk with rfl | rfl | rfl | rfl <;> decide
  rw [hget_foldl_hdel_not_mem hopHeaders _ k hnh]
  have base : hget (deleteCookie c.cookieName cookies render (scrub h)) k = [] := by
    unfold deleteCookie
    simp only
    split
    · rw [hget_hdel_ne _ "Cookie" k hne]; exact hget_foldl_hdel_mem identityHeaders h k hk
    · rw [hget_hset_ne _ "Cookie" k _ hne]; exact hget_foldl_hdel_mem identityHeaders h k hk
  by_cases hc : k ∈ conn
  · exact hget_foldl_hdel_mem conn _ k hc
  · rw [hget_foldl_hdel_not_mem conn _ k hc]; exact base

/-- **Authenticated passes carry exactly the session's values** for user / e-mail / groups — provided the client's
`Connection` header does not nominate that header (hypothesis forced by the proof; see `C03_connection_refuted`), and
no inject-header is one of the identity headers. -/
theorem C03_partial_identity_headers_authenticated (c : Cfg) (id : Ident) (cookies : List (String × String))
    (render : String × String → String) (conn : List String) (h : HMap)
    (hconn : ∀ k ∈ identityHeaders, k ∉ conn) :
    hget (pipeline c (some id) cookies render conn h) "X-Forwarded-User" = [id.user] ∧
    hget (pipeline c (some id) cookies render conn h) "X-Forwarded-Email" = [id.email] ∧
    hget (pipeline c (some id) cookies render conn h) "X-Forwarded-Groups" = [id.groups] ∧
    (id.accessToken = none → hget (pipeline c (some id) cookies render conn h) "X-Forwarded-Access-Token" = []
        ∨ ∃ v, ("X-Forwarded-Access-Token", v) ∈ c.inject) := by
  have through : ∀ k ∈ identityHeaders, ∀ m : HMap,
      hget (stripHop conn (deleteCookie c.cookieName cookies render m)) k = hget m k := by
    intro k hk m
    have hne : k ≠ "Cookie" := by
      simp only [identityHeaders, List.mem_cons, List.not_mem_nil, or_false] at hk
      rcases hk with rfl | rfl | rfl | rfl <;> decide
    have hnh : k ∉ hopHeaders := by
      simp only [identityHeaders, List.mem_cons, List.not_mem_nil, or_false] at hk
      rcases hk with rfl | rfl | rfl | rfl <;> decide
    unfold stripHop
    rw [hget_foldl_hdel_not_mem hopHeaders _ k hnh, hget_foldl_hdel_not_mem conn _ k (hconn k hk)]
    unfold deleteCookie; simp only
    split
    · exact hget_hdel_ne _ "Cookie" k hne
    · exact hget_hset_ne _ "Cookie" k _ hne
  unfold pipeline
  simp only
  refine ⟨?_, ?_, ?_, ?_⟩
  · rw [through _ (by simp [identityHeaders])]
    unfold injectIdentity; simp only
    rw [hget_hset_ne _ _ _ _ (by decide), hget_hset_ne _ _ _ _ (by decide)]
    cases id.accessToken with
    | none => exact hget_hset _ _ _
    | some t => simp only; rw [hget_hset_ne _ _ _ _ (by decide)]; exact hget_hset _ _ _
  · rw [through _ (by simp [identityHeaders])]
    unfold injectIdentity; simp only
    rw [hget_hset_ne _ _ _ _ (by decide)]; exact hget_hset _ _ _
  · rw [through _ (by simp [identityHeaders])]
    unfold injectIdentity; simp only
    exact hget_hset _ _ _
  · intro hnone
    by_cases hinj : ∃ v, ("X-Forwarded-Access-Token", v) ∈ c.inject
    · exact Or.inr hinj
    · left
      rw [through _ (by simp [identityHeaders])]
      unfold injectIdentity; simp only [hnone]
      rw [hget_hset_ne _ _ _ _ (by decide), hget_hset_ne _ _ _ _ (by decide), hget_hset_ne _ _ _ _ (by decide)]
      rw [hget_setAll_not_mem _ _ _ (fun p hp e => hinj ⟨p.2, by rw [← e]; exact hp⟩)]
      exact hget_foldl_hdel_mem identityHeaders h _ (by simp [identityHeaders])

/-- **Never a client-chosen identity** (full strength, no hypothesis on `Connection`): on an authenticated pass each of
`X-Forwarded-User` / `-Email` / `-Groups` reaches the upstream either with exactly the session's value or not at all —
for every client header map, cookie list and `Connection` token list. The client can make the reverse proxy *drop* a
header (`C03_connection_refuted`), never make it carry a value of the client's choosing. -/
theorem C03_identity_value_or_absent (c : Cfg) (id : Ident) (cookies : List (String × String))
    (render : String × String → String) (conn : List String) (h : HMap) :
    (hget (pipeline c (some id) cookies render conn h) "X-Forwarded-User" = [id.user] ∨
      hget (pipeline c (some id) cookies render conn h) "X-Forwarded-User" = []) ∧
    (hget (pipeline c (some id) cookies render conn h) "X-Forwarded-Email" = [id.email] ∨
      hget (pipeline c (some id) cookies render conn h) "X-Forwarded-Email" = []) ∧
    (hget (pipeline c (some id) cookies render conn h) "X-Forwarded-Groups" = [id.groups] ∨
      hget (pipeline c (some id) cookies render conn h) "X-Forwarded-Groups" = []) := by
  have through : ∀ k, k ≠ "Cookie" → k ∉ hopHeaders → ∀ m : HMap,
      hget (stripHop conn (deleteCookie c.cookieName cookies render m)) k = hget m k ∨
      hget (stripHop conn (deleteCookie c.cookieName cookies render m)) k = [] := by
    intro k hne hnh m
    unfold stripHop
    rw [hget_foldl_hdel_not_mem hopHeaders _ k hnh]
    by_cases hc : k ∈ conn
    · exact Or.inr (hget_foldl_hdel_mem conn _ k hc)
    · left
      rw [hget_foldl_hdel_not_mem conn _ k hc]
      unfold deleteCookie; simp only
      split
      · exact hget_hdel_ne _ "Cookie" k hne
      · exact hget_hset_ne _ "Cookie" k _ hne
  unfold pipeline
  simp only
  refine ⟨?_, ?_, ?_⟩
  · rcases through "X-Forwarded-User" (by decide) (by decide) (injectIdentity c.inject id (scrub h)) with e | e
    · left; rw [e]
      unfold injectIdentity; simp only
      rw [hget_hset_ne _ _ _ _ (by decide), hget_hset_ne _ _ _ _ (by decide)]
      cases id.accessToken with
      | none => exact hget_hset _ _ _
      | some t => simp only; rw [hget_hset_ne _ _ _ _ (by decide)]; exact hget_hset _ _ _
    · exact Or.inr e
  · rcases through "X-Forwarded-Email" (by decide) (by decide) (injectIdentity c.inject id (scrub h)) with e | e
    · left; rw [e]
      unfold injectIdentity; simp only
      rw [hget_hset_ne _ _ _ _ (by decide)]; exact hget_hset _ _ _
    · exact Or.inr e
  · rcases through "X-Forwarded-Groups" (by decide) (by decide) (injectIdentity c.inject id (scrub h)) with e | e
    · left; rw [e]
      unfold injectIdentity; simp only
      exact hget_hset _ _ _
    · exact Or.inr e
/-- Full strength is **refuted**: a client that sends `Connection: X-Forwarded-Email` makes the reverse proxy strip the
header the proxy has just set. KNOWN FINDING `connection-nominated-headers`. -/
theorem C03_connection_refuted :
    ¬ ∀ (c : Cfg) (id : Ident) (conn : List String) (h : HMap),
        hget (pipeline c (some id) [] (fun p => p.1 ++ "=" ++ p.2) conn h) "X-Forwarded-Email" = [id.email] := by
  intro hall
  have := hall ⟨"_sso_proxy", []⟩ ⟨"u", "u@x.io", "", none⟩ ["X-Forwarded-Email"] []
  revert this; decide

/-- **The session cookie is never forwarded**: the `Cookie` header the upstream receives is rendered from the request's
cookies minus every cookie with the session cookie's name; if nothing else is left there is no `Cookie` header. -/
theorem C03_session_cookie_never_forwarded (cookieName : String) (cookies : List (String × String))
    (render : String × String → String) (h : HMap) :
    (∀ p ∈ cookies.filter (·.1 ≠ cookieName), p.1 ≠ cookieName) ∧
    (cookies.filter (·.1 ≠ cookieName) = [] → hget (deleteCookie cookieName cookies render h) "Cookie" = []) ∧
    (cookies.filter (·.1 ≠ cookieName) ≠ [] →
        hget (deleteCookie cookieName cookies render h) "Cookie" = [";".intercalate ((cookies.filter (·.1 ≠ cookieName)).map render)]) := by
  refine ⟨fun p hp => by simpa using (List.mem_filter.1 hp).2, ?_, ?_⟩
  · intro he; unfold deleteCookie; simp only; rw [if_pos he]; exact hget_hdel h "Cookie"
  · intro hne; unfold deleteCookie; simp only; rw [if_neg hne]; exact hget_hset h "Cookie" _

/-- … and every other cookie is kept, once per occurrence, in order. -/
theorem C03_other_cookies_preserved (cookieName : String) (cookies : List (String × String)) :
    (cookies.filter (·.1 ≠ cookieName)) = cookies.filter (fun p => p.1 ≠ cookieName) ∧
    ∀ p, p.1 ≠ cookieName → (cookies.filter (·.1 ≠ cookieName)).count p = cookies.count p := by
  refine ⟨rfl, ?_⟩
  intro p hp
  rw [List.count_filter]
  simp [hp]

/-- Tie (T1): the handler chain of `NewUpstreamReverseProxy` (cookie deletion outermost, then signing, then the optional
timeout handler, then the reverse proxy) and the covered/identity header tables. -/
theorem C03_chain : Sso.Generated.skel_proxy_NewUpstreamReverseProxy =
    ["typeswitch{", "case{", "call:StaticDirectorFunc", "}", "case{", "call:RewriteDirectorFunc", "}", "case{", "call:Errorf", "return", "}", "}",
     "func{", "range{", "call:Del", "}", "call:Del", "return", "}", "if{", "call:newTimeoutHandler", "}", "if{", "call:newSigningHandler", "}",
     "call:deleteCookieHandler", "return"] := by decide

/-- Tie (T1): the session-cookie filter and its place in the handler chain — call/branch/store skeletons regenerated from the source on every run; the expectations below are
what the model in this file transliterates. A structural edit of any of these functions breaks this theorem and sends the
check searching for a failing input. -/
theorem C03_wiring :
    Sso.Generated.skel_proxy_deleteCookieHandler =
      ["func{", "call:deleteCookie", "call:ServeHTTP", "}", "call:HandlerFunc", "return"] ∧
    Sso.Generated.skel_proxy_deleteCookie =
      ["call:Cookies", "range{", "if{", "call:String", "call:append", "}", "}", "call:len", "if{", "call:Del", "return", "}", "call:Join", "call:Set"] ∧
    Sso.Generated.skel_proxy_DirectorFunc =
      ["func{", "store:req.URL.Scheme", "store:req.URL.Host", "call:singleJoiningSlash", "store:req.URL.Path", "if{", "store:req.URL.RawQuery", "}", "else{", "store:req.URL.RawQuery", "}", "if{", "call:Set", "}", "call:Add", "if{", "store:req.Host", "}", "}", "return"] := by decide

/-- Tie (T1): the session is looked up under the cookie's exact configured name (`req.Cookie(name)`), the very name
`deleteCookie` strips. -/
theorem C03_skeleton_LoadSession : Sso.Generated.skel_store_LoadSession =
    ["call:Cookie", "if{", "return", "}", "call:UnmarshalSession", "if{", "return", "}", "return"] := by decide

/-- Tie (T1), second wave: helpers, stores and second callers on this property's path (proxy_StaticDirectorFunc, proxy_RewriteDirectorFunc, proxy_upstreamTransport_RoundTrip) — call/branch/store skeletons
regenerated from the source on every run against the expectations frozen here. -/
theorem C03_wiring2 :
    Sso.Generated.skel_proxy_StaticDirectorFunc =
      ["call:DirectorFunc", "return"] ∧
    Sso.Generated.skel_proxy_RewriteDirectorFunc =
      ["func{", "call:ReplaceAllString", "call:urlParse", "if{", "store:req.URL", "return", "}", "call:?", "}", "return"] ∧
    Sso.Generated.skel_proxy_upstreamTransport_RoundTrip =
      ["call:getTransport", "call:RoundTrip", "if{", "return", "}", "return"] := by decide

/-- Tie (T1), third wave: the constructors and option functions that hand configured values to the components this property
speaks about (proxy_SetUpstreamConfig). -/
theorem C03_wiring3 :
    Sso.Generated.skel_proxy_SetUpstreamConfig =
      ["func{", "store:op.upstreamConfig", "return", "}", "return"] := by decide

/-- Tie (T1): the transport to the upstreams — exactly these fields of `http.Transport` are set (no `ForceAttemptHTTP2`, no
custom `DialTLS`): requests reach an upstream with HTTP/1.1 framing, the framing the signing document, the `Cookie` rendering and the
forward engine's recording backend are written for. -/
theorem C03_upstream_transport :
    Sso.Generated.upstreamTransportFields =
      ["Proxy,DialContext,MaxIdleConns,IdleConnTimeout,TLSHandshakeTimeout,TLSClientConfig,ExpectContinueTimeout"] ∧
    Sso.Generated.skel_proxy_getTransport =
      ["call:Lock", "defer:Unlock", "call:Now", "call:After", "if{", "call:Now", "call:Add", "store:t.deadAfter", "store:t.transport", "}", "return"] := by decide

end Sso.Forward
