import Generated.Facts
import SsoSpec.C07

/-!
# C09 — the authenticator issues codes only for live, provider-confirmed, allowed sessions
-/
namespace Sso.AuthN
open Sso.Validators

theorem authenticate_ok (lower : Bytes → Bytes) (emailOK : Bytes → Bool) (now : Int) (c : CookieIn) (a : IdPAns) (s' : ASess)
    (w : List AWrite) (calls : List String) (h : authenticate lower emailOK now c a = (.ok s', w, calls)) :
    ∃ s, c = .opens s ∧ aexp s.lifetime now = false ∧ emailOK s'.email = true ∧ s'.email = s.email ∧ s'.lifetime = s.lifetime ∧
      ((aexp s.refresh now = true ∧ s.refreshTok ≠ "" ∧ ∃ tok ttl, a.refresh = .ok (tok, ttl) ∧ s' = { s with access := tok, refresh := now + ttl })
       ∨ (aexp s.refresh now = false ∧ s.access ≠ "" ∧ a.validate = true ∧ s' = s)) := by
  unfold authenticate at h
  cases c with
  | absent => simp at h
  | junk => simp at h
  | opens s =>
    simp only at h
    by_cases h1 : aexp s.lifetime now = true
    · simp [h1] at h
    · simp only [h1, Bool.false_eq_true, if_false] at h
      refine ⟨s, rfl, by simpa using h1, ?_⟩
      by_cases h2 : aexp s.refresh now = true
      · simp only [h2, if_true] at h
        by_cases h3 : s.refreshTok = ""
        · simp [h3] at h
        · simp only [h3, if_false] at h
          cases hr : a.refresh with
          | error e => rw [hr] at h; simp at h
          | ok p =>
            obtain ⟨tok, ttl⟩ := p
            rw [hr] at h; simp only at h
            by_cases h4 : emailOK s.email = true
            · simp only [h4, if_true, Prod.mk.injEq, AuthRes.ok.injEq] at h
              obtain ⟨hs, _, _⟩ := h
              subst hs
              exact ⟨h4, rfl, rfl, Or.inl ⟨h2, h3, tok, ttl, rfl, rfl⟩⟩
            · simp [h4] at h
      · simp only [h2, Bool.false_eq_true, if_false] at h
        by_cases h3 : s.access = ""
        · simp [h3] at h
        · simp only [h3, if_false] at h
          by_cases h4 : a.validate = true
          · simp only [h4, if_true] at h
            by_cases h5 : emailOK s.email = true
            · simp only [h5, if_true, Prod.mk.injEq, AuthRes.ok.injEq] at h
              obtain ⟨hs, _, _⟩ := h
              subst hs
              exact ⟨h5, rfl, rfl, Or.inr ⟨by simpa using h2, h3, h4, rfl⟩⟩
            · simp [h5] at h
          · simp [h4] at h

/-- **A code only if** the cookie opens under the authenticator's cookie secret to a session within its lifetime, whose
token the identity provider currently accepts (after a successful refresh if one was due and a refresh token exists),
whose e-mail passes the authenticator's e-mail rule, and the request carries a state; the sealed code is exactly that
(refreshed) session. -/
theorem C09_code_only_if (lower : Bytes → Bytes) (emailOK : Bytes → Bool) (now : Int) (c : CookieIn) (a : IdPAns)
    (state redirect : String) (parses : Bool) (sc : ASess) (w : List AWrite) (calls : List String)
    (h : signIn lower emailOK now c a state redirect parses = (.codeRedirect sc, w, calls)) :
    state ≠ "" ∧ redirect ≠ "" ∧ parses = true ∧
    ∃ s, c = .opens s ∧ aexp s.lifetime now = false ∧ emailOK sc.email = true ∧ sc.email = s.email ∧ sc.lifetime = s.lifetime ∧
      ((aexp s.refresh now = true ∧ s.refreshTok ≠ "" ∧ ∃ tok ttl, a.refresh = .ok (tok, ttl) ∧ sc = { s with access := tok, refresh := now + ttl })
       ∨ (aexp s.refresh now = false ∧ s.access ≠ "" ∧ a.validate = true ∧ sc = s)) := by
  unfold signIn at h
  rcases hau : authenticate lower emailOK now c a with ⟨res, w', calls'⟩
  rw [hau] at h
  cases res with
  | ok s' =>
    simp only at h
    by_cases h1 : state = ""
    · simp [h1] at h
    · by_cases h2 : redirect = ""
      · simp [h1, h2] at h
      · by_cases h3 : parses = true
        · simp only [h1, h2, h3, if_false, Bool.not_true, Bool.false_eq_true, Prod.mk.injEq, SignInOut.codeRedirect.injEq] at h
          obtain ⟨hs, _, _⟩ := h
          subst hs
          exact ⟨h1, h2, h3, authenticate_ok lower emailOK now c a s' w' calls' hau⟩
        · simp [h1, h2, h3] at h
  | noCookie => simp at h
  | invalidSession => simp at h
  | lifetimeExpired => simp at h
  | notAuthorized => simp at h
  | perr e => cases e <;> simp at h

/-- Refreshes never extend the authenticator session's lifetime: whatever `authenticate` re-saves has the presented
session's lifetime deadline and e-mail. -/
theorem C09_auth_lifetime_frame (lower : Bytes → Bytes) (emailOK : Bytes → Bool) (now : Int) (s : ASess) (a : IdPAns) :
    ∀ w ∈ (authenticate lower emailOK now (.opens s) a).2.1, ∀ s', w = .save s' → s'.lifetime = s.lifetime ∧ s'.email = s.email ∧ s'.refreshTok = s.refreshTok := by
  intro w hw s' hs
  unfold authenticate at hw
  simp only at hw
  by_cases h1 : aexp s.lifetime now = true
  · simp [h1] at hw; subst hw; cases hs
  · simp only [h1, Bool.false_eq_true, if_false] at hw
    by_cases h2 : aexp s.refresh now = true
    · simp only [h2, if_true] at hw
      by_cases h3 : s.refreshTok = ""
      · simp [h3] at hw; subst hw; cases hs
      · simp only [h3, if_false] at hw
        cases hr : a.refresh with
        | error e => rw [hr] at hw; simp at hw; subst hw; cases hs
        | ok p =>
          obtain ⟨tok, ttl⟩ := p
          rw [hr] at hw; simp only at hw
          split at hw <;> (simp at hw; subst hw; cases hs; exact ⟨rfl, rfl, rfl⟩)
    · simp only [h2, Bool.false_eq_true, if_false] at hw
      by_cases h3 : s.access = ""
      · simp [h3] at hw; subst hw; cases hs
      · simp only [h3, if_false] at hw
        by_cases h4 : a.validate = true
        · simp only [h4, if_true] at hw
          split at hw <;> (simp at hw; subst hw; cases hs; exact ⟨rfl, rfl, rfl⟩)
        · simp [h4] at hw; subst hw; cases hs

/-- The identity-provider callback creates a session **only if** the nonce in the returned state equals the CSRF cookie
set at `/start`, the code was redeemed to a session (C10), the state's redirect is in-domain and the e-mail passes the rule. -/
theorem C09_callback_creates_session_only_if (emailOK : Bytes → Bool) (i : CbIn) (e : Bytes) (loc : String)
    (h : oauthCallback emailOK i = .session e loc) :
    i.errorParam = "" ∧ i.code ≠ "" ∧ (∃ at' rt ttl, i.login = .session e at' rt ttl) ∧ e ≠ [] ∧ i.stateDecodes = true ∧
    i.stateHasColon = true ∧ i.csrfCookie = some i.stateNonce ∧ i.redirectValid = true ∧ emailOK e = true ∧ loc = i.stateRedirect := by
  unfold oauthCallback at h
  by_cases h1 : i.errorParam ≠ ""
  · simp [h1] at h
  · by_cases h2 : i.code = ""
    · simp [h1, h2] at h
    · simp only [h1, h2, if_false] at h
      cases hl : i.login with
      | panic => rw [hl] at h; simp at h
      | error => rw [hl] at h; simp at h
      | session e' at' rt ttl =>
        rw [hl] at h; simp only at h
        by_cases h3 : e' = []
        · simp [h3] at h
        · by_cases h4 : i.stateDecodes = true
          · by_cases h5 : i.stateHasColon = true
            · simp only [h3, h4, h5, if_false, Bool.not_true, Bool.false_eq_true] at h
              cases hc : i.csrfCookie with
              | none => rw [hc] at h; simp at h
              | some cv =>
                rw [hc] at h; simp only at h
                by_cases h6 : cv ≠ i.stateNonce
                · simp [h6] at h
                · by_cases h7 : i.redirectValid = true
                  · by_cases h8 : emailOK e' = true
                    · simp only [h6, h7, h8, if_false, Bool.not_true, Bool.false_eq_true, CbOut.session.injEq] at h
                      obtain ⟨he, hloc⟩ := h
                      subst he
                      simp only [ne_eq, Decidable.not_not] at h6 h1
                      exact ⟨h1, h2, ⟨at', rt, ttl, rfl⟩, h3, h4, h5, by rw [h6], h7, h8, hloc.symm⟩
                    · simp [h6, h7, h8] at h
                  · simp [h6, h7] at h
            · simp [h3, h4, h5] at h
          · simp [h3, h4] at h

/-- otherwise: sign-in page or error, no code — the three outcomes are exhaustive and only one carries a code -/
theorem C09_no_code_otherwise (lower : Bytes → Bytes) (emailOK : Bytes → Bool) (now : Int) (c : CookieIn) (a : IdPAns)
    (state redirect : String) (parses : Bool) :
    (∃ s, (signIn lower emailOK now c a state redirect parses).1 = .codeRedirect s) ∨
    (signIn lower emailOK now c a state redirect parses).1 = .signInPage ∨
    (∃ n, (signIn lower emailOK now c a state redirect parses).1 = .error n) := by
  cases h : (signIn lower emailOK now c a state redirect parses).1 with
  | codeRedirect s => exact Or.inl ⟨s, rfl⟩
  | signInPage => exact Or.inr (Or.inl rfl)
  | error n => exact Or.inr (Or.inr ⟨n, rfl⟩)

/-- Tie (T1): the authenticator coalesces concurrent validations **by access token** and refreshes **by refresh token**,
so the "provider confirms the token" premise of `C09_code_only_if` is about the session's *own* token even when another
session of the same user is being validated at the same time. -/
theorem C09_checks_keyed_by_token :
    Sso.Generated.sf_keys_auth.lookup "ValidateSessionState" = some "s.AccessToken" ∧
    Sso.Generated.sf_keys_auth.lookup "RefreshSessionIfNeeded" = some "s.RefreshToken" := by decide

/-- Tie (T1): the authenticator's own `authenticate`, `SignIn` and the code-issuing redirect — call/branch/store skeletons regenerated from the source on every run; the expectations below are
what the model in this file transliterates. A structural edit of any of these functions breaks this theorem and sends the
check searching for a failing input. -/
theorem C09_wiring :
    Sso.Generated.skel_auth_authenticate =
      ["call:getRemoteAddr", "call:LoadSession", "if{", "call:ClearSession", "return", "}", "call:LifetimePeriodExpired", "if{", "call:ClearSession", "return", "}", "call:RefreshPeriodExpired", "if{", "call:RefreshSessionIfNeeded", "if{", "call:ClearSession", "return", "}", "if{", "call:ClearSession", "return", "}", "call:SaveSession", "if{", "call:ClearSession", "return", "}", "}", "else{", "call:ValidateSessionState", "if{", "call:ClearSession", "return", "}", "call:SaveSession", "if{", "call:ClearSession", "return", "}", "}", "call:RunValidators", "call:len", "call:len", "if{", "return", "}", "return"] ∧
    Sso.Generated.skel_auth_SignIn =
      ["call:getProxyHost", "call:authenticate", "switch{", "case nil{", "call:ProxyOAuthRedirect", "}", "case http.ErrNoCookie{", "call:SignInPage", "}", "case providers.ErrTokenRevoked{", "call:ClearSession", "call:SignInPage", "}", "case sessions.ErrLifetimeExpired,sessions.ErrInvalidSession{", "call:ClearSession", "call:SignInPage", "}", "default{", "call:Error", "call:codeForError", "call:ErrorResponse", "}", "}"] ∧
    Sso.Generated.skel_auth_ProxyOAuthRedirect =
      ["call:ParseForm", "if{", "call:Error", "call:ErrorResponse", "return", "}", "call:Get", "if{", "call:ErrorResponse", "return", "}", "call:Get", "if{", "call:ErrorResponse", "return", "}", "call:Parse", "if{", "call:ErrorResponse", "return", "}", "call:MarshalSession", "if{", "call:Error", "call:ErrorResponse", "return", "}", "call:string", "call:getAuthCodeRedirectURL", "if{", "call:Error", "call:ErrorResponse", "return", "}", "call:Redirect"] := by decide

/-! ### Histories at the authenticator -/

def asaves : List AWrite → List ASess
  | [] => []
  | .save s :: t => s :: asaves t
  | .clear :: t => asaves t

/-- what `authenticate` hands on (`.ok s`) and whatever it re-saves keep the presented session's lifetime deadline and e-mail,
and it hands on a session only while that lifetime has not passed -/
theorem authenticate_frame (lower : Bytes → Bytes) (emailOK : Bytes → Bool) (now : Int) (s : ASess) (a : IdPAns) :
    (∀ s', (authenticate lower emailOK now (.opens s) a).1 = .ok s' →
        s'.lifetime = s.lifetime ∧ s'.email = s.email ∧ aexp s.lifetime now = false) ∧
    (∀ s' ∈ asaves (authenticate lower emailOK now (.opens s) a).2.1, s'.lifetime = s.lifetime ∧ s'.email = s.email) := by
  unfold authenticate
  simp only
  by_cases h1 : aexp s.lifetime now = true
  · simp [h1, asaves]
  · simp only [h1, Bool.false_eq_true, if_false]
    by_cases h2 : aexp s.refresh now = true
    · simp only [h2, if_true]
      by_cases h3 : s.refreshTok = ""
      · simp [h3, asaves]
      · simp only [h3, if_false]
        cases hr : a.refresh with
        | error e => simp [asaves]
        | ok p =>
          obtain ⟨tok, ttl⟩ := p
          simp only
          by_cases he : emailOK s.email = true
          · simp [he, asaves]
          · simp [he, asaves]
    · simp only [h2, Bool.false_eq_true, if_false]
      by_cases h3 : s.access = ""
      · simp [h3, asaves]
      · simp only [h3, if_false]
        by_cases h4 : a.validate = true
        · simp only [h4, if_true]
          by_cases he : emailOK s.email = true
          · simp [he, asaves]
          · simp [he, asaves]
        · simp [h4, asaves]

/-! ### histories at the authenticator -/

/-- one browser's authenticator cookies: the session the IdP callback created and everything re-saved since -/
structure AWorld where
  root : ASess
  issued : List ASess

inductive APresented where
  | nth (i : Nat) | none | garbage

def AWorld.cookie (w : AWorld) : APresented → CookieIn
  | .nth i => .opens ((w.issued ++ [w.root])[i]?.getD w.root)
  | .none => .absent
  | .garbage => .junk

structure AStep where
  now : Int
  presented : APresented
  ans : IdPAns
  state : String
  redirect : String
  redirectParses : Bool

def stepA (lower : Bytes → Bytes) (emailOK : Bytes → Bool) (w : AWorld) (st : AStep) : AWorld × SignInOut :=
  let o := signIn lower emailOK st.now (w.cookie st.presented) st.ans st.state st.redirect st.redirectParses
  ({ w with issued := asaves o.2.1 ++ w.issued }, o.1)

def runA (lower : Bytes → Bytes) (emailOK : Bytes → Bool) (w : AWorld) : List AStep → AWorld × List SignInOut
  | [] => (w, [])
  | st :: t =>
    let (w', o) := stepA lower emailOK w st
    let (w'', os) := runA lower emailOK w' t
    (w'', o :: os)

def AInv (w : AWorld) : Prop := ∀ s ∈ w.issued, s.lifetime = w.root.lifetime ∧ s.email = w.root.email

theorem acookie_frame (w : AWorld) (hw : AInv w) (p : APresented) (s : ASess) (h : w.cookie p = .opens s) :
    s.lifetime = w.root.lifetime ∧ s.email = w.root.email := by
  cases p with
  | none => simp [AWorld.cookie] at h
  | garbage => simp [AWorld.cookie] at h
  | nth i =>
    simp only [AWorld.cookie, CookieIn.opens.injEq] at h
    cases hg : (w.issued ++ [w.root])[i]? with
    | none => rw [hg] at h; simp at h; subst h; exact ⟨rfl, rfl⟩
    | some x =>
      rw [hg] at h; simp at h; subst h
      have := List.mem_of_getElem? hg
      rcases List.mem_append.1 this with h1 | h1
      · exact hw _ h1
      · simp at h1; subst h1; exact ⟨rfl, rfl⟩

theorem signIn_saves (lower : Bytes → Bytes) (emailOK : Bytes → Bool) (now : Int) (c : CookieIn) (a : IdPAns) (state redirect : String) (rp : Bool) :
    asaves (signIn lower emailOK now c a state redirect rp).2.1 = asaves (authenticate lower emailOK now c a).2.1 := by
  have hcl : ∀ l : List AWrite, asaves (l ++ [.clear]) = asaves l := by
    intro l; induction l with
    | nil => rfl
    | cons x t ih => cases x <;> simp [asaves, ih]
  unfold signIn
  rcases hauth : authenticate lower emailOK now c a with ⟨r, w, calls⟩
  cases r with
  | ok s => simp only; split <;> (try split) <;> (try split) <;> rfl
  | noCookie => rfl
  | invalidSession => simp [hcl]
  | lifetimeExpired => simp [hcl]
  | notAuthorized => rfl
  | perr e => cases e <;> simp [hcl]

theorem stepA_inv (lower : Bytes → Bytes) (emailOK : Bytes → Bool) (w : AWorld) (st : AStep) (hw : AInv w) :
    AInv (stepA lower emailOK w st).1 := by
  intro s hs
  simp only [stepA, List.mem_append] at hs
  rcases hs with hs | hs
  · rw [signIn_saves] at hs
    cases hc : w.cookie st.presented with
    | absent => rw [hc] at hs; simp [authenticate, asaves] at hs
    | junk => rw [hc] at hs; simp [authenticate, asaves] at hs
    | opens s0 =>
      rw [hc] at hs
      have h0 := acookie_frame w hw _ s0 hc
      have := (authenticate_frame lower emailOK st.now s0 st.ans).2 s hs
      exact ⟨this.1.trans h0.1, this.2.trans h0.2⟩
  · exact hw s hs

/-- **Codes only within the lifetime fixed at login, along every history.** Start from the session the IdP callback
created at `t₀` (lifetime `t₀ + L`). Along every history of sign-in requests — any timing, any provider answers, any
refreshes, replays of older cookies of the chain — a code is issued at time `now` only if `now ≤ t₀ + L`; the code's
session carries that same lifetime deadline and the same e-mail, so `/redeem` refuses it once the lifetime has passed. -/
theorem C09_code_lifetime_bound (lower : Bytes → Bytes) (emailOK : Bytes → Bool) (w : AWorld) (sts : List AStep) (hw : AInv w) :
    ∀ p ∈ sts.zip (runA lower emailOK w sts).2, ∀ s, p.2 = .codeRedirect s →
      p.1.now ≤ w.root.lifetime ∧ s.lifetime = w.root.lifetime ∧ s.email = w.root.email := by
  induction sts generalizing w with
  | nil => intro p hp; simp [runA] at hp
  | cons st t ih =>
    have h1 := stepA_inv lower emailOK w st hw
    intro p hp s hs
    simp only [runA, List.zip_cons_cons, List.mem_cons] at hp
    rcases hp with rfl | hp
    · simp only [stepA] at hs
      unfold signIn at hs
      rcases hauth : authenticate lower emailOK st.now (w.cookie st.presented) st.ans with ⟨r, wr, calls⟩
      rw [hauth] at hs
      cases r with
      | ok s1 =>
        simp only at hs
        have hs1 : s = s1 := by
          split at hs; · cases hs
          split at hs; · cases hs
          split at hs; · cases hs
          cases hs; rfl
        subst hs1
        cases hc : w.cookie st.presented with
        | absent => rw [hc] at hauth; simp [authenticate] at hauth
        | junk => rw [hc] at hauth; simp [authenticate] at hauth
        | opens s0 =>
          rw [hc] at hauth
          have h0 := acookie_frame w hw _ s0 hc
          have := (authenticate_frame lower emailOK st.now s0 st.ans).1 s (by rw [hauth])
          have hl : ¬ s0.lifetime < st.now := by simpa [aexp] using this.2.2
          refine ⟨?_, this.1.trans h0.1, this.2.1.trans h0.2⟩
          show st.now ≤ w.root.lifetime
          rw [← h0.1]; omega
      | noCookie => simp at hs
      | invalidSession => simp at hs
      | lifetimeExpired => simp at hs
      | notAuthorized => simp at hs
      | perr e => cases e <;> simp at hs
    · have := ih (stepA lower emailOK w st).1 h1 p hp s hs
      exact this



/-! ### The CSRF cookie across a browser's history at the authenticator

`/start` sets the cookie to a fresh nonce; the callback reads it and — as soon as it has read it, matching or not — clears it.
A browser's history is a list of such events; the callback's `csrfCookie` input is whatever the history left in the jar. -/

/-- a callback that creates a session did read the cookie -/
theorem session_reads_cookie (emailOK : Bytes → Bool) (i : CbIn) (e : Bytes) (loc : String)
    (h : oauthCallback emailOK i = .session e loc) : readsCookie i = true := by
  obtain ⟨h1, h2, ⟨a, r, t, h3⟩, h4, h5, h6, _⟩ := C09_callback_creates_session_only_if emailOK i e loc h
  simp [readsCookie, h1, h2, h3, h4, h5, h6]

/-- no `/start`, and no callback that got as far as reading the cookie -/
def Untouched (evs : List CEv) : Prop :=
  ∀ ev ∈ evs, match ev with
    | .start _ => False
    | .callback j => readsCookie j = false

theorem jar_some_origin (evs : List CEv) (j0 : Option String) (n : String) (h : evs.foldl jarStep j0 = some n) :
    (∃ before after, evs = before ++ .start n :: after ∧ Untouched after) ∨ (j0 = some n ∧ Untouched evs) := by
  induction evs generalizing j0 with
  | nil => right; exact ⟨by simpa using h, by intro ev hev; cases hev⟩
  | cons ev t ih =>
    simp only [List.foldl_cons] at h
    rcases ih _ h with ⟨b, a, ht, ha⟩ | ⟨hj, ht⟩
    · left; exact ⟨ev :: b, a, by simp [ht], ha⟩
    · cases ev with
      | start m =>
        simp only [jarStep, Option.some.injEq] at hj
        subst hj
        left; exact ⟨[], t, by simp, ht⟩
      | callback j =>
        simp only [jarStep] at hj
        by_cases hc : (readsCookie j && j0.isSome) = true
        · simp [hc] at hj
        · simp only [hc, Bool.false_eq_true, if_false] at hj
          right
          refine ⟨hj, ?_⟩
          intro ev hev
          rcases List.mem_cons.1 hev with h1 | h1
          · subst h1
            simp only [hj, Option.isSome_some, Bool.and_true] at hc
            simpa using hc
          · exact ht ev h1

/-- **The nonce a session-creating callback rides on is the one the most recent `/start` of this browser handed out, and
nothing has read the cookie since.** In particular it is a nonce this service generated — never a value of the caller's
choosing, never the empty string unless `/start` handed that out. -/
theorem C09_callback_nonce_is_outstanding_start (emailOK : Bytes → Bool) (pre : List CEv) (i : CbIn) (e : Bytes) (loc : String)
    (h : callbackIn emailOK pre i = .session e loc) :
    ∃ before after, pre = before ++ .start i.stateNonce :: after ∧ Untouched after := by
  have hj : jarOf pre = some i.stateNonce := by
    have := (C09_callback_creates_session_only_if emailOK _ e loc h).2.2.2.2.2.2.1
    simpa using this
  rcases jar_some_origin pre none i.stateNonce hj with h1 | ⟨h1, _⟩
  · exact h1
  · cases h1

/-- **One shot**: right after a callback that read the cookie (whether it created a session or failed on the nonce, the
redirect or the e-mail rule), no callback creates a session until `/start` runs again — a replayed or second forged callback
finds no cookie. -/
theorem C09_callback_one_shot (emailOK : Bytes → Bool) (pre : List CEv) (i j : CbIn) (hr : readsCookie i = true) :
    ∀ e loc, callbackIn emailOK (pre ++ [.callback i]) j ≠ .session e loc := by
  intro e loc h
  have hj := (C09_callback_creates_session_only_if emailOK _ e loc h).2.2.2.2.2.2.1
  simp only [jarOf, List.foldl_append, List.foldl_cons, List.foldl_nil, jarStep, hr, Bool.true_and] at hj
  cases hjar : List.foldl jarStep none pre with
  | none => rw [hjar] at hj; simp at hj
  | some c => rw [hjar] at hj; simp at hj

/-- with no `/start` in the history no callback creates a session, whatever state, code and e-mail it carries -/
theorem C09_no_start_no_session (emailOK : Bytes → Bool) (pre : List CEv) (i : CbIn)
    (hn : ∀ ev ∈ pre, match ev with | .start _ => False | .callback _ => True) :
    ∀ e loc, callbackIn emailOK pre i ≠ .session e loc := by
  intro e loc h
  obtain ⟨b, a, hl, _⟩ := C09_callback_nonce_is_outstanding_start emailOK pre i e loc h
  have := hn (.start i.stateNonce) (by rw [hl]; simp)
  exact this

-- the hypotheses are satisfiable: a start followed by the matching callback creates the session
example : callbackIn (fun _ => true) [.start "n1"]
    { errorParam := "", code := "c", login := .session [97] "at" "rt" 60, stateDecodes := true, stateNonce := "n1",
      stateRedirect := "https://app.x.io/", stateHasColon := true, csrfCookie := none, redirectValid := true } =
    .session [97] "https://app.x.io/" := by
  simp [callbackIn, jarOf, jarStep, oauthCallback]

/-- Tie (T1), second wave: helpers, stores and second callers on this property's path (aead_GenerateKey, store_SetCSRF, store_GetCSRF, store_ClearCSRF, auth_OAuthStart, auth_OAuthCallback, auth_getOAuthCallback, google_RefreshSessionIfNeeded, okta_RefreshSessionIfNeeded, google_ValidateSessionState, okta_ValidateSessionState) — call/branch/store skeletons
regenerated from the source on every run against the expectations frozen here. -/
theorem C09_wiring2 :
    Sso.Generated.skel_aead_GenerateKey =
      ["call:GenerateKey", "return"] ∧
    Sso.Generated.skel_store_SetCSRF =
      ["call:Now", "call:makeCSRFCookie", "call:SetCookie"] ∧
    Sso.Generated.skel_store_GetCSRF =
      ["call:Cookie", "return"] ∧
    Sso.Generated.skel_store_ClearCSRF =
      ["call:Now", "call:makeCSRFCookie", "call:SetCookie"] ∧
    Sso.Generated.skel_auth_OAuthStart =
      ["call:GenerateKey", "call:Sprintf", "call:SetCSRF", "call:Query", "call:Get", "call:Parse", "call:String", "call:validRedirectURI", "if{", "call:ErrorResponse", "return", "}", "call:Query", "call:Get", "call:Parse", "call:String", "call:validRedirectURI", "if{", "call:ErrorResponse", "return", "}", "call:Query", "call:Get", "call:Query", "call:Get", "call:String", "call:validSignature", "if{", "call:ErrorResponse", "return", "}", "call:GetRedirectURI", "call:String", "call:Sprintf", "call:?", "call:EncodeToString", "call:GetSignInURL", "call:Redirect"] ∧
    Sso.Generated.skel_auth_OAuthCallback =
      ["call:getOAuthCallback", "typeswitch{", "case{", "break", "}", "case{", "call:ErrorResponse", "return", "}", "case{", "call:ErrorResponse", "return", "}", "}", "call:Redirect"] ∧
    Sso.Generated.skel_auth_getOAuthCallback =
      ["call:getRemoteAddr", "call:ParseForm", "if{", "call:Error", "return", "}", "call:Get", "if{", "return", "}", "call:Get", "if{", "return", "}", "call:redeemCode", "if{", "return", "}", "call:Get", "call:DecodeString", "if{", "return", "}", "call:string", "call:SplitN", "call:len", "if{", "return", "}", "call:GetCSRF", "if{", "return", "}", "call:ClearCSRF", "if{", "return", "}", "call:validRedirectURI", "if{", "return", "}", "call:RunValidators", "call:len", "call:len", "if{", "call:len", "call:make", "range{", "call:Error", "call:append", "}", "call:Join", "call:Sprintf", "return", "}", "call:SaveSession", "if{", "return", "}", "return"] ∧
    Sso.Generated.skel_google_RefreshSessionIfNeeded =
      ["call:RefreshPeriodExpired", "if{", "return", "}", "call:RefreshAccessToken", "if{", "return", "}", "store:s.AccessToken", "call:Now", "call:Add", "call:Truncate", "store:s.RefreshDeadline", "return"] ∧
    Sso.Generated.skel_okta_RefreshSessionIfNeeded =
      ["call:RefreshPeriodExpired", "if{", "return", "}", "call:RefreshAccessToken", "if{", "return", "}", "store:s.AccessToken", "call:Now", "call:Add", "call:Truncate", "store:s.RefreshDeadline", "return"] ∧
    Sso.Generated.skel_google_ValidateSessionState =
      ["if{", "return", "}", "call:Set", "call:String", "call:googleRequest", "if{", "return", "}", "return"] ∧
    Sso.Generated.skel_okta_ValidateSessionState =
      ["if{", "return", "}", "call:Add", "call:Add", "call:Add", "call:Add", "call:String", "call:oktaRequest", "if{", "return", "}", "if{", "return", "}", "return"] := by decide

/-- Tie (T1): the decoder tags of sso-auth's configuration structs (`internal/auth/configuration.go`) — the names under which the environment and the files reach each setting this
property depends on (TTLs, cookie flags, client credentials, root domains, allow rules …). A tag that changes re-routes or drops a
setting without any code noticing. -/
theorem C09_tags_authConfigTags : Sso.Generated.authConfigTags =
    ["Configuration.ProviderConfigs mapstructure:\"provider\"", "Configuration.ClientConfigs mapstructure:\"client\"", "Configuration.GroupCacheConfig mapstructure:\"groupcache\"", "Configuration.AuthorizeConfig mapstructure:\"authorize\"", "Configuration.SessionConfig mapstructure:\"session\"", "Configuration.ServerConfig mapstructure:\"server\"", "Configuration.MetricsConfig mapstructure:\"metrics\"", "Configuration.LoggingConfig mapstructure:\"logging\"", "ProviderConfig.ProviderType mapstructure:\"type\"", "ProviderConfig.ProviderSlug mapstructure:\"slug\"", "ProviderConfig.ClientConfig mapstructure:\"client\"", "ProviderConfig.Scope mapstructure:\"scope\"", "ProviderConfig.GoogleProviderConfig mapstructure:\"google\"", "ProviderConfig.OktaProviderConfig mapstructure:\"okta\"", "ProviderConfig.AmazonCognitoProviderConfig mapstructure:\"cognito\"", "ProviderConfig.GroupCacheConfig mapstructure:\"groupcache\"", "GoogleProviderConfig.Credentials mapstructure:\"credentials\"", "GoogleProviderConfig.Impersonate mapstructure:\"impersonate\"", "GoogleProviderConfig.ApprovalPrompt mapstructure:\"prompt\"", "GoogleProviderConfig.HostedDomain mapstructure:\"domain\"", "OktaProviderConfig.ServerID mapstructure:\"server\"", "OktaProviderConfig.OrgURL mapstructure:\"url\"", "AmazonCognitoProviderConfig.OrgURL mapstructure:\"url\"", "AmazonCognitoProviderConfig.UserPoolID mapstructure:\"id\"", "AmazonCognitoProviderConfig.Region mapstructure:\"region\"", "AmazonCognitoProviderConfig.Credentials mapstructure:\"credentials\"", "CognitoCredentials.ID mapstructure:\"id\"", "CognitoCredentials.Secret mapstructure:\"secret\"", "GroupCacheConfig.CacheIntervalConfig mapstructure:\"interval\"", "CacheIntervalConfig.Provider mapstructure:\"provider\"", "CacheIntervalConfig.Refresh mapstructure:\"refresh\"", "SessionConfig.CookieConfig mapstructure:\"cookie\"", "SessionConfig.SessionLifetimeTTL mapstructure:\"lifetime\"", "SessionConfig.Key mapstructure:\"key\"", "CookieConfig.Name mapstructure:\"name\"", "CookieConfig.Secret mapstructure:\"secret\"", "CookieConfig.Domain mapstructure:\"domain\"", "CookieConfig.Expire mapstructure:\"expire\"", "CookieConfig.Secure mapstructure:\"secure\"", "CookieConfig.HTTPOnly mapstructure:\"httponly\"", "ServerConfig.Host mapstructure:\"host\"", "ServerConfig.Port mapstructure:\"port\"", "ServerConfig.Scheme mapstructure:\"scheme\"", "ServerConfig.TimeoutConfig mapstructure:\"timeout\"", "TimeoutConfig.Write mapstructure:\"write\"", "TimeoutConfig.Read mapstructure:\"read\"", "TimeoutConfig.Request mapstructure:\"request\"", "TimeoutConfig.Shutdown mapstructure:\"shutdown\"", "ClientConfig.ID mapstructure:\"id\"", "ClientConfig.Secret mapstructure:\"secret\"", "AuthorizeConfig.EmailConfig mapstructure:\"email\"", "AuthorizeConfig.ProxyConfig mapstructure:\"proxy\"", "EmailConfig.Domains mapstructure:\"domains\"", "EmailConfig.Addresses mapstructure:\"addresses\"", "ProxyConfig.Domains mapstructure:\"domains\"", "MetricsConfig.StatsdConfig mapstructure:\"statsd\"", "LoggingConfig.Enable mapstructure:\"enable\"", "LoggingConfig.Level mapstructure:\"level\"", "StatsdConfig.Port mapstructure:\"port\"", "StatsdConfig.Host mapstructure:\"host\""] := by decide

/-- Tie (T1), third wave: the constructors and option functions that hand configured values to the components this property
speaks about (auth_SetValidators, auth_NewAuthenticator, auth_getAuthCodeRedirectURL). -/
theorem C09_wiring3 :
    Sso.Generated.skel_auth_SetValidators =
      ["func{", "store:a.Validators", "return", "}", "return"] ∧
    Sso.Generated.skel_auth_NewAuthenticator =
      ["call:NewHTMLTemplate", "range{", "call:HasPrefix", "if{", "call:Sprintf", "}", "call:append", "}", "call:newMux", "store:p.ServeMux", "range{", "call:optFunc", "if{", "return", "}", "}", "return"] ∧
    Sso.Generated.skel_auth_getAuthCodeRedirectURL =
      ["call:String", "call:Parse", "if{", "return", "}", "call:ParseQuery", "if{", "return", "}", "call:Set", "call:Set", "call:Encode", "store:u.RawQuery", "store:u.Scheme", "call:String", "return"] := by decide

end Sso.AuthN
