import Generated.Facts
import SsoSpec.C07

/-!
# C09 — the authenticator issues codes only for live, provider-confirmed, allowed sessions
-/
namespace Sso.AuthN
open Sso.Validators

theorem authenticate_ok (lower : Bytes → Bytes) (emailOK : Bytes → Bool) (now : Int) (c : CookieIn) (a : IdPAns) (s' : ASess)
    (w : List AWrite) (calls : List String) (h : authenticate lower emailOK now c a = (.ok s', w, calls)) :
    ∃ s, c = .opens s ∧ aexp s.lifetime now = false ∧ emailOK s'.email = true ∧ s'.email = s.email ∧ s'.lifetime = s.lifetime ∧
      ((aexp s.refresh now = true ∧ s.refreshTok ≠ "" ∧ ∃ tok ttl, a.refresh = .ok (tok, ttl) ∧ s' = { s with access := tok, refresh := now + ttl })
       ∨ (aexp s.refresh now = false ∧ s.access ≠ "" ∧ a.validate = true ∧ s' = s)) := by
  unfold authenticate at h
  cases c with
  | absent => simp at h
  | junk => simp at h
  | opens s =>
    simp only at h
    by_cases h1 : aexp s.lifetime now = true
    · simp [h1] at h
    · simp only [h1, Bool.false_eq_true, if_false] at h
      refine ⟨s, rfl, by simpa using h1, ?_⟩
      by_cases h2 : aexp s.refresh now = true
      · simp only [h2, if_true] at h
        by_cases h3 : s.refreshTok = ""
        · simp [h3] at h
        · simp only [h3, if_false] at h
          cases hr : a.refresh with
          | error e => rw [hr] at h; simp at h
          | ok p =>
            obtain ⟨tok, ttl⟩ := p
            rw [hr] at h; simp only at h
            by_cases h4 : emailOK s.email = true
            · simp only [h4, if_true, Prod.mk.injEq, AuthRes.ok.injEq] at h
              obtain ⟨hs, _, _⟩ := h
              subst hs
              exact ⟨h4, rfl, rfl, Or.inl ⟨h2, h3, tok, ttl, rfl, rfl⟩⟩
            · simp [h4] at h
      · simp only [h2, Bool.false_eq_true, if_false] at h
        by_cases h3 : s.access = ""
        · simp [h3] at h
        · simp only [h3, if_false] at h
          by_cases h4 : a.validate = true
          · simp only [h4, if_true] at h
            by_cases h5 : emailOK s.email = true
            · simp only [h5, if_true, Prod.mk.injEq, AuthRes.ok.injEq] at h
              obtain ⟨hs, _, _⟩ := h
              subst hs
              exact ⟨h5, rfl, rfl, Or.inr ⟨by simpa using h2, h3, h4, rfl⟩⟩
            · simp [h5] at h
          · simp [h4] at h

/-- **A code only if** the cookie opens under the authenticator's cookie secret to a session within its lifetime, whose
token the identity provider currently accepts (after a successful refresh if one was due and a refresh token exists),
whose e-mail passes the authenticator's e-mail rule, and the request carries a state; the sealed code is exactly that
(refreshed) session. -/
theorem C09_code_only_if (lower : Bytes → Bytes) (emailOK : Bytes → Bool) (now : Int) (c : CookieIn) (a : IdPAns)
    (state redirect : String) (parses : Bool) (sc : ASess) (w : List AWrite) (calls : List String)
    (h : signIn lower emailOK now c a state redirect parses = (.codeRedirect sc, w, calls)) :
    state ≠ "" ∧ redirect ≠ "" ∧ parses = true ∧
    ∃ s, c = .opens s ∧ aexp s.lifetime now = false ∧ emailOK sc.email = true ∧ sc.email = s.email ∧ sc.lifetime = s.lifetime ∧
      ((aexp s.refresh now = true ∧ s.refreshTok ≠ "" ∧ ∃ tok ttl, a.refresh = .ok (tok, ttl) ∧ sc = { s with access := tok, refresh := now + ttl })
       ∨ (aexp s.refresh now = false ∧ s.access ≠ "" ∧ a.validate = true ∧ sc = s)) := by
  unfold signIn at h
  rcases hau : authenticate lower emailOK now c a with ⟨res, w', calls'⟩
  rw [hau] at h
  cases res with
  | ok s' =>
    simp only at h
    by_cases h1 : state = ""
    · simp [h1] at h
    · by_cases h2 : redirect = ""
      · simp [h1, h2] at h
      · by_cases h3 : parses = true
        · simp only [h1, h2, h3, if_false, Bool.not_true, Bool.false_eq_true, Prod.mk.injEq, SignInOut.codeRedirect.injEq] at h
          obtain ⟨hs, _, _⟩ := h
          subst hs
          exact ⟨h1, h2, h3, authenticate_ok lower emailOK now c a s' w' calls' hau⟩
        · simp [h1, h2, h3] at h
  | noCookie => simp at h
  | invalidSession => simp at h
  | lifetimeExpired => simp at h
  | notAuthorized => simp at h
  | perr e => cases e <;> simp at h

/-- Refreshes never extend the authenticator session's lifetime: whatever `authenticate` re-saves has the presented
session's lifetime deadline and e-mail. -/
theorem C09_auth_lifetime_frame (lower : Bytes → Bytes) (emailOK : Bytes → Bool) (now : Int) (s : ASess) (a : IdPAns) :
    ∀ w ∈ (authenticate lower emailOK now (.opens s) a).2.1, ∀ s', w = .save s' → s'.lifetime = s.lifetime ∧ s'.email = s.email ∧ s'.refreshTok = s.refreshTok := by
  intro w hw s' hs
  unfold authenticate at hw
  simp only at hw
  by_cases h1 : aexp s.lifetime now = true
  · simp [h1] at hw; subst hw; cases hs
  · simp only [h1, Bool.false_eq_true, if_false] at hw
    by_cases h2 : aexp s.refresh now = true
    · simp only [h2, if_true] at hw
      by_cases h3 : s.refreshTok = ""
      · simp [h3] at hw; subst hw; cases hs
      · simp only [h3, if_false] at hw
        cases hr : a.refresh with
        | error e => rw [hr] at hw; simp at hw; subst hw; cases hs
        | ok p =>
          obtain ⟨tok, ttl⟩ := p
          rw [hr] at hw; simp only at hw
          split at hw <;> (simp at hw; subst hw; cases hs; exact ⟨rfl, rfl, rfl⟩)
    · simp only [h2, Bool.false_eq_true, if_false] at hw
      by_cases h3 : s.access = ""
      · simp [h3] at hw; subst hw; cases hs
      · simp only [h3, if_false] at hw
        by_cases h4 : a.validate = true
        · simp only [h4, if_true] at hw
          split at hw <;> (simp at hw; subst hw; cases hs; exact ⟨rfl, rfl, rfl⟩)
        · simp [h4] at hw; subst hw; cases hs

/-- The identity-provider callback creates a session **only if** the nonce in the returned state equals the CSRF cookie
set at `/start`, the code was redeemed to a session (C10), the state's redirect is in-domain and the e-mail passes the rule. -/
theorem C09_callback_creates_session_only_if (emailOK : Bytes → Bool) (i : CbIn) (e : Bytes) (loc : String)
    (h : oauthCallback emailOK i = .session e loc) :
    i.errorParam = "" ∧ i.code ≠ "" ∧ (∃ at' rt ttl, i.login = .session e at' rt ttl) ∧ e ≠ [] ∧ i.stateDecodes = true ∧
    i.stateHasColon = true ∧ i.csrfCookie = some i.stateNonce ∧ i.redirectValid = true ∧ emailOK e = true ∧ loc = i.stateRedirect := by
  unfold oauthCallback at h
  by_cases h1 : i.errorParam ≠ ""
  · simp [h1] at h
  · by_cases h2 : i.code = ""
    · simp [h1, h2] at h
    · simp only [h1, h2, if_false] at h
      cases hl : i.login with
      | panic => rw [hl] at h; simp at h
      | error => rw [hl] at h; simp at h
      | session e' at' rt ttl =>
        rw [hl] at h; simp only at h
        by_cases h3 : e' = []
        · simp [h3] at h
        · by_cases h4 : i.stateDecodes = true
          · by_cases h5 : i.stateHasColon = true
            · simp only [h3, h4, h5, if_false, Bool.not_true, Bool.false_eq_true] at h
              cases hc : i.csrfCookie with
              | none => rw [hc] at h; simp at h
              | some cv =>
                rw [hc] at h; simp only at h
                by_cases h6 : cv ≠ i.stateNonce
                · simp [h6] at h
                · by_cases h7 : i.redirectValid = true
                  · by_cases h8 : emailOK e' = true
                    · simp only [h6, h7, h8, if_false, Bool.not_true, Bool.false_eq_true, CbOut.session.injEq] at h
                      obtain ⟨he, hloc⟩ := h
                      subst he
                      simp only [ne_eq, Decidable.not_not] at h6 h1
                      exact ⟨h1, h2, ⟨at', rt, ttl, rfl⟩, h3, h4, h5, by rw [h6], h7, h8, hloc.symm⟩
                    · simp [h6, h7, h8] at h
                  · simp [h6, h7] at h
            · simp [h3, h4, h5] at h
          · simp [h3, h4] at h

/-- otherwise: sign-in page or error, no code — the three outcomes are exhaustive and only one carries a code -/
theorem C09_no_code_otherwise (lower : Bytes → Bytes) (emailOK : Bytes → Bool) (now : Int) (c : CookieIn) (a : IdPAns)
    (state redirect : String) (parses : Bool) :
    (∃ s, (signIn lower emailOK now c a state redirect parses).1 = .codeRedirect s) ∨
    (signIn lower emailOK now c a state redirect parses).1 = .signInPage ∨
    (∃ n, (signIn lower emailOK now c a state redirect parses).1 = .error n) := by
  cases h : (signIn lower emailOK now c a state redirect parses).1 with
  | codeRedirect s => exact Or.inl ⟨s, rfl⟩
  | signInPage => exact Or.inr (Or.inl rfl)
  | error n => exact Or.inr (Or.inr ⟨n, rfl⟩)

/-- Tie (T1): the authenticator coalesces concurrent validations **by access token** and refreshes **by refresh token**,
so the "provider confirms the token" premise of `C09_code_only_if` is about the session's *own* token even when another
session of the same user is being validated at the same time. -/
theorem C09_checks_keyed_by_token :
    Sso.Generated.sf_keys_auth.lookup "ValidateSessionState" = some "s.AccessToken" ∧
    Sso.Generated.sf_keys_auth.lookup "RefreshSessionIfNeeded" = some "s.RefreshToken" := by decide

/-- Tie (T1): the authenticator's own `authenticate`, `SignIn` and the code-issuing redirect — call/branch/store skeletons regenerated from the source on every run; the expectations below are
what the model in this file transliterates. A structural edit of any of these functions breaks this theorem and sends the
check searching for a failing input. -/
theorem C09_wiring :
    Sso.Generated.skel_auth_authenticate =
      ["call:NewLogEntry", "call:getRemoteAddr", "call:LoadSession", "if{", "call:WithRemoteAddress", "call:Error", "call:ClearSession", "return", "}", "call:LifetimePeriodExpired", "if{", "call:WithUser", "call:Info", "call:ClearSession", "return", "}", "call:RefreshPeriodExpired", "if{", "call:RefreshSessionIfNeeded", "if{", "call:WithUser", "call:Error", "call:ClearSession", "return", "}", "if{", "call:WithUser", "call:Error", "call:ClearSession", "return", "}", "call:SaveSession", "if{", "call:WithUser", "call:Error", "call:ClearSession", "return", "}", "}", "else{", "call:ValidateSessionState", "if{", "call:WithRemoteAddress", "call:WithUser", "call:Error", "call:ClearSession", "return", "}", "call:SaveSession", "if{", "call:WithUser", "call:Error", "call:ClearSession", "return", "}", "}", "call:RunValidators", "call:len", "call:len", "if{", "call:Sprintf", "call:WithUser", "call:Info", "return", "}", "call:Sprintf", "call:WithRemoteAddress", "call:WithUser", "call:Info", "return"] ∧
    Sso.Generated.skel_auth_SignIn =
      ["call:getProxyHost", "call:Sprintf", "call:authenticate", "switch{", "case nil{", "call:ProxyOAuthRedirect", "}", "case http.ErrNoCookie{", "call:SignInPage", "}", "case providers.ErrTokenRevoked{", "call:ClearSession", "call:SignInPage", "}", "case sessions.ErrLifetimeExpired,sessions.ErrInvalidSession{", "call:ClearSession", "call:SignInPage", "}", "default{", "call:append", "call:Incr", "call:Error", "call:codeForError", "call:ErrorResponse", "}", "}"] ∧
    Sso.Generated.skel_auth_ProxyOAuthRedirect =
      ["call:ParseForm", "if{", "call:Error", "call:ErrorResponse", "return", "}", "call:Get", "if{", "call:append", "call:Incr", "call:ErrorResponse", "return", "}", "call:Get", "if{", "call:append", "call:Incr", "call:ErrorResponse", "return", "}", "call:Parse", "if{", "call:append", "call:Incr", "call:ErrorResponse", "return", "}", "call:MarshalSession", "if{", "call:append", "call:Incr", "call:Error", "call:ErrorResponse", "return", "}", "call:string", "call:getAuthCodeRedirectURL", "if{", "call:append", "call:Incr", "call:Error", "call:ErrorResponse", "return", "}", "call:Redirect"] := by decide

end Sso.AuthN
