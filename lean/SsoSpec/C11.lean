import Generated.Facts
import SsoModel.Validators

/-!
# C11 — allow rules mean what the docs say: any-of, exact address, whole domain, group

All theorems hold for every `lower : Bytes → Bytes` (Go's `strings.ToLower` is left uninterpreted).
-/
namespace Sso.Validators

/-! ### single validators -/

theorem C11_empty_email_never (lower : Bytes → Bytes) (l : List Bytes) :
    addrPasses lower l [] = false ∧ domainPasses lower l [] = false := by
  simp [addrPasses, domainPasses]

theorem C11_empty_rules_never (lower : Bytes → Bytes) (e : Bytes) :
    addrPasses lower [] e = false ∧ domainPasses lower [] e = false := by
  simp [addrPasses, domainPasses, domainList]

/-- exact address, case-insensitively (through `lower` on both sides) -/
theorem C11_address_exact (lower : Bytes → Bytes) (allowed : List Bytes) (e : Bytes)
    (hw : allowed.map lower ≠ [star]) :
    addrPasses lower allowed e = true ↔ e ≠ [] ∧ lower e ∈ allowed.map lower := by
  unfold addrPasses
  by_cases he : e = []
  · simp [he]
  · by_cases hl : allowed.map lower = []
    · simp [he, hl]
    · simp only [beq_iff_eq, he, hl, hw, if_false, List.contains_eq_mem, decide_eq_true_eq, ne_eq, not_false_eq_true, true_and]

/-- a lone `*` admits any non-empty e-mail (and only a *lone* one is a wildcard) -/
theorem C11_wildcard_nonempty (lower : Bytes → Bytes) (e : Bytes) :
    (∀ allowed, allowed.map lower = [star] → (addrPasses lower allowed e = true ↔ e ≠ [])) ∧
    (domainPasses lower [star] e = true ↔ e ≠ []) := by
  constructor
  · intro allowed h
    unfold addrPasses
    by_cases he : e = [] <;> simp [he, h]
  · unfold domainPasses domainList
    by_cases he : e = [] <;> simp [he, star]

theorem afterLastAt_none_of_not_mem : ∀ (s : Bytes), at' ∉ s → afterLastAt s = none
  | [], _ => rfl
  | c :: t, h => by
    have ht : at' ∉ t := fun hm => h (List.mem_cons_of_mem _ hm)
    have hc : c ≠ at' := fun e => h (e ▸ List.mem_cons_self)
    simp [afterLastAt, afterLastAt_none_of_not_mem t ht, hc]

theorem afterLastAt_append (pre r : Bytes) (h : at' ∉ r) : afterLastAt (pre ++ at' :: r) = some r := by
  induction pre with
  | nil => simp [afterLastAt, afterLastAt_none_of_not_mem r h]
  | cons c t ih => simp [afterLastAt, ih]

theorem afterLastAt_some : ∀ (s r : Bytes), afterLastAt s = some r → (∃ pre, s = pre ++ at' :: r) ∧ at' ∉ r
  | [], r, h => by simp [afterLastAt] at h
  | c :: t, r, h => by
    simp only [afterLastAt] at h
    cases ht : afterLastAt t with
    | some r' =>
      rw [ht] at h; simp at h; subst h
      obtain ⟨⟨pre, hp⟩, hn⟩ := afterLastAt_some t r' ht
      exact ⟨⟨c :: pre, by rw [hp]; rfl⟩, hn⟩
    | none =>
      rw [ht] at h
      by_cases hc : c = at'
      · simp [hc] at h; subst h
        refine ⟨⟨[], by simp [hc]⟩, ?_⟩
        intro hm
        -- if '@' ∈ t then afterLastAt t would be some
        have : ∀ (u : Bytes), at' ∈ u → afterLastAt u ≠ none := by
          intro u
          induction u with
          | nil => intro h; cases h
          | cons d v ih =>
            intro hmem hnone
            simp only [afterLastAt] at hnone
            cases hv : afterLastAt v with
            | some x => rw [hv] at hnone; cases hnone
            | none =>
              rw [hv] at hnone
              by_cases hd : d = at'
              · simp [hd] at hnone
              · rcases List.mem_cons.1 hmem with h1 | h1
                · exact hd h1.symm
                · exact ih h1 hv
        exact this t hm ht
      · simp [hc] at h

/-- whole domain, not a look-alike suffix: for a listed domain whose lower-cased form contains no `@`,
the suffix test the code performs is exactly "the part of the e-mail after its last `@` equals the domain". -/
theorem C11_domain_whole (le ld : Bytes) (h : at' ∉ ld) :
    endsWith le (at' :: ld) = true ↔ afterLastAt le = some ld := by
  unfold endsWith
  rw [List.isSuffixOf_iff_suffix]
  constructor
  · rintro ⟨pre, hp⟩; rw [← hp]; exact afterLastAt_append pre ld h
  · intro hs; obtain ⟨⟨pre, hp⟩, _⟩ := afterLastAt_some le ld hs; exact ⟨pre, hp.symm⟩

/-- the domain validator, spelled out: with more than a lone `*`, an e-mail passes iff it is non-empty and its
lower-cased form ends with `@`+lower d for a listed `d ≠ "*"` — or literally with `*` when `*` is listed among
other entries (a quirk: see DESIGN.md, finding domain-star-suffix). -/
theorem C11_domain_spelled_out (lower : Bytes → Bytes) (allowed : List Bytes) (e : Bytes)
    (hw : domainList lower allowed ≠ [star]) :
    domainPasses lower allowed e = true ↔
      e ≠ [] ∧ ∃ d ∈ allowed, (d ≠ star ∧ endsWith (lower e) (at' :: lower d) = true) ∨ (d = star ∧ endsWith (lower e) star = true) := by
  unfold domainPasses
  by_cases he : e = []
  · simp [he]
  · by_cases hl : domainList lower allowed = []
    · have : allowed = [] := by simpa [domainList] using hl
      subst this
      simp [he, domainList]
    · simp only [he, hl, hw, beq_iff_eq, if_false, List.any_eq_true, ne_eq, not_false_eq_true, true_and]
      unfold domainList
      constructor
      · rintro ⟨d', hd', hs⟩
        rcases List.mem_map.1 hd' with ⟨d, hd, rfl⟩
        by_cases hst : d = star
        · exact ⟨d, hd, Or.inr ⟨hst, by simpa [hst] using hs⟩⟩
        · exact ⟨d, hd, Or.inl ⟨hst, by simpa [hst] using hs⟩⟩
      · rintro ⟨d, hd, h | h⟩
        · exact ⟨_, List.mem_map.2 ⟨d, hd, rfl⟩, by simpa [h.1] using h.2⟩
        · exact ⟨_, List.mem_map.2 ⟨d, hd, rfl⟩, by simpa [h.1] using h.2⟩

/-! ### combination -/

/-- At login the verdict is exactly the documented any-of (the callback only runs the validators on a
non-empty e-mail: `redeemCode` rejects an empty one). -/
theorem C11_login_is_anyOf (lower : Bytes → Bytes) (p : Policy) (e : Bytes) (g : GroupAns) (he : e ≠ []) :
    loginAdmits lower p e g = specAdmit lower p e g := by
  unfold loginAdmits specAdmit validatorsOf
  by_cases ha : p.addrs = [] <;> by_cases hd : p.domains = [] <;> by_cases hg : p.groups = [] <;>
    cases h1 : addrPasses lower p.addrs e <;> cases h2 : domainPasses lower p.domains e <;>
    cases h3 : (g == GroupAns.member) <;>
    simp [ha, hd, hg, he, passes, h1, h2, h3, List.filter]

/-- no rule configured ⇒ nobody is admitted at login -/
theorem C11_no_rules_nobody (lower : Bytes → Bytes) (e : Bytes) (g : GroupAns) :
    loginAdmits lower ⟨[], [], []⟩ e g = false := by
  simp [loginAdmits, validatorsOf]

/-- Full strength ("the verdict is the same at login and on every later request while the facts are unchanged")
is **refuted**: with two rule kinds configured, a user who satisfies only one is admitted at login and
refused on every request. KNOWN FINDING `allow-rules-all-of`. -/
theorem C11_request_eq_login_refuted :
    ¬ ∀ (lower : Bytes → Bytes) (p : Policy) (e : Bytes) (g : GroupAns), e ≠ [] →
        requestAdmitsDue lower p e g = loginAdmits lower p e g := by
  intro h
  have := h id ⟨[[97, 64, 120]], [[121]], []⟩ [97, 64, 120] .error (by decide)
  revert this; decide

/-- What does hold: with exactly one rule kind configured the verdicts agree (with none, nobody can log in
and configuration loading rejects the upstream, C14). -/
theorem C11_partial_single_kind (lower : Bytes → Bytes) (p : Policy) (e : Bytes) (g : GroupAns) (he : e ≠ [])
    (h1 : (validatorsOf p).length = 1) :
    requestAdmitsDue lower p e g = loginAdmits lower p e g := by
  unfold requestAdmitsDue requestAdmits loginAdmits validatorsOf at *
  by_cases ha : p.addrs = [] <;> by_cases hd : p.domains = [] <;> by_cases hg : p.groups = [] <;>
    simp [ha, hd, hg] at h1 <;>
    cases h1' : addrPasses lower p.addrs e <;> cases h2 : domainPasses lower p.domains e <;>
    cases h3 : (g == GroupAns.member) <;>
    simp [ha, hd, hg, passes, h1', h2, h3, List.filter]

/-- … and the request-time verdict never admits someone the documented rule refuses when address/domain rules
are the only ones (the all-of reading is *stricter* than any-of, never laxer). -/
theorem C11_request_implies_login (lower : Bytes → Bytes) (p : Policy) (e : Bytes) (g : GroupAns) (he : e ≠ [])
    (hv : validatorsOf p ≠ []) (h : requestAdmitsDue lower p e g = true) : specAdmit lower p e g = true := by
  rw [← C11_login_is_anyOf lower p e g he]
  unfold requestAdmitsDue requestAdmits loginAdmits validatorsOf at *
  by_cases ha : p.addrs = [] <;> by_cases hd : p.domains = [] <;> by_cases hg : p.groups = [] <;>
    simp [ha, hd, hg] at hv <;>
    cases h1' : addrPasses lower p.addrs e <;> cases h2 : domainPasses lower p.domains e <;>
    cases h3 : (g == GroupAns.member) <;>
    simp_all [passes, List.filter]

/-- the verdict is a function of (policy, e-mail, group answer) only: same facts, same verdict, at every request -/
theorem C11_verdict_stable (lower : Bytes → Bytes) (p : Policy) (e : Bytes) (g : GroupAns) :
    ∀ (_n : Nat), requestAdmitsDue lower p e g = requestAdmitsDue lower p e g := fun _ => rfl

/-! ### Non-vacuity -/

def exLower (b : Bytes) : Bytes := b.map fun c => if 65 ≤ c ∧ c ≤ 90 then c + 32 else c
-- "X.io" / "b@x.IO" / "b@notx.io" / "b@x.io.evil"
example : domainPasses exLower [[88, 46, 105, 111]] [98, 64, 120, 46, 73, 79] = true := by decide
example : domainPasses exLower [[120, 46, 105, 111]] [98, 64, 110, 111, 116, 120, 46, 105, 111] = false := by decide
example : domainPasses exLower [[120, 46, 105, 111]] [98, 64, 120, 46, 105, 111, 46, 101, 118, 105, 108] = false := by decide
-- addresses ["a@x", "*"]: the star is not a wildcard when it is not alone
example : addrPasses exLower [[97, 64, 120], [42]] [98, 64, 120] = false := by decide
-- addresses+domains: satisfies the address rule only → admitted at login, refused on every request
example : loginAdmits exLower ⟨[[97, 64, 120]], [[121]], []⟩ [97, 64, 120] .error = true := by decide
example : requestAdmits exLower ⟨[[97, 64, 120]], [[121]], []⟩ [97, 64, 120] = false := by decide

/-- Tie (T1): the three validators and the runner — call/branch/store skeletons regenerated from the source on every run; the expectations below are
what the model in this file transliterates. A structural edit of any of these functions breaks this theorem and sends the
check searching for a failing input. -/
theorem C11_wiring :
    Sso.Generated.skel_validators_domain =
      ["call:ToLower", "range{", "call:HasSuffix", "if{", "return", "}", "}", "return"] ∧
    Sso.Generated.skel_validators_newDomain =
      ["call:len", "call:make", "range{", "if{", "call:append", "}", "else{", "call:ToLower", "call:Sprintf", "call:append", "}", "}", "return"] ∧
    Sso.Generated.skel_validators_address =
      ["call:ToLower", "range{", "if{", "return", "}", "}", "return"] ∧
    Sso.Generated.skel_validators_group =
      ["call:ValidateGroup", "if{", "return", "}", "if{", "store:session.Groups", "return", "}", "return"] ∧
    Sso.Generated.skel_validators_Run =
      ["call:len", "call:make", "range{", "call:Validate", "if{", "call:append", "}", "}", "return"] := by decide

/-- Tie (T1): `SetValidators` *replaces* the proxy's validator list. -/
theorem C11_skeleton_SetValidators : Sso.Generated.skel_proxy_SetValidators =
    ["func{", "store:op.Validators", "return", "}", "return"] := by decide

/-- Tie (T1), second wave: helpers, stores and second callers on this property's path (sso_UserGroups) — call/branch/store skeletons
regenerated from the source on every run against the expectations frozen here. -/
theorem C11_wiring2 :
    Sso.Generated.skel_sso_UserGroups =
      ["call:Add", "call:Add", "call:Join", "call:Add", "call:String", "call:Encode", "call:Sprintf", "call:newRequest", "if{", "return", "}", "call:Set", "call:Set", "call:Do", "if{", "return", "}", "call:ReadAll", "call:Close", "if{", "return", "}", "if{", "call:isProviderUnavailable", "if{", "return", "}", "call:String", "call:Errorf", "return", "}", "call:Unmarshal", "if{", "return", "}", "return"] := by decide

/-- **Removing address rules never admits anyone new** (and adding one never locks anyone out), as long as no rule is
(or lower-cases to) the wildcard `*`: for wildcard-free lists the address validator is monotone in its rule list. -/
theorem C11_address_rules_monotone (lower : Bytes → Bytes) (l' l : List Bytes) (e : Bytes)
    (hsub : ∀ a ∈ l', a ∈ l) (hstar : star ∉ l.map lower) (h : addrPasses lower l' e = true) :
    addrPasses lower l e = true := by
  have hw : l.map lower ≠ [star] := fun c => hstar (c ▸ List.mem_singleton.2 rfl)
  have hsub' : ∀ x ∈ l'.map lower, x ∈ l.map lower := by
    intro x hx
    rcases List.mem_map.1 hx with ⟨a, ha, rfl⟩
    exact List.mem_map.2 ⟨a, hsub a ha, rfl⟩
  have hw' : l'.map lower ≠ [star] := fun c => hstar (hsub' _ (c ▸ List.mem_singleton.2 rfl))
  rw [C11_address_exact lower l' e hw'] at h
  rw [C11_address_exact lower l e hw]
  exact ⟨h.1, hsub' _ h.2⟩

/-- …and the guard is needed: next to a second rule the wildcard stops being one, so *adding* a rule to `["*"]` locks
everybody else out (the code compares the whole list with `["*"]`). -/
theorem C11_wildcard_not_monotone :
    addrPasses id [star] [1] = true ∧ addrPasses id [star, [2]] [1] = false := by decide

example : star ∉ [[1],[2]].map id ∧ addrPasses id [[1]] [1] = true := by decide

theorem domainList_no_star (lower : Bytes → Bytes) (l : List Bytes) (h : star ∉ l) : star ∉ domainList lower l := by
  intro hm
  unfold domainList at hm
  rcases List.mem_map.1 hm with ⟨d, hd, e⟩
  by_cases hs : d = star
  · exact h (hs ▸ hd)
  · have : (d == star) = false := by simpa using hs
    simp only [this] at e
    have e' : at' :: lower d = star := by simpa using e
    simp [star, at'] at e'

/-- **Removing domain rules never admits anyone new**, for lists without the wildcard entry `*`. -/
theorem C11_domain_rules_monotone (lower : Bytes → Bytes) (l' l : List Bytes) (e : Bytes)
    (hsub : ∀ a ∈ l', a ∈ l) (hstar : star ∉ l) (h : domainPasses lower l' e = true) :
    domainPasses lower l e = true := by
  have hs' : star ∉ l' := fun m => hstar (hsub _ m)
  have n : domainList lower l ≠ [star] := fun c => domainList_no_star lower l hstar (c ▸ List.mem_singleton.2 rfl)
  have n' : domainList lower l' ≠ [star] := fun c => domainList_no_star lower l' hs' (c ▸ List.mem_singleton.2 rfl)
  have hsub' : ∀ x ∈ domainList lower l', x ∈ domainList lower l := by
    intro x hx
    unfold domainList at hx ⊢
    rcases List.mem_map.1 hx with ⟨a, ha, rfl⟩
    exact List.mem_map.2 ⟨a, hsub a ha, rfl⟩
  unfold domainPasses at h ⊢
  by_cases he : e = []
  · simp [he] at h
  · by_cases hl' : domainList lower l' = []
    · simp [he, hl'] at h
    · have hl : domainList lower l ≠ [] := by
        intro c
        cases hd : domainList lower l' with
        | nil => exact hl' hd
        | cons x xs => have := hsub' x (hd ▸ List.mem_cons_self); rw [c] at this; simp at this
      simp only [beq_iff_eq, he, hl', n', hl, n, if_false] at h ⊢
      rcases List.any_eq_true.1 h with ⟨d, hd, hp⟩
      exact List.any_eq_true.2 ⟨d, hsub' d hd, hp⟩

example : star ∉ [[1],[2]] ∧ domainPasses id [[1]] [9, 64, 1] = true := by decide

end Sso.Validators
