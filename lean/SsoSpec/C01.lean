import SsoSpec.Lemmas.Proxy
import Generated.Facts

/-!
# C01 — complete mediation

`proxy`, `authOnly` are transliterations of `OAuthProxy.Proxy` / `AuthenticateOnly`; `c : CookieIn` is what
`LoadSession` made of the request's cookie under the sealing model of C02 (`opens s` only for a value sealed
under the proxy's secret). All statements hold for every `lower`, policy, time, request and authenticator answers.
-/
namespace Sso.Proxy
open Sso.Validators

/-- what "passed the refresh / revalidation that was due" means -/
def dueChecksPassed (P : Policy) (now : Int) (s : Sess) (a : Ans) : Prop :=
  (exp s.refresh now = true → (refreshWhy P now s a).isSome = true) ∧
  (exp s.refresh now = false → exp s.valid now = true → (validateWhy P now s a).isSome = true)

theorem authenticate_ok (lower : Bytes → Bytes) (P : Policy) (now : Int) (host : String) (c : CookieIn) (a : Ans)
    (id : Identity) (h : (authenticate lower P now host c a).res = .ok id) :
    ∃ s, c = .opens s ∧ s.slug = P.slug ∧ s.host = host ∧ exp s.lifetime now = false ∧ dueChecksPassed P now s a ∧
      ∃ s', sameIdentity s s' ∧ id = identityOf P s' ∧ requestAdmits lower P.rules s'.email = true := by
  unfold authenticate at h
  cases c with
  | absent => simp at h
  | junk => simp at h
  | opens s =>
    simp only at h
    by_cases h1 : s.slug ≠ P.slug
    · simp [h1] at h
    · by_cases h2 : host ≠ s.host
      · simp [h1, h2] at h
      · by_cases h3 : exp s.lifetime now = true
        · simp [h1, h2, h3] at h
        · simp only [h1, h2, h3, if_false] at h
          simp only [ne_eq, Decidable.not_not] at h1 h2
          refine ⟨s, rfl, h1, h2.symm, by simpa using h3, ?_⟩
          by_cases hr : exp s.refresh now = true
          · simp only [hr, if_true] at h
            have hf := refreshSession_frame P now s a
            have hiff := refreshSession_ok_iff P now s a
            rcases hrs : refreshSession P now s a with ⟨s', r, calls⟩
            rw [hrs] at h hf hiff
            cases r with
            | error e => simp at h
            | ok b =>
              cases b with
              | false => simp at h
              | true =>
                simp only at h
                by_cases hv : requestValidators lower P s' = true
                · simp only [hv, if_true] at h
                  refine ⟨⟨fun _ => hiff.1 rfl, fun hc => by simp [hr] at hc⟩, s', hf.1, ?_, hv⟩
                  simpa using h.symm
                · simp [hv] at h
          · simp only [hr] at h
            by_cases hv0 : exp s.valid now = true
            · simp only [hv0, if_true, Bool.false_eq_true, if_false] at h
              have hf := validateSession_frame P now s a
              have hiff := validateSession_true_iff P now s a
              rcases hrs : validateSession P now s a with ⟨s', b, calls⟩
              rw [hrs] at h hf hiff
              cases b with
              | false => simp at h
              | true =>
                simp only at h
                by_cases hv : requestValidators lower P s' = true
                · simp only [hv, if_true] at h
                  refine ⟨⟨fun hc => absurd hc hr, fun _ _ => hiff.1 rfl⟩, s', hf.1, ?_, hv⟩
                  simpa using h.symm
                · simp [hv] at h
            · simp only [hv0, Bool.false_eq_true, if_false] at h
              by_cases hv : requestValidators lower P s = true
              · simp only [hv, if_true] at h
                refine ⟨⟨fun hc => absurd hc hr, fun _ hc => absurd hc hv0⟩, s, sameIdentity_refl s, ?_, hv⟩
                simpa using h.symm
              · simp [hv] at h

/-- **Complete mediation.** The upstream is reached only for a whitelisted request, or for a request whose cookie
opens under the proxy's secret to a session of the configured provider, bound to exactly this Host, within its
lifetime, that passed the refresh/revalidation that was due (or the bounded outage grace of C05), and whose
e-mail passes every configured address/domain rule on this request. -/
theorem C01_forward_sound (lower : Bytes → Bytes) (P : Policy) (now : Int) (r : ReqIn) (c : CookieIn) (a : Ans)
    (id : Option Identity) (h : (proxy lower P now r c a).outcome = .forward id) :
    (whitelisted P r = true ∧ id = none) ∨
    (whitelisted P r = false ∧ ∃ s, c = .opens s ∧ s.slug = P.slug ∧ s.host = r.host ∧ exp s.lifetime now = false ∧
      dueChecksPassed P now s a ∧
      ∃ s', sameIdentity s s' ∧ id = some (identityOf P s') ∧ requestAdmits lower P.rules s'.email = true) := by
  unfold proxy at h
  by_cases hw : whitelisted P r = true
  · simp [hw] at h; exact Or.inl ⟨hw, h.symm⟩
  · simp only [hw, Bool.false_eq_true, if_false] at h
    right
    refine ⟨by simpa using hw, ?_⟩
    cases hres : (authenticate lower P now r.host c a).res with
    | error e =>
      rw [hres] at h; simp only at h
      cases e <;> simp [errOutcome] at h <;> (split at h <;> simp at h)
    | ok id' =>
      rw [hres] at h; simp only [Outcome.forward.injEq] at h
      obtain ⟨s, hc, h1, h2, h3, h4, s', h5, h6, h7⟩ := authenticate_ok lower P now r.host c a id' hres
      exact ⟨s, hc, h1, h2, h3, h4, s', h5, by rw [← h, h6], h7⟩

/-- `/oauth2/auth` answers 202 exactly in the session case, 401 otherwise. -/
theorem C01_authOnly_202_iff (lower : Bytes → Bytes) (P : Policy) (now : Int) (r : ReqIn) (c : CookieIn) (a : Ans) :
    ((authOnly lower P now r c a).outcome = .accepted ↔ ∃ id, (authenticate lower P now r.host c a).res = .ok id) ∧
    ((authOnly lower P now r c a).outcome = .accepted ∨ (authOnly lower P now r c a).outcome = .unauthorized) := by
  unfold authOnly
  simp only
  generalize (authenticate lower P now r.host c a) = o
  rcases o with ⟨res, w, cs, b⟩
  cases res <;> simp

/-- No (or an unreadable) cookie on a non-whitelisted request: sign-in redirect (or 401 JSON for XHR), never the upstream,
no call to the authenticator, cookie cleared. -/
theorem C01_no_session_no_upstream (lower : Bytes → Bytes) (P : Policy) (now : Int) (r : ReqIn) (c : CookieIn) (a : Ans)
    (hc : c = .absent ∨ c = .junk) (hw : whitelisted P r = false) :
    ((proxy lower P now r c a).outcome = .startOAuth ∨ (proxy lower P now r c a).outcome = .xhr401) ∧
    (proxy lower P now r c a).calls = [] ∧ (proxy lower P now r c a).writes = [.clear] ∧
    (authOnly lower P now r c a).outcome = .unauthorized := by
  rcases hc with rfl | rfl <;> (unfold proxy authOnly authenticate; simp [hw, errOutcome]; try (split <;> simp))

/-- Every refusal clears the session cookie (the last cookie write is a clear), whatever was saved before. -/
theorem C01_refused_clears (lower : Bytes → Bytes) (P : Policy) (now : Int) (host : String) (c : CookieIn) (a : Ans)
    (e : AuthErr) (h : (authenticate lower P now host c a).res = .error e) :
    (authenticate lower P now host c a).writes.getLast? = some .clear := by
  unfold authenticate at h ⊢
  cases c with
  | absent => simp
  | junk => simp
  | opens s =>
    simp only at h ⊢
    by_cases h1 : s.slug ≠ P.slug
    · simp [h1]
    · by_cases h2 : host ≠ s.host
      · simp [h1, h2]
      · by_cases h3 : exp s.lifetime now = true
        · simp [h1, h2, h3]
        · simp only [h1, h2, h3, if_false] at h ⊢
          by_cases hr : exp s.refresh now = true
          · simp only [hr, if_true] at h ⊢
            rcases hrs : refreshSession P now s a with ⟨s', r, calls⟩
            rw [hrs] at h
            cases r with
            | error e' => simp
            | ok b =>
              cases b with
              | false => simp
              | true =>
                simp only at h ⊢
                by_cases hv : requestValidators lower P s' = true
                · simp [hv] at h
                · simp [hv]
          · simp only [hr] at h ⊢
            by_cases hv0 : exp s.valid now = true
            · simp only [hv0, if_true, Bool.false_eq_true, if_false] at h ⊢
              rcases hrs : validateSession P now s a with ⟨s', b, calls⟩
              rw [hrs] at h
              cases b with
              | false => simp
              | true =>
                simp only at h ⊢
                by_cases hv : requestValidators lower P s' = true
                · simp [hv] at h
                · simp [hv]
            · simp only [hv0, Bool.false_eq_true, if_false] at h ⊢
              by_cases hv : requestValidators lower P s = true
              · simp [hv] at h
              · simp [hv]

/-- The whitelist decision reads only the method and the path-match oracle — never cookies, query or headers. -/
theorem C01_whitelist_reads_path_only (P : Policy) (r₁ r₂ : ReqIn)
    (hm : r₁.method = r₂.method) (hp : r₁.whitelistedPath = r₂.whitelistedPath) : whitelisted P r₁ = whitelisted P r₂ := by
  simp [whitelisted, hm, hp]

/-- A session bound to another host is never forwarded (and the browser is sent to sign in again). -/
theorem C01_cross_host_session_rejected (lower : Bytes → Bytes) (P : Policy) (now : Int) (r : ReqIn) (s : Sess) (a : Ans)
    (hh : s.host ≠ r.host) (hw : whitelisted P r = false) :
    ∀ id, (proxy lower P now r (.opens s) a).outcome ≠ .forward id := by
  intro id h
  rcases C01_forward_sound lower P now r (.opens s) a id h with ⟨hw', _⟩ | ⟨_, s', hc, _, h2, _⟩
  · simp [hw] at hw'
  · cases hc; exact hh h2

/-! ### Tie to the source (T1) -/

/-- the model's route table is the one `OAuthProxy.Handler` registers: every path except the six fixed ones goes to `Proxy` -/
theorem C01_routes :
    Sso.Generated.proxyRoutes =
      [("/favicon.ico", "p.Favicon"), ("/robots.txt", "p.RobotsTxt"), ("/oauth2/v1/certs", "p.Certs"), ("/oauth2/sign_out", "p.SignOut"),
       ("/oauth2/callback", "p.OAuthCallback"), ("/oauth2/auth", "p.AuthenticateOnly"), ("prefix:/", "p.Proxy")] ∧
    (∀ r ∈ Sso.Generated.proxyRoutes, r.1.startsWith "prefix:" = false → "p." ++ handlerOf r.1 = r.2) := by
  constructor
  · decide
  · intro r hr
    simp only [Sso.Generated.proxyRoutes, List.mem_cons, List.not_mem_nil, or_false] at hr
    rcases hr with rfl | rfl | rfl | rfl | rfl | rfl | rfl <;> simp [handlerOf] <;> decide

/-- `Proxy`'s error switch: exactly the five restart-the-flow errors, 403, 401, and 500 for everything else; the
middleware order of `Handler` (https upgrade inside header overrides inside security headers). -/
theorem C01_skeleton_Proxy : Sso.Generated.skel_proxy_Proxy =
    ["call:Now", "range{", "call:Del", "}", "call:IsWhitelistedRequest", "if{", "}", "else{", "call:Authenticate", "}", "if{", "switch{", "case http.ErrNoCookie{", "call:OAuthStart", "return", "}", "case ErrLifetimeExpired{", "call:OAuthStart", "return", "}", "case ErrWrongIdentityProvider{", "call:OAuthStart", "return", "}", "case ErrUnauthorizedUpstreamRequested{", "call:OAuthStart", "return", "}", "case sessions.ErrInvalidSession{", "call:OAuthStart", "return", "}", "case ErrUserNotAuthorized{", "call:ErrorPage", "return", "}", "case providers.ErrTokenRevoked{", "call:ErrorPage", "return", "}", "default{", "call:ErrorPage", "return", "}", "}", "}", "call:Now", "call:Sub", "call:ServeHTTP"] := by decide

/-! ### Non-vacuity -/

def exPol : Policy := { slug := "google", rules := ⟨[], [[120]], []⟩, allowedGroups := [], L := 3600, V := 60, G := 600,
                        passAccessToken := false, skipPreflight := false }
def exSess : Sess := { slug := "google", host := "app.x", email := [97, 64, 120], user := "a", access := "t", refreshTok := "r",
                       groups := [], lifetime := 1000, refresh := 500, valid := 100, grace := none }
def exReq : ReqIn := { method := "GET", host := "app.x", whitelistedPath := false, xhr := false }
def exAns : Ans := { refresh := .transport, validate := .ok (), profile := .transport }

example : (proxy id exPol 50 exReq (.opens exSess) exAns).outcome = .forward (some ⟨"a", [97, 64, 120], [], none⟩) := by decide
example : (proxy id exPol 150 exReq (.opens exSess) exAns).writes = [.save { exSess with valid := 210 }] := by decide
example : (proxy id exPol 150 exReq (.opens exSess) { exAns with validate := .status 401 }).outcome = .errorPage 403 := by decide
example : (proxy id exPol 1500 exReq (.opens exSess) exAns).outcome = .startOAuth := by decide
example : (proxy id exPol 50 { exReq with host := "other.x" } (.opens exSess) exAns).outcome = .startOAuth := by decide

/-- Tie (T1): `Authenticate` — the gate order (provider slug, host binding, lifetime, refresh, validation, validators) — and the two entry points that reuse it — call/branch/store skeletons regenerated from the source on every run; the expectations below are
what the model in this file transliterates. A structural edit of any of these functions breaks this theorem and sends the
check searching for a failing input. -/
theorem C01_wiring :
    Sso.Generated.skel_proxy_Authenticate =
      ["call:getRemoteAddr", "defer{", "if{", "call:ClearSession", "}", "}", "call:LoadSession", "if{", "return", "}", "call:Data", "if{", "return", "}", "if{", "return", "}", "call:LifetimePeriodExpired", "if{", "return", "}", "else{", "call:RefreshPeriodExpired", "if{", "call:RefreshSession", "if{", "return", "}", "if{", "return", "}", "call:SaveSession", "if{", "return", "}", "}", "else{", "call:ValidationPeriodExpired", "if{", "call:ValidateSessionState", "if{", "return", "}", "call:SaveSession", "if{", "return", "}", "}", "}", "}", "range{", "if{", "call:Validate", "if{", "return", "}", "}", "}", "range{", "call:Set", "}", "call:Set", "if{", "call:Set", "}", "call:Set", "call:Join", "call:Set", "call:Header", "call:Set", "return"] ∧
    Sso.Generated.skel_proxy_AuthenticateOnly =
      ["call:Authenticate", "if{", "call:Error", "}", "call:WriteHeader"] ∧
    Sso.Generated.skel_proxy_IsWhitelistedRequest =
      ["if{", "return", "}", "range{", "call:MatchString", "if{", "return", "}", "}", "return"] ∧
    Sso.Generated.skel_proxy_Favicon =
      ["call:Authenticate", "if{", "call:WriteHeader", "return", "}", "call:Proxy"] := by decide

/-- Tie (T1), second wave: helpers, stores and second callers on this property's path (sessions_LifetimePeriodExpired, sessions_RefreshPeriodExpired, sessions_ValidationPeriodExpired, store_ClearSession, store_SaveSession, proxy_SignOut) — call/branch/store skeletons
regenerated from the source on every run against the expectations frozen here. -/
theorem C01_wiring2 :
    Sso.Generated.skel_sessions_LifetimePeriodExpired =
      ["call:isExpired", "return"] ∧
    Sso.Generated.skel_sessions_RefreshPeriodExpired =
      ["call:isExpired", "return"] ∧
    Sso.Generated.skel_sessions_ValidationPeriodExpired =
      ["call:isExpired", "return"] ∧
    Sso.Generated.skel_store_ClearSession =
      ["call:Now", "call:makeSessionCookie", "call:SetCookie"] ∧
    Sso.Generated.skel_store_SaveSession =
      ["call:MarshalSession", "if{", "return", "}", "call:setSessionCookie", "return"] ∧
    Sso.Generated.skel_proxy_SignOut =
      ["call:ClearSession", "if{", "if{", "}", "else{", "}", "}", "call:GetSignOutURL", "call:String", "call:Redirect"] := by decide

/-- Tie (T1): `cmd/sso-proxy/main.go`: load the configuration from the environment, validate it, `proxy.New`, wrap in the logging handler, serve — the sequence the harness reproduces when it builds the service in-process (configuration validated before
anything is served; the handler wrapping). -/
theorem C01_skeleton_cmd_proxy_main : Sso.Generated.skel_cmd_proxy_main =
    ["call:LoadConfig", "if{", "call:Exit", "}", "call:Validate", "if{", "call:Exit", "}", "call:NewStatsdClient", "if{", "call:Exit", "}", "go{", "call:New", "call:Run", "}", "call:SetUpstreamConfigs", "if{", "call:Exit", "}", "call:New", "if{", "call:Exit", "}", "call:NewLoggingHandler", "call:Sprintf", "call:Run", "if{", "}"] := by decide

/-- Tie (T1), third wave: the constructors and option functions that hand configured values to the components this property
speaks about (proxy_SetCookieStore). -/
theorem C01_wiring3 :
    Sso.Generated.skel_proxy_SetCookieStore =
      ["func{", "call:DecodeString", "if{", "return", "}", "call:CreateMiscreantCookieCipher", "func{", "store:c.CookieDomain", "store:c.CookieHTTPOnly", "store:c.CookieExpire", "store:c.CookieSecure", "return", "}", "call:NewCookieStore", "if{", "return", "}", "store:op.csrfStore", "store:op.sessionStore", "store:op.cookieCipher", "return", "}", "return"] := by decide

end Sso.Proxy
