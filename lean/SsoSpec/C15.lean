import SsoSpec.Lemmas.Breaker
import Generated.Facts

/-!
# C15 — the circuit breaker follows its three-state machine under every interleaving

Every theorem quantifies over *all* rule functions `P.trip`, `P.reset`, `P.backoff`, any
`halfOpenMax ≥ 0` (the constructor forces ≥ 1) and, where it mentions `Reachable`, over all finite event lists, i.e. all
interleavings of any number of overlapping `Call`s at critical-section granularity.
-/
namespace Sso.Breaker

/-- While closed (after the clock-driven step) every call is let through. -/
theorem C15_closed_admits_all (P : Params) (b : B) (h : (cs b).1.st = .closed) :
    ∃ b' hk, beforeRequest P b = (b', .admitted (cs b).1.gen, hk) := by
  unfold beforeRequest; simp [h]

/-- Open and the back-off deadline not yet passed: the call is rejected, `f` is not run
(no in-flight entry is created) and nothing changes. -/
theorem C15_open_rejects_until_deadline (P : Params) (g : G) (i : Nat)
    (ho : g.b.st = .opn) (hd : g.b.now ≤ g.b.expires) (hi : lookupGen g.inflight i = none) :
    step P g (.start i) = (g, .rejected g.b.gen []) := by
  have hc : cs g.b = (g.b, []) := (cs_st g.b).2 (by omega)
  simp [step, hi, beforeRequest, hc, ho]

/-- Open and the deadline passed: the next critical section first moves to half-open with a new generation. -/
theorem C15_open_expires_to_halfopen (b : B) (ho : b.st = .opn) (hd : b.now > b.expires) :
    (cs b).1.st = .halfOpen ∧ (cs b).1.gen = b.gen + 1 ∧ (cs b).2 = [.stateChange .opn .halfOpen] := by
  unfold cs setState; simp [ho, hd]

/-- Half-open admits iff fewer than `halfOpenMax` calls are in flight. -/
theorem C15_halfopen_admits_iff (P : Params) (b : B) (h : (cs b).1.st = .halfOpen) :
    (∃ b' n hk, beforeRequest P b = (b', .admitted n, hk)) ↔ (cs b).1.cnt.cur < P.halfOpenMax := by
  unfold beforeRequest
  simp only [h]
  by_cases hc : (cs b).1.cnt.cur ≥ P.halfOpenMax
  · simp [hc]
  · simp [hc]; omega

/-- In every reachable half-open state, at most `halfOpenMax` calls admitted in the current
half-open generation are running. -/
theorem C15_halfopen_cap (P : Params) (hmax : 0 ≤ P.halfOpenMax) (g : G) (hr : Reachable P g)
    (hh : g.b.st = .halfOpen) : (countGen g.inflight g.b.gen : Int) ≤ P.halfOpenMax :=
  (reachable_inv P hmax g hr).half_cap hh

/-- The in-flight counter equals the number of calls in flight; in particular it is never negative. -/
theorem C15_cur_eq_inflight (P : Params) (hmax : 0 ≤ P.halfOpenMax) (g : G) (hr : Reachable P g) :
    g.b.cnt.cur = g.inflight.length ∧ 0 ≤ g.b.cnt.cur := by
  have := (reachable_inv P hmax g hr).cur_len
  exact ⟨this, by omega⟩

/-- Outcomes of calls admitted before the most recent state change never matter: a completion with
a stale generation has the same effect whether it succeeded or failed, namely the decrement and the
clock-driven step only. -/
theorem C15_stale_outcome_irrelevant (P : Params) (b : B) (n : Int) (ok : Bool)
    (hs : n ≠ (cs (decr b)).1.gen) :
    afterRequest P b ok n = cs (decr b) := by
  rw [afterRequest_eq]; unfold afterCore; simp [hs]

theorem afterCore_trips (P : Params) (b1 : B) (n : Int) (ok : Bool) (hc : b1.st = .closed) :
    let c1 : Counts := { cur := b1.cnt.cur, succ := 0, fail := b1.cnt.fail + 1 }
    ((afterCore P b1 ok n).1.st = .opn ↔ (n = b1.gen ∧ ok = false ∧ P.trip c1 = true)) ∧
    ((afterCore P b1 ok n).1.st = .opn →
        (afterCore P b1 ok n).1.gen = b1.gen + 1 ∧
        (afterCore P b1 ok n).1.cnt = { cur := b1.cnt.cur, succ := 0, fail := 0 } ∧
        (afterCore P b1 ok n).1.expires = b1.now + P.backoff { cur := b1.cnt.cur, succ := 0, fail := 0 }) := by
  intro c1
  unfold afterCore
  by_cases hg : n = b1.gen
  · cases ok
    · by_cases ht : P.trip c1 = true
      · have ht' : P.trip { cur := b1.cnt.cur, succ := 0, fail := b1.cnt.fail + 1 } = true := ht
        simp [hg, onFailure, hc, ht', setState, setBackoff, clearCounts, c1]
      · have ht' : ¬ P.trip { cur := b1.cnt.cur, succ := 0, fail := b1.cnt.fail + 1 } = true := ht
        simp [hg, onFailure, hc, ht', c1]
    · simp [hg, onSuccess, hc]
  · simp [hg, hc]

/-- Closed → Open happens exactly on a current-generation failure for which the trip rule holds of
the counts after the failure was recorded; counters cleared, generation bumped, new back-off.
(`b1` is the state after the in-flight decrement and the clock-driven step.) -/
theorem C15_trips_iff_rule (P : Params) (b : B) (n : Int) (ok : Bool)
    (hc : (cs (decr b)).1.st = .closed) :
    let b1 := (cs (decr b)).1
    let c1 : Counts := { cur := b1.cnt.cur, succ := 0, fail := b1.cnt.fail + 1 }
    ((afterRequest P b ok n).1.st = .opn ↔ (n = b1.gen ∧ ok = false ∧ P.trip c1 = true)) ∧
    ((afterRequest P b ok n).1.st = .opn →
        (afterRequest P b ok n).1.gen = b1.gen + 1 ∧
        (afterRequest P b ok n).1.cnt = { cur := b1.cnt.cur, succ := 0, fail := 0 } ∧
        (afterRequest P b ok n).1.expires = b1.now + P.backoff { cur := b1.cnt.cur, succ := 0, fail := 0 }) := by
  rw [afterRequest_eq]; exact afterCore_trips P _ n ok hc

theorem afterCore_closes (P : Params) (b1 : B) (n : Int) (ok : Bool) (hc : b1.st = .halfOpen) :
    let c1 : Counts := { cur := b1.cnt.cur, succ := b1.cnt.succ + 1, fail := 0 }
    ((afterCore P b1 ok n).1.st = .closed ↔ (n = b1.gen ∧ ok = true ∧ P.reset c1 = true)) ∧
    ((afterCore P b1 ok n).1.st = .closed →
        (afterCore P b1 ok n).1.gen = b1.gen + 1 ∧
        (afterCore P b1 ok n).1.cnt = { cur := b1.cnt.cur, succ := 0, fail := 0 }) := by
  intro c1
  unfold afterCore
  by_cases hg : n = b1.gen
  · cases ok
    · simp [hg, onFailure, hc, setState, setBackoff]
    · by_cases ht : P.reset c1 = true
      · have ht' : P.reset { cur := b1.cnt.cur, succ := b1.cnt.succ + 1, fail := 0 } = true := ht
        simp [hg, onSuccess, hc, ht', setState, clearCounts, c1]
      · have ht' : ¬ P.reset { cur := b1.cnt.cur, succ := b1.cnt.succ + 1, fail := 0 } = true := ht
        simp [hg, onSuccess, hc, ht', c1]
  · simp [hg, hc]

/-- HalfOpen → Closed happens exactly on a current-generation success for which the reset rule holds;
counters cleared, generation bumped. -/
theorem C15_closes_iff_reset (P : Params) (b : B) (n : Int) (ok : Bool)
    (hc : (cs (decr b)).1.st = .halfOpen) :
    let b1 := (cs (decr b)).1
    let c1 : Counts := { cur := b1.cnt.cur, succ := b1.cnt.succ + 1, fail := 0 }
    ((afterRequest P b ok n).1.st = .closed ↔ (n = b1.gen ∧ ok = true ∧ P.reset c1 = true)) ∧
    ((afterRequest P b ok n).1.st = .closed →
        (afterRequest P b ok n).1.gen = b1.gen + 1 ∧
        (afterRequest P b ok n).1.cnt = { cur := b1.cnt.cur, succ := 0, fail := 0 }) := by
  rw [afterRequest_eq]; exact afterCore_closes P _ n ok hc

/-- A back-off lasts what the back-off rule says, counted from the moment it is set: the stored deadline and the one announced
to the hook are both `now + duration`, to the tick (no rounding). -/
theorem C15_backoff_deadline_is_now_plus_duration (P : Params) (b : B) :
    (setBackoff P b).1.expires = b.now + P.backoff b.cnt ∧
    (setBackoff P b).2 = [.backoff (P.backoff b.cnt) (b.now + P.backoff b.cnt)] ∧
    (setBackoff P b).1.st = b.st ∧ (setBackoff P b).1.gen = b.gen ∧ (setBackoff P b).1.cnt = b.cnt := by
  simp [setBackoff]

/-- while open, no success is on the books -/
def SuccInv (b : B) : Prop := b.st = .opn → b.cnt.succ = 0

/-- **The success streak is per state.** For a completion whose call was admitted in a generation that exists (`g ≤ b.gen`) and —
while the breaker is open — not in the open period's own generation (both hold in every reachable state: `Inv.gens_le`,
`Inv.opn_none`), the step keeps "open ⇒ no successes counted", and whenever it changes the state (trip, re-open, close, or the
clock-driven open → half-open step it performs first) no success counted before the change is left afterwards: "closes exactly
when the reset rule holds for consecutive successes" speaks about successes *of the current half-open period*. -/
theorem C15_state_change_clears_success_streak (P : Params) (b : B) (ok : Bool) (g : Int) (h : SuccInv b)
    (hle : g ≤ b.gen) (hopen : b.st = .opn → g ≠ b.gen) :
    SuccInv (afterRequest P b ok g).1 ∧
    ((afterRequest P b ok g).1.gen ≠ b.gen → (afterRequest P b ok g).1.cnt.succ = 0) := by
  unfold SuccInv at *
  unfold afterRequest afterCore onSuccess onFailure cs setState setBackoff clearCounts
  simp only
  cases hst : b.st <;> cases ok <;> simp_all <;> (repeat' split) <;> simp_all <;> omega

/-- … and admissions (which may perform the open → half-open step) never create a success either -/
theorem C15_admission_keeps_success_streak_clear (P : Params) (b : B) (h : SuccInv b) :
    SuccInv (beforeRequest P b).1 ∧ ((beforeRequest P b).1.gen ≠ b.gen → (beforeRequest P b).1.cnt.succ = 0) := by
  unfold SuccInv at *
  unfold beforeRequest cs setState
  simp only
  cases hst : b.st <;> simp_all <;> (repeat' split) <;> simp_all

example : SuccInv B.init := by intro h; cases h

/-- Any current-generation failure while half-open re-opens with a new back-off computed from the
counts *including* this failure (so the default exponential back-off grows). -/
theorem C15_halfopen_failure_reopens (P : Params) (b : B) (n : Int)
    (hc : (cs (decr b)).1.st = .halfOpen) (hg : n = (cs (decr b)).1.gen) :
    let b1 := (cs (decr b)).1
    let c1 : Counts := { b1.cnt with fail := b1.cnt.fail + 1, succ := 0 }
    (afterRequest P b false n).1.st = .opn ∧
    (afterRequest P b false n).1.gen = b1.gen + 1 ∧
    (afterRequest P b false n).1.cnt = c1 ∧
    (afterRequest P b false n).1.expires = b1.now + P.backoff c1 := by
  intro b1 c1
  rw [afterRequest_eq]
  have hc' : b1.st = .halfOpen := hc
  show (afterCore P b1 false n).1.st = .opn ∧ _
  unfold afterCore
  simp [hg, b1, onFailure, hc, setState, setBackoff, c1]

/-- No in-flight call carries the generation of an Open period … -/
theorem C15_no_inflight_of_open_gen (P : Params) (hmax : 0 ≤ P.halfOpenMax) (g : G) (hr : Reachable P g)
    (ho : g.b.st = .opn) : ∀ p ∈ g.inflight, p.2 ≠ g.b.gen :=
  (reachable_inv P hmax g hr).opn_none ho

/-- … hence the `case StateOpen` arm of `onFailure` is unreachable: whenever a completion's
generation is current, the state after the clock-driven step is not Open. -/
theorem C15_open_arm_unreachable (P : Params) (hmax : 0 ≤ P.halfOpenMax) (g : G) (hr : Reachable P g)
    (i : Nat) (n : Int) (hm : (i, n) ∈ g.inflight) (hg : n = (cs (decr g.b)).1.gen) :
    (cs (decr g.b)).1.st ≠ .opn := by
  intro ho
  have hinv := reachable_inv P hmax g hr
  by_cases hch : (cs (decr g.b)).1.gen = (decr g.b).gen
  · -- generation unchanged, so `cs` did nothing to the state either
    by_cases hc : (decr g.b).st = .opn ∧ (decr g.b).now > (decr g.b).expires
    · have := ((cs_st (decr g.b)).1 hc).2; omega
    · rw [(cs_st (decr g.b)).2 hc] at ho hg
      exact hinv.opn_none ho (i, n) hm hg
  · have := cs_not_opn_of_changed _ hch; rw [this] at ho; cases ho

/-- The generation counts state changes, and every `OnStateChange(prev,to)` has `prev ≠ to`. -/
theorem C15_gen_counts_changes (P : Params) (g : G) (es : List Ev) :
    (run P g es).1.b.gen = g.b.gen + ((run P g es).2.map (fun o => nChanges (hooksOf o))).sum ∧
    ∀ o ∈ (run P g es).2, hooksProper (hooksOf o) := by
  induction es generalizing g with
  | nil => simp [run]
  | cons e es ih =>
    have key : (step P g e).1.b.gen = g.b.gen + nChanges (hooksOf (step P g e).2)
        ∧ hooksProper (hooksOf (step P g e).2) := by
      obtain ⟨b, l⟩ := g
      cases e with
      | tick d => simp [step, hooksOf, hooksProper]
      | start i =>
        simp only [step]
        cases hl : lookupGen l i with
        | some n => simp [hooksOf, hooksProper]
        | none =>
          simp only
          have hf := cs_facts b
          have hb : (beforeRequest P b).1.gen = (cs b).1.gen ∧ (beforeRequest P b).2.2 = (cs b).2 := by
            unfold beforeRequest; simp only
            split
            · simp
            · split <;> simp
          rcases hbr : beforeRequest P b with ⟨b', a, hk⟩
          rw [hbr] at hb
          simp only at hb
          cases a <;> (simp only [hooksOf]; rw [hb.1, hb.2]; exact ⟨hf.1, hf.2.1⟩)
      | complete i ok =>
        simp only [step]
        cases hl : lookupGen l i with
        | none => simp [hooksOf, hooksProper]
        | some n =>
          simp only [hooksOf]
          rw [afterRequest_eq]
          have hf := cs_facts (decr b)
          have hd : (decr b).gen = b.gen := rfl
          generalize (cs (decr b)).1 = b1 at hf ⊢
          generalize (cs (decr b)).2 = h1 at hf ⊢
          have core : (afterCore P b1 ok n).1.gen = b1.gen + nChanges (afterCore P b1 ok n).2
              ∧ hooksProper (afterCore P b1 ok n).2 := by
            unfold afterCore
            split
            · simp [hooksProper]
            · split
              · unfold onSuccess; simp only
                split
                · next hr => simp [setState, hr.1, clearCounts, nChanges, hooksProper]
                · simp [hooksProper]
              · unfold onFailure; simp only
                split
                · next hs =>
                  split
                  · simp [setState, hs, clearCounts, setBackoff, nChanges, hooksProper]
                  · simp [hooksProper]
                · simp [setBackoff, nChanges, hooksProper]
                · next hs => simp [setState, hs, setBackoff, nChanges, hooksProper]
          refine ⟨?_, hooksProper_append hf.2.1 core.2⟩
          show (afterCore P b1 ok n).1.gen = b.gen + _
          rw [nChanges_append, core.1, hf.1, hd]; omega
    have := ih (step P g e).1
    simp only [run]
    refine ⟨?_, ?_⟩
    · simp only [List.map_cons, List.sum_cons]
      rw [this.1, key.1]; omega
    · intro o ho
      rcases List.mem_cons.1 ho with rfl | ho
      · exact key.2
      · exact this.2 o ho

/-! ### Tie to the source (T1): the critical-section structure the LTS assumes is the code's

`Generated.skel_*` is re-extracted from `internal/auth/circuit/breaker.go` on every run: control tokens
and call names in source order.  `Call` = beforeRequest; (rejected → return) ; `f()` outside any lock ;
afterRequest.  Both helpers are `Lock; defer Unlock` around everything else, `afterRequest` decrements
*before* `currentState` and compares generations *after* it; the transitions call
`setState`/`clear`/`setBackoff` in the order the model applies them. -/

theorem C15_skeleton_Call : Generated.skel_breaker_Call =
    ["call:beforeRequest", "if{", "return", "}", "call:f", "call:afterRequest", "return"] := by decide

theorem C15_skeleton_beforeRequest : Generated.skel_breaker_beforeRequest =
    ["call:Lock", "defer:Unlock", "call:currentState", "switch{", "case StateOpen{", "return", "}",
     "case StateHalfOpen{", "if{", "return", "}", "}", "}", "call:onRequest", "return"] := by decide

theorem C15_skeleton_afterRequest : Generated.skel_breaker_afterRequest =
    ["call:Lock", "defer:Unlock", "call:afterRequest", "call:currentState", "if{", "return", "}",
     "if{", "call:onSuccess", "return", "}", "call:onFailure"] := by decide

theorem C15_skeleton_transitions :
    Generated.skel_breaker_onSuccess =
      ["call:onSuccess", "switch{", "case StateHalfOpen{", "call:shouldResetFunc", "if{", "call:setState", "call:clear", "}", "}", "}"] ∧
    Generated.skel_breaker_onFailure =
      ["call:onFailure", "switch{", "case StateClosed{", "call:shouldTripFunc", "if{", "call:setState", "call:clear", "call:setBackoff", "}", "}",
       "case StateOpen{", "call:setBackoff", "}", "case StateHalfOpen{", "call:setState", "call:setBackoff", "}", "}"] ∧
    Generated.skel_breaker_currentState =
      ["switch{", "case StateOpen{", "call:Now", "call:After", "if{", "call:setState", "}", "}", "}", "return"] ∧
    Generated.skel_breaker_setState =
      ["if{", "return", "}", "call:newGeneration", "store:b.state", "if{", "call:onStateChange", "}"] ∧
    Generated.skel_breaker_setBackoff =
      ["call:backoffDurationFunc", "call:Now", "call:Add", "store:b.backoffExpires", "if{", "call:onBackoff", "}"] := by decide

/-! ### Non-vacuity: concrete runs meeting the hypotheses above -/

def exP : Params := { trip := fun c => c.fail ≥ 2, reset := fun c => c.succ ≥ 1, backoff := fun _ => 10, halfOpenMax := 1 }

/-- Two overlapping calls fail → open; tick past the deadline → half-open; a stale success is
ignored; a probe succeeds → closed. -/
def exRun : List Ev :=
  [.start 0, .start 1, .start 2, .complete 0 false, .complete 1 false, .tick 11, .start 3,
   .complete 2 true, .start 4, .start 5, .complete 4 true]

example : (run exP G.init exRun).2 =
    [.admitted 0 [], .admitted 0 [], .admitted 0 [], .completed [],
     .completed [.stateChange .closed .opn, .backoff 10 10], .ticked,
     .rejected 2 [.stateChange .opn .halfOpen],   -- call 2 (admitted while closed) still counts against the cap
     .completed [],                                -- stale success: ignored
     .admitted 2 [], .rejected 2 [],
     .completed [.stateChange .halfOpen .closed]] := by decide

example : Reachable exP (runState exP G.init exRun) := ⟨exRun, rfl⟩
example : (runState exP G.init (exRun.take 5)).b.st = .opn := by decide
example : (runState exP G.init (exRun.take 7)).b.st = .halfOpen := by decide

/-- Tie (T1): the breaker's *callers* — every request to the directory (Google Admin, Cognito) and to the identity provider's
endpoints is wrapped in its own `cb.Call`, one per request (per page of a paginated listing), so the state machine of this
file is what stands between sso-auth and a failing service. -/
theorem C15_wiring_callers :
    Sso.Generated.skel_gadmin_listMemberships =
      ["for{", "call:Now", "call:List", "call:MaxResults", "if{", "call:PageToken", "}", "func{", "call:Do", "return", "}", "call:Call", "if{", "typeswitch{", "case{", "switch{", "case 400{", "call:Error", "if{", "}", "}", "case 404{", "}", "case 429{", "}", "case 503{", "}", "}", "}", "case{", "}", "case{", "}", "}", "return", "}", "range{", "switch{", "case \"USER\"{", "call:append", "}", "case \"GROUP\"{", "if{", "continue", "}", "call:listMemberships", "if{", "return", "}", "call:append", "}", "default{", "call:Errorf", "continue", "}", "}", "}", "if{", "break", "}", "}", "return"] ∧
    Sso.Generated.skel_gadmin_CheckMemberships =
      ["range{", "call:Now", "call:HasMember", "func{", "call:Do", "return", "}", "call:Call", "if{", "typeswitch{", "case{", "switch{", "case 400{", "call:Error", "if{", "}", "}", "case 404{", "continue", "}", "case 429{", "}", "case 503{", "}", "}", "}", "case{", "}", "case{", "}", "}", "return", "}", "if{", "call:append", "}", "}", "return"] ∧
    Sso.Generated.skel_cadmin_ListMemberships =
      ["for{", "call:Now", "call:ListUsersInGroupRequest", "if{", "call:SetNextToken", "}", "func{", "call:Send", "return", "}", "call:Call", "if{", "typeswitch{", "case{", "call:Code", "switch{", "case cognitoidentityprovider.ErrCodeTooManyRequestsException{", "}", "case cognitoidentityprovider.ErrCodeInternalErrorException{", "}", "}", "}", "case{", "}", "case{", "}", "}", "return", "}", "range{", "call:append", "}", "if{", "break", "}", "}", "return"] ∧
    Sso.Generated.skel_cadmin_CheckMemberships =
      ["for{", "call:Now", "call:AdminListGroupsForUserRequest", "if{", "call:SetNextToken", "}", "func{", "call:Send", "return", "}", "call:Call", "if{", "typeswitch{", "case{", "call:Code", "switch{", "case cognitoidentityprovider.ErrCodeTooManyRequestsException{", "}", "case cognitoidentityprovider.ErrCodeInternalErrorException{", "}", "}", "}", "case{", "}", "case{", "}", "}", "return", "}", "range{", "call:append", "}", "if{", "break", "}", "}", "return"] ∧
    Sso.Generated.skel_google_googleRequest =
      ["call:Now", "switch{", "case \"POST\"{", "call:Encode", "call:NewBufferString", "}", "case \"GET\"{", "call:Parse", "call:Encode", "store:u.RawQuery", "call:String", "}", "default{", "return", "}", "}", "call:NewRequest", "if{", "return", "}", "call:Set", "call:Do", "if{", "return", "}", "call:ReadAll", "call:Close", "if{", "return", "}", "if{", "switch{", "case 400{", "call:Unmarshal", "if{", "return", "}", "return", "}", "case 429{", "return", "}", "default{", "return", "}", "}", "}", "if{", "call:Unmarshal", "if{", "return", "}", "}", "return"] ∧
    Sso.Generated.skel_okta_oktaRequest =
      ["call:Now", "switch{", "case \"POST\"{", "call:Encode", "call:NewBufferString", "}", "case \"GET\"{", "call:Parse", "call:Encode", "store:u.RawQuery", "call:String", "}", "default{", "return", "}", "}", "call:NewRequest", "if{", "return", "}", "if{", "store:req.Header", "}", "call:Set", "call:Do", "if{", "return", "}", "call:ReadAll", "call:Close", "if{", "return", "}", "if{", "switch{", "case 400{", "call:Unmarshal", "call:ToLower", "call:Contains", "if{", "return", "}", "return", "}", "case 429{", "return", "}", "default{", "return", "}", "}", "}", "if{", "call:Unmarshal", "if{", "return", "}", "}", "return"] := by decide

end Sso.Breaker
