import SsoSpec.Lemmas.Singleflight
import SsoModel.SfWrappers
import SsoSpec.Lemmas.Keys
import Generated.Facts

/-!
# C16 — request coalescing never changes an answer

Group-level theorems hold in every reachable state of the LTS: any number of threads and keys, every
interleaving at critical-section granularity (including arrivals in the window between the leader's
`wg.Done()` and its `delete`).
-/
namespace Sso.Singleflight

/-- For every key at most one execution of `fn` is in flight. -/
theorem C16_one_execution_per_key (s : S) (hr : Reachable s) (t₁ t₂ : Nat) (k : Key) (c₁ c₂ : Nat)
    (h₁ : s.thr t₁ = .running k c₁) (h₂ : s.thr t₂ = .running k c₂) : t₁ = t₂ ∧ c₁ = c₂ := by
  have inv := reachable_inv s hr
  have a := inv.lead_ok t₁ k c₁ (Or.inl h₁)
  have b := inv.lead_ok t₂ k c₂ (Or.inl h₂)
  have : c₁ = c₂ := by have := a.2.2.2; rw [b.2.2.2] at this; simpa using this.symm
  subst this
  exact ⟨by rw [← a.2.2.1, ← b.2.2.1], rfl⟩

/-- There is exactly one completed execution per call, and it is the leader's. -/
theorem C16_one_execution_per_call (s : S) (hr : Reachable s) (c l₁ l₂ : Nat) (v₁ v₂ : Val)
    (h₁ : (c, l₁, v₁) ∈ s.execs) (h₂ : (c, l₂, v₂) ∈ s.execs) : l₁ = l₂ ∧ v₁ = v₂ := by
  have inv := reachable_inv s hr
  have a := (inv.execs_iff c l₁ v₁).1 h₁
  have b := (inv.execs_iff c l₂ v₂).1 h₂
  refine ⟨by rw [← a.2.2, ← b.2.2], ?_⟩
  have := a.2.1; rw [b.2.1] at this; simpa using this.symm

/-- Every caller that joined a call returns exactly what that call's single execution returned
(value or error), with count 0; the leader returns the same result. -/
theorem C16_joined_get_leaders_result (s : S) (hr : Reachable s) (t c : Nat) (v : Val) (n : Nat)
    (h : s.thr t = .returned c false v n) :
    n = 0 ∧ (t, c) ∈ s.joinLog ∧ ∃ l, (c, l, v) ∈ s.execs ∧
      ∀ t' v' n', s.thr t' = .returned c true v' n' → t' = l ∧ v' = v := by
  have inv := reachable_inv s hr
  obtain ⟨h0, hj, l, hl⟩ := inv.ret_follower t c v n h
  refine ⟨h0, hj, l, hl, ?_⟩
  intro t' v' n' h'
  have := (inv.ret_leader t' c v' n' h').2.2.1
  exact C16_one_execution_per_call s hr c t' l v' v this hl

/-- The first caller is told how many joined: the count it returns is the number of threads that
joined that call — ever: nobody can join after the key was removed. -/
theorem C16_leader_count_eq_joined (s : S) (hr : Reachable s) (t c : Nat) (v : Val) (n : Nat)
    (h : s.thr t = .returned c true v n) : n = joins s.joinLog c :=
  ((reachable_inv s hr).ret_leader t c v n h).2.1

/-- Once the leader has returned, its call is gone from the table for good … -/
theorem C16_after_return_gone (s : S) (hr : Reachable s) (t c : Nat) (v : Val) (n : Nat)
    (h : s.thr t = .returned c true v n) : ∀ k, s.calls k ≠ some c :=
  ((reachable_inv s hr).ret_leader t c v n h).2.2.2

/-- … and right after the leader's removal the next arrival for that key executes afresh. -/
theorem C16_after_return_fresh (s : S) (t t' : Nat) (k : Key) (c : Nat)
    (ht : s.thr t = .afterFn k c) (hc : canArrive ((step s (.remove t)).1.thr t') = true) :
    (step (step s (.remove t)).1 (.arrive t' k)).2 = .leader s.next := by
  simp only [step, ht] at hc ⊢
  simp [hc, updK]

/-- Calls with different keys never share: a thread only ever waits on / runs a call of the key it asked for. -/
theorem C16_different_keys_never_share (s : S) (hr : Reachable s) (t : Nat) (k : Key) (c : Nat)
    (h : s.thr t = .waiting k c ∨ s.thr t = .running k c ∨ s.thr t = .afterFn k c) : (s.recs c).key = k := by
  have inv := reachable_inv s hr
  rcases h with h | h | h
  · exact (inv.wait_ok t k c h).2.1
  · exact (inv.lead_ok t k c (Or.inl h)).2.1
  · exact (inv.lead_ok t k c (Or.inr h)).2.1

/-- A follower is never blocked forever by its own call: once the execution completed, `wake` is enabled. -/
theorem C16_follower_wakes_after_done (s : S) (t : Nat) (k : Key) (c : Nat) (v : Val)
    (h : s.thr t = .waiting k c) (hv : (s.recs c).val = some v) : (step s (.wake t)).2 = .ret v 0 := by
  simp [step, h, hv]

/-- Tie (T1): the lock/call skeleton of `Do` is the one the LTS transliterates: join under the lock
(`dups++; Unlock; Wait`), create under the lock, `fn` outside it, publish (`store c.val/c.err; Done`),
then `Lock; delete; Unlock`. -/
theorem C16_skeleton_Do : Sso.Generated.skel_singleflight_Do =
    ["call:Lock", "if{", "call:make", "store:g.m", "}", "if{", "incdec:c.dups++", "call:Unlock", "call:Wait", "return", "}",
     "call:new", "call:Add", "store:g.m[]", "call:Unlock", "call:fn", "store:c.val", "store:c.err", "call:Done",
     "call:Lock", "call:delete", "call:Unlock", "return"] := by decide

/-! ### Non-vacuity -/

def exRun : List Ev :=
  [.arrive 0 "a", .arrive 1 "a", .arrive 2 "b", .fnReturn 0 7, .arrive 3 "a", .remove 0, .wake 1, .wake 3,
   .arrive 4 "a", .fnReturn 2 9, .remove 2]

example : (runState S.init exRun).thr 0 = .returned 0 true 7 2 := by decide
example : (runState S.init exRun).thr 1 = .returned 0 false 7 0 := by decide
example : (runState S.init exRun).thr 3 = .returned 0 false 7 0 := by decide   -- joined in the done/remove window
example : (runState S.init exRun).thr 4 = .running "a" 2 := by decide         -- fresh execution
example : Reachable (runState S.init exRun) := ⟨exRun, rfl⟩

end Sso.Singleflight

namespace Sso.SfWrappers

/-! ### Keys -/

/-- Different endpoints never merge, and within an endpoint different subjects never merge:
the composite key is injective as soon as endpoint names contain no `/`. -/
theorem C16_composite_key_injective {α : Type} (slash : α) (ep₁ ep₂ k₁ k₂ : List α)
    (h₁ : slash ∉ ep₁) (h₂ : slash ∉ ep₂)
    (h : compositeKey slash ep₁ k₁ = compositeKey slash ep₂ k₂) : ep₁ = ep₂ ∧ k₁ = k₂ :=
  append_sep_inj slash ep₁ ep₂ k₁ k₂ h₁ h₂ h

/-- The endpoint literals used by both middlewares (regenerated from the source) contain no `/`
and are pairwise distinct within each service. -/
theorem C16_endpoints_slash_free :
    (∀ e ∈ Sso.Generated.sf_endpoints_proxy, '/' ∉ e.toList) ∧
    (∀ e ∈ Sso.Generated.sf_endpoints_auth, '/' ∉ e.toList) ∧
    Sso.Generated.sf_endpoints_proxy.Nodup ∧ Sso.Generated.sf_endpoints_auth.Nodup := by decide

/-- The key expression of every coalesced method, as written in the source. -/
theorem C16_key_shapes :
    Sso.Generated.sf_keys_proxy =
      [("UserGroups", "fmt.Sprintf(\"%s:%s\",email,strings.Join(groups,\",\"))"),
       ("ValidateSessionState", "s.AccessToken"), ("RefreshSession", "s.RefreshToken")] ∧
    Sso.Generated.sf_keys_auth =
      [("ValidateSessionState", "s.AccessToken"), ("RefreshSessionIfNeeded", "s.RefreshToken"),
       ("ValidateGroupMembership", "fmt.Sprintf(\"%s:%s\",email,strings.Join(allowedGroups,\",\"))"),
       ("Revoke", "s.AccessToken"), ("RefreshAccessToken", "refreshToken")] ∧
    Sso.Generated.sf_do_key = "fmt.Sprintf(\"%s/%s\",endpoint,key)" := by decide

/-- Membership questions merge only for the same user and the same (sorted) group list — **provided**
the email contains no `:` and group names are non-empty and comma-free. -/
theorem C16_membership_key_injective {α : Type} (colon comma : α) (e₁ e₂ : List α) (g₁ g₂ : List (List α))
    (he₁ : colon ∉ e₁) (he₂ : colon ∉ e₂)
    (hg₁ : ∀ g ∈ g₁, g ≠ [] ∧ comma ∉ g) (hg₂ : ∀ g ∈ g₂, g ≠ [] ∧ comma ∉ g)
    (h : membershipKey colon comma e₁ g₁ = membershipKey colon comma e₂ g₂) : e₁ = e₂ ∧ g₁ = g₂ := by
  unfold membershipKey at h
  have := append_sep_inj colon e₁ e₂ _ _ he₁ he₂ h
  exact ⟨this.1, joinWith_injective comma g₁ g₂ hg₁ hg₂ this.2⟩

/-- The side conditions are needed: without them different questions collide (recorded in
DESIGN.md §6 as read-only finding; unreachable with real e-mail addresses and IdP group names). -/
theorem C16_membership_key_collides :
    membershipKey ':' ',' "x:y".toList ["z".toList] = membershipKey ':' ',' "x".toList ["y:z".toList] ∧
    membershipKey ':' ',' "u".toList ["a,b".toList] = membershipKey ':' ',' "u".toList ["a".toList, "b".toList] := by
  decide

/-! ### Session updates of merged callers -/

/-- Methods whose closure writes nothing through a captured pointer: a merged caller ends up with
exactly the leader's answer. -/
theorem C16_partial_pure_methods_same_answer {β : Type} (inner : β) :
    pureSF inner (some (pureSF inner none)) = pureSF inner none := rfl

/-- For the session-mutating methods the *leader's* session carries the provider's updates … -/
theorem C16_partial_leader_updated (inner : Sess → Sess × Bool) (s : Sess) :
    mutatingSF inner .leader s = inner s := rfl

/-- … and a follower gets the leader's boolean … -/
theorem C16_partial_follower_same_verdict (inner : Sess → Sess × Bool) (s₁ s₂ : Sess) :
    (mutatingSF inner (.follower (mutatingSF inner .leader s₁).2) s₂).2 = (inner s₁).2 := rfl

/-- … and its own session comes back exactly as it went in — every field, the hard lifetime deadline included: whatever the
executed call learnt about the *leader's* session is never written into another caller's (two sessions of one user share
tokens, and therefore coalescing keys, but not lifetimes, hosts or groups). -/
theorem C16_follower_session_untouched (inner : Sess → Sess × Bool) (r : Bool) (s : Sess) :
    (mutatingSF inner (.follower r) s).1 = s := rfl

/-- … but **not** the session updates (new deadlines, groups, token, grace start). Full-strength C16
(last sentence) is refuted by this model, which the correspondence check shows is what the code does:
KNOWN FINDING `sf-follower-session`. -/
theorem C16_follower_same_updates_refuted :
    ¬ ∀ (inner : Sess → Sess × Bool) (s₁ s₂ : Sess), s₁ = s₂ →
        (mutatingSF inner (.follower (mutatingSF inner .leader s₁).2) s₂).1 = (mutatingSF inner .leader s₁).1 := by
  intro h
  have := h (fun s => ({ s with valid := s.valid + 60, groups := ["g"] }, true))
    ⟨"tok", "r", 0, 0, none, []⟩ ⟨"tok", "r", 0, 0, none, []⟩ rfl
  simp [mutatingSF] at this

/-- Tie (T1): `do` of both middlewares — call/branch/store skeletons regenerated from the source on every run; the expectations below are
what the model in this file transliterates. A structural edit of any of these functions breaks this theorem and sends the
check searching for a failing input. -/
theorem C16_wiring :
    Sso.Generated.skel_proxy_sf_do =
      ["call:Sprintf", "call:Do", "if{", "}", "return"] ∧
    Sso.Generated.skel_auth_sf_do =
      ["call:Sprintf", "call:Do", "if{", "}", "return"] := by decide

/-- Tie (T1), third wave: the constructors and option functions that hand configured values to the components this property
speaks about (proxy_newProvider, auth_newProvider). -/
theorem C16_wiring3 :
    Sso.Generated.skel_proxy_newProvider =
      ["call:Parse", "if{", "return", "}", "if{", "call:Parse", "if{", "return", "}", "}", "call:New", "call:NewSingleFlightProvider", "return"] ∧
    Sso.Generated.skel_auth_newProvider =
      ["switch{", "case providers.GoogleProviderName{", "call:NewGoogleProvider", "if{", "return", "}", "call:NewFillCache", "store:googleProvider.GroupsCache", "call:NewSingleFlightProvider", "}", "case providers.OktaProviderName{", "call:NewOktaProvider", "if{", "return", "}", "call:NewGroupCache", "call:NewSingleFlightProvider", "}", "case providers.AmazonCognitoProviderName{", "call:NewAmazonCognitoProvider", "if{", "return", "}", "call:NewFillCache", "store:amazonCognitoProvider.GroupsCache", "call:NewSingleFlightProvider", "}", "case \"test\"{", "call:NewTestProvider", "return", "}", "default{", "call:Errorf", "return", "}", "}", "return"] := by decide

end Sso.SfWrappers
