import SsoSpec.C05

/-!
# C04 — histories: the validity deadline is the last passed revalidation (or the login) plus V
(needs the linear-history machinery of C05, hence its own file)
-/
namespace Sso.Proxy
open Sso.Validators

/-- a *revalidation* (not a refresh) was due at this request and passed — confirmed by the authenticator or let through
under the outage grace -/
def validationPassed (P : Policy) (now : Int) (r : ReqIn) (s : Sess) (a : Ans) : Bool :=
  !whitelisted P r && !(decide (s.slug ≠ P.slug) || decide (r.host ≠ s.host) || exp s.lifetime now) &&
  !exp s.refresh now && exp s.valid now && (validateWhy P now s a).isSome

/-- the validity deadline as the history defines it: login + V, then `now + V` at every passed revalidation, untouched by
anything else (refreshes, requests that need no check, skip-auth requests) -/
def validityAfter (vd : Int) (P : Policy) (now : Int) (r : ReqIn) (s : Sess) (a : Ans) : Int :=
  if validationPassed P now r s a then now + P.V else vd

theorem step_validity (lower : Bytes → Bytes) (P : Policy) (st : LStep) (s s' : Sess)
    (h : jarAfter (.opens s) (proxy lower P st.now st.req (.opens s) st.ans).writes = .opens s') :
    s'.valid = validityAfter s.valid P st.now st.req s st.ans := by
  unfold validityAfter validationPassed
  unfold proxy at h
  by_cases hw : whitelisted P st.req = true
  · simp [hw, jarAfter] at h ⊢; subst h; rfl
  · simp only [hw, Bool.false_eq_true, if_false] at h
    replace h : jarAfter (.opens s) (authenticate lower P st.now st.req.host (.opens s) st.ans).writes = .opens s' := by
      cases hres : (authenticate lower P st.now st.req.host (.opens s) st.ans).res <;> simpa [hres] using h
    unfold authenticate at h
    simp only at h
    by_cases h1 : s.slug ≠ P.slug
    · simp [h1, jarAfter] at h
    · by_cases h2 : st.req.host ≠ s.host
      · simp [h1, h2, jarAfter] at h
      · by_cases h3 : exp s.lifetime st.now = true
        · simp [h1, h2, h3, jarAfter] at h
        · simp only [h1, h2, h3, if_false] at h
          have hpre : (decide (s.slug ≠ P.slug) || decide (st.req.host ≠ s.host) || exp s.lifetime st.now) = false := by
            simp [h1, h2, h3]
          by_cases hr : exp s.refresh st.now = true
          · simp only [hr, if_true] at h
            have hf := (refreshSession_frame P st.now s st.ans)
            rcases hrs : refreshSession P st.now s st.ans with ⟨s1, r, calls⟩
            rw [hrs] at h hf
            cases r with
            | error e => simp [jarAfter] at h
            | ok b =>
              cases b with
              | false => simp [jarAfter] at h
              | true =>
                have hs1 : s' = s1 := by
                  by_cases hv : requestValidators lower P s1 = true
                  · simp [hv, jarAfter] at h; exact h.symm
                  · simp [hv, jarAfter] at h
                subst hs1
                simp [hw, hpre, hr]
                exact hf.2
          · simp only [hr, Bool.false_eq_true, if_false] at h
            by_cases hv0 : exp s.valid st.now = true
            · simp only [hv0, if_true] at h
              have hiff := validateSession_true_iff P st.now s st.ans
              have hval : (validateSession P st.now s st.ans).2.1 = true → (validateSession P st.now s st.ans).1.valid = st.now + P.V := by
                intro hp
                have hsome := hiff.1 hp
                cases hwy : validateWhy P st.now s st.ans with
                | none => rw [hwy] at hsome; simp at hsome
                | some w =>
                  cases w with
                  | grace => exact ((C05_grace_step_effect P st.now s st.ans).2 hwy).2
                  | confirmed =>
                    -- confirmed: the last branch of validateSession
                    unfold validateWhy at hwy
                    unfold validateSession
                    cases ha : st.ans.validate with
                    | transport => rw [ha] at hwy; simp at hwy
                    | status n => rw [ha] at hwy; simp only at hwy; split at hwy <;> simp at hwy
                    | malformed =>
                      rw [ha] at hwy; simp only at hwy ⊢
                      rcases hvg : validateGroup P.allowedGroups st.ans with ⟨g, c⟩
                      rw [hvg] at hwy
                      cases g with
                      | unavail => simp only at hwy; split at hwy <;> simp at hwy
                      | err => simp at hwy
                      | ok ig v => cases v <;> simp at hwy ⊢
                    | ok u =>
                      rw [ha] at hwy; simp only at hwy ⊢
                      rcases hvg : validateGroup P.allowedGroups st.ans with ⟨g, c⟩
                      rw [hvg] at hwy
                      cases g with
                      | unavail => simp only at hwy; split at hwy <;> simp at hwy
                      | err => simp at hwy
                      | ok ig v => cases v <;> simp at hwy ⊢
              rcases hrs : validateSession P st.now s st.ans with ⟨s1, b, calls⟩
              rw [hrs] at h hiff hval
              cases b with
              | false => simp [jarAfter] at h
              | true =>
                have hs1 : s' = s1 := by
                  by_cases hv : requestValidators lower P s1 = true
                  · simp [hv, jarAfter] at h; exact h.symm
                  · simp [hv, jarAfter] at h
                subst hs1
                have hsome : (validateWhy P st.now s st.ans).isSome = true := hiff.1 rfl
                have hp1 : (s.slug = P.slug ∧ st.req.host = s.host) ∧ exp s.lifetime st.now = false := by
                  refine ⟨⟨by simpa using h1, by simpa using h2⟩, by simpa using h3⟩
                simp [hw, hr, hv0, hsome, hp1]
                exact hval rfl
            · simp only [hv0, Bool.false_eq_true, if_false] at h
              by_cases hv : requestValidators lower P s = true
              · simp [hv, jarAfter] at h; subst h; simp [hv0]
              · simp [hv, jarAfter] at h

end Sso.Proxy

namespace Sso.Proxy
open Sso.Validators

/-- a linear history, carrying the validity deadline *as the history defines it* -/
def runV (lower : Bytes → Bytes) (P : Policy) : CookieIn → Int → List LStep → List (CookieIn × Int × LStep)
  | _, _, [] => []
  | c, vd, st :: t =>
    let vd' := match c with | .opens s => validityAfter vd P st.now st.req s st.ans | _ => vd
    (c, vd, st) :: runV lower P (jarAfter c (proxy lower P st.now st.req c st.ans).writes) vd' t

/-- **The validity deadline is the last passed revalidation (or the login) plus V, along every history.** Nothing else —
no refresh, no request that needs no check, no skip-auth request, no failed check — ever moves it. -/
theorem C04_validity_is_last_check (lower : Bytes → Bytes) (P : Policy) (c : CookieIn) (vd : Int) (sts : List LStep)
    (h0 : ∀ s, c = .opens s → s.valid = vd) :
    ∀ x ∈ runV lower P c vd sts, ∀ s, x.1 = .opens s → s.valid = x.2.1 := by
  induction sts generalizing c vd with
  | nil => intro x hx; simp [runV] at hx
  | cons st t ih =>
    intro x hx s hs
    simp only [runV, List.mem_cons] at hx
    rcases hx with rfl | hx
    · exact h0 s hs
    · refine ih _ _ ?_ x hx s hs
      intro s' hs'
      cases c with
      | opens s0 =>
        have := step_validity lower P st s0 s' hs'
        rw [h0 s0 rfl] at this
        exact this
      | absent => exact absurd hs' (jar_stays_empty lower P st .absent (by intro s; simp) s')
      | junk => exact absurd hs' (jar_stays_empty lower P st .junk (by intro s; simp) s')

/-- **Served ⇒ checked recently.** Along every history that starts at a login at `t₀`, a request that reaches the upstream
at time `now` either passed a due refresh or revalidation *on this very request*, or `now` is no later than the validity
deadline the history defines: (time of the login or of the last passed revalidation) + V. -/
theorem C04_served_within_validity (lower : Bytes → Bytes) (P : Policy) (t0 : Int) (host : String) (rd : Redeemed) (gs : List String)
    (sts : List LStep) :
    ∀ x ∈ runV lower P (.opens (mintSession P t0 host rd gs)) (t0 + P.V) sts, ∀ id,
      (proxy lower P x.2.2.now x.2.2.req x.1 x.2.2.ans).outcome = .forward (some id) →
      ∃ s, x.1 = .opens s ∧
        ((exp s.refresh x.2.2.now = true ∧ (refreshWhy P x.2.2.now s x.2.2.ans).isSome = true) ∨
         (exp s.valid x.2.2.now = true ∧ (validateWhy P x.2.2.now s x.2.2.ans).isSome = true) ∨
         x.2.2.now ≤ x.2.1) := by
  intro x hx id hf
  have hinv := C04_validity_is_last_check lower P (.opens (mintSession P t0 host rd gs)) (t0 + P.V) sts
    (by intro s h; cases h; simp [mintSession]) x hx
  rcases C01_forward_sound lower P x.2.2.now x.2.2.req x.1 x.2.2.ans (some id) hf with ⟨_, h⟩ | ⟨_, s, hc, _, _, _, hd, _⟩
  · cases h
  · refine ⟨s, hc, ?_⟩
    cases hr : exp s.refresh x.2.2.now with
    | true => left; exact ⟨rfl, hd.1 hr⟩
    | false =>
      cases hv : exp s.valid x.2.2.now with
      | true => right; left; exact ⟨rfl, hd.2 hr hv⟩
      | false =>
        right; right
        have := hinv s hc
        have hlt : ¬ s.valid < x.2.2.now := by simpa [exp] using hv
        omega

end Sso.Proxy
