import Generated.Facts
import SsoSpec.C07
import SsoSpec.C04
import SsoSpec.C16
import SsoSpec.C05

/-!
# C19 — sign-out really signs out
The proxy half (cookie cleared, signed return address on the same host) is checked on the real proxy by the proxyflow
engine's monitor; its signature is the one `validSignature` accepts (the harness recomputes the authenticator's MAC).
-/
namespace Sso.AuthN

/-- `/sign_out` is gated: no revoke, no cookie change, no redirect to the caller's URI without an in-domain, signed, fresh
`redirect_uri` (instance of C07 over the regenerated route table). -/
theorem C19_auth_signout_gated :
    ∃ r ∈ Sso.Generated.authRoutes, r.1 = "/sign_out" ∧ r.2.1 = ["GET", "POST"] ∧
      r.2.2.1 = ["withMethods", "validateRedirectURI", "validateSignature"] := by decide

/-- **Order**: on POST with a loadable session the provider's `Revoke` is called exactly once; the cookie is cleared and
the browser returned **iff** revocation succeeded; on failure the user sees the 500 sign-out page, no clearing cookie
is set (so the session still loads afterwards). -/
theorem C19_auth_signout_order (s : ASess) (revokeOK : Bool) :
    (signOut "POST" (.opens s) revokeOK).2.2 = ["revoke"] ∧
    ((signOut "POST" (.opens s) revokeOK).1 = .redirect ↔ revokeOK = true) ∧
    ((signOut "POST" (.opens s) revokeOK).2.1 = [.clear] ↔ revokeOK = true) ∧
    (revokeOK = false → (signOut "POST" (.opens s) revokeOK).1 = .errorPage ∧ (signOut "POST" (.opens s) revokeOK).2.1 = []) := by
  cases revokeOK <;> simp [signOut]

/-- **The proxy's half.** Visiting the proxy's sign-out URL clears the proxy session cookie and sends the browser to the
authenticator with a return address on the *same host* (`scheme://<request Host>/`, nothing request-controlled beyond the Host
that routed the request) whose signature covers exactly the return address and the timestamp it carries. -/
theorem C19_proxy_signout (secure : Bool) (host : String) (now : Int) :
    (proxySignOut secure host now).1 = true ∧
    (proxySignOut secure host now).2.redirectURI = (if secure then "https" else "http") ++ "://" ++ host ++ "/" ∧
    (proxySignOut secure host now).2.ts = now ∧
    (proxySignOut secure host now).2.signedOver =
      macInput (proxySignOut secure host now).2.redirectURI (proxySignOut secure host now).2.ts := by
  simp [proxySignOut]

theorem nat_repr_ne (n : Nat) : Nat.repr n ≠ "" := by
  intro h
  have := congrArg String.length h
  simp [Nat.repr] at this

/-- the decimal rendering of an integer is never empty -/
theorem int_toString_ne (t : Int) : toString t ≠ "" := by
  cases t with
  | ofNat n => simpa [toString, Int.repr] using nat_repr_ne n
  | negSucc n =>
    intro h
    have := congrArg String.length h
    simp [toString, Int.repr] at this

/-- **The two halves fit.** With the same client secret on both sides (non-empty), the link the proxy hands out passes the
authenticator's signature gate for five minutes — and with a different secret it never does. -/
theorem C19_proxy_link_passes_signature_gate (secure : Bool) (host secretP secretA : String) (t now : Int) (parses : Bool) :
    validSignature secretA now (sigInOfLink secretP secretA (proxySignOut secure host t).2 parses) =
      (decide (secretA ≠ "") && parses && decide (now - t ≤ sigTTL) && decide (secretP = secretA)) := by
  have hts : t.repr ≠ "" := by simpa [toString] using int_toString_ne t
  have huri : (if secure = true then "https" else "http") ++ "://" ++ host ++ "/" ≠ "" := by
    intro h
    have := congrArg String.length h
    cases secure <;> simp [String.length_append] at this
  simp only [validSignature, sigInOfLink, proxySignOut]
  by_cases h1 : secretA = "" <;> by_cases h2 : secretP = secretA <;> cases parses <;>
    by_cases h3 : now - t ≤ sigTTL <;> simp [h1, h2, h3, hts, huri]

example : validSignature "s" 100 (sigInOfLink "s" "s" (proxySignOut true "app.x.io" 0).2 true) = true := by
  rw [C19_proxy_link_passes_signature_gate]; decide

/-- GET never revokes or clears: it shows the confirmation page (or just returns the browser when no session loads). -/
theorem C19_auth_signout_get (c : CookieIn) (revokeOK : Bool) :
    (signOut "GET" c revokeOK).2.1 = [] ∧ (signOut "GET" c revokeOK).2.2 = [] := by
  cases c <;> simp [signOut]

/-- Without a session there is nothing to revoke: the browser is returned (an undecodable cookie is cleared). -/
theorem C19_auth_signout_no_session (revokeOK : Bool) :
    (signOut "POST" .absent revokeOK) = (.redirect, [], []) ∧ (signOut "POST" .junk revokeOK) = (.redirect, [.clear], []) := by
  simp [signOut]

/-- Tie (T1): `SignOut` loads the session, calls `Revoke`, and only then clears and redirects. -/
theorem C19_skeleton_SignOut : Sso.Generated.skel_auth_SignOut =
    ["call:Get", "call:getProxyHost", "if{", "call:SignOutPage", "return", "}", "call:LoadSession", "switch{", "case nil{", "break", "}", "case http.ErrNoCookie{", "call:Redirect", "return", "}", "default{", "call:ClearSession", "call:Redirect", "return", "}", "}", "call:Revoke", "if{", "call:SignOutPage", "return", "}", "call:ClearSession", "call:Redirect"] := by decide

/-- Tie (T1): concurrent revocations are coalesced **by access token** (`SingleFlightProvider.Revoke`, key expression
regenerated from the source) … -/
theorem C19_revoke_keyed_by_token :
    Sso.Generated.sf_keys_auth.lookup "Revoke" = some "s.AccessToken" := by decide

/-- … so a sign-out's revocation can only be merged into a revocation of the *same token*: two sessions of one user
(two devices, two token pairs) signing out at the same time each get their own call to the identity provider.
(`compositeKey` is the `endpoint/key` string the single-flight group is indexed by; instance of C16's key injectivity.) -/
theorem C19_revoke_merged_only_for_same_token {α : Type} (slash : α) (revoke tok₁ tok₂ : List α) (h : slash ∉ revoke)
    (hk : Sso.SfWrappers.compositeKey slash revoke tok₁ = Sso.SfWrappers.compositeKey slash revoke tok₂) : tok₁ = tok₂ :=
  (Sso.SfWrappers.C16_composite_key_injective slash revoke revoke tok₁ tok₂ h h hk).2

/-- Tie (T1): the proxy's sign-out handler and the signed sign-out URL — call/branch/store skeletons regenerated from the source on every run; the expectations below are
what the model in this file transliterates. A structural edit of any of these functions breaks this theorem and sends the
check searching for a failing input. -/
theorem C19_wiring :
    Sso.Generated.skel_proxy_SignOut =
      ["call:ClearSession", "if{", "if{", "}", "else{", "}", "}", "call:GetSignOutURL", "call:String", "call:Redirect"] ∧
    Sso.Generated.skel_sso_GetSignOutURL =
      ["call:Data", "call:Now", "call:String", "call:ParseQuery", "call:Add", "call:Unix", "call:Sprint", "call:Set", "call:signRedirectURL", "call:Set", "call:Encode", "store:a.RawQuery", "return"] ∧
    Sso.Generated.skel_sso_signRedirectURL =
      ["call:?", "call:New", "call:?", "call:Write", "call:Unix", "call:Sprint", "call:?", "call:Write", "call:Sum", "call:EncodeToString", "return"] := by decide

/-- Tie (T1): what the providers' `Revoke` send. -/
theorem C19_skeleton_Revoke :
    Sso.Generated.skel_google_Revoke = ["call:Set", "call:String", "call:googleRequest", "if{", "return", "}", "return"] ∧
    Sso.Generated.skel_okta_Revoke = ["call:Add", "call:Add", "call:Add", "call:Add", "call:String", "call:oktaRequest", "if{", "return", "}", "return"] := by decide

end Sso.AuthN

namespace Sso.Proxy
open Sso.Validators

/-- **Afterwards any saved copy of the old proxy session is refused at its next revalidation**: once the identity provider
refuses the token (`/validate` → non-200 that is not 429/503, or `/refresh` → 401 / error), the proxy refuses the request,
does not reach the upstream and clears the cookie (instance of C04's `denied_refuses` with the authenticator relaying the
IdP's refusal). If the IdP is *unavailable* instead, the old cookie enjoys the grace window of C05 — stated, not hidden. -/
theorem C19_old_proxy_session_refused (lower : Bytes → Bytes) (P : Policy) (now : Int) (r : ReqIn) (s : Sess) (a : Ans)
    (hw : whitelisted P r = false) (hr : exp s.refresh now = false) (hv : exp s.valid now = true)
    (hrefused : ∃ n, a.validate = .status n ∧ unavailable n = false) :
    (∀ id, (proxy lower P now r (.opens s) a).outcome ≠ .forward id) ∧
    (proxy lower P now r (.opens s) a).writes.getLast? = some .clear := by
  apply C04_denied_refuses lower P now r s a hw
  right; refine ⟨hr, hv, ?_⟩
  obtain ⟨n, h, hu⟩ := hrefused
  unfold validateWhy; simp [h, hu]

/-! ### After the sign-out: the whole remaining history of an old cookie -/

/-- The identity provider has revoked the session's tokens, so the authenticator relays a refusal (any status that is not
429/503) both at `/validate` and at `/refresh`. Revocation is permanent: this holds at every later request. -/
def RevokedAns (a : Ans) : Prop :=
  (∃ n, a.validate = .status n ∧ unavailable n = false) ∧ (∃ n, a.refresh = .status n ∧ unavailable n = false)

theorem revoked_whys (P : Policy) (now : Int) (s : Sess) (a : Ans) (h : RevokedAns a) :
    refreshWhy P now s a = none ∧ validateWhy P now s a = none := by
  obtain ⟨⟨n1, h1, u1⟩, ⟨n2, h2, u2⟩⟩ := h
  constructor
  · unfold refreshWhy; split; · rfl
    simp [h2, u2]
  · unfold validateWhy; simp [h1, u1]

/-- one request with a revoked session: whatever the response leaves in the jar is the *same* session (never a re-sealed one) -/
theorem revoked_step (lower : Bytes → Bytes) (P : Policy) (st : LStep) (s s' : Sess) (hrev : RevokedAns st.ans)
    (h : jarAfter (.opens s) (proxy lower P st.now st.req (.opens s) st.ans).writes = .opens s') : s' = s := by
  have hg := step_grace_is_episode lower P st s s' h
  have ⟨hrw, hvw⟩ := revoked_whys P st.now s st.ans hrev
  unfold proxy at h
  by_cases hw : whitelisted P st.req = true
  · simp [hw, jarAfter] at h; exact h.symm
  · simp only [hw, Bool.false_eq_true, if_false] at h
    replace h : jarAfter (.opens s) (authenticate lower P st.now st.req.host (.opens s) st.ans).writes = .opens s' := by
      cases hres : (authenticate lower P st.now st.req.host (.opens s) st.ans).res <;> simpa [hres] using h
    unfold authenticate at h
    simp only at h
    by_cases h1 : s.slug ≠ P.slug
    · simp [h1, jarAfter] at h
    · by_cases h2 : st.req.host ≠ s.host
      · simp [h1, h2, jarAfter] at h
      · by_cases h3 : exp s.lifetime st.now = true
        · simp [h1, h2, h3, jarAfter] at h
        · simp only [h1, h2, h3, if_false] at h
          by_cases hr : exp s.refresh st.now = true
          · simp only [hr, if_true] at h
            have hiff := refreshSession_ok_iff P st.now s st.ans
            rcases hrs : refreshSession P st.now s st.ans with ⟨s1, r, calls⟩
            rw [hrs] at h hiff
            cases r with
            | error e => simp [jarAfter] at h
            | ok b =>
              cases b with
              | false => simp [jarAfter] at h
              | true => have := hiff.1 rfl; rw [hrw] at this; simp at this
          · simp only [hr, Bool.false_eq_true, if_false] at h
            by_cases hv0 : exp s.valid st.now = true
            · simp only [hv0, if_true] at h
              have hiff := validateSession_true_iff P st.now s st.ans
              rcases hrs : validateSession P st.now s st.ans with ⟨s1, b, calls⟩
              rw [hrs] at h hiff
              cases b with
              | false => simp [jarAfter] at h
              | true => have := hiff.1 rfl; rw [hvw] at this; simp at this
            · simp only [hv0, Bool.false_eq_true, if_false] at h
              by_cases hv : requestValidators lower P s = true
              · simp [hv, jarAfter] at h; exact h.symm
              · simp [hv, jarAfter] at h

/-- **The old cookie dies, along every history.** Take any saved copy `s` of a proxy session whose tokens have been
revoked at the identity provider (sign-out completed), and any later history of requests presenting it — any number,
any timing, any paths. Then (1) the proxy never re-seals it: the browser's jar holds the original `s` or nothing, so no
deadline ever moves; and (2) a request is served from it only at an instant at which neither its refresh nor its
validity deadline has passed — i.e. at most until the revalidation that was already scheduled when the sign-out
happened; the first request after that is refused and clears the cookie (`C19_old_proxy_session_refused`), after which
nothing is ever served again. -/
theorem C19_revoked_session_dies (lower : Bytes → Bytes) (P : Policy) (s : Sess) (c : CookieIn) (ep : Option Int) (sts : List LStep)
    (hc : ∀ s', c = .opens s' → s' = s) (hrev : ∀ st ∈ sts, RevokedAns st.ans) :
    ∀ x ∈ runL lower P c ep sts,
      (∀ s', x.1 = .opens s' → s' = s) ∧
      (∀ id, (proxy lower P x.2.2.now x.2.2.req x.1 x.2.2.ans).outcome = .forward (some id) →
          x.1 = .opens s ∧ exp s.refresh x.2.2.now = false ∧ exp s.valid x.2.2.now = false) := by
  induction sts generalizing c ep with
  | nil => intro x hx; simp [runL] at hx
  | cons st t ih =>
    intro x hx
    simp only [runL, List.mem_cons] at hx
    have hst : RevokedAns st.ans := hrev st (by simp)
    rcases hx with rfl | hx
    · refine ⟨hc, ?_⟩
      intro id hf
      simp only at hf
      rcases C01_forward_sound lower P st.now st.req c st.ans (some id) hf with ⟨_, h⟩ | ⟨_, s0, hs0, _, _, _, _, _⟩
      · cases h
      · have hs : s0 = s := hc s0 hs0
        subst hs
        have hd := C04_due_means_checked lower P st.now st.req s0 st.ans id (by rw [← hs0]; exact hf)
        have ⟨hrw, hvw⟩ := revoked_whys P st.now s0 st.ans hst
        refine ⟨hs0, ?_, ?_⟩
        · cases h : exp s0.refresh st.now with
          | false => rfl
          | true => have := hd.1 h; rw [hrw] at this; simp at this
        · cases hr : exp s0.refresh st.now with
          | true => have := hd.1 hr; rw [hrw] at this; simp at this
          | false =>
            cases h : exp s0.valid st.now with
            | false => rfl
            | true => have := hd.2 hr h; rw [hvw] at this; simp at this
    · refine ih _ _ ?_ (fun st' h' => hrev st' (by simp [h'])) x hx
      intro s' hs'
      cases c with
      | opens s0 =>
        have : s0 = s := hc s0 rfl
        subst this
        exact revoked_step lower P st s0 s' hst hs'
      | absent => exact absurd hs' (jar_stays_empty lower P st .absent (by intro s; simp) s')
      | junk => exact absurd hs' (jar_stays_empty lower P st .junk (by intro s; simp) s')

-- non-vacuity: signed out at 120; the old cookie (valid until 100+… see exSess) is served while fresh, refused once due, dead afterwards
def exRevoked : Ans := { refresh := .status 401, validate := .status 401, profile := .ok [] }
example : RevokedAns exRevoked := ⟨⟨401, rfl, by decide⟩, ⟨401, rfl, by decide⟩⟩
example : (runL id exPol (.opens exSess) none [⟨50, exReq, exRevoked⟩, ⟨90, exReq, exRevoked⟩, ⟨150, exReq, exRevoked⟩, ⟨160, exReq, exRevoked⟩]).map
    (fun x => (proxy id exPol x.2.2.now x.2.2.req x.1 x.2.2.ans).outcome)
    = [.forward (some ⟨"a", [97, 64, 120], [], none⟩), .forward (some ⟨"a", [97, 64, 120], [], none⟩), .errorPage 403, .startOAuth] := by decide

/-- Tie (T1), second wave: helpers, stores and second callers on this property's path (store_ClearSession) — call/branch/store skeletons
regenerated from the source on every run against the expectations frozen here. -/
theorem C19_wiring2 :
    Sso.Generated.skel_store_ClearSession =
      ["call:Now", "call:makeSessionCookie", "call:SetCookie"] := by decide

/-- Tie (T1), third wave: the constructors and option functions that hand configured values to the components this property
speaks about (proxy_newProvider). -/
theorem C19_wiring3 :
    Sso.Generated.skel_proxy_newProvider =
      ["call:Parse", "if{", "return", "}", "if{", "call:Parse", "if{", "return", "}", "}", "call:New", "call:NewSingleFlightProvider", "return"] := by decide

end Sso.Proxy
