import SsoSpec.C07
import SsoSpec.C04
import SsoSpec.C16

/-!
# C19 — sign-out really signs out
The proxy half (cookie cleared, signed return address on the same host) is checked on the real proxy by the proxyflow
engine's monitor; its signature is the one `validSignature` accepts (the harness recomputes the authenticator's MAC).
-/
namespace Sso.AuthN

/-- `/sign_out` is gated: no revoke, no cookie change, no redirect to the caller's URI without an in-domain, signed, fresh
`redirect_uri` (instance of C07 over the regenerated route table). -/
theorem C19_auth_signout_gated :
    ∃ r ∈ Sso.Generated.authRoutes, r.1 = "/sign_out" ∧ r.2.1 = ["GET", "POST"] ∧
      r.2.2.1 = ["withMethods", "validateRedirectURI", "validateSignature"] := by decide

/-- **Order**: on POST with a loadable session the provider's `Revoke` is called exactly once; the cookie is cleared and
the browser returned **iff** revocation succeeded; on failure the user sees the 500 sign-out page, no clearing cookie
is set (so the session still loads afterwards). -/
theorem C19_auth_signout_order (s : ASess) (revokeOK : Bool) :
    (signOut "POST" (.opens s) revokeOK).2.2 = ["revoke"] ∧
    ((signOut "POST" (.opens s) revokeOK).1 = .redirect ↔ revokeOK = true) ∧
    ((signOut "POST" (.opens s) revokeOK).2.1 = [.clear] ↔ revokeOK = true) ∧
    (revokeOK = false → (signOut "POST" (.opens s) revokeOK).1 = .errorPage ∧ (signOut "POST" (.opens s) revokeOK).2.1 = []) := by
  cases revokeOK <;> simp [signOut]

/-- GET never revokes or clears: it shows the confirmation page (or just returns the browser when no session loads). -/
theorem C19_auth_signout_get (c : CookieIn) (revokeOK : Bool) :
    (signOut "GET" c revokeOK).2.1 = [] ∧ (signOut "GET" c revokeOK).2.2 = [] := by
  cases c <;> simp [signOut]

/-- Without a session there is nothing to revoke: the browser is returned (an undecodable cookie is cleared). -/
theorem C19_auth_signout_no_session (revokeOK : Bool) :
    (signOut "POST" .absent revokeOK) = (.redirect, [], []) ∧ (signOut "POST" .junk revokeOK) = (.redirect, [.clear], []) := by
  simp [signOut]

/-- Tie (T1): `SignOut` loads the session, calls `Revoke`, and only then clears and redirects. -/
theorem C19_skeleton_SignOut : Sso.Generated.skel_auth_SignOut =
    ["call:NewLogEntry", "call:Get", "call:getProxyHost", "call:Sprintf", "if{", "call:SignOutPage", "return", "}", "call:LoadSession",
     "switch{", "case nil{", "break", "}", "case http.ErrNoCookie{", "call:Redirect", "return", "}",
     "default{", "call:Error", "call:ClearSession", "call:Redirect", "return", "}", "}",
     "call:Revoke", "if{", "call:append", "call:Incr", "call:Error", "call:SignOutPage", "return", "}", "call:ClearSession", "call:Redirect"] := by decide

/-- Tie (T1): concurrent revocations are coalesced **by access token** (`SingleFlightProvider.Revoke`, key expression
regenerated from the source) … -/
theorem C19_revoke_keyed_by_token :
    Sso.Generated.sf_keys_auth.lookup "Revoke" = some "s.AccessToken" := by decide

/-- … so a sign-out's revocation can only be merged into a revocation of the *same token*: two sessions of one user
(two devices, two token pairs) signing out at the same time each get their own call to the identity provider.
(`compositeKey` is the `endpoint/key` string the single-flight group is indexed by; instance of C16's key injectivity.) -/
theorem C19_revoke_merged_only_for_same_token {α : Type} (slash : α) (revoke tok₁ tok₂ : List α) (h : slash ∉ revoke)
    (hk : Sso.SfWrappers.compositeKey slash revoke tok₁ = Sso.SfWrappers.compositeKey slash revoke tok₂) : tok₁ = tok₂ :=
  (Sso.SfWrappers.C16_composite_key_injective slash revoke revoke tok₁ tok₂ h h hk).2

end Sso.AuthN

namespace Sso.Proxy
open Sso.Validators

/-- **Afterwards any saved copy of the old proxy session is refused at its next revalidation**: once the identity provider
refuses the token (`/validate` → non-200 that is not 429/503, or `/refresh` → 401 / error), the proxy refuses the request,
does not reach the upstream and clears the cookie (instance of C04's `denied_refuses` with the authenticator relaying the
IdP's refusal). If the IdP is *unavailable* instead, the old cookie enjoys the grace window of C05 — stated, not hidden. -/
theorem C19_old_proxy_session_refused (lower : Bytes → Bytes) (P : Policy) (now : Int) (r : ReqIn) (s : Sess) (a : Ans)
    (hw : whitelisted P r = false) (hr : exp s.refresh now = false) (hv : exp s.valid now = true)
    (hrefused : ∃ n, a.validate = .status n ∧ unavailable n = false) :
    (∀ id, (proxy lower P now r (.opens s) a).outcome ≠ .forward id) ∧
    (proxy lower P now r (.opens s) a).writes.getLast? = some .clear := by
  apply C04_denied_refuses lower P now r s a hw
  right; refine ⟨hr, hv, ?_⟩
  obtain ⟨n, h, hu⟩ := hrefused
  unfold validateWhy; simp [h, hu]

end Sso.Proxy
