import Generated.Facts
import SsoSpec.Lemmas.Base64
import SsoModel.Seal

/-!
# C02 — sealed values are unforgeable and round-trip

Proved concretely: base64 round trip / injectivity / canonicity, the framing (length check, nonce position),
error propagation, round trip of `Marshal`/`Unmarshal`, freshness of the sealed string from freshness of the
nonce, rejection of every string that is not the canonical encoding of a genuine seal under the same key.
Assumed (fields of `AEAD`): authenticity and key separation of AES-CMAC-SIV; confidentiality is not
expressible here and is assumed outright.
-/
namespace Sso.Seal
open Sso.Base64

theorem C02_b64_roundtrip (b : List Nat) (hb : Bytes b) :
    decodeGo (encode b) = some b ∧ decodeCanonical (encode b) = some b := by
  have h : decodeGo (encode b) = some b := by
    unfold decodeGo; rw [filter_encode]; exact decodeChars_encode b hb
  exact ⟨h, by simp [decodeCanonical, h]⟩

theorem C02_b64_encode_injective (b₁ b₂ : List Nat) (h₁ : Bytes b₁) (h₂ : Bytes b₂)
    (h : encode b₁ = encode b₂) : b₁ = b₂ := by
  have a := (C02_b64_roundtrip b₁ h₁).1
  rw [h, (C02_b64_roundtrip b₂ h₂).1] at a
  exact (Option.some.inj a).symm

/-- the canonical decoder accepts exactly the encoder's outputs -/
theorem C02_b64_canonical_iff (s b : List Nat) (hb : Bytes b) :
    decodeCanonical s = some b ↔ s = encode b := by
  constructor
  · intro h
    unfold decodeCanonical at h
    split at h
    · next b' hd => split at h <;> simp at h; subst h; rename_i he; exact he.symm
    · simp at h
  · rintro rfl; exact (C02_b64_roundtrip b hb).2

/-- Go's own decoder is lenient — the reason a genuine sealed string used to have many spellings
(finding (a), fixed): an inserted newline, or flipped unused low bits of the last character. -/
theorem C02_go_decoder_malleable :
    (decodeGo [65, 65, 10] = some [0] ∧ [65, 65, 10] ≠ encode [0]) ∧
    (decodeGo [65, 66] = some [0] ∧ [65, 66] ≠ encode [0]) := by decide

section
variable {V : Type} (A : AEAD) (C : Codec V)

theorem joined_bytes (k : Key) (v : V) (n : List Nat) (hn : Bytes n) : Bytes (A.sealF k n (C.enc v) ++ n) := by
  intro x hx
  rcases List.mem_append.1 hx with h | h
  · exact A.seal_bytes k n _ hn (C.enc_bytes v) x h
  · exact hn x h

/-- Sealing then opening returns exactly the original value (both decoders). -/
theorem C02_unmarshal_marshal (k : Key) (v : V) (n : List Nat) (hn : Bytes n) (hl : n.length = nonceSize) :
    unmarshal A C k (marshal A C k v n) = some v ∧ unmarshalLenient A C k (marshal A C k v n) = some v := by
  have hb := joined_bytes A C k v n hn
  have hr := C02_b64_roundtrip _ hb
  have key : ∀ dec, dec (encode (A.sealF k n (C.enc v) ++ n)) = some (A.sealF k n (C.enc v) ++ n) →
      unmarshalWith dec A C k (marshal A C k v n) = some v := by
    intro dec hd
    unfold unmarshalWith marshal
    rw [hd]
    have hlen : ¬ (A.sealF k n (C.enc v) ++ n).length ≤ nonceSize := by
      intro hle
      have := A.seal_nonempty k n (C.enc v)
      simp only [List.length_append, hl] at hle
      omega
    simp only [hlen, if_false]
    have hp : (A.sealF k n (C.enc v) ++ n).length - nonceSize = (A.sealF k n (C.enc v)).length := by
      simp [List.length_append, hl]
    rw [hp, List.drop_left, List.take_left, A.open_seal]
    exact C.dec_enc v
  exact ⟨key _ hr.2, key _ hr.1⟩

/-- Whatever opens is the **canonical** encoding of a genuine seal under the same key, followed by its
16-byte nonce: every other string — random, truncated, extended, bit-flipped, re-encoded, sealed under
another key — is rejected and yields no data. -/
theorem C02_reject_all_other_strings (k : Key) (s : List Nat) (v : V) (h : unmarshal A C k s = some v) :
    ∃ n pt, n.length = nonceSize ∧ s = encode (A.sealF k n pt ++ n) ∧ C.dec pt = some v := by
  unfold unmarshal unmarshalWith at h
  split at h
  · simp at h
  · next joined hd =>
    split at h
    · simp at h
    · next hlen =>
      simp only at h
      split at h
      · simp at h
      · next pt ho =>
        have hc := A.open_only_seal k _ _ pt ho
        refine ⟨joined.drop (joined.length - nonceSize), pt, ?_, ?_, h⟩
        · simp [List.length_drop]; omega
        · have hj : joined = A.sealF k (joined.drop (joined.length - nonceSize)) pt ++ joined.drop (joined.length - nonceSize) := by
            rw [← hc]; exact (List.take_append_drop _ _).symm
          -- canonical decoder: s = encode joined
          unfold decodeCanonical at hd
          split at hd
          · next b' hb' =>
            split at hd
            · next he => simp at hd; subst hd; rw [← hj]; exact he.symm
            · simp at hd
          · simp at hd

/-- A value sealed under one key does not open under another. -/
theorem C02_other_key_rejected (k k' : Key) (hk : k ≠ k') (v : V) (n : List Nat) (hn : Bytes n)
    (hl : n.length = nonceSize) : unmarshal A C k' (marshal A C k v n) = none := by
  have hb := joined_bytes A C k v n hn
  have hcanon : decodeCanonical (marshal A C k v n) = some (A.sealF k n (C.enc v) ++ n) := (C02_b64_roundtrip _ hb).2
  have hlen : ¬ (A.sealF k n (C.enc v) ++ n).length ≤ nonceSize := by
    intro hle
    have := A.seal_nonempty k n (C.enc v)
    simp only [List.length_append, hl] at hle
    omega
  have hp : (A.sealF k n (C.enc v) ++ n).length - nonceSize = (A.sealF k n (C.enc v)).length := by
    simp [List.length_append, hl]
  unfold unmarshal unmarshalWith
  rw [hcanon]
  simp only [hlen, if_false]
  rw [hp, List.drop_left, List.take_left]
  cases ho : A.openF k' n (A.sealF k n (C.enc v)) with
  | none => rfl
  | some pt =>
    have := A.open_only_seal k' n _ pt ho
    exact absurd (A.seal_key_sep k k' n n (C.enc v) pt this) hk

/-- Too-short inputs are rejected before the primitive is called. -/
theorem C02_short_rejected (k : Key) (s joined : List Nat) (hd : decodeCanonical s = some joined)
    (hl : joined.length ≤ nonceSize) : unmarshal A C k s = none := by
  simp [unmarshal, unmarshalWith, hd, hl]

/-- Undecodable inputs are rejected. -/
theorem C02_undecodable_rejected (k : Key) (s : List Nat) (hd : decodeCanonical s = none) :
    unmarshal A C k s = none := by
  simp [unmarshal, unmarshalWith, hd]

/-- Sealing the same value twice gives different strings as soon as the two nonces differ
(the nonce is the last 16 decoded bytes; needs only RNG freshness, no cryptographic assumption). -/
theorem C02_fresh_nonce_fresh_string (k : Key) (v : V) (n₁ n₂ : List Nat) (h₁ : Bytes n₁) (h₂ : Bytes n₂)
    (l₁ : n₁.length = nonceSize) (l₂ : n₂.length = nonceSize) (hne : n₁ ≠ n₂) :
    marshal A C k v n₁ ≠ marshal A C k v n₂ := by
  intro h
  have := C02_b64_encode_injective _ _ (joined_bytes A C k v n₁ h₁) (joined_bytes A C k v n₂ h₂) h
  exact hne (List.append_inj' this (by rw [l₁, l₂])).2

/-- … and two different sealed strings never decode to the same (ciphertext, nonce) pair: "different
ciphertexts" in C06 follows from "different strings". -/
theorem C02_distinct_strings_distinct_seals (s₁ s₂ j₁ j₂ : List Nat)
    (h₁ : decodeCanonical s₁ = some j₁) (h₂ : decodeCanonical s₂ = some j₂) (hne : s₁ ≠ s₂) : j₁ ≠ j₂ := by
  intro he; subst he
  have key : ∀ s j, decodeCanonical s = some j → s = encode j := by
    intro s j h
    unfold decodeCanonical at h
    split at h
    · next b' _ =>
      split at h
      · next e => simp at h; subst h; exact e.symm
      · simp at h
    · simp at h
  exact hne ((key s₁ j₁ h₁).trans (key s₂ j₁ h₂).symm)

end

/-! ### The assumptions are satisfiable (non-vacuity): a toy AEAD and codec -/

/-- "ciphertext" = key tag ‖ nonce ‖ plaintext (obviously not secret; it only has to satisfy the interface) -/
def toyPre (k : Key) (n : List Nat) : List Nat := List.replicate k 1 ++ 0 :: n

theorem toy_key (k k' : Nat) (r r' : List Nat) (h : List.replicate k 1 ++ 0 :: r = List.replicate k' 1 ++ 0 :: r') :
    k = k' := by
  induction k generalizing k' with
  | zero =>
    cases k' with
    | zero => rfl
    | succ m => simp [List.replicate_succ] at h
  | succ j ih =>
    cases k' with
    | zero => simp [List.replicate_succ] at h
    | succ m =>
      simp only [List.replicate_succ, List.cons_append, List.cons.injEq, true_and] at h
      rw [ih m h]

def AEAD.toy : AEAD where
  sealF k n pt := toyPre k n ++ pt
  openF k n c := if (toyPre k n).isPrefixOf c then some (c.drop (toyPre k n).length) else none
  seal_bytes := by
    intro k n pt hn hpt x hx
    simp only [toyPre, List.mem_append, List.mem_replicate, List.mem_cons] at hx
    rcases hx with (⟨_, h⟩ | h | h) | h
    · omega
    · omega
    · exact hn x h
    · exact hpt x h
  seal_nonempty := by intro k n pt; simp [toyPre]
  open_seal := by
    intro k n pt
    simp [List.isPrefixOf_iff_prefix]
  open_only_seal := by
    intro k n c pt h
    split at h
    · next hp =>
      rw [List.isPrefixOf_iff_prefix] at hp
      obtain ⟨t, rfl⟩ := hp
      simp at h; rw [h]
    · simp at h
  seal_key_sep := by
    intro k k' n n' pt pt' h
    simp only [toyPre, List.append_assoc, List.cons_append] at h
    exact toy_key k k' _ _ h

def Codec.toy : Codec Bool where
  enc v := [if v then 1 else 0]
  dec b := match b with | [1] => some true | [0] => some false | _ => none
  enc_bytes := by intro v x hx; cases v <;> simp at hx <;> omega
  dec_enc := by intro v; cases v <;> rfl

/-- a concrete round trip, a wrong-key rejection and a newline-variant rejection under the toy instance -/
example : unmarshal AEAD.toy Codec.toy 1 (marshal AEAD.toy Codec.toy 1 true (List.replicate 16 7)) = some true := by decide
example : unmarshal AEAD.toy Codec.toy 2 (marshal AEAD.toy Codec.toy 1 true (List.replicate 16 7)) = none := by decide
example : unmarshal AEAD.toy Codec.toy 1 (marshal AEAD.toy Codec.toy 1 true (List.replicate 16 7) ++ [10]) = none := by decide
example : unmarshalLenient AEAD.toy Codec.toy 1 (marshal AEAD.toy Codec.toy 1 true (List.replicate 16 7) ++ [10]) = some true := by decide

/-- Tie (T1): every `Encrypt` draws its nonce from `GenerateNonce` (crypto/rand) — once per sealing, under the cipher's lock;
no pool, no counter, no reuse. "Crypto/rand nonces do not repeat" is the stated assumption; that *this* is where nonces
come from is regenerated from the source. -/
theorem C02_skeleton_Encrypt : Sso.Generated.skel_aead_Encrypt =
    ["call:Lock", "defer:Unlock", "defer{", "call:recover", "if{", "call:Errorf", "}", "}", "call:GenerateNonce", "call:Seal", "call:append", "return"] := by decide

/-- Tie (T1): the cipher is built from the **whole** secret (`NewAES…(secret)` on the slice as given, no copy, no truncation), and
`Decrypt` splits off the nonce and opens with it. -/
theorem C02_skeleton_cipher :
    Sso.Generated.skel_aead_NewMiscreantCipher = ["call:NewAEAD", "if{", "return", "}", "return"] ∧
    Sso.Generated.skel_aead_Decrypt = ["call:Lock", "defer:Unlock", "call:len", "if{", "call:len", "call:Errorf", "return", "}", "call:len", "call:Open", "if{", "return", "}", "return"] := by decide

/-- Tie (T1): loading a session opens the cookie with the store's cipher on **every** request (no memo, no shortcut). -/
theorem C02_skeleton_load :
    Sso.Generated.skel_store_LoadSession =
      ["call:Cookie", "if{", "return", "}", "call:UnmarshalSession", "if{", "return", "}", "return"] ∧
    Sso.Generated.skel_sessions_UnmarshalSession =
      ["call:Unmarshal", "if{", "return", "}", "return"] := by decide

/-- Tie (T1), second wave: helpers, stores and second callers on this property's path (aead_Marshal, aead_Unmarshal, aead_GenerateKey, sessions_MarshalSession) — call/branch/store skeletons
regenerated from the source on every run against the expectations frozen here. -/
theorem C02_wiring2 :
    Sso.Generated.skel_aead_Marshal =
      ["call:Marshal", "if{", "return", "}", "call:NewWriter", "call:Write", "call:Close", "call:Bytes", "call:Encrypt", "if{", "return", "}", "call:EncodeToString", "return"] ∧
    Sso.Generated.skel_aead_Unmarshal =
      ["call:DecodeString", "if{", "return", "}", "call:EncodeToString", "if{", "call:Errorf", "return", "}", "call:Decrypt", "if{", "return", "}", "call:NewBuffer", "call:NewReader", "if{", "return", "}", "call:Copy", "call:Bytes", "call:Unmarshal", "if{", "return", "}", "return"] ∧
    Sso.Generated.skel_aead_GenerateKey =
      ["call:GenerateKey", "return"] ∧
    Sso.Generated.skel_sessions_MarshalSession =
      ["call:Marshal", "return"] := by decide

/-- Tie (T1): `SetCookieStore` of the authenticator — two decodes of two configured secrets, the cookie store built from the cookie
secret and the authorization-code cipher from the session key, in this order (a code and a session cookie are the same sealed
format; only their keys keep them apart). -/
theorem C02_skeleton_SetCookieStore : Sso.Generated.skel_auth_SetCookieStore =
    ["func{", "call:DecodeString", "if{", "return", "}", "call:?", "call:NewMiscreantCipher", "if{", "return", "}", "call:DecodeString", "if{", "return", "}", "call:Sprintf", "call:CreateMiscreantCookieCipher", "func{", "store:c.CookieDomain", "store:c.CookieHTTPOnly", "store:c.CookieExpire", "store:c.CookieSecure", "return", "}", "call:NewCookieStore", "if{", "return", "}", "store:a.csrfStore", "store:a.sessionStore", "store:a.AuthCodeCipher", "return", "}", "return"] := by decide

/-- Tie (T1), third wave: the constructors and option functions that hand configured values to the components this property
speaks about (proxy_SetCookieStore). -/
theorem C02_wiring3 :
    Sso.Generated.skel_proxy_SetCookieStore =
      ["func{", "call:DecodeString", "if{", "return", "}", "call:CreateMiscreantCookieCipher", "func{", "store:c.CookieDomain", "store:c.CookieHTTPOnly", "store:c.CookieExpire", "store:c.CookieSecure", "return", "}", "call:NewCookieStore", "if{", "return", "}", "store:op.csrfStore", "store:op.sessionStore", "store:op.cookieCipher", "return", "}", "return"] := by decide

end Sso.Seal
