import Driver.Main
