import Driver.Util
import SsoModel.Caches
open Lean

/-! Driver engine `caches` (C17): GroupCache, FillCache lockstep, membership functions. -/
namespace Sso.Drv.Caches
open Sso.Caches

def insertSorted (x : String) : List String → List String
  | [] => [x]
  | y :: t => if x ≤ y then x :: y :: t else y :: insertSorted x t
def sortStrs (l : List String) : List String := l.foldr insertSorted []

def strArr (l : List String) : Json := Json.arr (l.map Json.str).toArray

/-! ### gc -/

def checkGc (j : Json) : Except String Verdict := do
  let ops ← jarr j "ops"
  let mut s := GC.init
  let mut v : Verdict := {}
  -- monitor state: (email, sorted group list) ↦ answers the directory gave
  let mut given : List (String × List String × List String) := []
  let mut idx := 0
  for op in ops do
    let inp ← jget op "in"
    let o ← jget op "out"
    let kind ← jstr inp "op"
    let email := showBytes (← jhex inp "email")
    let joined := showBytes (← jhex inp "joined")
    let sorted := (← jhexArr inp "sorted").map showBytes
    let k : CKey := { email := email, joined := joined }
    if kind == "ask" then
      let dirErr ← jbool inp "dirErr"
      let dir := (← jhexArr inp "dir").map showBytes
      let (s', out) := gcStep s (.ask k (if dirErr then .err else .ok dir))
      let called ← jbool o "called"
      let err ← jbool o "err"
      let res := (jhexArr o "res").toOption.map (·.map showBytes)
      match out with
      | .hit a =>
        v := v.br "gc/hit"; v := { v with nontrivial := true }
        v := v.cmp idx "gc.called" false called ["C17"]
        v := v.cmp idx "gc.result" (some a) res ["C17"]
      | .miss a =>
        v := v.br "gc/miss"
        v := v.cmp idx "gc.called" true called ["C17"]
        v := v.cmp idx "gc.result" (some a) res ["C17"]
      | .error =>
        v := v.br "gc/error"
        v := v.cmp idx "gc.called" true called ["C17"]
        v := v.cmp idx "gc.err" true err ["C17"]
      | .purged => pure ()
      -- monitor
      if called then
        if !err then given := (email, sorted, res.getD []) :: given
      else
        let ok := given.any fun (e, gs, a) => e == email && gs == sorted && some a == res
        if !ok then
          -- footprint of the listed finding: the answer repeated is the one given to the same e-mail for a *different* group
          -- list whose comma-joined key is the same string (["g1,g2"] / ["g1","g2"], [""] / [])
          let sameKey := given.any fun (e, gs, a) => e == email && gs != sorted && some a == res &&
            ",".intercalate gs == ",".intercalate sorted
          v := v.mon "C17" "served_answer_was_given" idx s!"{email} {sorted}" (if sameKey then "groupcache-key-comma" else "")
      if called && dirErr && !err then v := v.mon "C17" "error_swallowed" idx
      s := s'
    else
      let (s', _) := gcStep s (.purge k)
      v := v.br "gc/purge"
      s := s'
    idx := idx + 1
  pure v

/-! ### fc -/

def fillResultOf (j : Json) : Except String FillResult := do
  let r ← jstr j "r"
  if r == "ok" then pure (.ok ((jstrArr j "m").toOption.getD []))
  else if r == "notFound" then pure .notFound
  else pure .err

def fcEvOf (j : Json) : Except String FCEv := do
  let op ← jstr j "op"
  let t ← jnat j "t"
  let g ← jstr j "g"
  match op with
  | "updBegin" => pure (.updBegin t g)
  | "updEnd" => pure (.updEnd t (← fillResultOf j))
  | "loopStart" => pure (.loopStart g)
  | "loopUpdBegin" => pure (.loopUpdBegin t)
  | "loopUpdEnd" => pure (.loopUpdEnd t (← fillResultOf j))
  | "loopExit" => pure (.loopExit t)
  | "stop" => pure .stop
  | "get" => pure (.get g)
  | _ => throw s!"bad fc op {op}"

def fcOutKind : FCOut → String
  | .began => "began" | .busy => "busy" | .updated _ => "updated" | .loopStarted _ => "loopStarted"
  | .loopRefused => "loopRefused" | .exited => "exited" | .stopped => "stopped" | .got _ => "got" | .disabled => "disabled"

def groupsUniverse : List String := ["g", "h", "i"]

def modelState (s : FC) : Json :=
  let cache := groupsUniverse.filterMap fun g => (s.cache g).map fun m => (g, strArr (sortStrs m))
  Json.mkObj [("cache", Json.mkObj cache), ("inflight", strArr (groupsUniverse.filter s.inflight)),
              ("loops", strArr (groupsUniverse.filter s.loops))]

def implState (o : Json) (ms : Json) : Json :=
  let c := (o.getObjVal? "cache").toOption.getD Json.null
  let cache := groupsUniverse.filterMap fun g => (c.getObjVal? g).toOption.map fun m => (g, m)
  -- after Stop a loop goroutine may already have exited when the snapshot is taken: the registration set is then
  -- compared at the following loopExit event instead
  let unstable := (o.getObjVal? "loopsUnstable").toOption == some (Json.bool true)
  let iunstable := (o.getObjVal? "inflightUnstable").toOption == some (Json.bool true)
  Json.mkObj [("cache", Json.mkObj cache),
              ("inflight", if iunstable then (ms.getObjVal? "inflight").toOption.getD Json.null else (o.getObjVal? "inflight").toOption.getD Json.null),
              ("loops", if unstable then (ms.getObjVal? "loops").toOption.getD Json.null else (o.getObjVal? "loops").toOption.getD Json.null)]

def checkFc (j : Json) : Except String Verdict := do
  let ops ← jarr j "ops"
  let mut s := FC.init
  let mut v : Verdict := {}
  let mut idx := 0
  -- monitor state from implementation outputs only
  let mut filling : List String := []                -- groups with an outstanding fill
  let mut liveLoops : List String := []
  let mut expect : List (String × Option (List String)) := []   -- group ↦ what the last completed fills left
  let mut fillOwner : List (String × String) := []   -- "t:<n>" / "l:<n>" ↦ group
  for op in ops do
    let inp ← jget op "in"
    let o ← jget op "out"
    let ev ← fcEvOf inp
    let (s', out) := fcStep s ev
    let r ← jstr o "r"
    v := v.cmp idx "fc.result" (fcOutKind out) r ["C17"]
    match out with
    | .updated b => if (o.getObjVal? "ret").toOption.isSome then v := v.cmp idx "fc.update_returns" (some b) (jbool o "ret").toOption ["C17"]
    | .loopStarted l => v := v.cmp idx "fc.loop_id" (some l) (jnat o "l").toOption ["C17"]
    | .got m => v := v.cmp idx "fc.get" (m.map sortStrs) (jstrArr o "m").toOption ["C17"]
    | _ => pure ()
    v := v.cmp idx "fc.state" (modelState s').compress (implState o (modelState s')).compress ["C17"]
    v := v.br s!"fc/{(← jstr inp "op")}/{r}"
    -- monitor
    let g ← jstr inp "g"
    let t ← jnat inp "t"
    match (← jstr inp "op"), r with
    | "updBegin", "began" =>
      if filling.contains g then v := v.mon "C17" "single_fill_per_group" idx g
      filling := g :: filling; fillOwner := (s!"t:{t}", g) :: fillOwner
      v := { v with nontrivial := true }
    | "updBegin", "busy" =>
      if !filling.contains g then v := v.mon "C17" "update_refused_without_fill_running" idx g
    | "loopUpdBegin", "began" =>
      if filling.contains g then v := v.mon "C17" "single_fill_per_group" idx g
      filling := g :: filling; fillOwner := (s!"l:{t}", g) :: fillOwner
    | "updEnd", "updated" | "loopUpdEnd", "updated" =>
      let who := if (← jstr inp "op") == "updEnd" then s!"t:{t}" else s!"l:{t}"
      match fillOwner.find? (·.1 == who) with
      | some (_, fg) =>
        filling := filling.erase fg
        fillOwner := fillOwner.filter (·.1 != who)
        let fr ← fillResultOf inp
        match fr with
        | .ok m => expect := (fg, some (sortStrs m)) :: expect.filter (·.1 != fg)
        | .notFound => expect := (fg, none) :: expect.filter (·.1 != fg)
        | .err => pure ()
        if (← jstr inp "op") == "updEnd" then
          let want := match fr with | .ok _ => true | _ => false
          if (jbool o "ret").toOption != some want then v := v.mon "C17" "update_return_value" idx
      | none => pure ()
    | "loopStart", "loopStarted" =>
      if liveLoops.contains g then v := v.mon "C17" "single_loop_per_group" idx g
      liveLoops := g :: liveLoops
    | "loopStart", "loopRefused" =>
      if !liveLoops.contains g then v := v.mon "C17" "loop_refused_without_live_loop" idx g
    | "loopExit", "exited" => liveLoops := liveLoops.erase g
    | _, _ => pure ()
    -- the cache always shows what the last completed fills left
    let c := (o.getObjVal? "cache").toOption.getD Json.null
    for gg in groupsUniverse do
      let seen := (c.getObjVal? gg).toOption.bind fun m => (m.getArr?.toOption.map fun a => a.toList.filterMap (·.getStr?.toOption))
      let want := ((expect.find? (·.1 == gg)).map (·.2)).getD none
      if seen != want then v := v.mon "C17" "cache_is_latest_successful_fill" idx gg
    s := s'
    idx := idx + 1
  pure v

/-! ### mem -/

def checkMem (j : Json) : Except String Verdict := do
  let inp ← jget j "in"
  let o ← jget j "out"
  let prov ← jstr inp "provider"
  let asked := (jstrArr inp "asked").toOption.getD []
  let user ← jstr inp "user"
  let dirErr ← jbool inp "dirErr"
  let dir := (jstrArr inp "dir").toOption.getD []
  let cj ← jget inp "cache"
  let cache : String → Option Members := fun g => (cj.getObjVal? g).toOption.bind fun m => (m.getArr?.toOption.map fun a => a.toList.filterMap (·.getStr?.toOption))
  let dirOpt : Option (List String) := if dirErr then none else some dir
  let (res, loops) := if prov == "google" then googleMembership cache asked user dirOpt else cognitoMembership cache asked user dirOpt
  let mut v : Verdict := {}
  let ires := (jstrArr o "res").toOption
  let ierr ← jbool o "err"
  let iloops := (jstrArr o "loops").toOption.getD []
  v := v.cmp 0 "mem.result" res ires ["C17"]
  v := v.cmp 0 "mem.err" res.isNone ierr ["C17"]
  v := v.cmp 0 "mem.loops" loops iloops ["C17"]
  let uncached := asked.filter fun g => (cache g).isNone
  let kind := if asked.isEmpty then "empty" else if uncached.isEmpty then "allcached" else if uncached.length == asked.length then "nonecached" else "partly"
  v := v.br s!"mem/{prov}/{kind}"
  if kind == "partly" then v := { v with nontrivial := true }
  -- monitor: partly (or not at all) cached ⇒ the directory's answer for the whole question; fully cached ⇒ the cached filter
  if !asked.isEmpty then
    if uncached.isEmpty then
      if ires != some (asked.filter (cachedMember cache user)) then v := v.mon "C17" "fully_cached_filter" 0
    else if !dirErr then
      let want := if prov == "google" then dir else asked.filter (dir.contains ·)
      if ires != some want then
        let fp := prov == "cognito" && asked.any (cachedMember cache user) &&
          ires == some (asked.filter (cachedMember cache user) ++ want)
        v := v.mon "C17" "partly_cached_falls_back" 0 s!"want {want} got {ires}" (if fp then "cognito-partial-cache-union" else "")
    else if !ierr then v := v.mon "C17" "directory_error_swallowed" 0
  pure v

/-! ### pop: the providers' own fill functions behind a real FillCache — the model's `updEnd` rule (store on success, forget
on "group not found", keep on any other error) applied to the scripted directory answers -/
def checkPop (j : Json) : Except String Verdict := do
  let inp ← jget j "in"
  let answers := (jstrArr inp "answers").toOption.getD []
  let obs := (← jarr j "obs").toList
  let mut v : Verdict := {}
  let mut st : Option (List String) := none
  let mut i := 0
  for (a, o) in answers.zip obs do
    if a == "notfound" then st := none
    else if a == "err" then pure ()
    else
      let ms := (a.drop 3).toString
      st := some (if ms == "" then [] else (ms.splitOn ",").toArray.qsort (· < ·) |>.toList)
    let cached := (o.getObjVal? "cached").toOption.bind (·.getBool?.toOption) |>.getD false
    let got : Option (List String) := if cached then some ((jstrArr o "members").toOption.getD []) else none
    v := v.cmp i "pop.cache" st got ["C17"]
    if a == "notfound" && cached then v := v.mon "C17" "deleted_group_dropped" i s!"still cached: {got}"
    -- the cache holds what the directory last answered successfully — an empty member list is an answer like any other
    else if got != st then v := v.mon "C17" "cache_is_latest_successful_answer" i s!"directory's latest successful answer {st}, cache says {got}"
    v := v.br s!"pop/{if a == "notfound" then "notfound" else if a == "err" then "err" else "ok"}"
    i := i + 1
  v := { v with nontrivial := true }
  pure v

def checkCase (j : Json) : Except String Verdict := do
  match (← jstr j "kind") with
  | "loopstress" =>
    -- first questions about one group arriving together: exactly one refresh loop is started
    let num (k : String) : Int := (j.getObjVal? k).toOption.bind (·.getInt?.toOption) |>.getD 0
    let mut v : Verdict := { nontrivial := true }
    v := v.cmp 0 "loopstress.started" ((1 : Int), (1 : Int)) (num "minStarted", num "maxStarted") ["C17"]
    if num "maxStarted" > 1 then
      v := v.mon "C17" "single_loop_per_group" 0 s!"{num "maxStarted"} refresh loops started for one group by {num "callers"} simultaneous callers"
    if num "minStarted" < 1 then v := v.mon "C17" "single_loop_per_group" 0 "no loop started at all"
    pure (v.br "loopstress")
  | "pop" => checkPop j
  | "gc" => checkGc j
  | "fc" => checkFc j
  | "mem" => checkMem j
  | k => throw s!"bad kind {k}"

end Sso.Drv.Caches
