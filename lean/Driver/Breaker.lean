import Driver.Util
import SsoModel.Breaker
open Lean

/-! Driver engine `breaker`: replay the implementation's event list through the model (C15). -/
namespace Sso.Drv.Breaker
open Sso.Breaker

def paramsOf (cfg : Json) : Except String Params := do
  let tripKind ← jstr cfg "tripKind"
  let tripK ← jint cfg "tripK"
  let resetK ← jint cfg "resetK"
  let backKind ← jstr cfg "backKind"
  let backD ← jint cfg "backD"
  let max ← jint cfg "max"
  pure {
    trip := fun c => if tripKind == "failcur" then decide (c.fail + c.cur ≥ tripK) else decide (c.fail ≥ tripK)
    reset := fun c => decide (c.succ ≥ resetK)
    backoff := fun c => if backKind == "lin" then backD * (c.fail + 1) else if backKind == "cur" then backD * (c.cur + 1) else backD
    -- NewBreaker: halfOpenRequests = 1 unless the option is > 0
    halfOpenMax := if max > 0 then max else 1 }

def stNum : St → Int
  | .closed => 0 | .halfOpen => 1 | .opn => 2

def hookJson : Hook → Json
  | .stateChange p t => Json.arr #[Json.str "sc", toJson (stNum p), toJson (stNum t)]
  | .backoff d r => Json.arr #[Json.str "bo", toJson d, toJson r]

def evOf (j : Json) : Except String Ev := do
  let op ← jstr j "op"
  if op == "start" then pure (.start (← jnat j "i"))
  else if op == "complete" then pure (.complete (← jnat j "i") (← jbool j "ok"))
  else if op == "tick" then pure (.tick (← jnat j "d"))
  else throw s!"bad op {op}"

/-- Observed state after an implementation step. -/
structure Obs where
  r : String
  hooks : Json
  st : Int
  gen : Int
  cur : Int
  succ : Int
  fail : Int
  exp : Option Int
  now : Int

def obsOf (j : Json) : Except String Obs := do
  pure { r := ← jstr j "r", hooks := ← jget j "hooks", st := ← jint j "st", gen := ← jint j "gen",
         cur := ← jint j "cur", succ := ← jint j "succ", fail := ← jint j "fail",
         exp := if jisNull j "exp" then none else (jint j "exp").toOption, now := ← jint j "now" }

def outKind : Out → String
  | .admitted .. => "admitted" | .rejected .. => "rejected" | .completed .. => "completed"
  | .ticked => "ticked" | .disabled => "disabled"

def outHooks : Out → List Hook
  | .admitted _ h => h | .rejected _ h => h | .completed h => h | _ => []

/-- The C15 monitor: the property's clauses evaluated on what the implementation did, independently of
the model's `step`.  `adm` maps in-flight call ids to the generation observed right after admission. -/
def monitorStep (P : Params) (prev : Obs) (ev : Ev) (o : Obs) (adm : List (Nat × Int)) (idx : Nat)
    (v : Verdict) : Verdict := Id.run do
  let mut v := v
  -- in-flight count never negative
  if o.cur < 0 then v := v.mon "C15" "cur_nonneg" idx
  -- clock-driven view of the previous state
  let wasOpenBlocked := prev.st == 2 && (match prev.exp with | some e => decide (prev.now ≤ e) | none => false)
  let openExpired := prev.st == 2 && (match prev.exp with | some e => decide (prev.now > e) | none => false)
  -- hooks: prev ≠ to, generation counts them
  let hs := (o.hooks.getArr?.toOption.getD #[]).toList
  let nsc := (hs.filter fun h => (h.getArrVal? 0).toOption == some (Json.str "sc")).length
  if o.gen != prev.gen + nsc then v := v.mon "C15" "gen_counts_changes" idx
  for h in hs do
    if (h.getArrVal? 0).toOption == some (Json.str "sc") && (h.getArrVal? 1).toOption == (h.getArrVal? 2).toOption then
      v := v.mon "C15" "hook_prev_ne_to" idx
    -- a back-off lasts what the back-off rule says, counted from now: the deadline announced and stored is now + duration
    if (h.getArrVal? 0).toOption == some (Json.str "bo") then
      let d := ((h.getArrVal? 1).toOption.bind (·.getInt?.toOption)).getD 0
      let reset := ((h.getArrVal? 2).toOption.bind (·.getInt?.toOption)).getD 0
      if reset != o.now + d || o.exp != some reset then
        v := v.mon "C15" "backoff_deadline_is_now_plus_duration" idx s!"now {o.now}, duration {d}: announced {reset}, stored {o.exp}"
  -- the success streak is per state: successes counted before a state change are gone after it, so that "closes exactly when
  -- the reset rule holds for consecutive successes" means consecutive within the current half-open period
  -- (the failure streak is deliberately kept across half-open → open: it drives the back-off)
  if o.gen != prev.gen && o.succ != 0 then
    v := v.mon "C15" "state_change_clears_success_streak" idx s!"after the change {o.succ} successes are still counted"
  match ev with
  | .start _ =>
    if o.r == "disabled" then pure ()
    else
      if prev.st == 0 && o.r != "admitted" then v := v.mon "C15" "closed_admits_all" idx
      if wasOpenBlocked && (o.r != "rejected" || o.cur != prev.cur || o.st != 2) then
        v := v.mon "C15" "open_rejects_until_deadline" idx
      if openExpired && (o.st != 1 || o.gen != prev.gen + 1) then v := v.mon "C15" "open_expires_to_halfopen" idx
      if (prev.st == 1 || openExpired) then
        if (o.r == "admitted") != decide (prev.cur < P.halfOpenMax) then v := v.mon "C15" "halfopen_admits_iff" idx
      if o.r == "admitted" && o.cur != prev.cur + 1 then v := v.mon "C15" "admit_counts" idx
      if o.r == "rejected" && o.cur != prev.cur then v := v.mon "C15" "reject_no_count" idx
  | .complete i ok =>
    if o.r == "disabled" then pure ()
    else
      if o.cur != prev.cur - 1 then v := v.mon "C15" "complete_decrements" idx
      let g := (adm.find? (·.1 == i)).map (·.2)
      let genAfterCs := if openExpired then prev.gen + 1 else prev.gen
      let stAfterCs : Int := if openExpired then 1 else prev.st
      if g != some genAfterCs then
        -- stale outcome: nothing but the decrement and the clock-driven step
        if o.succ != prev.succ || o.fail != prev.fail || o.st != stAfterCs || o.gen != genAfterCs then
          v := v.mon "C15" "stale_outcome_irrelevant" idx
      else
        let cFail : Counts := ⟨prev.cur - 1, 0, prev.fail + 1⟩
        let cSucc : Counts := ⟨prev.cur - 1, prev.succ + 1, 0⟩
        if stAfterCs == 0 then
          if (o.st == 2) != (!ok && P.trip cFail) then v := v.mon "C15" "trips_iff_rule" idx
          if o.st == 2 && (o.succ != 0 || o.fail != 0 || o.exp != some (prev.now + P.backoff ⟨prev.cur - 1, 0, 0⟩)) then
            v := v.mon "C15" "trip_clears_and_backs_off" idx
        if stAfterCs == 1 then
          if (o.st == 0) != (ok && P.reset cSucc) then v := v.mon "C15" "closes_iff_reset" idx
          if !ok && (o.st != 2 || o.exp != some (prev.now + P.backoff cFail)) then
            v := v.mon "C15" "halfopen_failure_reopens" idx
  | .tick _ =>
    if o.st != prev.st || o.gen != prev.gen || o.cur != prev.cur then v := v.mon "C15" "tick_only_moves_clock" idx
  return v

def checkCase (j : Json) : Except String Verdict := do
  let P ← paramsOf (← jget j "cfg")
  let ops ← jarr j "ops"
  let mut g := G.init
  let mut v : Verdict := {}
  let mut prev : Obs := { r := "", hooks := Json.arr #[], st := 0, gen := 0, cur := 0, succ := 0, fail := 0, exp := none, now := 0 }
  let mut adm : List (Nat × Int) := []
  let mut idx := 0
  let mut expSet := false
  for op in ops do
    let ev ← evOf (← jget op "in")
    let o ← obsOf (← jget op "out")
    let (g', out) := step P g ev
    let props := ["C15"]
    v := v.cmp idx "result" (outKind out) o.r props
    v := v.cmp idx "hooks" (Json.arr ((outHooks out).map hookJson).toArray) o.hooks props
    v := v.cmp idx "state" (stNum g'.b.st) o.st props
    v := v.cmp idx "generation" g'.b.gen o.gen props
    v := v.cmp idx "counts" [g'.b.cnt.cur, g'.b.cnt.succ, g'.b.cnt.fail] [o.cur, o.succ, o.fail] props
    v := v.cmp idx "now" g'.b.now o.now props
    if (outHooks out).any (fun h => match h with | .backoff .. => true | _ => false) then expSet := true
    if expSet then v := v.cmp idx "expires" (some g'.b.expires) o.exp props
    v := monitorStep P prev ev o adm idx v
    -- branch coverage of the model
    v := v.br s!"{outKind out}/{stNum g.b.st}->{stNum g'.b.st}"
    if g'.b.st != g.b.st then v := { v with nontrivial := true }
    match ev with
    | .start i => if o.r == "admitted" then adm := (i, o.gen) :: adm
    | .complete i _ => if o.r == "completed" then adm := adm.filter (·.1 != i)
    | _ => pure ()
    match ev, out with
    | .complete i _, .completed _ =>
      let stale := (lookupGen g.inflight i) != some (cs (({ g.b with cnt := { g.b.cnt with cur := g.b.cnt.cur - 1 } } : B))).1.gen
      if stale then v := v.br "complete/stale" else v := v.br "complete/current"
    | _, _ => pure ()
    g := g'
    prev := o
    idx := idx + 1
  pure v

end Sso.Drv.Breaker
