import Driver.Util
import SsoModel.Seal
open Lean

/-! Driver engine `aead` (C02): base64 model vs Go's decoder byte for byte; accept/reject vs the sealing model with
the ideal primitive instantiated by "is a genuine seal of this run". -/
namespace Sso.Drv.Aead
open Sso.Base64

def toNats (b : Bytes) : List Nat := b.map (·.toNat)
def ofNats (l : List Nat) : Bytes := l.map (·.toUInt8)

def checkCase (j : Json) : Except String Verdict := do
  -- two cookie stores with different secrets in one process: opens under its own secret, never under the other
  match (jarr j "stores").toOption with
  | some rows =>
    let mut v : Verdict := { nontrivial := true }
    let mut i := 0
    for r in rows do
      let own := (r.getObjVal? "own").toOption.bind (·.getBool?.toOption) |>.getD false
      let other := (r.getObjVal? "other").toOption.bind (·.getBool?.toOption) |>.getD true
      v := v.cmp i "stores.own" true own ["C02"]
      v := v.cmp i "stores.other" false other ["C02"]
      if other then v := v.mon "C02" "opens_under_other_key" i "cookie store with another secret, same process"
      if !own then v := v.mon "C02" "round_trip" i "cookie store"
      i := i + 1
    return v.br "stores"
  | none => pure ()
  -- the ciphers of one process sealing and opening side by side
  match (j.getObjVal? "parallel").toOption with
  | some pj =>
    let mut v : Verdict := { nontrivial := true }
    let cnt (k : String) : Int := (pj.getObjVal? k).toOption.bind (·.getInt?.toOption) |>.getD 0
    let fst (k : String) : String := ((j.getObjVal? "first").toOption.bind (·.getObjVal? k |>.toOption)).bind (·.getStr?.toOption) |>.getD ""
    for k in ["sealError", "rejected", "wrong", "crossed", "panics"] do
      v := v.cmp 0 s!"parallel.{k}" (0 : Int) (cnt k) ["C02"]
      if cnt k != 0 then v := v.mon "C02" "round_trip" 0 s!"ciphers working side by side: {k} ×{cnt k}, first: {fst k}"
    v := v.cmp 0 "parallel.opensOther" (0 : Int) (cnt "opensOther") ["C02"]
    if cnt "opensOther" != 0 then v := v.mon "C02" "opens_under_other_key" 0 s!"ciphers working side by side ×{cnt "opensOther"}"
    if cnt "crossed" != 0 then v := v.mon "C02" "opens_under_other_key" 0 s!"a value sealed by one cipher opened as the other cipher's plaintext: {fst "crossed"}"
    return v.br "parallel"
  | none => pure ()
  let genuine ← jhexArr j "genuine"
  let vars ← jarr j "variants"
  let mut v : Verdict := {}
  let genuineJoined := genuine.filterMap fun s => decodeCanonical (toNats s)
  let mut idx := 0
  -- freshness: the same value sealed twice gives different strings
  match genuine with
  | [a, b] => if a == b then v := v.mon "C02" "sealing_twice_differs" 0
  | _ => pure ()
  if (← jstr j "openOtherKey") != "err" then v := v.mon "C02" "opens_under_other_key" 0
  if ((j.getObjVal? "openHalfKey").toOption.bind (·.getStr?.toOption)).getD "err" != "err" then
    v := v.mon "C02" "opens_under_other_key" 0 "a secret differing only in its second half"
  let rn := (j.getObjVal? "repeatN").toOption.bind (·.getNat?.toOption) |>.getD 0
  let rd := (j.getObjVal? "repeatDistinct").toOption.bind (·.getNat?.toOption) |>.getD 0
  if rn != rd then
    v := v.mon "C02" "sealing_again_always_differs" 0 s!"{rn} seals of one value, {rd} distinct strings"
    v := v.mon "C06" "sealing_again_always_differs" 0 s!"{rn} seals of one value, {rd} distinct strings"
  if rn > 100 then v := v.br "repeat/many"
  for x in vars do
    let kind ← jstr x "kind"
    let t ← jhex x "t"
    let res ← jstr x "res"
    let b64 : Option Bytes := if jisNull x "b64" then none else (jhex x "b64").toOption
    -- (1) base64: Lean's model of Go's decoder vs the library
    let mGo := (decodeGo (toNats t)).map ofNats
    if mGo != b64 then
      v := v.diff idx "base64.decodeGo" (toJson (mGo.map hex)) (toJson (b64.map hex)) ["C02"]
    -- (2) accept/reject: canonical decoding ∧ length > 16 ∧ genuine under this key
    let accept := match decodeCanonical (toNats t) with
      | some joined => decide (joined.length > 16) && genuineJoined.contains joined
      | none => false
    let implAccept := res != "err"
    if accept != implAccept then
      v := v.diff idx s!"unmarshal.accept[{kind}]" accept implAccept ["C02", "C06"]
    if implAccept && res != "ok-same" then
      v := v.diff idx s!"unmarshal.value[{kind}]" "ok-same" res ["C02"]
    v := v.br s!"{kind}/{if implAccept then "accepted" else "rejected"}"
    -- monitor: only the very strings this run sealed may open, and they open to the original value
    if implAccept && !genuine.contains t then
      v := v.mon "C02" "only_unmodified_sealed_strings_open" idx s!"{kind}: {showBytes t}"
    if (kind == "genuine" || kind == "genuine-again") && res != "ok-same" then
      v := v.mon "C02" "round_trip" idx kind
    if kind == "other-key" && implAccept then v := v.mon "C02" "opens_under_other_key" idx
    idx := idx + 1
  v := { v with nontrivial := true }
  pure v

end Sso.Drv.Aead
