import Driver.Util
import SsoModel.Forward
open Lean

/-! Driver engine `forward` (C03, C12): what the upstream received vs the Lean pipeline; signature verification
as judged independently by the backend vs the model's prediction (signed document = received document). -/
namespace Sso.Drv.Forward
open Sso.Forward Sso.Harden

def strs (j : Json) (k : String) : List String := (jstrArr j k).toOption.getD []
def strD (j : Json) (k : String) : String := (jstr j k).toOption.getD ""
def boolD (j : Json) (k : String) : Bool := (jbool j k).toOption.getD false
def intD (j : Json) (k : String) : Int := (jint j k).toOption.getD 0
def getJ (j : Json) (k : String) : Json := (j.getObjVal? k).toOption.getD Json.null

def hmapOf (j : Json) : HMap :=
  match j with
  | .obj kvs => kvs.foldl (init := []) fun acc k v => acc ++ [(k, (v.getArr?.toOption.getD #[]).toList.map fun x => x.getStr?.toOption.getD "")]
  | _ => []

def bytesToString (b : Bytes) : String := String.ofList (b.map fun x => Char.ofNat x.toNat)

def covered : List String := ["Content-Length", "Content-Md5", "Content-Type", "Date", "Authorization", "X-Forwarded-User",
  "X-Forwarded-Email", "X-Forwarded-Groups", "X-Forwarded-Access-Token", "Cookie"]

/-- `textproto.CanonicalMIMEHeaderKey` for the token characters configuration keys are made of: first letter and every letter
    after a '-' upper-case, the rest lower-case (`Header.Set` stores under this spelling). -/
def canonKey (s : String) : String :=
  String.ofList (s.toList.foldl (fun (acc : List Char × Bool) c =>
    (acc.1 ++ [if acc.2 then c.toUpper else c.toLower], c == '-')) ([], true)).1

def checkCase (j : Json) : Except String Verdict := do
  let cfg ← jget j "cfg"
  let mut v : Verdict := {}
  if !(getJ j "setupError").isNull then return v.diff 0 "setup" "ok" (getJ j "setupError") ["C03", "C12"]
  let signer := boolD cfg "signer"
  let hmac := boolD cfg "hmac"
  let inject : List (String × String) := match cfg.getObjVal? "inject" with
    | .ok (.obj kvs) => kvs.foldl (init := []) fun acc k v => acc ++ [(canonKey k, v.getStr?.toOption.getD "")]
    | _ => []
  let c : Forward.Cfg := { cookieName := "_sso_proxy", inject := inject }
  -- overlapping uploads: the pipeline is a function of each request alone, so each backend receives exactly the body that
  -- was sent to it, under a signature that verifies over it — whatever else is in flight
  let ov := getJ j "overlap"
  if !ov.isNull then
    v := v.br (if boolD ov "overlapped" then "overlap/overlapped" else "overlap/not-overlapped")
    v := { v with nontrivial := true }
    v := v.cmp 0 "overlap.status" (200, 200) (intD ov "statusA", intD ov "statusB") ["C12"]
    -- the slow upload with other clients' requests in between: every backend request carries its own client's cookies
    v := v.cmp 0 "overlap.slow" ((200 : Int), (41 : Int), ([] : List String)) (intD ov "slowStatus", intD ov "slowReached", strs ov "cookieMixups") ["C03"]
    for m in strs ov "cookieMixups" do
      v := v.mon "C03" "cookies_forwarded_minus_session" 0 s!"(requests in flight together) {m}"
    for k in ["A", "B"] do
      if strD ov ("recv" ++ k) != strD ov ("sent" ++ k) then
        v := v.mon "C12" "body_intact" 0 s!"upload {k} (overlapping another upload): sent {strD ov ("sent" ++ k)}, upstream received {strD ov ("recv" ++ k)}"
      if !(boolD ov ("rsa" ++ k)) then
        v := v.mon "C12" "rsa_signature_verifies_at_upstream" 0 s!"upload {k} (overlapping another upload)"
    return v
  let mut idx := 0
  for rq in ((jarr j "reqs").toOption.getD #[]) do
    let inp := getJ rq "in"
    let ora := getJ rq "oracle"
    let out := getJ rq "out"
    let sess := getJ rq "sess"
    if !(getJ ora "parseError").isNull then
      idx := idx + 1; continue
    let recv := getJ out "received"
    let skip := boolD ora "skipMatch"
    -- which path the model takes: authenticated pass, skip-auth pass, or not forwarded (sign-in redirect)
    let genuine := boolD ora "firstSessionCookieGenuine"
    let id : Option Forward.Ident := if skip then none else if genuine then
      some { user := strD sess "user", email := strD sess "email", groups := strD sess "groups", accessToken := none } else none
    let forwarded := skip || genuine
    v := v.cmp idx "forwarded" forwarded (!recv.isNull) ["C01", "C03"]
    if !forwarded && !recv.isNull then
      -- reached the upstream although neither a skip-auth path nor the session cookie (by its exact name) was presented
      v := v.mon "C01" "upstream_without_session" idx
      let rc := hget (hmapOf (getJ recv "headers")) "Cookie"
      if rc.any (fun l => (l.toLower.splitOn "_sso_proxy=").length > 1) then
        v := v.mon "C03" "session_cookie_never_forwarded" idx s!"{rc}"
    if !forwarded || recv.isNull then
      idx := idx + 1; continue
    v := { v with nontrivial := true }
    let inH := hmapOf (getJ ora "inHeaders")
    let cookies : List (String × String) := ((jarr ora "cookies").toOption.getD #[]).toList.map fun p =>
      ((p.getArrVal? 0).toOption.bind (·.getStr?.toOption) |>.getD "", (p.getArrVal? 1).toOption.bind (·.getStr?.toOption) |>.getD "")
    let rendered := strs ora "rendered"
    let renderTbl := cookies.zip rendered
    let render : String × String → String := fun p => ((renderTbl.find? (·.1 == p)).map (·.2)).getD (p.1 ++ "=" ++ p.2)
    let conn := strs ora "connTokens"
    let model := pipeline c id cookies render conn inH
    let rH := hmapOf (getJ recv "headers")
    let tracked := identityHeaders ++ ["Cookie", "Authorization", "Content-Type", "Date", "Content-Md5"] ++ inject.map (·.1)
    for k in tracked do
      v := v.cmp idx s!"upstream.header[{k}]" (hget model k) (hget rH k) ["C03", "C12"]
    v := v.br (if id.isSome then "authenticated" else "skip-auth")
    if conn.any (fun t => tracked.contains t) then v := v.br "connection-nominates-tracked"
    if cookies.any (·.1 == "_sso_proxy") then v := v.br "session-cookie-present"
    -- ---------------- C03 monitor
    let nominated (k : String) := conn.contains k
    match id with
    | some i =>
      for (k, want) in [("X-Forwarded-User", i.user), ("X-Forwarded-Email", i.email), ("X-Forwarded-Groups", i.groups)] do
        if hget rH k != [want] then
          v := v.mon "C03" "identity_headers_authenticated" idx s!"{k}: {hget rH k}" (if nominated k && hget rH k == [] then "connection-nominated-headers" else "")
      if hget rH "X-Forwarded-Access-Token" != [] && !(inject.any (·.1 == "X-Forwarded-Access-Token")) then
        v := v.mon "C03" "access_token_only_when_enabled" idx s!"{hget rH "X-Forwarded-Access-Token"}"
    | none =>
      for k in identityHeaders do
        if hget rH k != [] then v := v.mon "C03" "identity_headers_skip_auth" idx s!"{k}: {hget rH k}"
    -- the session cookie is never forwarded; every other cookie is, once per occurrence, in order
    let keep := cookies.filter (·.1 != "_sso_proxy")
    let wantCookie := if keep.isEmpty then [] else [";".intercalate (keep.map render)]
    if hget rH "Cookie" != wantCookie then
      let cookieNominated := nominated "Cookie"
      v := v.mon "C03" "cookies_forwarded_minus_session" idx s!"{hget rH "Cookie"} want {wantCookie}" (if cookieNominated && hget rH "Cookie" == [] then "connection-nominated-headers" else "")
    if (hget rH "Cookie").any (fun l => (l.splitOn "_sso_proxy=").length > 1) then v := v.mon "C03" "session_cookie_never_forwarded" idx
    -- ---------------- C12
    let body := bytesToString ((jhex inp "body").toOption.getD [])
    let signedH := match id with
      | some i => deleteCookie c.cookieName cookies render (injectIdentity c.inject i (scrub inH))
      | none => deleteCookie c.cookieName cookies render (scrub inH)
    let signedDoc := canonRSA covered signedH (strD ora "urlPath") (strD ora "rawQuery") "" body
    let recvDoc := bytesToString ((jhex recv "canon").toOption.getD [])
    let predict := signedDoc == recvDoc
    if signer then
      v := v.cmp idx "rsa.verifies" predict (boolD recv "rsaOK") ["C12"]
      v := v.br (if predict then "rsa/verifies" else "rsa/mismatch")
    if hmac then v := v.br "hmac/on"
    let bodyIntact := (jstr recv "body").toOption == (jstr inp "body").toOption
    if !bodyIntact then v := v.mon "C12" "body_intact" idx
    let clMismatch := hget signedH "Content-Length" != hget rH "Content-Length"
    let connCovered := conn.any (covered.contains ·)
    let known := if connCovered then "connection-nominated-covered" else if clMismatch then "content-length-signed-vs-sent" else ""
    if signer then
      if !(boolD recv "rsaOK") then v := v.mon "C12" "rsa_signature_verifies_at_upstream" idx (strD recv "rsaWhy") known
      if !(getJ recv "kidMatchesKey").isNull && !(boolD recv "kidMatchesKey") then v := v.mon "C12" "kid_names_published_key" idx
      if (getJ recv "rsaOK").isNull then v := v.mon "C12" "forwarded_without_rsa_signature" idx
    if hmac then
      if (getJ recv "hmacOK").isNull then v := v.mon "C12" "forwarded_without_hmac_signature" idx
      else if !(boolD recv "hmacOK") then v := v.mon "C12" "hmac_signature_verifies_at_upstream" idx "" known
    idx := idx + 1
  pure v

end Sso.Drv.Forward
