import Driver.Util
import SsoModel.Prim.Html
open Lean

/-! Driver engine `htmlesc` (C20): Lean `htmlEscape` vs html/template's escaping in text and quoted-attribute context. -/
namespace Sso.Drv.Htmlesc
open Sso.Html

def utf8 (b : Bytes) : Option String := String.fromUTF8? (ByteArray.mk b.toArray)

def checkCase (j : Json) : Except String Verdict := do
  let s ← jhex j "s"
  let text ← jhex j "text"
  let attr ← jhex j "attr"
  let mut v : Verdict := {}
  match utf8 s with
  | none => pure v
  | some str =>
    let m := (String.ofList (htmlEscape str.toList)).toUTF8.toList
    v := v.cmp 0 "escape.text" (hex m) (hex text) ["C20"]
    v := v.cmp 0 "escape.attr" (hex m) (hex attr) ["C20"]
    -- the spec-side decoder against Go's html.UnescapeString on the same escaped text (absent in older replay files)
    match jhex j "unesc" with
    | .ok un =>
      let dm := (String.ofList (decodeRefs (htmlEscape str.toList))).toUTF8.toList
      v := v.cmp 0 "escape.decoded" (hex dm) (hex un) ["C20"]
    | .error _ => pure ()
    if str.toList.any (fun c => escChar c != [c]) then v := { v with nontrivial := true }
    v := v.br (if str.toList.any (fun c => escChar c != [c]) then "escaped" else "verbatim")
    -- monitor: the rendered value contains no structural character
    for (name, b) in [("text", text), ("attr", attr)] do
      if b.any (fun x => x == 60 || x == 62 || x == 34 || x == 39) then v := v.mon "C20" "escape_no_structural_char" 0 name
    pure v

end Sso.Drv.Htmlesc
