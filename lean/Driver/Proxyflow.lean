import Driver.Util
import SsoModel.Proxy
import SsoModel.AuthN
import SsoSpec.Lemmas.Proxy
open Lean

/-! Driver engine `proxyflow`: the real sso-proxy handler tree vs the Lean proxy model, step by step;
monitors for C01 C04 C05 C06 C11 C13 C18 C19 evaluated on the implementation's own outputs. -/
namespace Sso.Drv.Proxyflow
open Sso.Proxy Sso.Validators

def strs (j : Json) (k : String) : List String := (jstrArr j k).toOption.getD []
def strD (j : Json) (k : String) : String := (jstr j k).toOption.getD ""
def intD (j : Json) (k : String) : Int := (jint j k).toOption.getD 0
def boolD (j : Json) (k : String) : Bool := (jbool j k).toOption.getD false
def getJ (j : Json) (k : String) : Json := (j.getObjVal? k).toOption.getD Json.null
/-- The fake authenticator's `/profile` answer, like the real one's: of the groups asked about (the comma-joined
    `groups` parameter), those the scripted directory lists for the user. -/
def askedOf (asked scripted : List String) : List String :=
  ((",".intercalate asked).splitOn ",").filter (scripted.contains ·)
def toB (s : String) : Sso.Validators.Bytes := s.toUTF8.toList

structure Up where
  service : String
  from' : String
  rewrite : Bool
  rules : Validators.Policy
  groups : List String
  slug : String
  override : List (String × String)
  timeout : Int
  flush : Int

instance : Inhabited Up := ⟨{ service := "", from' := "", rewrite := false, rules := ⟨[], [], []⟩, groups := [], slug := "", override := [], timeout := 0, flush := 0 }⟩

def upOf (j : Json) : Up :=
  { service := strD j "service", from' := strD j "from", rewrite := boolD j "rewrite",
    rules := ⟨(strs j "addrs").map toB, (strs j "domains").map toB, (strs j "groups").map toB⟩,
    groups := strs j "groups", slug := strD j "slug",
    override := match j.getObjVal? "override" with
      | .ok (.obj kvs) => kvs.foldl (init := []) fun acc k v => acc ++ [(k, v.getStr?.toOption.getD "")]
      | _ => [],
    timeout := intD j "timeout", flush := intD j "flush" }

/-- `okStatus`: the status the real client takes for success on this endpoint; a scripted bare status equal to it is a
success when the endpoint's answer has no body to decode (`/validate`), an undecodable body otherwise. -/
def replyOf {α : Type} (j : Json) (f : Json → α) (okStatus : Nat := 0) (bodyless : Bool := false) : Reply α :=
  match strD j "kind" with
  | "ok" => .ok (f j)
  | "status" =>
    let n := (jnat j "status").toOption.getD 0
    if n == okStatus && okStatus != 0 then (if bodyless then .ok (f j) else .malformed) else .status n
  | "transport" | "hang" => .transport       -- no answer at all (connection died, or the caller's timeout ran out)
  | _ => .malformed

def sessOf (j : Json) : Option Sess :=
  if j.isNull then none else
  some { slug := strD j "slug", host := strD j "host", email := ((jhex j "email").toOption.getD (toB (strD j "email"))),
         user := strD j "user", access := strD j "access", refreshTok := strD j "refreshTok", groups := strs j "groups",
         lifetime := intD j "lifetime", refresh := intD j "refresh", valid := intD j "valid",
         grace := if jisNull j "grace" then none else some (intD j "grace") }

def sessJson (s : Sess) : Json :=
  Json.mkObj [("access", s.access), ("email", hex s.email), ("grace", match s.grace with | some g => toJson g | none => Json.null),
    ("groups", toJson s.groups), ("host", s.host), ("lifetime", s.lifetime), ("refresh", s.refresh), ("refreshTok", s.refreshTok),
    ("slug", s.slug), ("user", s.user), ("valid", s.valid)]

def writeJson : CookieWrite → Json
  | .save s => Json.mkObj [("save", sessJson s)]
  | .clear => Json.mkObj [("clear", true)]

def callName : Call → String
  | .refresh => "refresh" | .validate => "validate" | .profile => "profile"

def lowerOf (tbl : Json) : Sso.Validators.Bytes → Sso.Validators.Bytes := fun b =>
  match tbl.getObjVal? (hex b) with
  | .ok (.str s) => (unhex s).getD b
  | _ => b

structure Expect where
  status : Option Nat := none           -- none: taken from the upstream
  writes : List CookieWrite := []
  calls : List String := []
  upstream : Option (Option Identity) := none   -- some id: reached
  locKind : String := ""                -- "" | sign_in | sign_out | clean | https | flow
  locPath : String := ""
  csrfSet : Bool := false
  csrfCleared : Bool := false
  body : String := ""                   -- "" = do not compare
  branch : String := ""

def outcomeExpect (P : Proxy.Policy) (xhr : Bool) (h : HandlerOut) (upStatus : Nat) : Expect :=
  let base : Expect := { writes := h.writes, calls := h.calls.map callName, branch := h.branch }
  match h.outcome with
  | .forward id => { base with status := some upStatus, upstream := some id }
  | .startOAuth => { base with status := some 302, locKind := "sign_in", csrfSet := true }
  | .xhr401 => { base with status := some 401, body := "json" }
  | .errorPage c => { base with status := some c, body := if xhr then "json" else "error-page" }
  | .accepted => { base with status := some 202 }
  | .unauthorized => { base with status := some 401 }
  | .notFound => { base with status := some 404 }

/-- A header value as the backend's HTTP server reads it: optional whitespace around the field value is not part of it
    (RFC 7230 §3.2.4; Go's transport and server both trim it). -/
def ows (s : String) : String :=
  let isWs := fun (c : Char) => c == ' ' || c == '\t'
  String.ofList (((s.toList.dropWhile isWs).reverse.dropWhile isWs).reverse)

def idJson (id : Option Identity) : Json :=
  match id with
  | none => Json.mkObj []
  | some i =>
    Json.mkObj ([("X-Forwarded-Email", Json.arr #[Json.str (ows (showBytes i.email))]),
      ("X-Forwarded-Groups", Json.arr #[Json.str (ows (",".intercalate i.groups))]), ("X-Forwarded-User", Json.arr #[Json.str (ows i.user)])] ++
      (match i.accessToken with | some t => [("X-Forwarded-Access-Token", Json.arr #[Json.str t])] | none => []))

def checkCase (j : Json) : Except String Verdict := do
  let cfg ← jget j "cfg"
  let ups := ((jarr cfg "upstreams").toOption.getD #[]).toList.map upOf
  let secure := boolD cfg "secure"
  let defaultSlug := strD cfg "defaultSlug"
  let ttlL := intD cfg "L"
  let ttlV := intD cfg "V"
  let ttlG := intD cfg "G"
  let mut v : Verdict := {}
  if (j.getObjVal? "setupError").toOption.isSome && !(getJ j "setupError").isNull then
    return v.diff 0 "setup" "ok" (getJ j "setupError") ["C01", "C13", "C14"]
  -- overlapping revalidations for two upstreams: the model judges each request on its own (one provider, one single-flight
  -- group per upstream — C13_skeleton_New), under the allowed groups of the upstream its Host routes to
  let ov := getJ j "overlap"
  if !ov.isNull then
    let ovIn := getJ ov "in"
    let ug := strs ovIn "userGroups"
    let verdictOf (host : String) : Bool × String :=
      match ups.find? (·.from' == host) with
      | some u => (u.groups.any (ug.contains ·), u.service)
      | none => (false, "")
    let (okA, svcA) := verdictOf (strD ovIn "hostA")
    let (okB, svcB) := verdictOf (strD ovIn "hostB")
    let wantReached := ((if okA then [svcA] else []) ++ (if okB then [svcB] else [])).toArray.qsort (· < ·) |>.toList
    v := v.br (if boolD ov "overlapped" then "overlap/overlapped" else "overlap/not-overlapped")
    v := { v with nontrivial := true }
    v := v.cmp 0 "overlap.status" ((if okA then 200 else 403 : Int), (if okB then 200 else 403 : Int)) (intD ov "statusA", intD ov "statusB") ["C13", "C01", "C04", "C11", "C16"]
    v := v.cmp 0 "overlap.reached" wantReached (strs ov "reached") ["C13", "C01", "C04", "C11", "C16"]
    for (ok, svc, h) in [(okA, svcA, strD ovIn "hostA"), (okB, svcB, strD ovIn "hostB")] do
      if !ok && (strs ov "reached").contains svc then
        for p in ["C13", "C01", "C11", "C16", "C04"] do
          v := v.mon p "judged_under_own_upstream_policy" 0 s!"{h}: user in {ug} reached {svc} while another upstream's revalidation was open"
    return v
  let steps := ((jarr j "steps").toOption.getD #[]).toList
  let table : List RouteEntry := ups.map fun u => { isRegexp := u.rewrite, host := u.from' }
  let mut idx := 0
  -- history bookkeeping for the C04 monitor: per host, absolute lifetime of the chain's login
  let mut clock : Int := 0
  let mut chainLifetime : List (String × Int) := []
  let mut vdHist : List (String × Int) := []       -- host ↦ (time of the login or of the last passed revalidation) + V
  let mut epExact : List String := []                -- hosts whose recorded episode start is known to be the first outage answer (it began from a known-fresh chain)
  let mut epFresh : List String := []                -- hosts for which the chain is known to have no outage episode open (login, or a confirmed check)
  let mut episode : List (String × Int) := []      -- host ↦ absolute time of the first outage-served check of the current episode
  let mut pageStructure : List (Nat × String) := []      -- status ↦ structure (the template branches on the code only)
  for st in steps do
    let inp := getJ st "in"
    let out := getJ st "out"
    let ora := getJ st "oracle"
    let presented := getJ st "presented"
    -- a step that is not judged (below) still happened: time passed and the browser's jar may have changed, so the history
    -- ghosts forget what they knew about this host rather than judge later steps on a stale record
    let skipHost := strD inp "host"
    if !(getJ out "parseError").isNull || boolD out "straddled" then
      clock := clock + intD inp "gap"
      vdHist := vdHist.filter (·.1 != skipHost); episode := episode.filter (·.1 != skipHost); epFresh := epFresh.filter (· != skipHost)
      idx := idx + 1; continue
    -- exact-equality deadlines are unobservable with a real clock (DESIGN §1.3): skip the step
    let boundary := match sessOf (getJ presented "sess") with
      | some ps => ps.lifetime == 0 || ps.refresh == 0 || ps.valid == 0
      | none => false
    if boundary then
      clock := clock + intD inp "gap"
      vdHist := vdHist.filter (·.1 != skipHost); episode := episode.filter (·.1 != skipHost); epFresh := epFresh.filter (· != skipHost)
      idx := idx + 1; continue
    clock := clock + intD inp "gap"
    let host := strD ora "reqHost"
    let method := strD inp "method"
    let xhr := boolD inp "xhr"
    let lower := lowerOf (getJ ora "lower")
    let reMatch := ((jarr ora "reMatch").toOption.getD #[]).toList.map fun b => b.getBool?.toOption.getD false
    let status := (jnat out "status").toOption.getD 0
    let urlPath := strD ora "urlPath"
    let props := ["C01", "C04", "C05", "C13"]
    if strD out "panic" != "" then v := v.mon "C01" "handler_panicked" idx (strD out "panic")
    -- ---------------- model
    let routed := routeHost table (fun i => reMatch.getD i false) host
    let mut ex : Expect := {}
    let mut mUp : Option Up := none
    if urlPath == "/ping" then
      ex := { status := some 200, branch := "ping" }
    else match routed with
    | none => ex := { status := some 421, branch := "misdirected" }
    | some ri =>
      let u := ups[ri]!
      mUp := some u
      let slug := if u.slug != "" then u.slug else defaultSlug
      let P : Proxy.Policy := { slug := slug, rules := u.rules, allowedGroups := u.groups, L := ttlL, V := ttlV, G := ttlG, passAccessToken := false, skipPreflight := false }
      let r : ReqIn := { method := method, host := host, whitelistedPath := boolD ora "skipMatch", xhr := xhr }
      let cookie : CookieIn :=
        match strD presented "kind" with
        | "none" => .absent
        | "garbage" | "otherkey" => .junk
        | _ => match sessOf (getJ presented "sess") with
          | some s => if boolD (getJ presented "sess") "zero" then .opens { s with lifetime := -1000000, refresh := -1000000, valid := -1000000 } else .opens s
          | none => .absent
      let a : Ans := { refresh := replyOf (getJ inp "ansRefresh") (fun x => (strD x "token", intD x "ttl")) 201,
                       validate := replyOf (getJ inp "ansValidate") (fun _ => ()) 200 true,
                       profile := replyOf (getJ inp "ansProfile") (fun x => askedOf u.groups (strs x "groups")) 200 }
      let upStatus := let s := (jnat (getJ inp "upstreamResp") "status").toOption.getD 0; if s == 0 then 200 else s
      let httpsRedirect := secure && strD ora "urlScheme" != "https" && strD inp "proto" != "https"
      if httpsRedirect then
        ex := { status := some 301, locKind := "https", branch := "https-redirect" }
      else if strD ora "cleanPath" != strD ora "escapedPath" then
        ex := { status := some 301, locKind := "clean", locPath := strD ora "cleanPath", branch := "clean-redirect" }
      else
        let h := handlerOf (strD ora "escapedPath")
        if h == "Proxy" then ex := outcomeExpect P xhr (proxy lower P 0 r cookie a) upStatus
        else if h == "AuthenticateOnly" then ex := outcomeExpect P xhr (authOnly lower P 0 r cookie a) upStatus
        else if h == "Favicon" then ex := outcomeExpect P xhr (favicon lower P 0 r cookie a) upStatus
        else if h == "RobotsTxt" then ex := { status := some 200, branch := "robots" }
        else if h == "Certs" then ex := { status := some 200, branch := "certs" }
        else if h == "SignOut" then ex := { status := some 302, writes := [.clear], locKind := "sign_out", branch := "signout" }
        else
          -- OAuthCallback
          let cb := getJ st "cb"
          let sealedOf (x : Json) : Sealed :=
            if strD x "kind" == "absent" || x.isNull then .absent
            else if boolD x "opens" then .flow (strD x "sid") (strD x "uri") else .junk
          let rd := getJ inp "ansRedeem"
          let redeem : Reply Redeemed := replyOf rd fun x =>
            { email := toB (strD x "email"), user := strD ora "redeemUser", access := strD x "token", refreshTok := strD x "rtok", expiresIn := intD x "ttl" }
          -- the group validator asks /profile once (with the redeemed token) when groups are configured
          let (gres, gcalls) := validateGroup u.groups a
          let gans : GroupAns := match gres with | .ok _ true => .member | .ok _ false => .notMember | _ => .error
          let gin : List String := match gres with | .ok g _ => g | _ => []
          let ci : CbIn := { host := host, errorParam := strD inp "errParam", code := strD inp "code", redeem := redeem,
                             state := sealedOf (getJ cb "state"), csrf := sealedOf (getJ cb "csrf"), sameString := boolD cb "sameString",
                             group := gans, groupsIn := gin }
          let (o, br) := oauthCallback lower P 0 ci
          let redeemCalled := strD inp "errParam" == "" && strD inp "code" != ""
          let reachedValidators := br == "cb/denied" || br == "cb/login"
          let calls := (if redeemCalled then ["redeem"] else []) ++ (if reachedValidators && u.rules.groups != [] then gcalls.map callName else [])
          match o with
          | .errorPage c => ex := { status := some c, calls := calls, body := if xhr then "json" else "error-page", branch := br }
          | .login s _ => ex := { status := some 302, calls := calls, writes := [.save s], locKind := "flow", locPath := strD ora "flowLocation", csrfCleared := true, branch := br }
    -- ---------------- compare
    match ex.status with
    | some s => v := v.cmp idx "status" s status props
    | none => pure ()
    v := v.br ex.branch
    let iwrites := (jarr out "writes").toOption.getD #[]
    v := v.cmp idx "cookie.writes" (Json.arr (ex.writes.map writeJson).toArray).compress (Json.arr iwrites).compress ["C01", "C04", "C05", "C06", "C19"]
    v := v.cmp idx "authenticator.calls" ex.calls (strs out "calls") ["C01", "C04", "C05", "C08"]
    -- the CSRF cookie is used up exactly by a callback that set a session (`pJarStep`): a failed callback leaves it
    if ex.branch.startsWith "cb/" then v := v.cmp idx "csrf.usedUpIffLogin" ex.csrfCleared (boolD out "csrfCleared") ["C06"]
    let iup := getJ out "upstream"
    match ex.upstream, mUp with
    | some id, some u =>
      v := v.cmp idx "upstream.service" (some u.service) (jstr iup "service").toOption ["C01", "C13"]
      -- identity headers: compared only for authenticated passes here (skip-auth pass-through is C03's business)
      if id.isSome then v := v.cmp idx "upstream.identity" (idJson id).compress (getJ iup "identity").compress ["C01", "C03"]
      v := { v with nontrivial := true }
    | _, _ => v := v.cmp idx "upstream.reached" false (!iup.isNull) ["C01", "C13"]
    let loc := getJ out "location"
    if ex.locKind == "sign_in" then
      let slug := match mUp with | some u => (if u.slug != "" then u.slug else defaultSlug) | none => ""
      v := v.cmp idx "location.sign_in" (true, s!"/{slug}/sign_in") (boolD loc "toAuthenticator", strD loc "path") ["C01", "C13"]
      v := v.cmp idx "csrf.set" true (boolD out "csrfSet") ["C06"]
    else if ex.locKind == "sign_out" then
      let slug := match mUp with | some u => (if u.slug != "" then u.slug else defaultSlug) | none => ""
      v := v.cmp idx "location.sign_out" (true, s!"/{slug}/sign_out") (boolD loc "toAuthenticator", strD loc "path") ["C19", "C13"]
      -- the return address is the model's: scheme://<request Host>/ (`proxySignOut`), signed with the time of the request
      let link := (Sso.AuthN.proxySignOut secure host 0).2
      v := v.cmp idx "signout.returnAddress" link.redirectURI (strD loc "redirect_uri") ["C19", "C07"]
    else if ex.locKind == "clean" then
      v := v.cmp idx "location.clean" ex.locPath (strD loc "path") ["C06"]
    else if ex.locKind == "flow" then
      v := v.cmp idx "location.flow" ex.locPath (strD loc "raw") ["C06"]
      v := v.cmp idx "csrf.cleared" true (boolD out "csrfCleared") ["C06"]
    else if ex.locKind == "" && ex.status != none then
      v := v.cmp idx "location.absent" true loc.isNull ["C06", "C07"]
    -- C20: the proxy's error page has one structure, whatever text went into it (error parameter, validator messages …)
    if strD out "body" == "error-page" then
      let hs := strD out "htmlStructure"
      match pageStructure.find? (·.1 == status) with
      | none => pageStructure := (status, hs) :: pageStructure
      | some (_, p) => if p != hs then v := v.mon "C20" "page_structure_invariant" idx
      if (hs.splitOn "<script").length > 1 then v := v.mon "C20" "page_structure_invariant" idx "script element"
    if (strD out "body").startsWith "json:" && (strD out "body") != "json:{\"error\":{}}" then v := v.mon "C20" "json_error_wellformed" idx (strD out "body")
    if ex.body == "json" then v := v.cmp idx "body.json" true ((strD out "body").startsWith "json:") ["C20"]
    if ex.body == "error-page" then v := v.cmp idx "body.page" "error-page" (strD out "body") ["C20"]
    -- ---------------- monitors (on the implementation's outputs)
    let reached := !iup.isNull
    let psess := sessOf (getJ presented "sess")
    match mUp with
    | some u =>
      let slug := if u.slug != "" then u.slug else defaultSlug
      let P : Proxy.Policy := { slug := slug, rules := u.rules, allowedGroups := u.groups, L := ttlL, V := ttlV, G := ttlG, passAccessToken := false, skipPreflight := false }
      let a : Ans := { refresh := replyOf (getJ inp "ansRefresh") (fun x => (strD x "token", intD x "ttl")) 201,
                       validate := replyOf (getJ inp "ansValidate") (fun _ => ()) 200 true,
                       profile := replyOf (getJ inp "ansProfile") (fun x => askedOf u.groups (strs x "groups")) 200 }
      let whitel := boolD ora "skipMatch"
      -- C13: the backend that received the request is the one the Host routes to (independent oracle), and it got the right Host
      if reached then
        let want := (jint ora "routed").toOption.getD (-1)
        let wantSvc := if want ≥ 0 then (ups[want.toNat]!).service else ""
        if strD iup "service" != wantSvc then v := v.mon "C13" "handled_under_routed_upstream" idx s!"{strD iup "service"} vs {wantSvc}"
        -- C01: what the backend is asked for is what the client asked for — the path the skip-auth decision was taken on
        if strD iup "path" != strD ora "escapedPath" then
          v := v.mons ["C01", "C13"] "upstream_path_is_request_path" idx s!"client asked {strD ora "escapedPath"}, backend got {strD iup "path"}"
      -- C01 / C04 / C05: reached ⇒ whitelisted ∨ a presented session passing every gate
      if reached && !whitel && handlerOf (strD ora "escapedPath") != "OAuthCallback" then
        match psess, strD presented "kind" with
        | some s, k =>
          if k == "garbage" || k == "otherkey" || k == "none" || boolD (getJ presented "sess") "zero" then
            v := v.mon "C01" "upstream_without_session" idx k
          else
            if s.slug != slug then
              v := v.mon "C01" "wrong_provider_session_served" idx s.slug (if s.slug == defaultSlug && u.slug != "" then "provider-slug-ignored" else "")
            if s.host != host then
              v := v.mons ["C13", "C01"] "cross_host_session_accepted" idx
              -- … and if the user satisfies none of *this* upstream's rules, it is also an admission the rules do not allow
              let grpHere : GroupAns := if u.groups == ["*"] || u.groups.any (s.groups.contains ·) then .member else .notMember
              if !specAdmit lower u.rules s.email grpHere then
                v := v.mon "C11" "admitted_under_another_upstreams_session" idx s!"session of {s.host} served at {host}"
            if s.lifetime < 0 then v := v.mons ["C04", "C01"] "served_after_lifetime" idx
            if s.refresh < 0 then
              match refreshWhy P 0 s a with
              | none => v := v.mons ["C04", "C01", "C05"] "due_refresh_not_confirmed" idx
              | some .grace => if !((strs out "calls").contains "refresh") then v := v.mon "C05" "grace_without_call" idx
              | some .confirmed => if !((strs out "calls").contains "refresh") then v := v.mon "C04" "served_without_refresh_call" idx
            else if s.valid < 0 then
              match validateWhy P 0 s a with
              | none => v := v.mons ["C04", "C01", "C05"] "due_validation_not_confirmed" idx
              | some .grace =>
                -- C05: grace only within the window counted from the first failure
                let g := s.grace.getD 0
                if !(g + ttlG > 0) then v := v.mon "C05" "grace_outside_window" idx
              | some .confirmed => if !((strs out "calls").contains "validate") then v := v.mon "C04" "served_without_validate_call" idx
            -- C03: the identity the upstream is told is the *current* session's — as re-sealed by this very request when a
            -- check ran, as presented otherwise (never a superseded copy)
            let cur : Sess := (iwrites.toList.reverse.findSome? fun w => sessOf (getJ w "save")).getD s
            let want := idJson (some { user := cur.user, email := cur.email, groups := cur.groups, accessToken := none })
            let gotId := getJ iup "identity"
            for k in ["X-Forwarded-Email", "X-Forwarded-Groups", "X-Forwarded-User"] do
              if (getJ gotId k).compress != (getJ want k).compress then
                v := v.mon "C03" "identity_is_current_session" idx s!"{k}: upstream got {(getJ gotId k).compress}, session says {(getJ want k).compress}"
            -- C11: the user satisfies at least one allow rule (group rule: per the session's confirmed groups)
            let grp : GroupAns := if u.groups == ["*"] || u.groups.any (s.groups.contains ·) then .member else .notMember
            if !specAdmit lower u.rules s.email grp && !(u.rules.groups != [] && s.refresh ≥ 0 && s.valid ≥ 0) then
              v := v.mons ["C11", "C01", "C13"] "served_without_any_rule" idx
        | none, k => v := v.mon "C01" "upstream_without_session" idx k
      -- C11 (stability): a fresh, otherwise valid session of a user who satisfies a rule must be served, as at login
      if !reached && !whitel && handlerOf (strD ora "escapedPath") == "Proxy" && status == 403 then
        match psess with
        | some s =>
          if s.slug == slug && s.host == host && s.lifetime ≥ 0 && s.refresh ≥ 0 && s.valid ≥ 0 then
            let grp : GroupAns := if u.groups == ["*"] || u.groups.any (s.groups.contains ·) then .member else .notMember
            if specAdmit lower u.rules s.email grp then
              let fp := (validatorsOf u.rules).length ≥ 2
              v := v.mon "C11" "verdict_differs_from_login" idx s!"{showBytes s.email} admitted by any-of, refused on request" (if fp then "allow-rules-all-of" else "")
        | none => pure ()
      -- C13: the sign-in redirect goes to the upstream's own provider
      if ex.locKind == "sign_in" && status == 302 && boolD loc "toAuthenticator" then
        if strD loc "path" != s!"/{slug}/sign_in" then
          v := v.mon "C13" "provider_is_upstreams" idx s!"{strD loc "path"} for upstream {u.service} (provider_slug {u.slug})"
            (if strD loc "path" == s!"/{defaultSlug}/sign_in" then "provider-slug-ignored" else "")
      -- C05/C04 (history level, from the *answers* alone): along one browser's chain of requests, a check let through on an
      -- outage answer happens less than the grace TTL after the first such check since the last confirmed one — whatever
      -- the session's own grace field says (the ghost `episodeAfter` of C05_grace_start_is_first_failure, run on the trace)
      -- (linear chains only: the cookie the previous response left; a replayed older cookie legitimately starts over)
      let linear := strD (getJ inp "cookie") "kind" == "jar"
      if linear && strD presented "kind" == "jar" && !whitel && handlerOf (strD ora "escapedPath") == "Proxy" then
        match psess with
        | some s =>
          if s.slug == slug && s.host == host && s.lifetime ≥ 0 then
            let Pbig : Proxy.Policy := { P with G := 1000000000 }
            let s0 : Sess := { s with grace := none }
            let kind : String :=
              if s.refresh < 0 then (match refreshWhy Pbig 0 s0 a with | some .grace => "outage" | some .confirmed => "confirmed" | none => "refused")
              else if s.valid < 0 then (match validateWhy Pbig 0 s0 a with | some .grace => "outage" | some .confirmed => "confirmed" | none => "refused")
              else "none"
            -- the other direction: an outage answer inside the window (a fresh episode, or less than G after its first
            -- answer) lets the session through — one successful check has ended any earlier episode
            if kind == "outage" && !reached && ttlG > 0 && requestValidators lower P s then
              let inside := match episode.find? (·.1 == host) with
                | none => epFresh.contains host          -- known fresh; an unknown past (a broken chain) proves nothing
                | some (_, t0) => epExact.contains host && clock + 2 < t0 + ttlG   -- a start recorded after a gap in the record may be late
              if inside then
                v := v.mon "C05" "outage_within_grace_refused" idx s!"episode {(episode.find? (·.1 == host)).map (·.2)}, now {clock}, grace TTL {ttlG}, status {status}"
            if kind == "outage" && reached then
              match episode.find? (·.1 == host) with
              | none =>
                episode := (host, clock) :: episode
                epExact := if epFresh.contains host then host :: epExact.filter (· != host) else epExact.filter (· != host)
              | some (_, t0) =>
                if !(clock < t0 + ttlG) then
                  v := v.mons ["C05", "C04", "C01"] "grace_outlives_ttl_from_first_failure" idx s!"first outage answer at {t0}, served on another at {clock}, grace TTL {ttlG}"
              epFresh := epFresh.filter (· != host)
            else if kind != "none" then
              episode := episode.filter (·.1 != host)
              epFresh := epFresh.filter (· != host)
              if kind == "confirmed" && reached then epFresh := host :: epFresh
          else
            episode := episode.filter (·.1 != host)
            epFresh := epFresh.filter (· != host)
        | none =>
          episode := episode.filter (·.1 != host)
          epFresh := epFresh.filter (· != host)
      else if handlerOf (strD ora "escapedPath") == "OAuthCallback" || strD presented "kind" != "jar" || !linear then
        episode := episode.filter (·.1 != host)
        epFresh := epFresh.filter (· != host)
        if handlerOf (strD ora "escapedPath") == "OAuthCallback" && ((jarr out "writes").toOption.getD #[]).toList.any (fun w => (sessOf (getJ w "save")).isSome) then
          epFresh := host :: epFresh
      -- C04: no cookie write ever moves the lifetime later / changes identity (history level, absolute time)
      for w in iwrites do
        match sessOf (getJ w "save") with
        | some ns =>
          if handlerOf (strD ora "escapedPath") == "OAuthCallback" then
            chainLifetime := (host, clock + ns.lifetime) :: chainLifetime.filter (·.1 != host)
            if ns.host != host then v := v.mon "C06" "session_not_bound_to_request_host" idx
            if ns.lifetime != ttlL then v := v.mon "C04" "login_lifetime_not_L" idx
          else
            match psess with
            | some s =>
              if ns.lifetime != s.lifetime || ns.host != s.host || ns.email != s.email || ns.slug != s.slug || ns.user != s.user then
                v := v.mons ["C04", "C01"] "check_changed_identity_or_lifetime" idx
              -- C05: while failures continue the grace period keeps counting from the first failure
              match s.grace, ns.grace with
              | some g, some g' => if g' != g then v := v.mon "C05" "grace_start_moved" idx s!"{g} -> {g'}"
              | _, _ => pure ()
            | none => v := v.mon "C01" "session_minted_without_login" idx
            match chainLifetime.find? (·.1 == host) with
            | some (_, lt) => if strD presented "kind" == "jar" && clock + ns.lifetime > lt + 1 then v := v.mons ["C04", "C01"] "lifetime_moved_later" idx
            | none => pure ()
        | none => pure ()
      -- C04 (history level, from the *calls* alone — the ghost `validityAfter` of C04_served_within_validity run on the trace):
      -- along one browser's chain, a request let through without asking the authenticator anything comes no later than V
      -- after the login or the last revalidation that let the session through — whatever deadlines the cookie carries
      let hk := handlerOf (strD ora "escapedPath")
      let callsNow := strs out "calls"
      if hk == "OAuthCallback" then
        if iwrites.toList.any (fun w => (sessOf (getJ w "save")).isSome) then vdHist := (host, clock + ttlV) :: vdHist.filter (·.1 != host)
        else vdHist := vdHist.filter (·.1 != host)
      else if linear && strD presented "kind" == "jar" && (hk == "Proxy" || hk == "AuthenticateOnly") then
        if !whitel then
          let passed := (hk == "Proxy" && reached) || (hk == "AuthenticateOnly" && status == 202)
          if passed then
            if callsNow.contains "validate" then vdHist := (host, clock + ttlV) :: vdHist.filter (·.1 != host)
            else if !(callsNow.contains "refresh") then
              match vdHist.find? (·.1 == host) with
              | some (_, vd) =>
                if clock > vd + 2 then
                  -- during an outage episode this is also C05's business: grace lets a session through one due check at a time
                  let ps := if (episode.find? (·.1 == host)).isSome then ["C04", "C01", "C05"] else ["C04", "C01"]
                  -- … and under a group rule the group verdict is then older than the rule's re-check period allows (C11)
                  let ps := if u.groups != [] && u.groups != ["*"] then ps ++ ["C11"] else ps
                  v := v.mons ps "served_unchecked_beyond_validity" idx s!"last check or login + V = {vd}, served without any check at {clock}"
              | none => pure ()
      else if hk != "Proxy" && hk != "AuthenticateOnly" then pure ()
      else vdHist := vdHist.filter (·.1 != host)
      -- C01: a refusal clears the cookie
      let h := handlerOf (strD ora "escapedPath")
      if (h == "Proxy" || h == "AuthenticateOnly") && !whitel && !reached && status != 301 && status != 202 then
        let last := iwrites.back?.getD Json.null
        if !(boolD last "clear") then v := v.mon "C01" "refused_without_clearing" idx
      if h == "AuthenticateOnly" && status == 202 then
        match psess with
        | none => v := v.mon "C01" "auth_202_without_session" idx
        | some s => if s.slug != slug || s.host != host || s.lifetime < 0 then v := v.mon "C01" "auth_202_without_session" idx
      -- ---------------- C18: hardening of every response produced for a configured upstream
      let sec := getJ out "secHeaders"
      let hv (k : String) : List String := strs sec k
      for (k, dflt) in [("X-Content-Type-Options", "nosniff"), ("X-Frame-Options", "SAMEORIGIN"), ("X-Xss-Protection", "1; mode=block")] do
        let want := match u.override.find? (fun p => p.1.toLower == k.toLower) with | some (_, ov) => ov | none => dflt
        if hv k != [want] then v := v.mon "C18" "protected_header" idx s!"{k}: {hv k} (want {want})"
      if secure then
        if hv "Strict-Transport-Security" != ["max-age=31536000"] then
          let upSets := (strs (getJ inp "upstreamResp") "groups").any fun kv => kv.toLower.startsWith "strict-transport-security"
          v := v.mon "C18" "hsts_every_response_when_secure" idx s!"{hv "Strict-Transport-Security"}" (if upSets && reached then "upstream-hsts" else "")
        if strD ora "urlScheme" != "https" && strD inp "proto" != "https" then
          if status != 301 || strD loc "raw" != strD ora "httpsLocation" || reached then
            v := v.mon "C18" "https_redirect" idx s!"{status} {strD loc "raw"} (want 301 {strD ora "httpsLocation"})"
      for c in ((jarr out "setCookies").toOption.getD #[]) do
        let wantDomain := if strD cfg "domain" != "" then strD cfg "domain" else strD ora "hostNoPort"
        if strD c "path" != "/" || boolD c "secure" != secure || boolD c "httpOnly" != boolD cfg "httpOnly" || strD c "domain" != wantDomain then
          v := v.mon "C18" "cookie_flags" idx s!"{c.compress} (want domain {wantDomain})"
      -- ---------------- C06: flow start and callback
      let scheme := if secure then "https" else "http"
      if ex.locKind == "sign_in" && status == 302 then
        if !(boolD out "csrfSet") then v := v.mon "C06" "start_sets_csrf_cookie" idx
        if strD loc "stateURI" != strD ora "urlString" || strD loc "csrfURI" != strD ora "urlString" then v := v.mon "C06" "start_records_request_uri" idx
        if strD loc "stateSID" != strD loc "csrfSID" || strD loc "stateSID" == "" then v := v.mon "C06" "start_same_flow_id" idx
        if boolD loc "stateEqualsCsrf" then v := v.mon "C06" "start_distinct_ciphertexts" idx
        if strD loc "redirect_uri" != s!"{scheme}://{host}/oauth2/callback" then v := v.mon "C06" "start_callback_on_request_host" idx (strD loc "redirect_uri")
        if !(boolD loc "sigOK") || !(boolD loc "tsFresh") then v := v.mon "C07" "proxy_signs_sign_in" idx
      if h == "OAuthCallback" then
        let cb := getJ st "cb"
        let stt := getJ cb "state"
        let csr := getJ cb "csrf"
        let saved := iwrites.any fun w => !(getJ w "save").isNull
        if saved then
          let okFlow := boolD stt "opens" && boolD csr "opens" && !(boolD cb "sameString") &&
            strD stt "sid" == strD csr "sid" && strD stt "uri" == strD csr "uri"
          let rd := getJ inp "ansRedeem"
          if !okFlow then v := v.mon "C06" "session_without_matching_flow" idx
          -- C02: a session came out of a callback whose state (or CSRF cookie) does not even open under the proxy's secret
          if !(boolD stt "opens") || !(boolD csr "opens") then
            v := v.mon "C02" "unopenable_value_yields_no_data" idx s!"state opens: {boolD stt "opens"}, csrf cookie opens as a flow record: {boolD csr "opens"}"
          -- both were *sealed values as sealed*: a re-spelling of a sealed value (line breaks, padding) is another string
          if !(boolD stt "asSealed") || !(boolD csr "asSealed") then v := v.mon "C06" "session_from_respelled_value" idx
          if strD inp "errParam" != "" || strD inp "code" == "" || strD rd "kind" != "ok" || strD rd "email" == "" then
            v := v.mon "C06" "session_without_redeemed_identity" idx
          if strD loc "raw" != strD ora "flowLocation" then v := v.mon "C06" "redirect_is_recorded_uri" idx s!"{strD loc "raw"} vs {strD ora "flowLocation"}"
          let l := strD loc "raw"
          let sameSite := (l.startsWith "/" && !(l.startsWith "//") && !(l.startsWith "/\\")) || strD loc "host" == host
          if !sameSite then v := v.mon "C06" "redirect_same_host" idx l
          if !(boolD out "csrfCleared") then v := v.mon "C06" "csrf_cleared_after_login" idx
          -- C11 at login: admitted ⇒ documented any-of
          let (gres, _) := validateGroup u.groups a
          let gans : GroupAns := match gres with | .ok _ true => .member | .ok _ false => .notMember | _ => .error
          if !specAdmit lower u.rules (toB (strD rd "email")) gans then v := v.mons ["C11", "C01", "C13", "C06"] "login_admits_without_rule" idx
        else
          -- C11 at login: everything else fine and the user satisfies a rule ⇒ must be admitted
          let rd := getJ inp "ansRedeem"
          let okFlow := boolD stt "opens" && boolD csr "opens" && !(boolD cb "sameString") &&
            strD stt "sid" == strD csr "sid" && strD stt "uri" == strD csr "uri"
          let (gres, _) := validateGroup u.groups a
          let gans : GroupAns := match gres with | .ok _ true => .member | .ok _ false => .notMember | _ => .error
          -- (only when the callback handler ran at all: a plain-http request to a secure deployment is upgraded with 301 first)
          if status != 301 && okFlow && strD inp "errParam" == "" && strD inp "code" != "" && strD rd "kind" == "ok" && strD rd "email" != "" &&
             specAdmit lower u.rules (toB (strD rd "email")) gans then
            v := v.mon "C11" "login_refuses_despite_rule" idx
      -- ---------------- C19 (proxy half): sign-out
      if h == "SignOut" && status != 301 then
        if (Json.arr iwrites).compress != "[{\"clear\":true}]" then v := v.mon "C19" "proxy_signout_clears" idx (Json.arr iwrites).compress
        if status != 302 || !(boolD loc "toAuthenticator") || strD loc "path" != s!"/{slug}/sign_out" then v := v.mon "C19" "proxy_signout_redirects_to_authenticator" idx
        if strD loc "redirect_uri" != s!"{scheme}://{host}/" then v := v.mon "C19" "proxy_signout_return_address" idx (strD loc "redirect_uri")
        if !(boolD loc "sigOK") || !(boolD loc "tsFresh") then v := v.mon "C19" "proxy_signout_signed" idx
        if reached then v := v.mon "C19" "proxy_signout_reached_upstream" idx
    | none =>
      if reached then v := v.mon "C13" "unrouted_host_reached_backend" idx
      if urlPath != "/ping" && status != 421 then v := v.mon "C13" "unrouted_host_not_421" idx
    idx := idx + 1
  pure v

end Sso.Drv.Proxyflow
