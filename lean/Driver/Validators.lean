import Driver.Util
import SsoModel.Validators
open Lean

/-! Driver engine `validators` (C11, single validators). -/
namespace Sso.Drv.Validators
open Sso.Validators

def lowerOf (tbl : Json) : Bytes → Bytes := fun b =>
  match tbl.getObjVal? (hex b) with
  | .ok (.str s) => (unhex s).getD b
  | _ => b

def checkCase (j : Json) : Except String Verdict := do
  let kind ← jstr j "kind"
  let allowed ← jhexArr j "allowed"
  let email ← jhex j "email"
  let lower := lowerOf (← jget j "lower")
  let res ← jstr j "res"
  let model := if kind == "addr" then addrPasses lower allowed email else domainPasses lower allowed email
  let mut v : Verdict := {}
  v := v.cmp 0 "validator.passes" model (res == "ok") ["C11"]
  -- the error kind: empty e-mail is reported as invalid e-mail, everything else as denied
  v := v.cmp 0 "validator.error" (if model then "ok" else if email == [] then "invalid-email" else "denied") res ["C11"]
  v := v.br s!"{kind}/{res}"
  let lone := allowed.length == 1 && allowed == [star]
  v := v.tag (if allowed.isEmpty then "rules:none" else if lone then "rules:lone-star" else if allowed.contains star then "rules:star-among" else "rules:list")
  v := v.tag (if email.isEmpty then "email:empty" else if email.contains at' then "email:with-at" else "email:no-at")
  if !allowed.isEmpty && !email.isEmpty then v := { v with nontrivial := true }
  -- monitor: the documented meaning
  let le := lower email
  let spec : Bool :=
    if email.isEmpty || allowed.isEmpty then false
    else if lone then true
    else if kind == "addr" then (allowed.map lower).contains le
    else allowed.any fun d => d != star && afterLastAt le == some (lower d) && !(lower d).contains at'
  if spec != (res == "ok") then
    let fp := kind == "domain" && allowed.contains star && !lone && endsWith le star
    v := v.mon "C11" (if kind == "addr" then "address_exact" else "domain_whole") 0
      s!"{showBytes email} vs {allowed.map showBytes}" (if fp then "domain-star-suffix" else "")
  pure v

end Sso.Drv.Validators
