import Driver.Util
import SsoModel.AuthN
import Generated.Facts
open Lean

/-! Driver engine `authflow`: the real sso-auth handler tree vs the Lean authenticator model; monitors for
C07 C08 C09 C10 C18(auth) C19(auth) C20 on the implementation's own outputs. The route table (paths, methods, gates)
is the regenerated `Generated.authRoutes`. -/
namespace Sso.Drv.Authflow
open Sso.AuthN Sso.Validators

def strs (j : Json) (k : String) : List String := (jstrArr j k).toOption.getD []
def strD (j : Json) (k : String) : String := (jstr j k).toOption.getD ""
def intD (j : Json) (k : String) : Int := (jint j k).toOption.getD 0
def boolD (j : Json) (k : String) : Bool := (jbool j k).toOption.getD false
def getJ (j : Json) (k : String) : Json := (j.getObjVal? k).toOption.getD Json.null
def toB (s : String) : Validators.Bytes := s.toUTF8.toList

def gateOf (methods : List String) : String → Option Gate
  | "withMethods" => some (.methods methods)
  | "validateClientID" => some .clientID
  | "validateClientSecret" => some .clientSecret
  | "validateRedirectURI" => some .redirectURI
  | "validateSignature" => some .signature
  | _ => none

def routes : List Route := Sso.Generated.authRoutes.map fun (path, ms, gs, h) =>
  { path := path, gates := gs.filterMap (gateOf ms), handler := h }

/-- values of a parameter in an `url.Values`-shaped JSON object -/
def vals (j : Json) (k : String) : List String := strs j k

def lowerOf (tbl : Json) : Validators.Bytes → Validators.Bytes := fun b =>
  match tbl.getObjVal? (hex b) with
  | .ok (.str s) => (unhex s).getD b
  | _ => b

def sessOf (j : Json) : Option ASess :=
  if j.isNull || boolD j "undecodable" then none else
  some { email := toB (strD j "email"), access := strD j "access", refreshTok := strD j "refreshTok", lifetime := intD j "lifetime", refresh := intD j "refresh" }

/-- classify a scripted IdP reply into the provider error classes of googleRequest / oktaRequest -/
def perrOf (slug : String) (j : Json) : PErr :=
  match strD j "kind" with
  | "transport" => .other
  | "status" =>
    let n := intD j "status"
    let d := strD j "errDesc"
    if n == 400 then
      (if slug == "google" then (if d == "Token expired or revoked" then .tokenRevoked else .badRequest)
       else (if (d.toLower.splitOn "token is invalid or expired").length > 1 then .tokenRevoked else .badRequest))
    else if n == 429 then .rateLimit else .unavailable
  | _ => .other

def validateOf (slug : String) (j : Json) : Bool :=
  match strD j "kind" with
  | "ok" => if slug == "google" then true else boolD j "active"
  | _ => false

def refreshOf (slug : String) (j : Json) : Except PErr (String × Int) :=
  match strD j "kind" with
  | "ok" => .ok (strD j "access", intD j "ttl")
  | _ => .error (perrOf slug j)

def writeJson : AWrite → String
  | .save _ => "save" | .clear => "clear"

def secSix : List (String × String) :=
  [("Content-Security-Policy", "default-src 'none'; style-src 'self'; img-src 'self';"), ("Referrer-Policy", "Same-origin"),
   ("Strict-Transport-Security", "max-age=31536000"), ("X-Content-Type-Options", "nosniff"), ("X-Frame-Options", "DENY"),
   ("X-Xss-Protection", "1; mode=block")]

def checkCase (j : Json) : Except String Verdict := do
  let mut v : Verdict := {}
  let mut profileCache : List ((String × List String) × List String) := []
  if !(getJ j "setupError").isNull then return v.diff 0 "setup" "ok" (getJ j "setupError") ["C07", "C08", "C09", "C10"]
  -- configuration validation: the service starts only with a non-empty proxy client id *and* secret (otherwise every
  -- credential comparison of the back channel would be against the empty string)
  match (jarr j "cfgcheck").toOption with
  | some rows =>
    let mut i := 0
    for r in rows do
      let want := strD r "id" != "" && strD r "secret" != ""
      v := v.cmp i "config.valid" want (boolD r "valid") ["C08"]
      if boolD r "valid" && !want then
        v := v.mon "C08" "starts_only_with_client_credentials" i s!"id='{strD r "id"}' secret set: {strD r "secret" != ""}; a credential-less /validate got {intD r "credentialLessStatus"}"
      v := v.br (if want then "cfgcheck/valid" else "cfgcheck/refused")
      i := i + 1
    -- every setting the deployment states in the environment is the one in force
    let secs (d : String) : String :=
      let num := String.ofList (d.toList.takeWhile Char.isDigit)
      let unit := String.ofList (d.toList.dropWhile Char.isDigit)
      match num.toNat?, unit with
      | some n, "m" => s!"{n * 60}s" | some n, "h" => s!"{n * 3600}s" | _, _ => d
    let propsOf (k : String) : List String :=
      if k.startsWith "CLIENT_" then ["C08"] else if k == "AUTHORIZE_PROXY_DOMAINS" then ["C07"]
      else if k.startsWith "AUTHORIZE_EMAIL" || k == "SESSION_LIFETIME" then ["C09"]
      else if k.startsWith "SESSION_COOKIE" then ["C18", "C02"] else if k == "SESSION_KEY" then ["C02", "C08"] else ["C07"]
    for er in ((jarr j "cfgenv").toOption.getD #[]) do
      let env := getJ er "env"
      let got := getJ er "got"
      if !(boolD er "loaded") then v := v.diff i "cfgenv.loaded" "loaded" (strD er "error" ++ strD er "panic") ["C08"]
      else
        match env with
        | .obj kvs =>
          for (k, want) in kvs.toList do
            let w := want.getStr?.toOption.getD ""
            let wantN := if k == "SESSION_LIFETIME" || k == "SESSION_COOKIE_EXPIRE" then secs w else w
            if k != "SESSION_COOKIE_REFRESH" && strD got k != wantN then
              v := v.mons (propsOf k) "setting_as_stated" i s!"{k}={w} is in force as '{strD got k}'"
        | _ => pure ()
      v := v.br "cfgenv"
      i := i + 1
    return { v with nontrivial := true }
  | none => pure ()
  -- browsers at the signature gate at once: a borrowed signature is refused, the genuine link passes
  match (j.getObjVal? "sigOverlap").toOption with
  | some oj =>
    let num (k : String) : Int := (oj.getObjVal? k).toOption.bind (·.getInt?.toOption) |>.getD 0
    let fst (k : String) : String := ((j.getObjVal? "first").toOption.bind (·.getObjVal? k |>.toOption)).bind (·.getStr?.toOption) |>.getD ""
    for k in ["borrowedAccepted", "genuineRefused", "panics"] do
      v := v.cmp 0 s!"sigOverlap.{k}" (0 : Int) (num k) ["C07"]
    if num "borrowedAccepted" != 0 then v := v.mons ["C07", "C19"] "redirect_only_for_signed_uri" 0 s!"×{num "borrowedAccepted"} of {num "borrowed"}: {fst "borrowedAccepted"}"
    if num "genuineRefused" != 0 then v := v.mon "C07" "genuine_link_refused" 0 s!"×{num "genuineRefused"} of {num "genuine"}: {fst "genuineRefused"}"
    if num "panics" != 0 then v := v.mon "C07" "genuine_link_refused" 0 s!"panic at the gate: {fst "panics"}"
    v := v.br "sigOverlap"
    return { v with nontrivial := true }
  | none => pure ()
  -- back-channel requests of several callers in flight at once
  match (j.getObjVal? "overlap").toOption with
  | some oj =>
    let num (k : String) : Int := (oj.getObjVal? k).toOption.bind (·.getInt?.toOption) |>.getD 0
    let fst (k : String) : String := ((j.getObjVal? "first").toOption.bind (·.getObjVal? k |>.toOption)).bind (·.getStr?.toOption) |>.getD ""
    for k in ["foreign", "garbled", "leaked", "panics"] do
      v := v.cmp 0 s!"overlap.{k}" (0 : Int) (num k) ["C08"]
    if num "foreign" != 0 then v := v.mon "C08" "redeem_answers_the_code_presented" 0 s!"×{num "foreign"}: {fst "foreign"}"
    if num "garbled" != 0 then v := v.mon "C08" "redeem_answers_the_code_presented" 0 s!"×{num "garbled"}: {fst "garbled"}"
    if num "leaked" != 0 then v := v.mon "C08" "backchannel_reveals_nothing" 0 s!"×{num "leaked"}: {fst "leaked"}"
    if num "panics" != 0 then v := v.mon "C08" "redeem_answers_the_code_presented" 0 s!"panic: {fst "panics"}"
    v := v.br "overlap"
    return { v with nontrivial := true }
  | none => pure ()
  -- each provider's Redeem called directly (Google, Okta, Amazon Cognito as their constructors build them)
  match (jarr j "provRedeem").toOption with
  | some rows =>
    let mut i := 0
    for r in rows do
      let inp := getJ r "in"
      let out := getJ r "out"
      let ora := getJ r "oracle"
      let prov := strD inp "provider"
      if !(getJ r "setupError").isNull then
        v := v.diff i "provider.setup" "ok" (getJ r "setupError") ["C10"]
      else
        let k : ProvKind := if prov == "google" then .google else if prov == "okta" then .okta else .cognito
        let tk := getJ inp "idpToken"
        let tresp : TokenResp := match strD tk "kind" with
          | "ok" => .ok (strD tk "access") (strD tk "refreshT") (strD tk "idToken") (intD tk "ttl")
          | "status" => .status (intD tk "status").toNat
          | "transport" => .transport
          | _ => .malformed
        let segs := intD ora "idTokenSegments"
        let idt : IDTok := if segs < 2 then .noSecondSegment
          else if !(boolD ora "idTokenDecoded") then .undecodable
          else .claims (toB (strD ora "idTokenEmail")) (boolD ora "idTokenVerified")
        let us := getJ inp "idpUserinfo"
        let uresp : UserinfoResp := match strD us "kind" with
          | "ok" => .ok (toB (strD us "email")) (boolD us "verified")
          | "status" => .status (intD us "status").toNat
          | "transport" => .transport
          | _ => .malformed
        let (m, calls) := redeemOf k (strD inp "code") tresp idt uresp
        let kind := strD out "kind"
        match m with
        | .session e a rt ttl =>
          v := v.cmp i "provRedeem.kind" "session" kind ["C10"]
          v := v.cmp i "provRedeem.session" (showBytes e, a, rt) (strD out "email", strD out "access", strD out "refreshTok") ["C10"]
          let rf := intD out "refresh"
          if !(ttl - 1 ≤ rf && rf ≤ ttl + 1) then v := v.diff i "provRedeem.refreshDeadline" (toString ttl) (toString rf) ["C10"]
          let lf := intD out "lifetime"
          if !(3599 ≤ lf && lf ≤ 3601) then v := v.diff i "provRedeem.lifetimeDeadline" "3600" (toString lf) ["C10"]
          v := v.br s!"provRedeem/{prov}/session"
        | .error => v := v.cmp i "provRedeem.kind" "error" kind ["C10"]; v := v.br s!"provRedeem/{prov}/error"
        | .panic => v := v.cmp i "provRedeem.kind" "panic" kind ["C10"]
        v := v.cmp i "provRedeem.idpCalls" calls (strs r "idpKinds") ["C10"]
        -- monitors, stated on the implementation's outputs and the scripted answers only
        if kind == "panic" then v := v.mon "C10" "request_never_crashes" i s!"{prov}: {strD out "panic"}"
        if kind == "session" then
          let em := strD out "email"
          let vouched :=
            if prov == "google" then strD tk "kind" == "ok" && boolD ora "idTokenOK" && strD ora "idTokenEmail" == em
            else strD tk "kind" == "ok" && strD us "kind" == "ok" && strD us "email" == em && (prov == "cognito" || boolD us "verified")
          if em == "" || !vouched || strD inp "code" == "" then
            v := v.mon "C10" "session_email_is_the_vouched_one" i s!"{prov}: session for '{em}'"
          -- the userinfo question is asked with the access token this very code was redeemed for
          if prov != "google" then
            let cl := ((jarr r "idpCalls").toOption.getD #[]).toList
            match cl.find? (fun c => strD c "kind" == "userinfo") with
            | some c => if strD c "auth" != "Bearer " ++ strD tk "access" then
                v := v.mon "C10" "userinfo_asked_with_the_redeemed_token" i s!"{prov}: Authorization '{strD c "auth"}'"
            | none => v := v.mon "C10" "session_email_is_the_vouched_one" i s!"{prov}: session without a userinfo call"
      i := i + 1
    return { v with nontrivial := true }
  | none => pure ()
  let cfgj ← jget j "cfg"
  let roots := (strs cfgj "roots").map fun d => if d.startsWith "." then d else "." ++ d
  let addresses := strs cfgj "addresses"
  let domains := strs cfgj "domains"
  let c : Cfg := { proxyID := "proxy-client-id", proxySecret := "proxy-client-secret", roots := roots.map (·.toList) }
  let mut idx := 0
  let mut issued : List (String × String) := []     -- (provider slug, nonce) pairs /start has set and no callback has used up
  for st in ((jarr j "steps").toOption.getD #[]) do
    let inp := getJ st "in"
    let out := getJ st "out"
    let ora := getJ st "oracle"
    let rq := getJ st "req"
    if !(getJ out "parseError").isNull || boolD out "straddled" then
      idx := idx + 1; continue
    let slug := strD inp "slug"
    let endpoint := strD inp "endpoint"
    let host := strD inp "host"
    let method := strD inp "method"
    let status := (jnat out "status").toOption.getD 0
    let lower := lowerOf (getJ ora "lower")
    let emailOK : Validators.Bytes → Bool := fun e =>
      if addresses != [] then addrPasses lower (addresses.map toB) e else domainPasses lower (domains.map toB) e
    let loc := getJ out "location"
    let idpKinds := ((jarr out "idpCalls").toOption.getD #[]).toList.map fun x => strD x "kind"
    let setCookies := ((jarr out "setCookies").toOption.getD #[]).toList
    let cname := "_sso_auth_" ++ slug
    let sessWrites := (setCookies.filter fun x => strD x "name" == cname).map fun x => if boolD x "empty" then "clear" else "save"
    let panicked := strD out "panic" != ""
    let inService := host == "sso-auth.x.io" && (slug == "google" || slug == "okta")
    let route := routes.find? (·.path == "/" ++ endpoint)
    -- ---------------- request as the middlewares read it
    let q := getJ rq "query"
    let f := getJ rq "form"
    let first (l : List String) : String := l.headD ""
    let formVals (k : String) : List String := (if method == "POST" then vals f k else []) ++ vals q k
    let hdrs := getJ inp "headers"
    let clientID := let a := first (formVals "client_id"); if a != "" then a else first (vals q "client_id")
    let clientSecret := let a := first (formVals "client_secret"); if a != "" then a else strD hdrs "X-Client-Secret"
    let redirect := first (formVals "redirect_uri")
    let ro := getJ ora "redirect"
    let parsed : ParsedURL := { ok := boolD ro "goOK", host := strD ro "goHost", hostname := (strD ro "goHostname").toList }
    let sg := getJ st "signed"
    -- timestamp parsing and MAC equality are oracles evaluated on the values net/http's ParseForm hands the handlers
    let rdo := getJ ora "read"
    let sigIn : SigIn :=
      { uri := redirect, sig := first (formVals "sig"), ts := first (formVals "ts"), uriParses := boolD ro "goOK", sigDecodes := true, tsValue := if boolD rdo "tsParses" then some (0 - intD rdo "age") else none, macEqual := boolD rdo "macOK" }
    let r : Req := { method := method, clientID := clientID, clientSecret := clientSecret, redirect := redirect, redirectParsed := parsed, sig := sigIn, acceptJSON := strD hdrs "Accept" == "application/json", formOK := true }
    v := v.cmp idx "request.read" (redirect, sigIn.sig, sigIn.ts) (strD rdo "redirect_uri", strD rdo "sig", strD rdo "ts") ["C07", "C19"]
    let presented := getJ st "presented"
    let cookie : CookieIn := match strD presented "kind" with
      | "sess" => (match sessOf (getJ presented "sess") with | some s => .opens s | none => .junk)
      | "garbage" | "otherkey" | "codekey" => .junk
      | _ => .absent
    let ans : IdPAns := { validate := validateOf slug (getJ inp "idpValidate"), refresh := refreshOf slug (getJ inp "idpToken") }
    let rawIdp := strD (getJ inp "idpToken") "kind" == "raw" || strD (getJ inp "idpValidate") "kind" == "raw" ||
                  strD (getJ inp "idpUserinfo") "kind" == "raw"
    -- ---------------- model vs implementation
    if inService then
      match route with
      | none => v := v.br "service/no-route"
      | some rt =>
        match firstFail c 0 r rt.gates with
        | some (code, _) =>
          v := v.cmp idx "gate.status" code status ["C07", "C08", "C19"]
          v := v.cmp idx "gate.noIdpCall" ([] : List String) idpKinds ["C08"]
          v := v.br s!"gate/{rt.handler}/{code}"
        | none =>
          v := { v with nontrivial := true }
          if rt.handler == "SignIn" && !rawIdp then
            let (o, w, calls) := signIn lower emailOK 0 cookie ans (first (formVals "state")) redirect (boolD ro "goOK")
            v := v.cmp idx "signin.idpCalls" calls idpKinds ["C09"]
            v := v.cmp idx "signin.cookieWrites" (w.map writeJson) sessWrites ["C09", "C19"]
            match o with
            | .codeRedirect s =>
              v := v.cmp idx "signin.status" 302 status ["C07", "C09"]
              v := v.cmp idx "signin.hasCode" true (boolD loc "hasCode") ["C09"]
              v := v.cmp idx "signin.codeEmail" (showBytes s.email) (strD (getJ loc "code") "email") ["C09"]
              v := v.cmp idx "signin.locationHost" (strD ro "goHost") (strD loc "goHost") ["C07"]
              v := v.br "signin/code"
            | .signInPage =>
              v := v.cmp idx "signin.status" 200 status ["C09"]
              v := v.cmp idx "signin.page" "sign-in-page" (strD out "bodyKind") ["C09", "C20"]
              v := v.br "signin/page"
            | .error code =>
              v := v.cmp idx "signin.status" code status ["C09"]
              v := v.cmp idx "signin.noLocation" true loc.isNull ["C07", "C09"]
              v := v.br s!"signin/error/{code}"
          else if rt.handler == "SignOut" then
            let revokeOK := match strD (getJ inp "idpRevoke") "kind" with
              | "ok" => true
              | "status" => perrOf slug (getJ inp "idpRevoke") == .tokenRevoked
              | _ => false
            let (o, w, calls) := signOut method cookie revokeOK
            v := v.cmp idx "signout.idpCalls" calls idpKinds ["C19"]
            v := v.cmp idx "signout.cookieWrites" (w.map writeJson) sessWrites ["C19"]
            match o with
            | .page => v := v.cmp idx "signout.page" (200, "sign-out-page") (status, strD out "bodyKind") ["C19", "C20"]; v := v.br "signout/page"
            | .redirect => v := v.cmp idx "signout.redirect" (302, redirect) (status, strD loc "raw") ["C19", "C07"]; v := v.br "signout/redirect"
            | .errorPage => v := v.cmp idx "signout.errorPage" (500, "sign-out-page") (status, strD out "bodyKind") ["C19"]; v := v.br "signout/revoke-failed"
          else if rt.handler == "Redeem" then
            let ci := getJ st "codeInfo"
            let kind := strD ci "kind"
            let cin : CodeIn := { opens := if kind == "genuine" then some ⟨toB "ann@x.io", "at-code", "rt-code", 3000, 600⟩
              else if kind == "expired-refresh" then some ⟨toB "ann@x.io", "at-code", "rt-code", 3000, -10⟩
              else if kind == "expired-lifetime" then some ⟨toB "ann@x.io", "at-code", "rt-code", -10, 600⟩ else none }
            -- C02 / C08 (from the outputs alone): the code key and nothing else opens a code
            if (kind == "otherkey" || kind == "cookiekey" || kind == "garbage" || kind == "jarcookie" || kind == "genuine-respelled" || kind == "genuine-trailing-lf") && status == 200 then
              v := v.mons ["C08", "C02"] "redeem_opens_only_own_key" idx s!"a value sealed as '{kind}' was redeemed"
            if kind == "genuine" && status != 200 then
              v := v.mons ["C02", "C08"] "round_trip" idx s!"a code sealed under the configured session key was refused with {status}"
            match redeem 0 cin with
            | .tokens e at' rt' _ =>
              v := v.cmp idx "redeem.status" 200 status ["C08"]
              let js := getJ out "json"
              v := v.cmp idx "redeem.body" (showBytes e, at', rt') (strD js "email", strD js "access_token", strD js "refresh_token") ["C08"]
              v := v.br "redeem/tokens"
            | .error code => v := v.cmp idx "redeem.status" code status ["C08"]; v := v.br "redeem/error"
          else if rt.handler == "Refresh" && !rawIdp then
            let (o, calls) := refreshH (first (formVals "refresh_token")) (refreshOf slug (getJ inp "idpToken"))
            let js := getJ out "json"
            match o with
            | .refreshed tok ttl =>
              v := v.cmp idx "refresh.out" ((201 : Int), tok, ttl) (status, strD js "access_token", intD js "expires_in") ["C08"]
              v := v.br "refresh/refreshed"
            | .status n => v := v.cmp idx "refresh.status" (n : Int) status ["C08"]; v := v.br s!"refresh/{n}"
            | .profile _ _ => pure ()
            v := v.cmp idx "refresh.idpCalls" calls idpKinds ["C08"]
          else if rt.handler == "GetProfile" && slug == "okta" && !rawIdp then
            let email := first (vals q "email")
            let gparam := first (vals q "groups")
            let allowed := if gparam == "" then [] else gparam.splitOn ","
            let ui := getJ inp "idpUserinfo"
            let userinfo : Except PErr (List String) := match strD ui "kind" with
              | "ok" => .ok (strs ui "groups")
              | _ => .error (perrOf slug ui)
            -- the provider sits behind the authenticator's group cache (C17): a question answered successfully before in
            -- this process is answered again from the cache, without a call
            let key := (email, allowed.toArray.qsort (· < ·) |>.toList)
            let (mem, calls) := match profileCache.find? (·.1 == key) with
              | some (_, gs) => (Except.ok gs, ([] : List String))
              | none => oktaMembership allowed (strD hdrs "X-Access-Token") userinfo
            match mem with
            | .ok gs => if email != "" && !(profileCache.any (·.1 == key)) then profileCache := (key, gs) :: profileCache
            | .error _ => pure ()
            let (o, _) := profileH email mem
            let js := getJ out "json"
            match o with
            | .profile e gs =>
              v := v.cmp idx "profile.out" ((200 : Int), e, gs) (status, strD js "email", strs js "groups") ["C08"]
              v := v.br "profile/ok"
            | .status n => v := v.cmp idx "profile.status" (n : Int) status ["C08"]; v := v.br s!"profile/{n}"
            | .refreshed _ _ => pure ()
            if email != "" then v := v.cmp idx "profile.idpCalls" calls idpKinds ["C08"]
          else if rt.handler == "ValidateToken" && !rawIdp then
            let (o, calls) := validateH (strD hdrs "X-Access-Token") (validateOf slug (getJ inp "idpValidate"))
            match o with
            | .status n => v := v.cmp idx "validate.status" (n : Int) status ["C08"]; v := v.br s!"validate/{n}"
            | _ => pure ()
            v := v.cmp idx "validate.idpCalls" calls idpKinds ["C08"]
          else if rt.handler == "OAuthCallback" && !rawIdp then
            let tk := getJ inp "idpToken"
            let tresp : TokenResp := match strD tk "kind" with
              | "ok" => .ok (strD tk "access") (strD tk "refreshT") (strD tk "idToken") (intD tk "ttl")
              | "status" => .status (intD tk "status").toNat
              | "transport" => .transport
              | _ => .malformed
            let login : LoginRes :=
              if slug == "google" then
                let segs := intD ora "idTokenSegments"
                let idt : IDTok := if segs < 2 then .noSecondSegment
                  else if !(boolD ora "idTokenDecoded") then .undecodable
                  else .claims (toB (strD ora "idTokenEmail")) (boolD ora "idTokenVerified")
                googleRedeem tresp idt
              else
                let us := getJ inp "idpUserinfo"
                let uresp : UserinfoResp := match strD us "kind" with
                  | "ok" => .ok (toB (strD us "email")) (boolD us "verified")
                  | "status" => .status (intD us "status").toNat
                  | "transport" => .transport
                  | _ => .malformed
                (oktaRedeem tresp uresp).1
            let stv := first (vals q "state")
            let stj := getJ ora "state"
            let cbin : CbIn := { errorParam := first (vals q "error"), code := first (vals q "code"), login := login, stateDecodes := boolD stj "decodes", stateNonce := strD stj "nonce", stateRedirect := strD stj "redirect", stateHasColon := boolD stj "hasColon", csrfCookie := if (getJ presented "csrf").isNull then none else some (strD presented "csrf"), redirectValid := boolD stj "redirectValid" }
            let _ := stv
            -- the CSRF cookie is used up exactly when the handler got as far as reading one (`jarStep`)
            let consumed := readsCookie cbin && cbin.csrfCookie.isSome
            let cleared := setCookies.any fun x => strD x "name" == cname ++ "_csrf" && boolD x "expired"
            let reset := setCookies.any fun x => strD x "name" == cname ++ "_csrf" && !(boolD x "expired")
            v := v.cmp idx "callback.csrfConsumed" (consumed, false) (cleared, reset) ["C09"]
            match oauthCallback emailOK cbin with
            | .session e l =>
              v := v.cmp idx "callback.status" 302 status ["C09", "C10"]
              v := v.cmp idx "callback.location" l (strD loc "raw") ["C07", "C09"]
              v := v.cmp idx "callback.sessionSet" ["save"] sessWrites ["C09", "C10"]
              let saved := (setCookies.find? fun x => strD x "name" == cname && !(boolD x "empty")).map fun x => strD (getJ x "sess") "email"
              v := v.cmp idx "callback.sessionEmail" (some (showBytes e)) saved ["C10"]
              v := v.br "callback/session"
            | .error code =>
              v := v.cmp idx "callback.status" code status ["C09", "C10"]
              v := v.cmp idx "callback.noSession" false (sessWrites.contains "save") ["C09", "C10"]
              v := v.br s!"callback/error/{code}"
            | .crash => v := v.cmp idx "callback.crash" true panicked ["C10"]
          else v := v.br s!"handler/{rt.handler}"
    else v := v.br "outside-service"
    -- ---------------- monitors
    if panicked then v := v.mon "C10" "request_never_crashes" idx (strD out "panic") (if (strD out "panic").endsWith "index out of range [1] with length 1" then "idtoken-panic" else "")
    let rfc := getJ loc "rfc"
    let inDomain (h : String) : Bool := roots.any fun d => h.endsWith d || h.toList == trimLeftDots d.toList
    -- C07: a redirect to a caller-supplied URI stays inside the configured domains, under the RFC 3986 and the browser reading
    if status == 302 || status == 301 || status == 303 || status == 307 then
      let h := strD rfc "host"
      let bh := strD rfc "browserHost"
      let toIdp := strD loc "goHost" == "accounts.google.com" || strD loc "goHost" == "idp.okta.test"
      let toSelf := strD loc "goHost" == "sso-auth.x.io" || (strD loc "goHost" == "" && !(boolD rfc "hasAuthority"))
      if !toIdp && !toSelf then
        if !(inDomain h) || !(inDomain bh) || boolD rfc "bracketed" then
          v := v.mon "C07" "redirect_host_in_domain" idx s!"{strD loc "raw"} host {h} / browser {bh}" (if boolD rfc "bracketed" then "ipv6-zone-redirect" else "")
      -- a code, an IdP login or a sign-out redirect only for a genuinely signed, fresh redirect URI
      let sg := getJ st "signed"
      let signedFresh := !sg.isNull && boolD sg "genuine" && boolD sg "tsParses" && intD sg "age" ≤ 300
      if boolD loc "hasCode" && !signedFresh then v := v.mon "C07" "code_only_if_signed_fresh" idx
      if endpoint == "sign_out" && !toSelf && !signedFresh then v := v.mon "C07" "signout_redirect_only_if_signed_fresh" idx
      if endpoint == "sign_out" && !toSelf && strD loc "raw" != strD sg "uri" then
        v := v.mon "C07" "signout_redirect_is_the_signed_uri" idx s!"{strD loc "raw"} vs signed {strD sg "uri"}"
      if endpoint == "start" && toIdp then
        if (getJ inp "startOf").isNull || strD inp "startOf" == "" then v := v.mon "C07" "idp_login_only_if_signed_fresh" idx
    -- C08: the four back-channel endpoints act only for exact client credentials
    if inService && ["redeem", "refresh", "profile", "validate"].contains endpoint then
      let credsOK := clientID == c.proxyID && clientSecret == c.proxySecret
      if !credsOK && (status < 400 || !idpKinds.isEmpty) then v := v.mon "C08" "backchannel_needs_credentials" idx s!"{status} {idpKinds}"
      if !credsOK && (strD out "bodyKind" == "json" && !(getJ (getJ out "json") "access_token").isNull) then v := v.mon "C08" "backchannel_reveals_nothing" idx
      if !credsOK && !(strs out "bodyMentions").isEmpty then v := v.mon "C08" "backchannel_reveals_nothing" idx s!"body mentions {strs out "bodyMentions"}"
      if endpoint == "redeem" && status == 200 then
        let ci := getJ st "codeInfo"
        let js := getJ out "json"
        if strD ci "kind" != "genuine" then v := v.mon "C08" "only_genuine_codes_redeem" idx (strD ci "kind")
        if strD js "email" != strD ci "email" || strD js "access_token" != strD ci "access" || strD js "refresh_token" != strD ci "refreshTok" then
          v := v.mon "C08" "redeem_returns_exactly_the_session" idx
    -- C09: a code only for an authentic, live, provider-confirmed, allowed session
    if boolD loc "hasCode" then
      match cookie with
      | .opens s =>
        if s.lifetime < 0 then v := v.mon "C09" "code_for_expired_lifetime" idx
        let refreshGood := match ans.refresh with | .ok _ => true | _ => false
        if s.refresh < 0 && (s.refreshTok == "" || !refreshGood || !idpKinds.contains "refresh") then
          v := v.mon "C09" "code_without_refresh" idx
        if s.refresh ≥ 0 && (!ans.validate || !idpKinds.contains "validate") then
          v := v.mon "C09" "code_without_provider_confirmation" idx
        if !emailOK s.email then v := v.mon "C09" "code_for_disallowed_email" idx
        if strD (getJ loc "code") "email" != showBytes s.email then v := v.mon "C09" "code_is_not_the_session" idx
      | _ =>
        let pk := strD presented "kind"
        if pk == "codekey" || pk == "otherkey" || pk == "garbage" then
          v := v.mons ["C09", "C02"] "code_without_session" idx s!"a cookie value of kind '{pk}' was accepted as the session"
        else v := v.mon "C09" "code_without_session" idx
      if first (formVals "state") == "" then v := v.mon "C09" "code_without_state" idx
    -- C09: a refresh / revalidation never moves the lifetime fixed at login, nor changes whose session it is
    if endpoint != "callback" then
      match cookie with
      | .opens s =>
        for x in setCookies do
          if strD x "name" == cname && !(boolD x "empty") then
            match sessOf (getJ x "sess") with
            | some ns =>
              if ns.lifetime != s.lifetime then v := v.mon "C09" "check_keeps_lifetime" idx s!"{s.lifetime} -> {ns.lifetime}"
              if ns.email != s.email then v := v.mon "C09" "check_keeps_identity" idx
            | none => pure ()
      | _ => pure ()
    -- C09 (history level): the nonce a session-creating callback rides on is one this service's own /start handed to this
    -- browser and that no completed callback has used up — never the empty string, never a used one
    if endpoint == "start" then
      for x in setCookies do
        if strD x "name" == cname ++ "_csrf" && strD x "value" != "" && !(boolD x "expired") then issued := (slug, strD x "value") :: issued
    if endpoint == "callback" && sessWrites.contains "save" && strD inp "csrf" == "jar" then
      let nonce := strD (getJ ora "state") "nonce"
      if nonce == "" || !(issued.contains (slug, nonce)) then
        v := v.mon "C09" "callback_nonce_was_issued_by_start" idx s!"nonce '{nonce}'"
      issued := issued.filter (· != (slug, nonce))
    -- C07: the callback returns the browser to the URI the state names, byte for byte — it never writes (or refreshes) a
    -- signature of its own
    if endpoint == "callback" && status == 302 && sessWrites.contains "save" then
      if strD loc "raw" != strD (getJ ora "state") "redirect" then
        v := v.mon "C07" "callback_returns_to_recorded_uri" idx s!"state names {strD (getJ ora "state") "redirect"}, Location is {strD loc "raw"}"
    -- C09/C10: the callback creates a session only with matching nonce and an IdP-vouched (verified) e-mail
    if endpoint == "callback" && sessWrites.contains "save" then
      let stj := getJ ora "state"
      if (getJ presented "csrf").isNull || strD presented "csrf" != strD stj "nonce" then v := v.mon "C09" "callback_nonce_matches_csrf" idx
      let tk := getJ inp "idpToken"
      let saved := ((setCookies.find? fun x => strD x "name" == cname && !(boolD x "empty")).map fun x => strD (getJ x "sess") "email").getD ""
      if strD tk "kind" != "ok" then v := v.mon "C10" "session_without_token_200" idx
      if slug == "google" then
        if !(boolD ora "idTokenOK") || strD ora "idTokenEmail" != saved then v := v.mon "C10" "session_email_vouched_verified" idx s!"{saved}"
      else
        let us := getJ inp "idpUserinfo"
        if strD us "kind" != "ok" || !(boolD us "verified") || strD us "email" == "" || strD us "email" != saved then
          v := v.mon "C10" "session_email_vouched_verified" idx s!"{saved}"
      if !emailOK (toB saved) then v := v.mon "C09" "callback_session_for_disallowed_email" idx
    -- C18 (auth half): every response at or below the service mux carries the six headers
    if inService && !panicked then
      let sec := getJ out "secHeaders"
      for (k, want) in secSix do
        if strs sec k != [want] then v := v.mon "C18" "auth_headers_every_endpoint" idx s!"{endpoint} {status}: {k} = {strs sec k}"
      for x in setCookies do
        if strD x "path" != "/" || !(boolD x "secure") || !(boolD x "httpOnly") || strD x "domain" != "sso-auth.x.io" then
          v := v.mon "C18" "auth_cookie_flags" idx x.compress
    -- C19 (auth half)
    if inService && endpoint == "sign_out" && method == "POST" then
      match cookie with
      | .opens ps =>
        let gatesOK := match route with | some rt => (firstFail c 0 r rt.gates).isNone | none => false
        if gatesOK then
          let nrev := (idpKinds.filter (· == "revoke")).length
          if nrev != 1 then v := v.mon "C19" "revoke_called_exactly_once" idx s!"{nrev}"
          -- what is revoked ends the *grant*: Google is handed the session's access token (which revokes the grant), Okta the
          -- refresh token with its type hint (revoking an Okta access token leaves the refresh token alive)
          for cl in ((jarr out "idpCalls").toOption.getD #[]) do
            if strD cl "kind" == "revoke" then
              if slug == "okta" && (strD cl "rawToken" != ps.refreshTok || strD cl "hint" != "refresh_token") then
                v := v.mon "C19" "revocation_ends_the_grant" idx s!"okta: token={strD cl "rawToken"} hint={strD cl "hint"}"
              if slug == "google" && strD cl "token" != ps.access then
                v := v.mon "C19" "revocation_ends_the_grant" idx s!"google: token={strD cl "token"}"
          let revokeOK := match strD (getJ inp "idpRevoke") "kind" with
            | "ok" => true
            | "status" => perrOf slug (getJ inp "idpRevoke") == .tokenRevoked
            | _ => false
          if revokeOK && (sessWrites != ["clear"] || status != 302) then v := v.mon "C19" "cleared_and_returned_iff_revoked" idx
          if !revokeOK && (sessWrites.contains "clear" || status == 302) then v := v.mon "C19" "stays_signed_in_when_revoke_fails" idx
        else if !idpKinds.isEmpty || sessWrites != [] then v := v.mon "C19" "signout_gated" idx
      | _ => pure ()
    -- C20: request-controlled text never changes the page structure; JSON bodies are well formed
    let templated := ["sign-in-page", "sign-out-page", "error-page"].contains (strD out "bodyKind")
    if templated && !(getJ out "structureBenign").isNull && !(boolD out "structureBenign") then
      v := v.mon "C20" "page_structure_invariant" idx (strD out "bodyHead")
    if strD out "bodyKind" == "json" && !(boolD out "jsonOK") then v := v.mon "C20" "json_error_wellformed" idx
    -- anything else with a body: if the client will treat it as HTML (declared, or sniffed because nothing was declared), it
    -- must be one of the templated pages — request text is never itself the document
    if !templated && strD out "bodyKind" == "other" && !(status ≥ 300 && status < 400) &&
       (strD out "effectiveType").startsWith "text/html" && strD out "htmlStructure" != "" then
      v := v.mon "C20" "request_text_served_as_html" idx s!"{strD out "effectiveType"} (declared: '{strD out "contentType"}'): {strD out "htmlStructure"}"
    idx := idx + 1
  pure v

end Sso.Drv.Authflow
