import Driver.Util
import Driver.Proxyflow
import SsoModel.Proxy
import SsoModel.AuthN
open Lean

/-! Driver engine `system` (C19; glue of C06 C07 C08 C10): both real services against each other and a stateful fake
identity provider. The model side composes `Proxy.proxy` (with the authenticator's answers *derived from the identity
provider's ledger*: a revoked token is refused, anything else confirmed) and `AuthN.signOut`; the monitors state C19 on the
implementation's own trace. -/
namespace Sso.Drv.System
open Sso.Proxy Sso.Drv.Proxyflow

def toB (s : String) : Sso.Validators.Bytes := s.toUTF8.toList

def P : Proxy.Policy :=
  { slug := "google", rules := ⟨[], [toB "x.io"], []⟩, allowedGroups := [], L := 7200, V := 60, G := 0,
    passAccessToken := false, skipPreflight := false }

def checkCase (j : Json) : Except String Verdict := do
  let mut v : Verdict := {}
  if (j.getObjVal? "setupError").toOption.isSome && !(getJ j "setupError").isNull then
    return v.diff 0 "setup" "ok" (getJ j "setupError") ["C19"]
  let mut idx := 0
  let mut signedOut := false       -- a sign-out has completed (revocation confirmed) since the last login
  for e in ((jarr j "evs").toOption.getD #[]) do
    let inp := getJ e "in"
    let out := getJ e "out"
    let op := strD inp "op"
    let host := strD inp "host"
    v := v.tag s!"op/{op}"
    if op == "login" then
      let user := strD inp "user"
      let allowed := user.endsWith "@x.io"
      v := v.cmp idx "login.completes" allowed (boolD out "ok") ["C19", "C06", "C07", "C08", "C10", "C09"]
      v := v.br (if allowed then "login/ok" else "login/refused")
      if boolD out "ok" then
        v := { v with nontrivial := true }
        signedOut := false
        -- glue: every hop of the flow was accepted by the *other* real service
        let hops := ((jarr out "hops").toOption.getD #[]).toList.map fun h => (strD h "path", intD h "status")
        let want : List (String × Int) := [("/", 302), ("/google/sign_in", 200), ("/google/start", 302), ("/google/callback", 302),
          ("/google/sign_in", 302), ("/oauth2/callback", 302), ("/", 200)]
        -- still signed in at the authenticator (and the identity provider still vouches for that session): straight back with a code
        let short : List (String × Int) := [("/", 302), ("/google/sign_in", 302), ("/oauth2/callback", 302), ("/", 200)]
        -- signed in at the authenticator with a session the identity provider no longer vouches for: dropped, sign-in page with 401
        let dropped : List (String × Int) := [("/", 302), ("/google/sign_in", 401)] ++ want.drop 1
        if boolD out "authSessionBefore" && hops == short then v := v.br "login/already-signed-in-at-authenticator"
        else if boolD out "authSessionBefore" && hops == dropped then v := v.br "login/authenticator-session-dropped"
        else v := v.cmp idx "login.hops" want hops ["C19", "C06", "C07", "C08", "C10"]
        match sessOf (getJ out "session") with
        | some s =>
          if s.email != toB user then
            v := v.mon "C10" "session_email_is_idp_user" idx s!"{showBytes s.email} vs {user}"
            v := v.mon "C06" "session_email_is_idp_user" idx s!"{showBytes s.email} vs {user}"
          if s.host != host then v := v.mon "C06" "session_not_bound_to_request_host" idx
          if s.lifetime != P.L then v := v.mon "C04" "login_lifetime_not_L" idx
        | none => v := v.mon "C06" "login_without_session" idx
      else if !(getJ out "session").isNull then
        v := v.mon "C09" "session_for_disallowed_user" idx
    else if op == "visit" || op == "replay" then
      if boolD out "skipped" then
        idx := idx + 1; continue
      let pres := getJ out "presented"
      let reached := intD out "reached" > 0
      match (if strD pres "kind" == "none" then none else sessOf pres) with
      | none =>
        v := v.cmp idx "visit.noSession" (302, false) (intD out "status", reached) ["C19", "C01"]
        v := v.br "visit/no-session"
        if reached then v := v.mon "C01" "upstream_without_session" idx
      | some s =>
        if s.lifetime == 0 || s.refresh == 0 || s.valid == 0 then
          idx := idx + 1; continue
        -- the authenticator relays the identity provider's ledger
        let revoked := boolD pres "tokenRevoked"
        let a : Ans := { validate := if revoked then .status 401 else .ok (),
                         refresh := if boolD pres "refreshDead" then .status 401 else .ok ("new", 3600),
                         profile := .ok [] }
        let r : ReqIn := { method := "GET", host := host, whitelistedPath := false, xhr := false }
        let m := proxy id P 0 r (.opens s) a
        let served : Bool := match m.outcome with | .forward _ => true | _ => false
        v := v.cmp idx "visit.served" served reached ["C19", "C04", "C01"]
        let keeps : Bool := match m.writes.getLast? with | some .clear => false | _ => true
        v := v.cmp idx "visit.cookieKept" keeps (boolD out "cookieKept") ["C19", "C04", "C01"]
        v := v.br s!"visit/{m.branch}"
        v := { v with nontrivial := true }
        let due := s.refresh < 0 || s.valid < 0
        -- C19: after the sign-out, any saved copy of the old session is refused at its next revalidation
        if revoked && due && reached then
          v := v.mon "C19" "old_session_refused_once_due" idx s!"valid {s.valid} refresh {s.refresh}"
          v := v.mon "C04" "due_validation_not_confirmed" idx
        if revoked && due && boolD out "cookieKept" then v := v.mon "C19" "old_session_cleared_once_due" idx
        if revoked && due then v := v.br "visit/revoked-and-due"
        if revoked && !due then v := v.br "visit/revoked-not-due"
        if s.lifetime < 0 && reached then v := v.mon "C04" "served_after_lifetime" idx
    else if op == "signout" then
      let mode := strD inp "revoke"
      v := { v with nontrivial := true }
      -- proxy half
      v := v.cmp idx "signout.proxy" (302, false, true) (intD out "proxyStatus", boolD out "proxyCookieKept", boolD out "toAuthenticator") ["C19"]
      if boolD out "proxyCookieKept" then v := v.mon "C19" "proxy_signout_clears" idx
      if strD out "returnAddress" != s!"http://{host}/" then v := v.mon "C19" "proxy_signout_return_address" idx (strD out "returnAddress")
      -- authenticator half, via the model
      let had := boolD out "authSessionBefore"
      let cookie : AuthN.CookieIn := if had then .opens { email := [], access := "", refreshTok := "", lifetime := 1, refresh := 1 } else .absent
      -- the real authenticator accepted the real proxy's signature: GET shows the confirmation page (or returns at once without a session)
      let (g, _, _) := AuthN.signOut "GET" cookie true
      let wantPage : Int := match g with | .page => 200 | _ => 302
      v := v.cmp idx "signout.page" wantPage (intD out "pageStatus") ["C19", "C07"]
      if had then
        let revokeOK := mode == "ok" || mode == "already"
        let (o, w, calls) := AuthN.signOut "POST" cookie revokeOK
        let wantStatus : Int := match o with | .redirect => 302 | .errorPage => 500 | .page => 200
        v := v.cmp idx "signout.confirm" (wantStatus, !w.isEmpty, calls) (intD out "confirmStatus", !(boolD out "authCookieKept"), strs out "idpCalls") ["C19"]
        v := v.br s!"signout/{mode}"
        let aft := getJ out "after"
        if revokeOK then
          signedOut := true
          if intD out "confirmStatus" == 302 && strD out "confirmLocation" != strD out "returnAddress" then
            v := v.mon "C19" "returned_to_the_signed_address" idx (strD out "confirmLocation")
          if !aft.isNull && !(boolD aft "tokenRevoked") then v := v.mon "C19" "token_revoked_at_idp" idx
          if boolD out "authCookieKept" then v := v.mon "C19" "cleared_and_returned_iff_revoked" idx
        else
          if !(boolD out "authCookieKept") || intD out "confirmStatus" == 302 then v := v.mon "C19" "stays_signed_in_when_revoke_fails" idx
      else v := v.br "signout/no-auth-session"
    idx := idx + 1
  let _ := signedOut
  pure v

end Sso.Drv.System
