import Driver.Util
import SsoModel.SfWrappers
open Lean

/-! Driver engine `sfwrap`: both real SingleFlightProvider middlewares (C16: keys, merged answers, session updates). -/
namespace Sso.Drv.Sfwrap
open Sso.SfWrappers

structure Caller where
  method : String
  access : Bytes
  refresh : Bytes
  email : Bytes
  groups : List Bytes
  sorted : List Bytes
  deriving Inhabited

def callerOf (j : Json) : Except String Caller := do
  pure { method := ← jstr j "method", access := ← jhex j "access", refresh := ← jhex j "refresh",
         email := ← jhex j "email", groups := ← jhexArr j "groups", sorted := ← jhexArr j "sortedGroups" }

def slash : UInt8 := 47
def colon : UInt8 := 58
def comma : UInt8 := 44

/-- endpoint literal per (side, method); mirrors Generated.sf_keys_* (checked by C16_key_shapes) -/
def endpoint (side method : String) : String :=
  match side, method with
  | "proxy", "validate" => "ValidateSessionState"
  | "proxy", "refresh" => "RefreshSession"
  | "proxy", "usergroups" => "UserGroups"
  | "auth", "validate" => "ValidateSessionState"
  | "auth", "refreshIfNeeded" => "RefreshSessionIfNeeded"
  | "auth", "membership" => "ValidateGroupMembership"
  | "auth", "revoke" => "Revoke"
  | "auth", "refreshToken" => "RefreshAccessToken"
  | _, _ => "?"

def keyPart (c : Caller) : Bytes :=
  match c.method with
  | "validate" | "revoke" => c.access
  | "refresh" | "refreshIfNeeded" | "refreshToken" => c.refresh
  | _ => membershipKey colon comma c.email c.sorted

def modelKey (side : String) (c : Caller) : Bytes :=
  compositeKey slash (bytesOfString (endpoint side c.method)) (keyPart c)

def mutating (m : String) : Bool := m == "validate" || m == "refresh" || m == "refreshIfNeeded"

/-- same subject in the sense of the property -/
def sameSubject (a b : Caller) : Bool :=
  a.method == b.method &&
  (match a.method with
   | "validate" | "revoke" => a.access == b.access
   | "refresh" | "refreshIfNeeded" | "refreshToken" => a.refresh == b.refresh
   | _ => a.email == b.email && a.sorted == b.sorted)

def sessFields (j : Json) : Json :=
  Json.mkObj [("access", (j.getObjVal? "access").toOption.getD Json.null),
              ("refresh", (j.getObjVal? "refresh").toOption.getD Json.null),
              ("valid", (j.getObjVal? "valid").toOption.getD Json.null),
              ("grace", (j.getObjVal? "grace").toOption.getD Json.null),
              ("groups", (j.getObjVal? "groups").toOption.getD Json.null)]

def initialSess (c : Caller) : Json :=
  Json.mkObj [("access", showBytes c.access), ("refresh", (-60 : Int)), ("valid", (-60 : Int)), ("grace", Json.null),
              ("groups", Json.arr #[])]

def checkCase (j : Json) : Except String Verdict := do
  let side ← jstr j "side"
  let callers ← (← jarr j "callers").toList.mapM callerOf
  let obs := (← jarr j "obs").toList
  let mut v : Verdict := {}
  let mut table : List (Bytes × Nat) := []      -- key ↦ index of the caller executing it
  let mut idx := 0
  for (c, o) in callers.zip obs do
    let k := modelKey side c
    let P := if c.method == "revoke" then ["C16", "C19"]
             else if c.method == "validate" || c.method == "refresh" || c.method == "refreshIfNeeded" then
               (if side == "proxy" then ["C16", "C04", "C01"] else ["C16", "C09"])
             else ["C16"]
    let role ← jstr o "role"
    let ikey ← jhex o "key"
    v := v.tag s!"{side}/{c.method}"
    if c.method == "redeem" then
      -- redemption is not coalesced at all: every callback's code goes to the authenticator / identity provider on its own
      let PR := if side == "proxy" then ["C16", "C06", "C01"] else ["C16", "C10", "C09"]
      v := v.cmp idx "role" "leader" role PR
      v := v.cmp idx "key" "" (hex ikey) PR
      v := v.br s!"{side}/redeem/leader"
      let res := (o.getObjVal? "result").toOption.getD Json.null
      let deny := (j.getObjVal? "deny").toOption.bind (·.getBool?.toOption) |>.getD false
      let want := if deny then "" else "user-of-" ++ showBytes c.access
      let got := (res.getObjVal? "email").toOption.bind (·.getStr?.toOption) |>.getD "?"
      if got != want then
        for p in (if side == "proxy" then ["C06", "C16"] else ["C10", "C16"]) do
          v := v.mon p "redeem_answers_own_code" idx s!"code {showBytes c.access}: session for {got}"
      idx := idx + 1
      continue
    match table.find? (·.1 == k) with
    | some (_, li) =>
      v := v.cmp idx "role" "follower" role P
      v := v.cmp idx "key" (hex k) (hex ikey) P
      v := { v with nontrivial := true }
      v := v.br s!"{side}/{c.method}/follower"
      let lo := obs[li]!
      let lc := callers[li]!
      -- model: a follower receives the leader's answer …
      let lr := (lo.getObjVal? "result").toOption.getD Json.null
      let fr := (o.getObjVal? "result").toOption.getD Json.null
      v := v.cmp idx "follower_result" lr.compress fr.compress ["C16"]
      -- … and, for the mutating methods, its own session is left as it was (mutatingSF)
      let fs := sessFields ((o.getObjVal? "sess").toOption.getD Json.null)
      let ls := sessFields ((lo.getObjVal? "sess").toOption.getD Json.null)
      if mutating c.method then
        let fsNorm := fs.setObjVal! "refresh" (-60 : Int) |>.setObjVal! "valid" (-60 : Int)
        let refr := (fs.getObjVal? "refresh").toOption.getD Json.null
        let vald := (fs.getObjVal? "valid").toOption.getD Json.null
        let near (x : Json) : Bool := match x.getInt? with | .ok n => n ≥ -62 && n ≤ -59 | _ => false
        if !(near refr && near vald) || fsNorm.compress != (initialSess c).compress then
          v := v.diff idx "follower_session_unchanged" (initialSess c) fs ["C16"]
      -- monitor: merged ⇒ same endpoint and same subject
      if !sameSubject c lc then
        let fp := c.email.contains colon || lc.email.contains colon || c.groups.any (·.contains comma) || lc.groups.any (·.contains comma)
        let sameWire := c.method == lc.method && keyPart c == keyPart lc
        v := v.mon "C16" "different_subjects_merged" idx s!"{showBytes k}" (if fp && sameWire then "sf-key-separators" else "")
      -- monitor: merged callers end up with the same session updates
      if mutating c.method && fs.compress != ls.compress then
        -- footprint of the known finding: follower of a session-mutating method whose own session was left unchanged
        let fsNorm := fs.setObjVal! "refresh" (-60 : Int) |>.setObjVal! "valid" (-60 : Int)
        let fp := fsNorm.compress == (initialSess c).compress
        v := v.mon "C16" "follower_same_updates" idx s!"leader {ls.compress} follower {fs.compress}" (if fp then "sf-follower-session" else "")
    | none =>
      v := v.cmp idx "role" "leader" role P
      v := v.cmp idx "key" (hex k) (hex ikey) P
      v := v.br s!"{side}/{c.method}/leader"
      table := (k, idx) :: table
      -- monitor: not merged although an identical call (same endpoint+subject) is executing — allowed by the
      -- property only if … it is never allowed: identical overlapping calls must coalesce? No: the property bounds
      -- merging, it does not require it.  Nothing to check here.
    idx := idx + 1
  -- C16 / C04: whatever is merged, a caller's own hard lifetime is its own — no coalesced call moves it
  let mut li : Nat := 0
  for (_, o) in callers.zip obs do
    let sj := (o.getObjVal? "sess").toOption.getD Json.null
    match (sj.getObjVal? "lifetime").toOption.bind (·.getInt?.toOption) with
    | some l =>
      let want : Int := (10 + Int.ofNat li) * 3600
      if l < want - 1 || l > want + 1 then   -- (deadlines are truncated to the second)
        v := v.mons ["C16", "C04"] "lifetime_unchanged_by_coalesced_call" li s!"caller {li}: lifetime deadline {want} became {l}"
    | none => pure ()
    li := li + 1
  -- C19 (on the implementation's own roles and keys): a sign-out's revocation is merged only into a revocation of the
  -- *same token* — a second session of the same user must get its own call to the identity provider
  let mut seen : List (Bytes × Caller × Json) := []
  let mut i := 0
  for (c, o) in callers.zip obs do
    let role ← jstr o "role"
    let ikey ← jhex o "key"
    if role == "follower" then
      match seen.find? (·.1 == ikey) with
      | some (_, lc, lo) =>
        -- a merged caller is told exactly what the executing call was told — in particular a *failed* revocation is a failure
        -- for everyone who was waiting on it (nobody is signed out on the strength of an error somebody else received)
        let lr := (lo.getObjVal? "result").toOption.getD Json.null
        let fr := (o.getObjVal? "result").toOption.getD Json.null
        if lr.compress != fr.compress then
          for p in (if c.method == "revoke" then ["C19", "C16"] else ["C16"]) do
            v := v.mon p "joined_get_leaders_result" i s!"{c.method}: leader {lr.compress} follower {fr.compress}"
        if c.method == "revoke" && lc.access != c.access then
          v := v.mon "C19" "revoke_merged_across_tokens" i s!"{showBytes lc.access} / {showBytes c.access}"
        -- a due revalidation / refresh is answered from a provider call made with the session's *own* token
        if (c.method == "validate" && lc.access != c.access) || ((c.method == "refresh" || c.method == "refreshIfNeeded") && lc.refresh != c.refresh) then
          for p in (if side == "proxy" then ["C04", "C01"] else ["C09"]) do
            v := v.mon p "check_merged_across_tokens" i s!"{c.method}: {showBytes lc.access} / {showBytes c.access}"
        -- C16 on the implementation's own merging, where the model would not have merged (the model-side pass above reports the rest)
        if !sameSubject c lc && modelKey side c != modelKey side lc then
          v := v.mon "C16" "different_subjects_merged" i s!"{showBytes ikey}"
      | none => pure ()
    else seen := (ikey, c, o) :: seen
    i := i + 1
  pure v

end Sso.Drv.Sfwrap
