import Driver.Util
import SsoModel.Singleflight
open Lean

/-! Driver engine `sf`: the real singleflight.Group's schedule replayed through the LTS (C16). -/
namespace Sso.Drv.Sf
open Sso.Singleflight

def evOf (j : Json) : Except String Ev := do
  let op ← jstr j "op"
  let t ← jnat j "t"
  if op == "arrive" then pure (.arrive t (← jstr j "k"))
  else if op == "fnReturn" then pure (.fnReturn t (← jnat j "v"))
  else if op == "remove" then pure (.remove t)
  else if op == "wake" then pure (.wake t)
  else throw s!"bad op {op}"

def outJson : Out → Json
  | .leader _ => Json.mkObj [("r", "leader")]
  | .joined _ => Json.mkObj [("r", "joined")]
  | .fnDone => Json.mkObj [("r", "fnDone")]
  | .ret v n => Json.mkObj [("n", n), ("r", "ret"), ("v", v)]
  | .blocked => Json.mkObj [("r", "blocked")]
  | .disabled => Json.mkObj [("r", "disabled")]

/-- Monitor state, built from the implementation's outputs only. -/
structure Mon where
  leaderOf : List (String × Nat) := []          -- key ↦ thread currently executing fn (between leader and remove)
  published : List (String × Int) := []         -- key ↦ value published by the current call (after fnReturn)
  joined : List (String × Nat) := []            -- (key, thread) joined the current call of key
  askedKey : List (Nat × String) := []          -- thread ↦ key it asked for
  running : List String := []                   -- keys whose fn is executing now

def checkCase (j : Json) : Except String Verdict := do
  -- callers released at the same instant: never two executions for one key in flight, every caller gets the value of an
  -- execution of its own round
  match (j.getObjVal? "stress").toOption with
  | some sj =>
    let mut v : Verdict := { nontrivial := true }
    let num (k : String) : Int := (sj.getObjVal? k).toOption.bind (·.getInt?.toOption) |>.getD 0
    let fst := ((sj.getObjVal? "first").toOption.bind (·.getStr?.toOption)).getD ""
    v := v.cmp 0 "stress.maxInflight" (1 : Int) (num "maxInflight") ["C16"]
    if num "maxInflight" > 1 then
      v := v.mon "C16" "one_execution_per_key" 0 s!"{num "maxInflight"} executions for one key in flight at once ({num "callers"} callers released together, {num "rounds"} rounds)"
    if num "strangers" != 0 then v := v.mon "C16" "joined_get_leaders_result" 0 fst
    return v.br "stress"
  | none => pure ()
  let ops ← jarr j "ops"
  let mut s := S.init
  let mut v : Verdict := {}
  let mut m : Mon := {}
  let mut idx := 0
  for op in ops do
    let inp ← jget op "in"
    let ev ← evOf inp
    let o ← jget op "out"
    let (s', out) := step s ev
    v := v.cmp idx "out" (outJson out).compress o.compress ["C16"]
    let r ← jstr o "r"
    v := v.br s!"{(← jstr inp "op")}/{r}"
    -- monitor (C16 on the observed trace)
    match ev with
    | .arrive t k =>
      m := { m with askedKey := (t, k) :: m.askedKey.filter (·.1 != t) }
      if r == "leader" then
        -- at most one execution per key at a time; after the previous leader returned the next executes afresh
        if m.running.contains k then v := v.mon "C16" "one_execution_per_key" idx k
        if (m.leaderOf.find? (·.1 == k)).isSome then v := v.mon "C16" "leader_while_call_registered" idx k
        m := { m with leaderOf := (k, t) :: m.leaderOf, running := k :: m.running,
                      joined := m.joined.filter (·.1 != k), published := m.published.filter (·.1 != k) }
      else if r == "joined" then
        if (m.leaderOf.find? (·.1 == k)).isNone then v := v.mon "C16" "joined_without_call_for_key" idx k
        m := { m with joined := (k, t) :: m.joined }
        v := { v with nontrivial := true }
    | .fnReturn t val =>
      if r == "fnDone" then
        match m.askedKey.find? (·.1 == t) with
        | some (_, k) => m := { m with running := m.running.filter (· != k), published := (k, (val : Int)) :: m.published }
        | none => pure ()
    | .remove t =>
      if r == "ret" then
        match m.askedKey.find? (·.1 == t) with
        | some (_, k) =>
          let pv := (m.published.find? (·.1 == k)).map (·.2)
          if some (← jint o "v") != pv then v := v.mon "C16" "leader_returns_fn_result" idx
          let nj := (m.joined.filter (·.1 == k)).length
          if (← jnat o "n") != nj then v := v.mon "C16" "leader_count_eq_joined" idx s!"told {(← jnat o "n")} joined {nj}"
          m := { m with leaderOf := m.leaderOf.filter (·.1 != k) }
        | none => pure ()
    | .wake t =>
      if r == "ret" then
        match m.askedKey.find? (·.1 == t) with
        | some (_, k) =>
          let pv := (m.published.find? (·.1 == k)).map (·.2)
          if some (← jint o "v") != pv then v := v.mon "C16" "joined_get_leaders_result" idx
          if (← jnat o "n") != 0 then v := v.mon "C16" "follower_count_zero" idx
        | none => pure ()
      else if r == "blocked" then
        match m.askedKey.find? (·.1 == t) with
        | some (_, k) => if (m.published.find? (·.1 == k)).isSome then v := v.mon "C16" "follower_blocked_after_publish" idx
        | none => pure ()
    s := s'
    idx := idx + 1
  pure v

end Sso.Drv.Sf
