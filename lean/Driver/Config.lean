import Driver.Util
import SsoModel.Config
open Lean

/-! Driver engine `config` (C14). -/
namespace Sso.Drv.Config
open Sso.Config

/-- `strings.Replace(s, "{{k}}", v, -1)` for every variable (generated values contain no braces, so order is irrelevant) -/
def substAll (vars : List (String × String)) (s : String) : String :=
  vars.foldl (fun acc (k, v) => acc.replace ("{{" ++ k ++ "}}") v) s

def strList (j : Json) (k : String) : List String := (jstrArr j k).toOption.getD []
def smap (j : Json) (k : String) : SMap :=
  match j.getObjVal? k with
  | .ok (.obj kvs) => kvs.foldl (init := []) fun acc k v => mapSet acc k (v.getStr?.toOption.getD "")
  | _ => []
def jboolD (j : Json) (k : String) : Bool := (jbool j k).toOption.getD false
def jintD (j : Json) (k : String) : Int := (jint j k).toOption.getD 0
def jstrD (j : Json) (k : String) : String := (jstr j k).toOption.getD ""

def optsOf (S : String → String) (j : Json) : Opts :=
  { headerOverrides := (smap j "headerOverrides").foldl (fun m p => mapSet m (S p.1) (S p.2)) [],
    inject := (smap j "inject").foldl (fun m p => mapSet m (S p.1) (S p.2)) [],
    skipAuthRegex := (strList j "skipAuthRegex").map S, groups := (strList j "groups").map S,
    domains := (strList j "domains").map S, addrs := (strList j "addrs").map S,
    tlsSkipVerify := jboolD j "tlsSkipVerify", skipPreflight := jboolD j "skipPreflight", passAccessToken := jboolD j "passAccessToken",
    preserveHost := jboolD j "preserveHost", timeout := jintD j "timeout", resetDeadline := jintD j "resetDeadline",
    flushInterval := jintD j "flushInterval", skipSigning := jboolD j "skipSigning", providerSlug := S (jstrD j "providerSlug") }

def routeOf (S : String → String) (j : Json) : RouteCfg :=
  { from' := S (jstrD j "from"), to := S (jstrD j "to"), type := S (jstrD j "type"),
    options := match j.getObjVal? "options" with | .ok o => (if o.isNull then none else some (optsOf S o)) | _ => none }

def blockOf (S : String → String) (j : Json) : Option Block :=
  if jboolD j "null" then none
  else some { route := routeOf S ((j.getObjVal? "route").toOption.getD Json.null),
              extraRoutes := ((jarr j "extras").toOption.getD #[]).toList.map (routeOf S) }

def serviceOf (S : String → String) (j : Json) : Except String Service := do
  let names := (jstrArr j "clusters").toOption.getD []
  let blocks := ((jarr j "blocks").toOption.getD #[]).toList
  pure { name := S (← jstr j "name"), clusters := names.zip (blocks.map (blockOf S)) }

def boolTable (j : Json) (k : String) : String → Bool := fun s =>
  match j.getObjVal? k with
  | .ok t => (t.getObjVal? s).toOption.bind (·.getBool?.toOption) |>.getD false
  | _ => false

def errKind (s : String) : String :=
  let has (p : String) := (s.splitOn p).length > 1
  if has "missing `service`" then "missingService" else if has "missing `from`" then "missingFrom"
  else if has "missing `to`" then "missingTo" else if has "parse `from`" then "badFromUrl" else if has "parse `to`" then "badToUrl"
  else if has "rewrite from regex" then "badFromRegex" else if has "unknown routing config type" then "unknownType"
  else if has "skip auth regex" then "badSkipRegex" else if has "hmac auth" then "badHmac" else if has "missing setting" then "noAllowRule"
  else "other:" ++ s

def errName : LoadErr → String
  | .missingService => "missingService" | .missingFrom => "missingFrom" | .missingTo => "missingTo" | .badFromUrl => "badFromUrl"
  | .badToUrl => "badToUrl" | .badFromRegex => "badFromRegex" | .unknownType => "unknownType" | .badSkipRegex => "badSkipRegex"
  | .badHmac => "badHmac" | .noAllowRule => "noAllowRule"

def smapJson (m : SMap) : Json := Json.mkObj (m.map fun (k, v) => (k, Json.str v))

def resolvedJson (u : Resolved) : Json :=
  Json.mkObj [("service", u.service), ("from", u.from'), ("to", u.to), ("type", u.type),
    ("skip", toJson u.opts.skipAuthRegex), ("groups", toJson u.opts.groups), ("domains", toJson u.opts.domains), ("addrs", toJson u.opts.addrs),
    ("timeout", u.opts.timeout), ("resetDeadline", u.opts.resetDeadline), ("flushInterval", u.opts.flushInterval),
    ("headerOverrides", smapJson u.opts.headerOverrides), ("inject", smapJson u.opts.inject),
    ("tlsSkipVerify", u.opts.tlsSkipVerify), ("preserveHost", u.opts.preserveHost), ("skipSigning", u.opts.skipSigning),
    ("cookieName", u.opts.cookieName), ("providerSlug", u.opts.providerSlug), ("hmac", u.hmac),
    -- parseOptionsConfig never copies these two (candidate (f)): always false in the resolved upstream
    ("skipPreflight", false), ("passAccessToken", false)]

def implResolvedJson (j : Json) : Json :=
  let g (k : String) := (j.getObjVal? k).toOption.getD Json.null
  Json.mkObj (["service", "from", "to", "type", "skip", "groups", "domains", "addrs", "timeout", "resetDeadline", "flushInterval",
    "headerOverrides", "inject", "tlsSkipVerify", "preserveHost", "skipSigning", "cookieName", "providerSlug", "hmac",
    "skipPreflight", "passAccessToken"].map fun k => (k, g k))

/-- `parseEnvironment`: of the entries that start with `SSO_CONFIG_`, key = the lower-cased name after the prefix, value =
everything after the **first** `=`; a later entry with the same key wins -/
def envModel (lowerOf : String → String) (environ : List String) : List (String × String) :=
  environ.foldl (fun acc e =>
    if e.startsWith "SSO_CONFIG_" then
      match e.splitOn "=" with
      | name :: rest =>
        let key := lowerOf name |>.drop "sso_config_".length |>.toString
        let val := "=".intercalate rest
        (key, val) :: acc.filter (·.1 != key)
      | [] => acc
    else acc) []

def checkEnv (j : Json) : Except String Verdict := do
  let environ := ((jarr j "environ").toOption.getD #[]).toList.filterMap fun x => (x.getStr?.toOption.bind unhex).map fun b => String.fromUTF8! ⟨b.toArray⟩
  let lk : Json := (j.getObjVal? "lowerKeys").toOption.getD Json.null
  let lowerOf (s : String) : String := match lk.getObjVal? (hex s.toUTF8.toList) with
    | .ok (.str h) => ((unhex h).map fun b => String.fromUTF8! ⟨b.toArray⟩).getD s
    | _ => s
  let want := (envModel lowerOf environ).toArray.qsort (fun a b => a.1 < b.1) |>.toList
  let got : List (String × String) := match j.getObjVal? "got" with
    | .ok (.obj kvs) => (kvs.foldl (init := []) fun acc k v =>
        (((unhex k).map fun b => String.fromUTF8! ⟨b.toArray⟩).getD "?", ((v.getStr?.toOption.bind unhex).map fun b => String.fromUTF8! ⟨b.toArray⟩).getD "?") :: acc).toArray.qsort (fun a b => a.1 < b.1) |>.toList
    | _ => []
  let mut v : Verdict := { nontrivial := !environ.isEmpty }
  v := v.cmp 0 "env.vars" want got ["C14", "C12"]
  -- a value is never cut at a later '=' (padded base64 secrets, URLs with queries)
  for (k, val) in want do
    match got.find? (·.1 == k) with
    | some (_, g) => if g != val then
        v := v.mon "C12" "signing_key_from_environment_intact" 0 s!"{k}: '{g}' instead of '{val}'"
        v := v.mon "C14" "template_variable_from_environment_intact" 0 s!"{k}: '{g}' instead of '{val}'"
    | none => v := v.mon "C14" "template_variable_from_environment_intact" 0 s!"{k} missing"
  v := v.br "env"
  pure v

/-- `LoadConfig` from the process environment: either it refuses (an error — or a crash — at start-up), or the cluster name
and the deployment-default group list it loaded are exactly the ones stated -/
def checkLoadEnv (j : Json) : Except String Verdict := do
  let env := (j.getObjVal? "env").toOption.getD Json.null
  let out := (j.getObjVal? "out").toOption.getD Json.null
  let get (o : Json) (k : String) : Option String := (o.getObjVal? k).toOption.bind (·.getStr?.toOption)
  let loaded := (out.getObjVal? "loaded").toOption.bind (·.getBool?.toOption) |>.getD false
  let mut v : Verdict := { nontrivial := true }
  v := v.br (if loaded then "loadenv/loaded" else "loadenv/refused")
  if loaded then
    match get env "UPSTREAM_CLUSTER" with
    | some c => if get out "cluster" != some c then
        v := v.mon "C14" "selected_cluster_as_stated" 0 s!"UPSTREAM_CLUSTER={c} loaded as cluster {get out "cluster"}"
    | none => pure ()
    -- durations as the deployment writes them (Go duration syntax, the units the documentation uses)
    let secs (d : String) : Option Int :=
      let num := d.toList.takeWhile Char.isDigit
      let unit := String.ofList (d.toList.dropWhile Char.isDigit)
      match (String.ofList num).toNat?, unit with
      | some n, "s" => some n | some n, "m" => some (n * 60) | some n, "h" => some (n * 3600) | _, _ => none
    let geti (o : Json) (k : String) : Option Int := (o.getObjVal? k).toOption.bind (·.getInt?.toOption)
    for (var, field, props) in [("SESSION_TTL_LIFETIME", "ttlLifetime", ["C04", "C14"]), ("SESSION_TTL_VALID", "ttlValid", ["C04", "C14"]),
                                ("SESSION_TTL_GRACEPERIOD", "ttlGrace", ["C05", "C14"])] do
      match (get env var).bind secs with
      | some want => if geti out field != some want then
          v := v.mons props "session_ttl_as_stated" 0 s!"{var}={(get env var).getD ""} is in force as {geti out field} s"
      | none => pure ()
    for (var, field) in [("SESSION_COOKIE_NAME", "cookieName"), ("SESSION_COOKIE_DOMAIN", "cookieDomain")] do
      match get env var with
      | some want => if get out field != some want then v := v.mons ["C18", "C14"] "cookie_setting_as_stated" 0 s!"{var}={want} loaded as {get out field}"
      | none => pure ()
    for (var, field) in [("UPSTREAM_DEFAULT_EMAIL_DOMAINS", "defaultDomains"), ("UPSTREAM_DEFAULT_EMAIL_ADDRESSES", "defaultAddresses")] do
      match get env var with
      | some want => if (jstrArr out field).toOption.getD [] != want.splitOn "," then
          v := v.mons ["C14", "C11"] "deployment_default_as_stated" 0 s!"{var}={want} loaded as {(jstrArr out field).toOption.getD []}"
      | none => pure ()
    -- every other setting the deployment states: in force as stated
    let secsS (d : String) : String := match secs d with | some n => s!"{n}s" | none => d
    let gotm := (out.getObjVal? "got").toOption.getD Json.null
    match env with
    | .obj kvs =>
      for (k, want) in kvs.toList do
        match get gotm k with
        | some g =>
          let w := want.getStr?.toOption.getD ""
          let wn := if k.endsWith "_EXPIRE" || k.endsWith "_TIMEOUT" then secsS w else w
          if g != wn then
            v := v.mons (if k.startsWith "CLIENT_" || k.startsWith "PROVIDER_" then ["C14", "C08", "C19"] else if k == "REQUESTSIGNER_KEY" then ["C14", "C12"] else ["C14"])
              "setting_as_stated" 0 s!"{k}={w} is in force as '{g}'"
        | none => pure ()
    | _ => pure ()
    match get env "UPSTREAM_DEFAULT_GROUPS" with
    | some g =>
      let gotG := (jstrArr out "defaultGroups").toOption.getD []
      if gotG != g.splitOn "," then
        v := v.mon "C14" "deployment_default_as_stated" 0 s!"UPSTREAM_DEFAULT_GROUPS={g} loaded as {gotG}"
    | none => pure ()
  pure v

def checkCase (j : Json) : Except String Verdict := do
  if (j.getObjVal? "kind").toOption.bind (·.getStr?.toOption) == some "rawyaml" then
    -- a document with a value of the wrong YAML type is refused — never loaded with the mistyped restriction left out
    let out := (j.getObjVal? "out").toOption.getD Json.null
    let loaded := (out.getObjVal? "loaded").toOption.bind (·.getBool?.toOption) |>.getD false
    let mut v : Verdict := { nontrivial := true }
    v := v.cmp 0 "rawyaml.loaded" false loaded ["C14"]
    if loaded then
      v := v.mon "C14" "mistyped_document_refused" 0 s!"loaded as {((out.getObjVal? "ups").toOption.getD Json.null).compress} from: {((j.getObjVal? "yaml").toOption.bind (·.getStr?.toOption)).getD ""}"
    return v.br "rawyaml"
  if (j.getObjVal? "kind").toOption.bind (·.getStr?.toOption) == some "loadenv" then return ← checkLoadEnv j
  if (j.getObjVal? "kind").toOption.bind (·.getStr?.toOption) == some "env" then return ← checkEnv j
  let doc ← jget j "doc"
  let vars : List (String × String) := match doc.getObjVal? "vars" with
    | .ok (.obj kvs) => kvs.foldl (init := []) fun acc k v => (k, v.getStr?.toOption.getD "") :: acc
    | _ => []
  let S := substAll vars
  let services ← (← jarr doc "services").toList.mapM (serviceOf S)
  let cluster ← jstr doc "cluster"
  let defaults : Opts := { addrs := strList doc "defAddrs", domains := strList doc "defDoms", groups := strList doc "defGrps",
                           timeout := jintD doc "defTimeout", providerSlug := jstrD doc "defSlug", cookieName := "_sso_proxy" }
  let keys := vars.filterMap fun (k, v) => if k.endsWith "_signing_key" then some ((k.dropEnd "_signing_key".length).toString, v) else none
  let O : Oracles := { okUrl := boolTable j "okUrl", okRegex := boolTable j "okRegex", okHmac := boolTable j "okHmac" }
  let out ← jget j "out"
  let model := load O services cluster defaults keys
  let mut v : Verdict := {}
  match model, out.getObjVal? "err" with
  | .error e, .ok (.str s) =>
    v := v.cmp 0 "config.error" (errName e) (errKind s) ["C14"]
    v := v.br s!"error/{errName e}"
  | .error e, _ =>
    v := v.diff 0 "config.error" (errName e) "loaded" ["C14"]
  | .ok _, .ok (.str s) =>
    v := v.diff 0 "config.error" "loaded" (errKind s) ["C14"]
  | .ok ups, _ =>
    let iups := ((jarr out "ups").toOption.getD #[]).toList
    v := v.cmp 0 "config.count" ups.length iups.length ["C14"]
    v := v.br "loaded"
    if !ups.isEmpty then v := { v with nontrivial := true }
    -- C13: rewrite routes are tried in the order the configuration resolves them — every service's own route in file order,
    -- then the extra routes in file order (a later service's route is never outranked by an earlier service's extra route)
    let key (j : Json) : String := s!"{(j.getObjVal? "service").toOption.getD Json.null}|{(j.getObjVal? "from").toOption.getD Json.null}"
    let wantOrder := ups.map fun m => key (resolvedJson m)
    let gotOrder := iups.map key
    if wantOrder != gotOrder && wantOrder.toArray.qsort (· < ·) == gotOrder.toArray.qsort (· < ·) then
      v := v.mons ["C13", "C14"] "routes_in_resolved_order" 0 s!"resolved order {gotOrder}, the configuration says {wantOrder}"
    let mut i := 0
    for (m, im) in ups.zip iups do
      v := v.cmp i "config.resolved" (resolvedJson m).compress (implResolvedJson im).compress ["C14", "C13"]
      -- every listed skip-auth pattern is compiled, each as written (after template substitution): nothing merged, dropped or re-flagged
      let gotSkip := (jstrArr im "skip").toOption.getD []
      if gotSkip != m.opts.skipAuthRegex then
        v := v.mon "C14" "skip_patterns_compiled_as_written" i s!"listed {m.opts.skipAuthRegex}, compiled {gotSkip}"
      if m.opts.skipAuthRegex != [] then v := v.br "loaded/skip-regex"
      i := i + 1
  -- monitor (C14 on the implementation's own output)
  match out.getObjVal? "ups" with
  | .ok (.arr iups) =>
    let mut i := 0
    for u in iups do
      let g (k : String) := strList u k
      if jstrD u "service" == "" || jstrD u "from" == "" || jstrD u "to" == "" then v := v.mon "C14" "loaded_upstream_incomplete" i
      if g "groups" == [] && g "domains" == [] && g "addrs" == [] then v := v.mon "C14" "never_open_by_omission" i
      if jstrD u "routeKind" == "" then v := v.mon "C14" "no_valid_route" i
      i := i + 1
    -- provenance: a restriction list of a resolved upstream is, wholesale, one that this service's own blocks (selected
    -- cluster block, default block, their extra routes) state, or the deployment default — never another service's
    for u in iups do
      let name := jstrD u "service"
      let mine := services.filter fun s => name.startsWith (cleanWhiteSpace s.name)
      let optsOf (b : Option (Option Block)) : List Opts := match b with
        | some (some b) => (b.route :: b.extraRoutes).filterMap (·.options)
        | _ => []
      let own : List Opts := defaults :: mine.flatMap fun s => optsOf (lookupBlock s "default") ++ optsOf (lookupBlock s cluster)
      let chk (nm key : String) (sel : Opts → List String) (v : Verdict) : Verdict :=
        let got := strList u key
        if got != [] && !(own.any fun o => sel o == got) then v.mon "C14" "setting_from_own_blocks_only" 0 s!"{name}: {nm} = {got} is stated by none of its blocks nor the deployment default"
        else v
      v := chk "allowed_groups" "groups" (·.groups) v
      v := chk "allowed_email_domains" "domains" (·.domains) v
      v := chk "allowed_email_addresses" "addrs" (·.addrs) v
      v := chk "skip_auth_regex" "skip" (·.skipAuthRegex) v
    -- field-by-field inheritance: restrictions stated in the default block stay in force unless the cluster block restates that list
    let mut ti := 0      -- index of this service's top-level upstream in the loader's output (tops come first, in document order)
    for s in services do
      if (resolveService s cluster).isNone then continue
      let u := iups[ti]?.getD Json.null
      ti := ti + 1
      match lookupBlock s "default", lookupBlock s cluster with
      | some (some d), some (some c) =>
        if cluster != "default" then
          match d.route.options with
          | some od =>
            let svc := cleanWhiteSpace s.name
            let stated (sel : Opts → List String) := match c.route.options with | some oc => sel oc != [] | none => false
            let chk (name : String) (sel : Opts → List String) (got : List String) (v : Verdict) : Verdict :=
              if sel od != [] && !stated sel && got != sel od then
                let fp := c.route.options.isSome
                v.mon "C14" "cluster_inherits" 0 s!"{svc}: {name} of the default block {sel od} became {got}" (if fp then "cluster-options-replace-default" else "")
              else v
            v := chk "allowed_groups" (·.groups) (strList u "groups") v
            v := chk "allowed_email_domains" (·.domains) (strList u "domains") v
            v := chk "allowed_email_addresses" (·.addrs) (strList u "addrs") v
            v := chk "skip_auth_regex" (·.skipAuthRegex) (strList u "skip") v
          | none => pure ()
      | _, _ => pure ()
  | _ => pure ()
  pure v

end Sso.Drv.Config
