import Driver.Util
import Driver.Breaker
import Driver.Sf
import Driver.Sfwrap
import Driver.Caches
import Driver.Validators
import Driver.Aead
import Driver.Config
import Driver.Proxyflow
import Driver.Forward
import Driver.Authflow
import Driver.Htmlesc
import Driver.System
open Lean Sso.Drv

/-! `ssoverif <trace.jsonl>`: one verdict line per case, then a summary line. -/

def dispatch (e : String) (j : Json) : Except String Verdict :=
  match e with
  | "breaker" => Sso.Drv.Breaker.checkCase j
  | "sf" => Sso.Drv.Sf.checkCase j
  | "sfwrap" => Sso.Drv.Sfwrap.checkCase j
  | "caches" => Sso.Drv.Caches.checkCase j
  | "validators" => Sso.Drv.Validators.checkCase j
  | "aead" => Sso.Drv.Aead.checkCase j
  | "config" => Sso.Drv.Config.checkCase j
  | "proxyflow" => Sso.Drv.Proxyflow.checkCase j
  | "forward" => Sso.Drv.Forward.checkCase j
  | "authflow" => Sso.Drv.Authflow.checkCase j
  | "htmlesc" => Sso.Drv.Htmlesc.checkCase j
  | "system" => Sso.Drv.System.checkCase j
  | _ => throw s!"unknown engine {e}"

partial def loop (h : IO.FS.Stream) (out : IO.FS.Stream) (n bad : Nat) : IO (Nat × Nat) := do
  let line ← h.getLine
  if line.isEmpty then return (n, bad)
  if line.trimAscii.toString.isEmpty then return ← loop h out n bad
  match Json.parse line with
  | .error e =>
    out.putStrLn (Json.mkObj [("error", s!"parse: {e}")]).compress
    loop h out (n+1) (bad+1)
  | .ok j =>
    let cid := (j.getObjVal? "case").toOption.getD Json.null
    match (do let e ← jstr j "e"; dispatch e j) with
    | .error e =>
      out.putStrLn (Json.mkObj [("case", cid), ("error", e)]).compress
      loop h out (n+1) (bad+1)
    | .ok v =>
      out.putStrLn (v.toJson cid).compress
      loop h out (n+1) bad

def main (args : List String) : IO UInt32 := do
  let stdout ← IO.getStdout
  match args with
  | [path] =>
    let h ← IO.FS.Handle.mk path .read
    let (n, bad) ← loop (IO.FS.Stream.ofHandle h) stdout 0 0
    stdout.putStrLn (Json.mkObj [("summary", true), ("cases", n), ("errors", bad)]).compress
    return 0
  | _ =>
    IO.eprintln "usage: ssoverif <trace.jsonl>"
    return 2
