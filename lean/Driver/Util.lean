import Lean.Data.Json
open Lean

/-! Line-protocol helpers shared by all driver engines (core-only). -/
namespace Sso.Drv

abbrev Bytes := List UInt8

def hexVal (c : Char) : Option UInt8 :=
  if '0' ≤ c ∧ c ≤ '9' then some (c.toNat - '0'.toNat).toUInt8
  else if 'a' ≤ c ∧ c ≤ 'f' then some (c.toNat - 'a'.toNat + 10).toUInt8
  else if 'A' ≤ c ∧ c ≤ 'F' then some (c.toNat - 'A'.toNat + 10).toUInt8
  else none

def unhexAux : List Char → Bytes → Option Bytes
  | [], acc => some acc.reverse
  | [_], _ => none
  | a :: b :: t, acc =>
    match hexVal a, hexVal b with
    | some x, some y => unhexAux t ((x * 16 + y) :: acc)
    | _, _ => none

def unhex (s : String) : Option Bytes := unhexAux s.toList []

def hexDigit (n : UInt8) : Char :=
  if n < 10 then Char.ofNat ('0'.toNat + n.toNat) else Char.ofNat ('a'.toNat + n.toNat - 10)

def hex (b : Bytes) : String :=
  String.ofList (b.foldr (fun x acc => hexDigit (x / 16) :: hexDigit (x % 16) :: acc) [])

def bytesOfString (s : String) : Bytes := s.toUTF8.toList

/-- Lossy rendering for diagnostics only. -/
def showBytes (b : Bytes) : String :=
  String.ofList (b.map fun x => if 32 ≤ x ∧ x < 127 then Char.ofNat x.toNat else '?')

def jget (j : Json) (k : String) : Except String Json := j.getObjVal? k
def jstr (j : Json) (k : String) : Except String String := do (← jget j k).getStr?
def jint (j : Json) (k : String) : Except String Int := do (← jget j k).getInt?
def jnat (j : Json) (k : String) : Except String Nat := do (← jget j k).getNat?
def jbool (j : Json) (k : String) : Except String Bool := do (← jget j k).getBool?
def jarr (j : Json) (k : String) : Except String (Array Json) := do (← jget j k).getArr?
def jhex (j : Json) (k : String) : Except String Bytes := do
  match unhex (← jstr j k) with
  | some b => pure b
  | none => throw s!"bad hex in {k}"
def jhexArr (j : Json) (k : String) : Except String (List Bytes) := do
  let a ← jarr j k
  a.toList.mapM fun x => do
    match unhex (← x.getStr?) with
    | some b => pure b
    | none => throw s!"bad hex in {k}"
def jisNull (j : Json) (k : String) : Bool :=
  match j.getObjVal? k with
  | .ok .null => true
  | .ok _ => false
  | .error _ => true
def jstrArr (j : Json) (k : String) : Except String (List String) := do
  (← jarr j k).toList.mapM (·.getStr?)

/-- Accumulated judgement for one case. -/
structure Verdict where
  diffs : Array Json := #[]          -- model vs implementation disagreements
  monitor : Array Json := #[]        -- property-monitor failures on the implementation's own trace
  known : Array String := #[]        -- known-finding footprints matched
  branches : Array String := #[]     -- model branch ids hit
  nontrivial : Bool := false
  tags : Array String := #[]         -- input-distribution tags

def Verdict.diff (v : Verdict) (op : Nat) (field : String) (model impl : Json) (props : List String) : Verdict :=
  { v with diffs := v.diffs.push (Json.mkObj [("op", op), ("field", field), ("model", model), ("impl", impl),
      ("props", Json.arr (props.map Json.str).toArray)]) }

def Verdict.mon (v : Verdict) (prop : String) (clause : String) (op : Nat) (detail : String := "")
    (known : String := "") : Verdict :=
  let base := [("prop", Json.str prop), ("clause", Json.str clause), ("op", toJson op), ("detail", Json.str detail)]
  let fields := if known == "" then base else base ++ [("known", Json.str known)]
  { v with monitor := v.monitor.push (Json.mkObj fields),
           known := if known == "" || v.known.contains known then v.known else v.known.push known }

/-- the same monitor clause reported under several properties (each property's check filters by its own id) -/
def Verdict.mons (v : Verdict) (props : List String) (clause : String) (op : Nat) (detail : String := "") : Verdict :=
  props.foldl (fun v p => v.mon p clause op detail) v

def Verdict.br (v : Verdict) (b : String) : Verdict :=
  if v.branches.contains b then v else { v with branches := v.branches.push b }

def Verdict.tag (v : Verdict) (b : String) : Verdict :=
  if v.tags.contains b then v else { v with tags := v.tags.push b }

def Verdict.kn (v : Verdict) (b : String) : Verdict :=
  if v.known.contains b then v else { v with known := v.known.push b }

/-- compare one field -/
def Verdict.cmp [BEq α] [ToJson α] (v : Verdict) (op : Nat) (field : String) (model impl : α)
    (props : List String) : Verdict :=
  if model == impl then v else v.diff op field (toJson model) (toJson impl) props

def Verdict.toJson (v : Verdict) (caseId : Json) : Json :=
  Json.mkObj [("case", caseId), ("agree", v.diffs.isEmpty), ("diffs", Json.arr v.diffs),
    ("monitor", Json.arr v.monitor), ("known", Json.arr (v.known.map Json.str)),
    ("branches", Json.arr (v.branches.map Json.str)), ("nontrivial", v.nontrivial),
    ("tags", Json.arr (v.tags.map Json.str))]

end Sso.Drv
