#!/bin/bash
# Run once after a fresh restore, offline: builds the Lean project (model, specs, driver) and the fact extractor.
set -euo pipefail
cd "$(dirname "$0")"
export GOFLAGS=-mod=mod GOPROXY=off GOSUMDB=off GOTOOLCHAIN=local
mkdir -p .work/bin evidence replays
(cd tools/extract && go build -o ../../.work/bin/extract .)
W=$(mktemp -d -p .work)
.work/bin/extract "${VERIF_REPO:-/repo}" lean/Generated/Facts.lean "$W/problems.json"
rm -rf "$W"
(cd lean && lake build)
echo setup-ok
