package main

import (
	"bufio"
	"bytes"
	"crypto"
	"crypto/rsa"
	"crypto/sha256"
	"crypto/x509"
	"encoding/base64"
	"encoding/hex"
	"encoding/json"
	"encoding/pem"
	"fmt"
	"io"
	"math/rand"
	"net"
	"net/http"
	"net/http/httptest"
	"net/textproto"
	"regexp"
	"runtime"
	"sort"
	"strings"
	"time"

	"github.com/18F/hmacauth"
)

// Engine "forward" (C03, C12): the real sso-proxy tree on a real socket in front of a recording backend on a real
// socket. Requests are written by hand so that header spelling, multiplicity, Connection tokens, cookie layout and
// body framing are exactly the generator's. The backend rebuilds the documented signing document from what it received,
// fetches /oauth2/v1/certs, selects the key by `kid` and verifies the RSA signature itself; the HMAC signature is checked
// with the hmacauth library called directly.

type fwReq struct {
	Auth    string   `json:"auth"` // session | none
	Method  string   `json:"method"`
	Target  string   `json:"target"`
	Host    string   `json:"host"`
	Headers []string `json:"headers"` // raw "Name: value" lines, exact spelling
	Cookies []string `json:"cookies"` // raw Cookie header lines; "{SESSION}" is replaced by name=value of a valid session
	Body    string   `json:"body"`    // hex
	Chunked bool     `json:"chunked"`
	NoCL    bool     `json:"noCL"` // do not add a Content-Length line for the body
}

type fwCase struct {
	Cfg     pfCfg   `json:"cfg"`
	Reqs    []fwReq `json:"reqs"`
	Overlap []int   `json:"overlap"` // [sizeA, sizeB]: the overlapping-uploads scenario instead of a request list
}

var fwCovered = []string{"Content-Length", "Content-Md5", "Content-Type", "Date", "Authorization", "X-Forwarded-User", "X-Forwarded-Email",
	"X-Forwarded-Groups", "X-Forwarded-Access-Token", "Cookie"}

// the signing document as documented in request_signer.go, rebuilt from the request the backend received
func fwCanon(r *http.Request, body []byte) string {
	var entries []string
	for _, h := range fwCovered {
		var vs []string
		for _, v := range r.Header[h] {
			if v != "" {
				vs = append(vs, v)
			}
		}
		if len(vs) > 0 {
			entries = append(entries, strings.Join(vs, ","))
		}
	}
	u := r.URL.Path
	if r.URL.RawQuery != "" {
		u += "?" + r.URL.RawQuery
	}
	if r.URL.Fragment != "" {
		u += "#" + r.URL.Fragment
	}
	entries = append(entries, u, string(body))
	return strings.Join(entries, "\n")
}

func fwRun(c fwCase) M {
	w, err := newPfWorld(c.Cfg)
	if err != nil {
		return M{"cfg": c.Cfg, "setupError": err.Error(), "reqs": []M{}, "raw": c}
	}
	defer w.close()
	front := httptest.NewServer(w.handler)
	defer front.Close()
	addr := strings.TrimPrefix(front.URL, "http://")
	// published keys
	certs := map[string]string{}
	if c.Cfg.Signer {
		req, _ := http.NewRequest("GET", front.URL+"/oauth2/v1/certs", nil)
		req.Host = c.Cfg.Upstreams[0].From
		if resp, err := http.DefaultClient.Do(req); err == nil {
			b, _ := io.ReadAll(resp.Body)
			resp.Body.Close()
			json.Unmarshal(b, &certs)
		}
	}
	hm := hmacauth.NewHmacAuth(crypto.SHA256, []byte(pfHmacSecret), "Gap-Signature", fwCovered)
	w.verify = func(r *http.Request, body []byte, rec M) {
		if len(body) <= 1<<20 {
			rec["canon"] = hx(fwCanon(r, body))
		}
		if sig := r.Header.Get("Sso-Signature"); sig != "" {
			ok := false
			why := ""
			if pemStr, found := certs[r.Header.Get("Kid")]; found {
				blk, _ := pem.Decode([]byte(pemStr))
				if blk != nil {
					if pub, err := x509.ParsePKCS1PublicKey(blk.Bytes); err == nil {
						sb, err := base64.URLEncoding.DecodeString(sig)
						if err == nil {
							d := sha256.Sum256([]byte(fwCanon(r, body)))
							if rsa.VerifyPKCS1v15(pub, crypto.SHA256, d[:], sb) == nil {
								ok = true
							} else {
								why = "signature does not verify"
							}
							// the key id is the hex sha256 of the published PEM
							kh := sha256.Sum256([]byte(pemStr))
							rec["kidMatchesKey"] = hex.EncodeToString(kh[:]) == r.Header.Get("Kid")
						} else {
							why = "bad base64"
						}
					}
				}
			} else {
				why = "kid not published"
			}
			rec["rsaOK"] = ok
			rec["rsaWhy"] = why
		}
		if r.Header.Get("Gap-Signature") != "" {
			r2 := r.Clone(r.Context())
			r2.Body = io.NopCloser(bytes.NewReader(body))
			res, _, _ := hm.AuthenticateRequest(r2)
			rec["hmacOK"] = res == hmacauth.ResultMatch
		}
	}
	var outs []M
	for i := range c.Reqs {
		rq := &c.Reqs[i]
		for time.Now().Nanosecond() > 700_000_000 {
			time.Sleep(20 * time.Millisecond)
		}
		now := time.Now().Truncate(time.Second)
		sess := pfGoodSess(rq.Host)
		sess.Groups = []string{"eng", "ops"}
		sessVal := w.cookieName + "=" + w.sealSess(w.cipher, sess, now)
		body, _ := hex.DecodeString(rq.Body)
		var raw bytes.Buffer
		fmt.Fprintf(&raw, "%s %s HTTP/1.1\r\nHost: %s\r\n", rq.Method, rq.Target, rq.Host)
		for _, h := range rq.Headers {
			raw.WriteString(h + "\r\n")
		}
		var cookieLines []string
		for _, ck := range rq.Cookies {
			line := strings.Replace(ck, "{SESSION}", sessVal, -1)
			line = strings.Replace(line, "{SESSIONVAL}", strings.TrimPrefix(sessVal, w.cookieName+"="), -1)
			cookieLines = append(cookieLines, line)
			raw.WriteString("Cookie: " + line + "\r\n")
		}
		if rq.Auth == "session" && !strings.Contains(strings.Join(rq.Cookies, ""), "{SESSION}") {
			cookieLines = append(cookieLines, sessVal)
			raw.WriteString("Cookie: " + sessVal + "\r\n")
		}
		if rq.Chunked {
			raw.WriteString("Transfer-Encoding: chunked\r\n")
		} else if len(body) > 0 && !rq.NoCL {
			fmt.Fprintf(&raw, "Content-Length: %d\r\n", len(body))
		}
		raw.WriteString("Connection: close\r\n")
		raw.WriteString("\r\n")
		if rq.Chunked {
			half := len(body) / 2
			for _, part := range [][]byte{body[:half], body[half:]} {
				if len(part) > 0 {
					fmt.Fprintf(&raw, "%x\r\n", len(part))
					raw.Write(part)
					raw.WriteString("\r\n")
				}
			}
			raw.WriteString("0\r\n\r\n")
		} else {
			raw.Write(body)
		}
		// oracles computed with the library on the same bytes
		ora := M{}
		if pr, err := http.ReadRequest(bufio.NewReader(bytes.NewReader(raw.Bytes()))); err == nil {
			var cks [][2]string
			var rendered []string
			for _, ck := range pr.Cookies() {
				cks = append(cks, [2]string{ck.Name, ck.Value})
				rendered = append(rendered, ck.String())
			}
			ora["cookies"] = cks
			first := ""
			for _, ck := range pr.Cookies() {
				if ck.Name == w.cookieName {
					first = ck.Name + "=" + ck.Value
					break
				}
			}
			ora["firstSessionCookieGenuine"] = first == sessVal
			ora["rendered"] = rendered
			var toks []string
			for _, f := range pr.Header["Connection"] {
				for _, t := range strings.Split(f, ",") {
					if t = textproto.TrimString(t); t != "" {
						toks = append(toks, http.CanonicalHeaderKey(t))
					}
				}
			}
			ora["connTokens"] = toks
			hdr := M{}
			for k, v := range pr.Header {
				hdr[k] = v
			}
			ora["inHeaders"] = hdr
			ora["urlPath"] = pr.URL.Path
			ora["rawQuery"] = pr.URL.RawQuery
			skip := false
			for _, u := range c.Cfg.Upstreams {
				if u.From == pr.Host {
					for _, re := range u.Skip {
						if mustRe(re).MatchString(pr.URL.Path) {
							skip = true
						}
					}
				}
			}
			ora["skipMatch"] = skip
			ora["inContentLength"] = pr.ContentLength
		} else {
			ora["parseError"] = err.Error()
		}
		w.mu.Lock()
		w.cur = &pfStep{Validate: pfOK(), Refresh: pfOK(), Profile: pfReply{Kind: "ok", Groups: []string{"eng"}}, Redeem: pfOK()}
		w.reached = nil
		w.mu.Unlock()
		conn, err := net.Dial("tcp", addr)
		out := M{}
		if err != nil {
			out["dialError"] = err.Error()
		} else {
			conn.SetDeadline(time.Now().Add(5 * time.Second))
			conn.Write(raw.Bytes())
			resp, err := http.ReadResponse(bufio.NewReader(conn), nil)
			if err != nil {
				out["readError"] = err.Error()
			} else {
				rb, _ := io.ReadAll(resp.Body)
				resp.Body.Close()
				out["status"] = resp.StatusCode
				if len(rb) > 40 {
					rb = rb[:40]
				}
				out["body"] = string(rb)
			}
			conn.Close()
		}
		w.mu.Lock()
		reached := w.reached
		w.cur = nil
		w.mu.Unlock()
		if len(reached) > 0 {
			out["received"] = reached[0]
			out["receivedCount"] = len(reached)
		}
		outs = append(outs, M{"in": rq, "sess": M{"user": sess.User, "email": sess.Email, "groups": strings.Join(sess.Groups, ","), "access": sess.Access}, "oracle": ora, "out": out})
	}
	return M{"cfg": c.Cfg, "reqs": outs, "raw": c}
}

// fwOverlap: two signed uploads overlap inside the proxy. A (large) has been signed and is being streamed to a backend that
// does not read yet; B (smaller) is signed, forwarded and answered meanwhile; then A's backend reads. Each backend
// verifies the signature over exactly what it received.
func fwOverlap(c fwCase, nA, nB int) M {
	old := runtime.GOMAXPROCS(1) // one P: the overlap is the only source of nondeterminism left
	defer runtime.GOMAXPROCS(old)
	w, err := newPfWorld(c.Cfg)
	if err != nil {
		return M{"cfg": c.Cfg, "setupError": err.Error(), "reqs": []M{}, "raw": c}
	}
	defer w.close()
	front := httptest.NewServer(w.handler)
	defer front.Close()
	addr := strings.TrimPrefix(front.URL, "http://")
	certs := map[string]string{}
	if req, err := http.NewRequest("GET", front.URL+"/oauth2/v1/certs", nil); err == nil {
		req.Host = c.Cfg.Upstreams[0].From
		if resp, err := http.DefaultClient.Do(req); err == nil {
			b, _ := io.ReadAll(resp.Body)
			resp.Body.Close()
			json.Unmarshal(b, &certs)
		}
	}
	w.verify = func(r *http.Request, body []byte, rec M) {
		ok := false
		if pemStr, found := certs[r.Header.Get("Kid")]; found {
			if blk, _ := pem.Decode([]byte(pemStr)); blk != nil {
				if pub, err := x509.ParsePKCS1PublicKey(blk.Bytes); err == nil {
					if sb, err := base64.URLEncoding.DecodeString(r.Header.Get("Sso-Signature")); err == nil {
						d := sha256.Sum256([]byte(fwCanon(r, body)))
						ok = rsa.VerifyPKCS1v15(pub, crypto.SHA256, d[:], sb) == nil
					}
				}
			}
		}
		rec["rsaOK"] = ok
		d := sha256.Sum256(body)
		rec["bodySha"] = fmt.Sprintf("%x:%d", d, len(body))
		rec["cookieHdr"] = strings.Join(r.Header["Cookie"], " | ")
	}
	gen := func(n int, salt byte) []byte {
		b := make([]byte, n)
		for i := range b {
			b[i] = byte((i*31+7)%251) ^ salt
		}
		return b
	}
	now := time.Now().Truncate(time.Second)
	sess := pfGoodSess("app.x.io")
	sessVal := w.cookieName + "=" + w.sealSess(w.cipher, sess, now)
	w.mu.Lock()
	w.cur = &pfStep{Validate: pfOK(), Refresh: pfOK(), Profile: pfReply{Kind: "ok", Groups: []string{"eng"}}, Redeem: pfOK()}
	w.reached = nil
	w.mu.Unlock()
	w.hold, w.holdIn = make(chan struct{}), make(chan struct{}, 4)
	send := func(path string, body []byte, hold bool) (int, string) {
		conn, err := net.Dial("tcp", addr)
		if err != nil {
			return 0, err.Error()
		}
		defer conn.Close()
		conn.SetDeadline(time.Now().Add(30 * time.Second))
		var raw bytes.Buffer
		fmt.Fprintf(&raw, "POST %s HTTP/1.1\r\nHost: app.x.io\r\nCookie: %s\r\nContent-Type: application/octet-stream\r\nContent-Length: %d\r\n", path, sessVal, len(body))
		if hold {
			raw.WriteString("X-Verif-Hold: 1\r\n")
		}
		raw.WriteString("Connection: close\r\n\r\n")
		conn.Write(raw.Bytes())
		conn.Write(body)
		resp, err := http.ReadResponse(bufio.NewReader(conn), nil)
		if err != nil {
			return 0, err.Error()
		}
		io.Copy(io.Discard, resp.Body)
		resp.Body.Close()
		return resp.StatusCode, ""
	}
	bodyA, bodyB := gen(nA, 0), gen(nB, 0x5a)
	type rs struct {
		st  int
		err string
	}
	doneA := make(chan rs, 1)
	go func() { st, e := send("/upload-a", bodyA, true); doneA <- rs{st, e} }()
	overlapped := false
	select {
	case <-w.holdIn: // A is signed, its upstream request has started, its body is not read yet
		overlapped = true
	case <-time.After(20 * time.Second):
	}
	stB, errB := send("/upload-b", bodyB, false)
	close(w.hold)
	ra := <-doneA
	w.mu.Lock()
	reached := w.reached
	w.cur = nil
	w.mu.Unlock()
	sha := func(b []byte) string { d := sha256.Sum256(b); return fmt.Sprintf("%x:%d", d, len(b)) }
	out := M{"overlapped": overlapped, "statusA": ra.st, "errA": ra.err, "statusB": stB, "errB": errB, "sentA": sha(bodyA), "sentB": sha(bodyB)}
	for _, rec := range reached {
		k := "B"
		if rec["path"] == "/upload-a" {
			k = "A"
		}
		out["recv"+k] = rec["bodySha"]
		out["rsa"+k] = rec["rsaOK"]
	}
	// a slow upload: alice's body arrives in two parts (the signer is waiting for it); in between, bob's requests — other cookies —
	// are handled from start to end. Each backend request carries its own client's cookies, minus the session cookie.
	w.mu.Lock()
	w.reached = nil
	w.cur = &pfStep{Validate: pfOK(), Refresh: pfOK(), Profile: pfReply{Kind: "ok", Groups: []string{"eng"}}, Redeem: pfOK()}
	w.mu.Unlock()
	slow := func() (int, string) {
		conn, err := net.Dial("tcp", addr)
		if err != nil {
			return 0, err.Error()
		}
		defer conn.Close()
		conn.SetDeadline(time.Now().Add(30 * time.Second))
		body := gen(4096, 0x11)
		fmt.Fprintf(conn, "POST /slow-alice HTTP/1.1\r\nHost: app.x.io\r\nCookie: app_session=alice-secret; %s; theme=dark\r\nContent-Type: application/octet-stream\r\nContent-Length: %d\r\nConnection: close\r\n\r\n", sessVal, len(body))
		conn.Write(body[:2048])
		for i := 0; i < 40; i++ {
			if c2, err := net.Dial("tcp", addr); err == nil {
				c2.SetDeadline(time.Now().Add(10 * time.Second))
				fmt.Fprintf(c2, "GET /quick-bob-%d HTTP/1.1\r\nHost: app.x.io\r\nCookie: app_session=bob-secret-%d; %s\r\nConnection: close\r\n\r\n", i, i, sessVal)
				if resp, err := http.ReadResponse(bufio.NewReader(c2), nil); err == nil {
					io.Copy(io.Discard, resp.Body)
					resp.Body.Close()
				}
				c2.Close()
			}
		}
		conn.Write(body[2048:])
		resp, err := http.ReadResponse(bufio.NewReader(conn), nil)
		if err != nil {
			return 0, err.Error()
		}
		io.Copy(io.Discard, resp.Body)
		resp.Body.Close()
		return resp.StatusCode, ""
	}
	stS, errS := slow()
	w.mu.Lock()
	reached = w.reached
	w.cur = nil
	w.mu.Unlock()
	mixed := []string{}
	for _, rec := range reached {
		p, _ := rec["path"].(string)
		ck, _ := rec["cookieHdr"].(string)
		want := ""
		if p == "/slow-alice" {
			want = "app_session=alice-secret;theme=dark"
		} else if strings.HasPrefix(p, "/quick-bob-") {
			want = "app_session=bob-secret-" + strings.TrimPrefix(p, "/quick-bob-")
		} else {
			continue
		}
		if ck != want {
			mixed = append(mixed, fmt.Sprintf("%s got Cookie %q, its client sent %q (+ the session cookie)", p, ck, want))
		}
	}
	out["slowStatus"], out["slowErr"], out["slowReached"], out["cookieMixups"] = stS, errS, len(reached), mixed
	return M{"cfg": c.Cfg, "reqs": []M{}, "overlap": out, "raw": c}
}

var reCache = map[string]*regexp.Regexp{}

func mustRe(s string) *regexp.Regexp {
	if r, ok := reCache[s]; ok {
		return r
	}
	r := regexp.MustCompile(s)
	reCache[s] = r
	return r
}

func init() {
	engines["forward"] = func(rng *rand.Rand, n int, em *Emitter, replay []byte) {
		idx := 0
		emit := func(c fwCase) {
			var o M
			if len(c.Overlap) == 2 {
				o = fwOverlap(c, c.Overlap[0], c.Overlap[1])
			} else {
				o = fwRun(c)
			}
			o["e"] = "forward"
			o["case"] = idx
			em.Emit(o)
			idx++
		}
		if replay != nil {
			var w struct {
				Raw fwCase `json:"raw"`
			}
			if err := json.Unmarshal(replay, &w); err != nil {
				panic(err)
			}
			emit(w.Raw)
			return
		}
		cfg := func(signer, hm bool) pfCfg {
			c := pfBaseCfg()
			c.Upstreams = c.Upstreams[:1]
			c.Signer, c.Hmac = signer, hm
			return c
		}
		hexs := func(s string) string { return hex.EncodeToString([]byte(s)) }
		R := func(auth, method, target string, hdrs []string, cookies []string, body string) fwReq {
			return fwReq{Auth: auth, Method: method, Target: target, Host: "app.x.io", Headers: hdrs, Cookies: cookies, Body: hexs(body)}
		}
		spoof := []string{"X-Forwarded-Email: root@x.io", "x-forwarded-user: root", "X-FORWARDED-GROUPS: admins", "X-Forwarded-Access-Token: stolen", "X-Forwarded-Email: second@x.io"}
		emit(fwCase{Cfg: cfg(true, true), Reqs: []fwReq{
			R("session", "GET", "/a/b?q=1", nil, nil, ""),
			R("session", "GET", "/", spoof, nil, ""),
			R("none", "GET", "/health", spoof, nil, ""),
			R("none", "GET", "/public/x", []string{"X-Forwarded-Access-Token: stolen"}, []string{"a=b; _sso_proxy=forged; c=d"}, ""),
			R("session", "GET", "/", []string{"Connection: X-Forwarded-Email, Authorization", "Authorization: Bearer zzz"}, nil, ""),
			R("session", "GET", "/", []string{"Connection: cookie"}, []string{"keep=me"}, ""),
			R("session", "POST", "/submit?x=%2F", []string{"Content-Type: application/json", "Date: Mon, 01 Jan 2024 00:00:00 GMT", "Content-Md5: abc"}, nil, "{\"k\":\"v\"}"),
			R("session", "POST", "/submit", []string{"Content-Type: text/plain", "Content-Type: "}, nil, ""),
			R("session", "GET", "/", []string{"Content-Length: 0"}, nil, ""),
			R("session", "POST", "/", []string{"Content-Length: 0"}, nil, ""),
			func() fwReq {
				r := R("session", "POST", "/chunked", []string{"Content-Type: application/octet-stream"}, nil, "\x00\x01binary\xff body")
				r.Chunked = true
				return r
			}(),
			R("session", "GET", "/a%2Fb/c%20d?x=1&y=%26", nil, nil, ""),
			R("session", "GET", "/", nil, []string{"a=1; {SESSION}; b=2", "c=3"}, ""),
			R("session", "GET", "/", nil, []string{"{SESSION}"}, ""),
			R("session", "GET", "/", nil, []string{"x=\"quoted value\"; y=has space; z=a,b; {SESSION}; {SESSION}; =novalue; noequals"}, ""),
			R("session", "GET", "/", nil, []string{"_sso_proxy_csrf=keepme; {SESSION}; _SSO_PROXY=otherCase; _sso_proxy2=x"}, ""),
			R("session", "PUT", "/big", []string{"Content-Type: application/octet-stream"}, nil, strings.Repeat("0123456789abcdef", 4096)),
			R("session", "GET", "/", []string{"Authorization: Basic abc", "Authorization: Bearer def"}, nil, ""),
			// a genuine sealed session under a differently-cased cookie name is not the session cookie: no authentication
			R("none", "GET", "/", nil, []string{"_SSO_PROXY={SESSIONVAL}"}, ""),
			R("none", "GET", "/a", nil, []string{"x=1; _Sso_Proxy={SESSIONVAL}; y=2"}, ""),
			R("none", "GET", "/oauth2/auth", nil, []string{"_SSO_PROXY={SESSIONVAL}"}, ""),
			// the favicon route authenticates first and then goes through the same scrub and identity assertion
			R("session", "GET", "/favicon.ico", spoof, nil, ""),
			R("session", "GET", "/favicon.ico?v=2", []string{"X-Forwarded-Access-Token: forged"}, nil, ""),
			R("none", "GET", "/favicon.ico", spoof, nil, ""),
			// queries the standard library would rewrite if it re-parsed them: what is signed is what is sent
			R("session", "GET", "/search?q=a;b&c=3", nil, nil, ""),
			R("session", "GET", "/search?a=1;b=2", nil, nil, ""),
			R("session", "GET", "/cart?discount=100%", nil, nil, ""),
			R("session", "POST", "/cart?p=%zz&ok=1", []string{"Content-Type: text/plain"}, nil, "x"),
			R("session", "GET", "/s?a=b&&c=&=d&e", nil, nil, ""),
		}})
		emit(fwCase{Cfg: cfg(true, false), Reqs: []fwReq{R("session", "GET", "/x", nil, nil, ""), R("none", "GET", "/health", nil, nil, "")}})
		emit(fwCase{Cfg: cfg(true, false), Overlap: []int{12 << 20, 12<<20 - 4096}})
		emit(fwCase{Cfg: cfg(false, true), Reqs: []fwReq{R("session", "POST", "/x", []string{"Content-Type: a/b"}, nil, "body")}})
		emit(fwCase{Cfg: cfg(false, false), Reqs: []fwReq{R("session", "GET", "/x", spoof, []string{"a=b"}, "")}})
		injCfg := cfg(false, false)
		injCfg.Inject = map[string]string{"X-Env": "prod", "Authorization": "Basic injected"}
		emit(fwCase{Cfg: injCfg, Reqs: []fwReq{R("session", "GET", "/x", []string{"Authorization: client", "X-Env: dev"}, nil, ""), R("none", "GET", "/health", []string{"X-Env: dev"}, nil, "")}})
		// configured header injection next to signing, and injection of names the proxy asserts itself: the upstream gets the
		// session's identity (the configured value never replaces it), nothing on an unauthenticated skip-auth request, and the
		// signatures cover what was sent
		for _, sg := range [][2]bool{{true, true}, {true, false}, {false, true}, {false, false}} {
			ic := cfg(sg[0], sg[1])
			ic.Inject = map[string]string{"X-Env": "prod", "Authorization": "Basic injected", "Date": "injected-date"}
			emit(fwCase{Cfg: ic, Reqs: []fwReq{R("session", "GET", "/x", []string{"Authorization: client", "X-Env: dev"}, nil, ""), R("session", "POST", "/y", nil, nil, "body"),
				R("none", "GET", "/health", []string{"X-Env: dev", "Authorization: client"}, nil, "")}})
			ic2 := cfg(sg[0], sg[1])
			ic2.Inject = map[string]string{"X-Forwarded-Email": "service-account@injected.example", "x-forwarded-groups": "admins", "X-FORWARDED-USER": "svc", "X-Forwarded-Access-Token": "injected-token"}
			emit(fwCase{Cfg: ic2, Reqs: []fwReq{R("session", "GET", "/x", nil, nil, ""), R("session", "GET", "/x", spoof, []string{"a=b"}, ""), R("none", "GET", "/health", nil, nil, ""), R("none", "GET", "/health", spoof, nil, "")}})
		}
		// random
		names := []string{"X-Forwarded-Email", "X-Forwarded-User", "X-Forwarded-Groups", "X-Forwarded-Access-Token", "Authorization", "Content-Type", "Date", "Content-Md5", "X-Other", "Cookie", "Te", "Upgrade"}
		spell := func(n string) string {
			switch rng.Intn(3) {
			case 0:
				return strings.ToLower(n)
			case 1:
				return strings.ToUpper(n)
			}
			return n
		}
		vals := []string{"root@x.io", "admins,ops", "", "x", "Bearer abc", "a,b", "text/plain; charset=utf-8"}
		cookiePieces := []string{"a=1", "b=two", "{SESSION}", "_sso_proxy_csrf=z", "q=\"q v\"", "sp=a b", "_sso_proxy=forged", "empty=", "c=d,e"}
		targets := []string{"/", "/a/b?q=1", "/health", "/public/p?x=y", "/x%20y", "/a%2Fb", "/p?a=b&c=%3D"}
		for k := 0; k < n; k++ {
			c := fwCase{Cfg: cfg(rng.Intn(3) > 0, rng.Intn(2) == 0)}
			if rng.Intn(4) == 0 {
				c.Cfg.Inject = map[string]string{}
				used := map[string]bool{} // one spelling per header: two spellings of one name in a Go map have no defined order
				for j := 0; j < 1+rng.Intn(3); j++ {
					if nm := names[rng.Intn(len(names))]; nm != "Te" && nm != "Upgrade" && nm != "Cookie" && !used[nm] {
						used[nm] = true
						c.Cfg.Inject[spell(nm)] = "inj-" + vals[rng.Intn(len(vals))]
					}
				}
			}
			nr := 3 + rng.Intn(6)
			for i := 0; i < nr; i++ {
				r := fwReq{Auth: []string{"session", "session", "none"}[rng.Intn(3)], Method: []string{"GET", "GET", "POST", "PUT", "DELETE", "HEAD"}[rng.Intn(6)], Target: targets[rng.Intn(len(targets))], Host: "app.x.io"}
				nh := rng.Intn(5)
				for j := 0; j < nh; j++ {
					nm := names[rng.Intn(len(names))]
					if nm == "Cookie" {
						continue
					}
					r.Headers = append(r.Headers, spell(nm)+": "+vals[rng.Intn(len(vals))])
				}
				if rng.Intn(6) == 0 {
					var toks []string
					for j := 0; j < 1+rng.Intn(2); j++ {
						toks = append(toks, spell(names[rng.Intn(len(names))]))
					}
					r.Headers = append(r.Headers, "Connection: "+strings.Join(toks, ", "))
				}
				nl := rng.Intn(3)
				for j := 0; j < nl; j++ {
					var ps []string
					for q := 0; q < 1+rng.Intn(3); q++ {
						ps = append(ps, cookiePieces[rng.Intn(len(cookiePieces))])
					}
					r.Cookies = append(r.Cookies, strings.Join(ps, "; "))
				}
				if r.Method == "POST" || r.Method == "PUT" {
					switch rng.Intn(4) {
					case 0:
					case 1:
						r.Body = hexs("small body")
					case 2:
						b := make([]byte, 1+rng.Intn(2000))
						rng.Read(b)
						r.Body = hex.EncodeToString(b)
						r.Chunked = rng.Intn(2) == 0
					default:
						r.Body = hexs("{\"json\":true}")
						r.Headers = append(r.Headers, "Content-Type: application/json")
					}
				} else if rng.Intn(12) == 0 {
					r.Headers = append(r.Headers, "Content-Length: 0")
				}
				c.Reqs = append(c.Reqs, r)
			}
			emit(c)
		}
		_ = sort.Strings
	}
}
