package providers

import (
	"net/http"

	"github.com/buzzfeed/sso/internal/pkg/groups"
	"github.com/buzzfeed/sso/internal/pkg/singleflight"
)

// VerifGroup exposes the coalescing group of the authenticator-side middleware to the /verif harness.
func (p *SingleFlightProvider) VerifGroup() *singleflight.Group { return p.single }

// VerifPurge fires the TTL purge of one key of the group cache (what a LocalCache timer goroutine does).
func (p *GroupCache) VerifPurge(email, joined string) {
	p.cache.Purge(groups.CacheKey{Email: email, AllowedGroups: joined})
}

// VerifSetHTTPTransport points every identity-provider call of this package at the harness's scripted IdP.
func VerifSetHTTPTransport(rt http.RoundTripper) { httpClient.Transport = rt }
