package providers

import "github.com/buzzfeed/sso/internal/pkg/singleflight"

// VerifGroup exposes the coalescing group of the authenticator-side middleware to the /verif harness.
func (p *SingleFlightProvider) VerifGroup() *singleflight.Group { return p.single }
