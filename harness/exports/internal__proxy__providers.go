package providers

import (
	"time"

	"github.com/buzzfeed/sso/internal/pkg/singleflight"
)

// VerifGroup exposes the coalescing group of the proxy-side middleware to the /verif harness.
func (p *SingleFlightProvider) VerifGroup() *singleflight.Group { return p.single }

// VerifSetHTTPTimeout changes the overall timeout of the package's HTTP client (5 s in http_client.go) so that the harness can
// script an authenticator that accepts a request and never answers without waiting five seconds per step.
func VerifSetHTTPTimeout(d time.Duration) { httpClient.Timeout = d }
