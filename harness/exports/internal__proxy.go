package proxy

import "time"

// VerifLoadUpstreams runs the real SetUpstreamConfigs (template substitution, YAML parsing, merging, validation,
// option parsing, HMAC keys, allow-rule check) on a file, with explicit template variables and deployment defaults.
func VerifLoadUpstreams(file, cluster, scheme string, vars map[string]string, addrs, domains, groups []string,
	timeout, reset time.Duration, slug, cookieName string) ([]*UpstreamConfig, error) {
	uc := &UpstreamConfigs{ConfigsFile: file, Cluster: cluster, Scheme: scheme, testTemplateVars: vars}
	uc.DefaultConfig.EmailConfig.AllowedAddresses = addrs
	uc.DefaultConfig.EmailConfig.AllowedDomains = domains
	uc.DefaultConfig.AllowedGroups = groups
	uc.DefaultConfig.Timeout = timeout
	uc.DefaultConfig.ResetDeadline = reset
	uc.DefaultConfig.ProviderSlug = slug
	err := SetUpstreamConfigs(uc, CookieConfig{Name: cookieName}, &ServerConfig{})
	return uc.upstreamConfigs, err
}

// VerifSetUpstreams is SetUpstreamConfigs with explicit template variables instead of the process environment.
func VerifSetUpstreams(c *Configuration, vars map[string]string) error {
	c.UpstreamConfigs.testTemplateVars = vars
	return SetUpstreamConfigs(&c.UpstreamConfigs, c.SessionConfig.CookieConfig, &c.ServerConfig)
}

// VerifParseEnvironment exposes parseEnvironment (SSO_CONFIG_* entries -> template variables, incl. <service>_signing_key).
func VerifParseEnvironment(environ []string) map[string]string { return parseEnvironment(environ) }
