package groups

import "time"

// VerifSetJitter lets the /verif harness make RefreshLoop's start-up sleep negligible.
func (c *FillCache) VerifSetJitter(d time.Duration) { c.maxJitter = d }

// VerifState returns sorted copies of the three maps.
func (c *FillCache) VerifState() (cache map[string][]string, inflight []string, loops []string) {
	c.mu.RLock()
	defer c.mu.RUnlock()
	cache = map[string][]string{}
	for g, ms := range c.cache {
		l := []string{}
		for m := range ms {
			l = append(l, m)
		}
		cache[g] = l
	}
	for g := range c.inflight {
		inflight = append(inflight, g)
	}
	for g := range c.refreshLoopGroups {
		loops = append(loops, g)
	}
	return
}
