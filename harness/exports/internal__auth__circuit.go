package circuit

// VerifSnapshot exposes the breaker's private state to the /verif harness (overlay only).
func (b *Breaker) VerifSnapshot() (state int, gen int, cur, succ, fail int, expZero bool, expNano int64) {
	b.mutex.Lock()
	defer b.mutex.Unlock()
	return int(b.state), b.generation, b.counts.CurrentRequests, b.counts.ConsecutiveSuccesses,
		b.counts.ConsecutiveFailures, b.backoffExpires.IsZero(), b.backoffExpires.UnixNano()
}
