package auth

// VerifValidRedirectURI / VerifValidSignature expose the two unexported predicates to the /verif harness.
func VerifValidRedirectURI(uri string, rootDomains []string) bool {
	return validRedirectURI(uri, rootDomains)
}
func VerifValidSignature(redirectURI, sig, ts, secret string) bool {
	return validSignature(redirectURI, sig, ts, secret)
}
