package singleflight

// VerifYield, when set by the /verif harness, is called by the instrumented overlay copy of Do right after
// c.wg.Done() (the window before the key is deleted). nil in every other engine: no behaviour change.
var VerifYield func(key string)

func verifYield(key string) {
	if f := VerifYield; f != nil {
		f(key)
	}
}

// VerifDups reports the duplicate counter of the in-flight call registered under key.
func (g *Group) VerifDups(key string) (int, bool) {
	g.mu.Lock()
	defer g.mu.Unlock()
	c, ok := g.m[key]
	if !ok {
		return 0, false
	}
	return int(c.dups), true
}

// VerifSnapshot returns key -> dups for every in-flight call.
func (g *Group) VerifSnapshot() map[string]int {
	g.mu.Lock()
	defer g.mu.Unlock()
	out := map[string]int{}
	for k, c := range g.m {
		out[k] = int(c.dups)
	}
	return out
}
