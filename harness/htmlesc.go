package main

import (
	"bytes"
	"encoding/json"
	"html"
	"html/template"
	"math/rand"
	"strings"
)

// Engine "htmlesc" (C20): html/template's own escaping of a value in a text node and in a double-quoted attribute value,
// to be compared byte for byte with the Lean `htmlEscape`.

var escTmpl = template.Must(template.New("t").Parse(`<p>{{.}}</p><input value="{{.}}">`))

func escRun(s string) M {
	var b bytes.Buffer
	escTmpl.Execute(&b, s)
	out := b.String()
	text := strings.TrimPrefix(out[:strings.Index(out, "</p>")], "<p>")
	attr := out[strings.Index(out, `value="`)+7 : len(out)-2]
	return M{"s": hx(s), "text": hx(text), "attr": hx(attr), "unesc": hx(html.UnescapeString(text)), "raw": M{"s": s}}
}

func init() {
	engines["htmlesc"] = func(rng *rand.Rand, n int, em *Emitter, replay []byte) {
		idx := 0
		emit := func(s string) {
			o := escRun(s)
			o["e"] = "htmlesc"
			o["case"] = idx
			em.Emit(o)
			idx++
		}
		if replay != nil {
			var w struct {
				Raw struct {
					S string `json:"s"`
				} `json:"raw"`
			}
			json.Unmarshal(replay, &w)
			emit(w.Raw.S)
			return
		}
		for _, s := range []string{"", "plain", "<script>alert(1)</script>", `"><img src=x onerror=alert(1)>`, "a&b", "it's", "1+1", "\x00nul", "+ADw-script+AD4-",
			"&lt;already&gt;", "日本語<b>", "a\nb\tc", "' onmouseover='x", "</p><p>", "{{.}}", "javascript:alert(1)", "&#60;", "  ", "<!--", "]]>"} {
			emit(s)
		}
		alphabet := []string{"<", ">", "\"", "'", "&", "+", "\x00", "a", "b", " ", "=", "/", "é", "日", ";", "#", "x", "\n", "-", "!"}
		for k := 0; k < n; k++ {
			var sb strings.Builder
			l := rng.Intn(24)
			for i := 0; i < l; i++ {
				sb.WriteString(alphabet[rng.Intn(len(alphabet))])
			}
			emit(sb.String())
		}
	}
}
