package main

import (
	"bufio"
	"bytes"
	"crypto/hmac"
	"crypto/sha256"
	"encoding/base64"
	"encoding/json"
	"fmt"
	"io"
	"net/http"
	"net/http/httptest"
	"net/url"
	"os"
	"runtime"
	"sort"
	"strconv"
	"strings"
	"sync"
	"time"

	"github.com/buzzfeed/sso/internal/auth"
	aprov "github.com/buzzfeed/sso/internal/auth/providers"
	"github.com/buzzfeed/sso/internal/pkg/aead"
	"github.com/buzzfeed/sso/internal/pkg/sessions"
	"golang.org/x/net/html"
)

// Engine "authflow": the real sso-auth handler tree (auth.NewAuthenticatorMux with the real Google and Okta provider
// code, wrapped like cmd/sso-auth/main.go) against a scripted identity provider reached through the providers' own HTTP
// client. Serves C07 C08 C09 C10 C18(auth half) C19(auth half) C20.

const (
	afProxyID     = "proxy-client-id"
	afProxySecret = "proxy-client-secret"
	afHost        = "sso-auth.x.io"
	afCookieKey   = "YXV0aGNvb2tpZXNlY3JldDAxMjM0NTY3ODlhYmNkZWY=" // base64("authcookiesecret0123456789abcdef")
	afCodeKey     = "YXV0aGNvZGVrZXkwMTIzNDU2Nzg5YWJjZGVmMDEyMzQ=" // base64("authcodekey0123456789abcdef01234")
)

type afIdP struct {
	Kind     string   `json:"kind"` // ok | status | transport | raw
	Status   int      `json:"status"`
	Raw      string   `json:"raw"` // body for kind raw (status 200)
	Access   string   `json:"access"`
	RefreshT string   `json:"refreshT"`
	TTL      int64    `json:"ttl"`
	IDToken  string   `json:"idToken"` // literal id_token (google)
	Email    string   `json:"email"`   // userinfo (okta)
	Verified bool     `json:"verified"`
	Active   bool     `json:"active"` // introspect (okta)
	Groups   []string `json:"groups"`
	ErrDesc  string   `json:"errDesc"` // error_description for status 400
}

type afSess struct {
	Email      string `json:"email"`
	Access     string `json:"access"`
	RefreshTok string `json:"refreshTok"`
	Lifetime   int64  `json:"lifetime"`
	Refresh    int64  `json:"refresh"`
	Valid      int64  `json:"valid"`
}

type afStep struct {
	SleepMs  int               `json:"sleepMs"` // real time to let pass before this step (long-running process, deadlines passing)
	Slug     string            `json:"slug"`    // google | okta | other
	Endpoint string            `json:"endpoint"`
	Method   string            `json:"method"`
	Host     string            `json:"host"`
	Query    [][2]string       `json:"query"`
	Form     [][2]string       `json:"form"`
	Headers  map[string]string `json:"headers"`
	Cookie   string            `json:"cookie"` // none | garbage | sess | otherkey | jar
	Sess     *afSess           `json:"sess,omitempty"`
	Csrf     string            `json:"csrf"` // "" | literal nonce | "jar"
	// how to mint redirect_uri/sig/ts (convenience; results are placed into Query/Form by the generator at run time)
	Sign    *afSign `json:"sign,omitempty"`
	Code    string  `json:"code"` // redeem: genuine | expired-refresh | expired-lifetime | otherkey | garbage | cookiekey | ""
	Token   afIdP   `json:"idpToken"`
	User    afIdP   `json:"idpUserinfo"`
	Valid   afIdP   `json:"idpValidate"`
	Revoke  afIdP   `json:"idpRevoke"`
	StartOf string  `json:"startOf,omitempty"` // start: build the nested authenticator redirect for this proxy URI
}

type afSign struct {
	URI     string `json:"uri"`
	TsDelta int64  `json:"tsDelta"` // ts = now + delta
	TsLit   string `json:"tsLit"`   // literal ts instead
	Mangle  string `json:"mangle"`  // "" | badsig | nosig | wrongsecret | sigforother | shift-digit | b64std
	State   string `json:"state"`
	In      string `json:"in"` // query | form
}

// afProvRedeem: one direct call of a provider's Redeem (the provider as its constructor builds it) against the scripted IdP
type afProvRedeem struct {
	Provider string `json:"provider"` // google | okta | cognito
	Code     string `json:"code"`
	Token    afIdP  `json:"idpToken"`
	User     afIdP  `json:"idpUserinfo"`
}

type afCase struct {
	SigOverlap  int            `json:"sigOverlap,omitempty"`  // signed-redirect checks of several browsers in flight at once (rounds)
	Overlap     int            `json:"overlap,omitempty"`     // back-channel requests of several callers in flight at once (rounds)
	ProvRedeem  []afProvRedeem `json:"provRedeem,omitempty"`  // direct provider.Redeem calls instead of a step list
	ConfigCheck bool           `json:"configCheck,omitempty"` // the configuration-validation check instead of a step list
	HD          string         `json:"hd,omitempty"`          // Google hosted-domain setting of the deployment (a sign-in hint)
	Domains     []string       `json:"domains"`               // allowed e-mail domains
	Addresses   []string       `json:"addresses"`             // or addresses
	Roots       []string       `json:"roots"`                 // proxy root domains
	Steps       []afStep       `json:"steps"`
}

type afWorld struct {
	lastCode     string
	lastCodeEnds time.Time
	c            afCase
	handler      http.Handler
	mu           sync.Mutex
	cur          *afStep
	idpCalls     []M
	cookieCi     map[string]*aead.MiscreantCipher
	codeCi       *aead.MiscreantCipher
	other        *aead.MiscreantCipher
	jar          map[string]string // slug -> session cookie value
	csrfJar      map[string]string
	idpState     map[string]string
	benign       map[string]bool
	mux          *auth.AuthenticatorMux
}

type afTransport struct{ w *afWorld }

func (t afTransport) RoundTrip(r *http.Request) (*http.Response, error) {
	w := t.w
	var body []byte
	if r.Body != nil {
		body, _ = io.ReadAll(r.Body)
	}
	form, _ := url.ParseQuery(string(body))
	kind := "other"
	switch {
	case strings.HasSuffix(r.URL.Path, "/token"):
		if form.Get("grant_type") == "refresh_token" {
			kind = "refresh"
		} else {
			kind = "token"
		}
	case strings.HasSuffix(strings.ToLower(r.URL.Path), "/userinfo"):
		kind = "userinfo"
	case strings.HasSuffix(r.URL.Path, "/tokeninfo"), strings.HasSuffix(r.URL.Path, "/introspect"):
		kind = "validate"
	case strings.HasSuffix(r.URL.Path, "/revoke"):
		kind = "revoke"
	}
	w.mu.Lock()
	st := w.cur
	w.idpCalls = append(w.idpCalls, M{"kind": kind, "host": r.URL.Host, "path": r.URL.Path, "token": form.Get("token") + form.Get("access_token") + r.URL.Query().Get("token"),
		"refresh_token": form.Get("refresh_token"), "code": form.Get("code"), "auth": r.Header.Get("Authorization"), "hint": form.Get("token_type_hint"), "rawToken": form.Get("token")})
	w.mu.Unlock()
	if st == nil {
		return nil, fmt.Errorf("no scripted step")
	}
	var rep afIdP
	switch kind {
	case "token", "refresh":
		rep = st.Token
	case "userinfo":
		rep = st.User
	case "validate":
		rep = st.Valid
	case "revoke":
		rep = st.Revoke
	}
	mk := func(status int, b string) (*http.Response, error) {
		return &http.Response{StatusCode: status, Status: strconv.Itoa(status), Header: http.Header{"Content-Type": {"application/json"}},
			Body: io.NopCloser(strings.NewReader(b)), Request: r, ProtoMajor: 1, ProtoMinor: 1}, nil
	}
	switch rep.Kind {
	case "transport":
		return nil, fmt.Errorf("connection reset by scripted idp")
	case "status":
		b, _ := json.Marshal(M{"error": "x", "error_description": rep.ErrDesc})
		return mk(rep.Status, string(b))
	case "raw":
		return mk(200, rep.Raw)
	}
	switch kind {
	case "token", "refresh":
		b, _ := json.Marshal(M{"access_token": rep.Access, "refresh_token": rep.RefreshT, "expires_in": rep.TTL, "id_token": rep.IDToken})
		return mk(200, string(b))
	case "userinfo":
		b, _ := json.Marshal(M{"email": rep.Email, "email_verified": rep.Verified, "groups": rep.Groups})
		return mk(200, string(b))
	case "validate":
		b, _ := json.Marshal(M{"active": rep.Active})
		return mk(200, string(b))
	}
	return mk(200, "{}")
}

func newAfWorld(c afCase) (*afWorld, error) {
	w := &afWorld{c: c, jar: map[string]string{}, csrfJar: map[string]string{}, idpState: map[string]string{}, cookieCi: map[string]*aead.MiscreantCipher{}}
	cfg := auth.DefaultAuthConfig()
	cfg.ServerConfig.Host = afHost
	cfg.ServerConfig.Scheme = "https"
	cfg.ClientConfigs["proxy"] = auth.ClientConfig{ID: afProxyID, Secret: afProxySecret}
	cfg.SessionConfig.Key = afCodeKey
	cfg.SessionConfig.CookieConfig.Secret = afCookieKey
	cfg.SessionConfig.SessionLifetimeTTL = 3600 * time.Second
	cfg.AuthorizeConfig.EmailConfig.Domains = c.Domains
	cfg.AuthorizeConfig.EmailConfig.Addresses = c.Addresses
	cfg.AuthorizeConfig.ProxyConfig.Domains = c.Roots
	cfg.ProviderConfigs = map[string]auth.ProviderConfig{
		"google": {ProviderType: "google", ProviderSlug: "google", ClientConfig: auth.ClientConfig{ID: "g-id", Secret: "g-secret"}, GroupCacheConfig: cfg.GroupCacheConfig,
			GoogleProviderConfig: auth.GoogleProviderConfig{HostedDomain: c.HD}},
		"okta": {ProviderType: "okta", ProviderSlug: "okta", ClientConfig: auth.ClientConfig{ID: "o-id", Secret: "o-secret"},
			OktaProviderConfig: auth.OktaProviderConfig{OrgURL: "idp.okta.test"}, GroupCacheConfig: cfg.GroupCacheConfig},
	}
	cfg.LoggingConfig.Enable = false
	aprov.VerifSetHTTPTransport(afTransport{w})
	m, err := auth.NewAuthenticatorMux(cfg, getStatsd())
	if err != nil {
		return nil, err
	}
	w.mux = m
	// same wrapping as cmd/sso-auth/main.go
	w.handler = auth.NewLoggingHandler(io.Discard, http.TimeoutHandler(m, 45*time.Second, ""), false, getStatsd())
	ck, _ := base64.StdEncoding.DecodeString(afCookieKey)
	cc, _ := aead.NewMiscreantCipher(ck)
	w.cookieCi["google"], w.cookieCi["okta"] = cc, cc
	kk, _ := base64.StdEncoding.DecodeString(afCodeKey)
	w.codeCi, _ = aead.NewMiscreantCipher(kk)
	w.other, _ = aead.NewMiscreantCipher([]byte("ffffffffffffffffffffffffffffffff"))
	w.learnBenign()
	return w, nil
}

func (w *afWorld) close() { w.mux.Stop() }

// render every page kind once with benign inputs through the real handlers and remember the tag/attribute structure
func (w *afWorld) learnBenign() {
	w.benign = map[string]bool{}
	good := &afSess{Email: "ann@x.io", Access: "at", RefreshTok: "rt", Lifetime: 3000, Refresh: 500, Valid: 30}
	cid := [][2]string{{"client_id", afProxyID}}
	steps := []afStep{
		{Slug: "google", Endpoint: "sign_in", Query: cid, Sign: &afSign{URI: afCallbackURI, State: "s"}, Cookie: "none"},
		{Slug: "okta", Endpoint: "sign_in", Query: cid, Sign: &afSign{URI: afCallbackURI, State: "s"}, Cookie: "none"},
		{Slug: "google", Endpoint: "sign_in", Query: cid, Sign: &afSign{URI: afCallbackURI, State: "s", Mangle: "badsig"}, Cookie: "none"},
		{Slug: "google", Endpoint: "sign_out", Sign: &afSign{URI: "https://app.x.io/"}, Cookie: "sess", Sess: good},
		{Slug: "google", Endpoint: "sign_out", Method: "POST", Sign: &afSign{URI: "https://app.x.io/", In: "form"}, Cookie: "sess", Sess: good, Revoke: afIdP{Kind: "status", Status: 500}},
	}
	for i := range steps {
		afDefaults(&steps[i])
		if steps[i].Revoke.Status == 0 {
			steps[i].Revoke = afIdP{Kind: "ok"}
		}
		o := w.step(&steps[i])
		if hs, ok := o["out"].(M)["htmlStructure"].(string); ok {
			w.benign[hs] = true
		}
	}
	w.jar, w.csrfJar, w.idpState = map[string]string{}, map[string]string{}, map[string]string{}
}

func afSig(secret, uri, ts string) string {
	h := hmac.New(sha256.New, []byte(secret))
	h.Write([]byte(uri))
	h.Write([]byte(ts))
	return base64.URLEncoding.EncodeToString(h.Sum(nil))
}

func (w *afWorld) sealSess(ci *aead.MiscreantCipher, s *afSess, now time.Time) string {
	ss := &sessions.SessionState{AccessToken: s.Access, RefreshToken: s.RefreshTok, Email: s.Email,
		LifetimeDeadline: relTime(now, s.Lifetime), RefreshDeadline: relTime(now, s.Refresh), ValidDeadline: relTime(now, s.Valid)}
	v, err := sessions.MarshalSession(ss, ci)
	if err != nil {
		panic(err)
	}
	return v
}

func afOpen(ci *aead.MiscreantCipher, v string, now time.Time) M {
	ss, err := sessions.UnmarshalSession(v, ci)
	if err != nil {
		return M{"undecodable": true}
	}
	return M{"email": ss.Email, "access": ss.AccessToken, "refreshTok": ss.RefreshToken, "lifetime": round10(ss.LifetimeDeadline.Sub(now)),
		"refresh": round10(ss.RefreshDeadline.Sub(now)), "host": ss.AuthorizedUpstream, "slug": ss.ProviderSlug}
}

// an independent RFC 3986 reading of a URI reference: scheme, authority → host (after the last '@', before the port), path
func rfcSplit(s string) M {
	m := M{"scheme": "", "hasAuthority": false, "host": "", "bracketed": false}
	rest := s
	if i := strings.IndexAny(rest, ":/?#"); i > 0 && rest[i] == ':' {
		m["scheme"] = strings.ToLower(rest[:i])
		rest = rest[i+1:]
	}
	// browsers treat '\' like '/' in special schemes and strip tab/CR/LF
	br := strings.NewReplacer("\t", "", "\r", "", "\n", "").Replace(rest)
	br = strings.Replace(br, "\\", "/", -1)
	for _, variant := range []struct{ key, v string }{{"", rest}, {"browser", br}} {
		v := variant.v
		host := ""
		hasA := false
		brk := false
		if strings.HasPrefix(v, "//") {
			hasA = true
			a := v[2:]
			if j := strings.IndexAny(a, "/?#"); j >= 0 {
				a = a[:j]
			}
			if j := strings.LastIndex(a, "@"); j >= 0 {
				a = a[j+1:]
			}
			if strings.HasPrefix(a, "[") {
				brk = true
				if j := strings.Index(a, "]"); j >= 0 {
					host = a[:j+1]
				} else {
					host = a
				}
			} else {
				if j := strings.LastIndex(a, ":"); j >= 0 {
					a = a[:j]
				}
				host = a
			}
		}
		if variant.key == "" {
			m["hasAuthority"], m["host"], m["bracketed"] = hasA, strings.ToLower(host), brk
		} else {
			m["browserHost"] = strings.ToLower(host)
		}
	}
	return m
}

func htmlStructure(body string) (string, bool) {
	z := html.NewTokenizer(strings.NewReader(body))
	var b strings.Builder
	for {
		tt := z.Next()
		if tt == html.ErrorToken {
			break
		}
		t := z.Token()
		switch tt {
		case html.StartTagToken, html.SelfClosingTagToken:
			b.WriteString("<" + t.Data)
			names := []string{}
			for _, a := range t.Attr {
				names = append(names, a.Key)
			}
			sort.Strings(names)
			b.WriteString(" " + strings.Join(names, ",") + ">")
		case html.EndTagToken:
			b.WriteString("</" + t.Data + ">")
		case html.CommentToken:
			b.WriteString("<!---->")
		case html.DoctypeToken:
			b.WriteString("<!doctype>")
		}
	}
	return b.String(), true
}

func (w *afWorld) step(st *afStep) M {
	if st.SleepMs > 0 {
		time.Sleep(time.Duration(st.SleepMs) * time.Millisecond)
	}
	for time.Now().Nanosecond() > 700_000_000 {
		time.Sleep(20 * time.Millisecond)
	}
	now := time.Now().Truncate(time.Second)
	q := url.Values{}
	form := url.Values{}
	for _, kv := range st.Query {
		v := kv[1]
		if v == "{IDPSTATE}" {
			v = w.idpState[st.Slug]
		}
		q.Add(kv[0], v)
	}
	for _, kv := range st.Form {
		form.Add(kv[0], kv[1])
	}
	signed := M{}
	if sg := st.Sign; sg != nil {
		ts := strconv.FormatInt(now.Unix()+sg.TsDelta, 10)
		if sg.TsLit != "" {
			ts = sg.TsLit
		}
		sig := afSig(afProxySecret, sg.URI, ts)
		uri := sg.URI
		switch sg.Mangle {
		case "badsig":
			sig = afSig(afProxySecret, sg.URI+"x", ts)
		case "nosig":
			sig = ""
		case "wrongsecret":
			sig = afSig("not-the-secret", sg.URI, ts)
		case "emptykey":
			// a correct MAC over the right bytes — keyed with the empty string (an unset "second" secret)
			sig = afSig("", sg.URI, ts)
		case "keyisuri":
			sig = afSig(sg.URI, sg.URI, ts)
		case "sigforother":
			sig = afSig(afProxySecret, "https://other.x.io/oauth2/callback", ts)
		case "shift-digit":
			// the MAC input has no separator: move the first digit of ts to the end of the URI
			uri = sg.URI + ts[:1]
			ts = ts[1:]
		case "b64std":
			raw, _ := base64.URLEncoding.DecodeString(sig)
			sig = base64.StdEncoding.EncodeToString(raw)
		}
		dst := q
		if sg.In == "form" {
			dst = form
		}
		dst.Set("redirect_uri", uri)
		if sig != "" {
			dst.Set("sig", sig)
		}
		dst.Set("ts", ts)
		if sg.State != "" {
			dst.Set("state", sg.State)
		}
		// oracles for the two predicates (library / real predicate called directly)
		tsi, tsErr := strconv.ParseInt(ts, 10, 64)
		signed = M{"uri": uri, "ts": ts, "sig": sig, "tsParses": tsErr == nil, "age": now.Unix() - tsi,
			"macOK": tsErr == nil && sig != "" && func() bool {
				rs, err := base64.URLEncoding.DecodeString(sig)
				if err != nil {
					return false
				}
				ls, _ := base64.URLEncoding.DecodeString(afSig(afProxySecret, uri, strconv.FormatInt(tsi, 10)))
				return hmac.Equal(rs, ls)
			}(),
			"genuine": sg.Mangle == "" || sg.Mangle == "b64std"}
	}
	if st.StartOf != "" {
		ts := strconv.FormatInt(now.Unix(), 10)
		inner := url.Values{}
		inner.Set("redirect_uri", st.StartOf)
		inner.Set("sig", afSig(afProxySecret, st.StartOf, ts))
		inner.Set("ts", ts)
		inner.Set("state", "proxy-state")
		inner.Set("client_id", afProxyID)
		q.Set("redirect_uri", "https://"+afHost+"/"+st.Slug+"/sign_in?"+inner.Encode())
	}
	target := "/" + st.Slug + "/" + st.Endpoint
	if st.Slug == "" {
		target = "/" + st.Endpoint
	}
	var cookies []string
	presented := M{"kind": st.Cookie}
	cname := "_sso_auth_" + st.Slug
	ci := w.cookieCi[st.Slug]
	switch st.Cookie {
	case "garbage":
		cookies = append(cookies, cname+"=Z2FyYmFnZQ")
	case "otherkey":
		cookies = append(cookies, cname+"="+w.sealSess(w.other, st.Sess, now))
	case "codekey":
		// a value sealed under the authorization-code key (what a `?code=` carries), presented as the session cookie
		cookies = append(cookies, cname+"="+w.sealSess(w.codeCi, st.Sess, now))
	case "sess":
		if ci != nil {
			v := w.sealSess(ci, st.Sess, now)
			cookies = append(cookies, cname+"="+v)
			presented["sess"] = afOpen(ci, v, now)
		}
	case "jar":
		if v, ok := w.jar[st.Slug]; ok {
			cookies = append(cookies, cname+"="+v)
			presented["sess"] = afOpen(ci, v, now)
			presented["kind"] = "sess"
		} else {
			presented["kind"] = "none"
		}
	}
	if st.Csrf == "jar" {
		if v, ok := w.csrfJar[st.Slug]; ok {
			cookies = append(cookies, cname+"_csrf="+v)
			presented["csrf"] = v
		}
	} else if st.Csrf != "" {
		cookies = append(cookies, cname+"_csrf="+st.Csrf)
		presented["csrf"] = st.Csrf
	}
	// authorization codes for /redeem
	codeInfo := M{}
	if st.Code != "" {
		mk := func(ciph *aead.MiscreantCipher, refresh, lifetime int64) string {
			return w.sealSess(ciph, &afSess{Email: "ann@x.io", Access: "at-code", RefreshTok: "rt-code", Refresh: refresh, Lifetime: lifetime, Valid: 60}, now)
		}
		code := ""
		switch st.Code {
		case "genuine":
			code = mk(w.codeCi, 600, 3000)
		case "expired-refresh":
			code = mk(w.codeCi, -10, 3000)
		case "expired-lifetime":
			code = mk(w.codeCi, 600, -10)
		case "otherkey":
			code = mk(w.other, 600, 3000)
		case "cookiekey":
			code = mk(w.cookieCi["google"], 600, 3000)
		case "garbage":
			code = "bm90LWEtY29kZQ"
		case "genuine-respelled":
			// a genuine code with a line break inside its text: not a string this service ever sealed
			g := mk(w.codeCi, 600, 3000)
			code = g[:len(g)/2] + "\r\n" + g[len(g)/2:]
		case "genuine-trailing-lf":
			code = mk(w.codeCi, 600, 3000) + "\n"
		case "jarcookie":
			// the value of the session cookie this very service last set for the browser (google), presented as a code
			code = w.jar["google"]
		case "short-lived":
			// a genuine code whose session lifetime ends one second from now (sign-in shortly before the lifetime's end)
			code = mk(w.codeCi, 600, 1)
			w.lastCode, w.lastCodeEnds = code, now.Add(time.Second)
		case "repeat":
			// the very same code string again (the proxy retrying, or a replay)
			code = w.lastCode
		}
		form.Set("code", code)
		kind := st.Code
		switch st.Code {
		case "short-lived":
			kind = "genuine"
		case "repeat":
			kind = "genuine"
			if code == "" {
				kind = ""
			} else if time.Now().After(w.lastCodeEnds) {
				kind = "expired-lifetime"
			}
		}
		codeInfo = M{"kind": kind, "email": "ann@x.io", "access": "at-code", "refreshTok": "rt-code", "refresh": 600}
	}
	body := ""
	if st.Method == "POST" {
		body = form.Encode()
	} else {
		for k, vs := range form {
			for _, v := range vs {
				q.Add(k, v)
			}
		}
	}
	if len(q) > 0 {
		target += "?" + q.Encode()
	}
	var raw bytes.Buffer
	fmt.Fprintf(&raw, "%s %s HTTP/1.1\r\nHost: %s\r\n", st.Method, target, st.Host)
	hk := []string{}
	for k := range st.Headers {
		hk = append(hk, k)
	}
	sort.Strings(hk)
	for _, k := range hk {
		fmt.Fprintf(&raw, "%s: %s\r\n", k, st.Headers[k])
	}
	if len(cookies) > 0 {
		fmt.Fprintf(&raw, "Cookie: %s\r\n", strings.Join(cookies, "; "))
	}
	if st.Method == "POST" {
		fmt.Fprintf(&raw, "Content-Type: application/x-www-form-urlencoded\r\nContent-Length: %d\r\n", len(body))
	}
	raw.WriteString("\r\n")
	raw.WriteString(body)
	req, err := http.ReadRequest(bufio.NewReader(&raw))
	if err != nil {
		return M{"in": st, "out": M{"parseError": err.Error()}}
	}
	req.RemoteAddr = "192.0.2.1:1234"
	w.mu.Lock()
	w.cur = st
	w.idpCalls = nil
	w.mu.Unlock()
	rec := httptest.NewRecorder()
	panicked := ""
	func() {
		defer func() {
			if r := recover(); r != nil {
				panicked = fmt.Sprint(r)
			}
		}()
		w.handler.ServeHTTP(rec, req)
	}()
	w.mu.Lock()
	calls := w.idpCalls
	w.cur = nil
	w.mu.Unlock()
	res := rec.Result()
	rb, _ := io.ReadAll(res.Body)
	out := M{"status": res.StatusCode, "panic": panicked, "idpCalls": calls, "straddled": time.Now().Truncate(time.Second) != now}
	if calls == nil {
		out["idpCalls"] = []M{}
	}
	var setCookies []M
	for _, line := range res.Header["Set-Cookie"] {
		c := parseSetCookie(line)
		if c == nil {
			continue
		}
		e := M{"name": c.Name, "empty": c.Value == "", "path": c.Path, "domain": c.Domain, "secure": c.Secure, "httpOnly": c.HttpOnly}
		if c.Name == cname && c.Value != "" && ci != nil {
			e["sess"] = afOpen(ci, c.Value, now)
			w.jar[st.Slug] = c.Value
		}
		if c.Name == cname && c.Value == "" {
			delete(w.jar, st.Slug)
		}
		expired := c.MaxAge < 0 || (!c.Expires.IsZero() && c.Expires.Before(time.Now()))
		e["expired"] = expired
		if c.Name == cname+"_csrf" {
			// like a browser: an expired cookie is dropped, anything else is kept — also with an empty value
			if expired {
				delete(w.csrfJar, st.Slug)
			} else {
				w.csrfJar[st.Slug] = c.Value
			}
			if c.Value != "" {
				e["value"] = c.Value
			}
		}
		setCookies = append(setCookies, e)
	}
	if setCookies == nil {
		setCookies = []M{}
	}
	out["setCookies"] = setCookies
	if loc := res.Header.Get("Location"); loc != "" {
		l := M{"raw": loc, "rfc": rfcSplit(loc)}
		if lu, err := url.Parse(loc); err == nil {
			qq := lu.Query()
			l["goHost"] = lu.Host
			l["goScheme"] = lu.Scheme
			l["goPath"] = lu.Path
			l["hasCode"] = qq.Get("code") != ""
			l["state"] = qq.Get("state")
			if code := qq.Get("code"); code != "" {
				l["code"] = afOpen(w.codeCi, code, now)
			}
			if stv := qq.Get("state"); stv != "" && (lu.Host == "accounts.google.com" || lu.Host == "idp.okta.test") {
				if b, err := base64.URLEncoding.DecodeString(stv); err == nil {
					parts := strings.SplitN(string(b), ":", 2)
					if len(parts) == 2 {
						l["idpStateNonce"] = parts[0]
						l["idpStateRedirect"] = parts[1]
					}
				}
				l["idpRedirectURI"] = qq.Get("redirect_uri")
				w.idpState[st.Slug] = stv
			}
		}
		out["location"] = l
	}
	sec := M{}
	for _, h := range []string{"Strict-Transport-Security", "X-Frame-Options", "X-Content-Type-Options", "X-Xss-Protection", "Content-Security-Policy", "Referrer-Policy"} {
		if v, ok := res.Header[h]; ok {
			sec[h] = v
		}
	}
	out["secHeaders"] = sec
	bs := string(rb)
	kind := "other"
	switch {
	case len(bs) == 0:
		kind = "empty"
	case strings.Contains(bs, "<title>Sign In</title>"):
		kind = "sign-in-page"
	case strings.Contains(bs, "<title>Sign Out</title>"):
		kind = "sign-out-page"
	case strings.Contains(bs, "<title>Error</title>"):
		kind = "error-page"
	case strings.HasPrefix(strings.TrimSpace(bs), "{"), strings.HasPrefix(res.Header.Get("Content-Type"), "application/json"):
		kind = "json" // looks like JSON, or is declared to be: either way it has to parse
	}
	leaks := []string{}
	for _, mk := range []string{"access_token", "refresh_token", "\"email\"", "\"groups\"", "expires_in"} {
		if strings.Contains(bs, mk) {
			leaks = append(leaks, mk)
		}
	}
	out["bodyMentions"] = leaks // anywhere in the body, not only at its head
	out["bodyKind"] = kind
	// the type the client will act on: the declared one, or what net/http's sniffing makes of an undeclared body
	ct := res.Header.Get("Content-Type")
	eff := ct
	if eff == "" && len(rb) > 0 {
		eff = http.DetectContentType(rb)
	}
	out["contentType"], out["effectiveType"] = ct, eff
	if strings.HasPrefix(strings.TrimSpace(bs), "<") || kind == "sign-in-page" || kind == "sign-out-page" || kind == "error-page" {
		s, _ := htmlStructure(bs)
		out["htmlStructure"] = s
		if w.benign != nil {
			out["structureBenign"] = w.benign[s]
		}
	}
	if kind == "json" {
		var anyv map[string]interface{}
		var whatever interface{}
		out["jsonOK"] = json.Unmarshal(rb, &whatever) == nil
		if json.Unmarshal(rb, &anyv) == nil {
			out["json"] = anyv
		}
	}
	if len(bs) > 300 {
		bs = bs[:300]
	}
	out["bodyHead"] = bs
	// oracles
	ora := M{}
	// what net/http's ParseForm hands the handlers (urlencoded POST body first, then the query string) — the library, not sso
	rdForm := url.Values{}
	if pr, err := http.NewRequest(st.Method, "http://h/?"+q.Encode(), strings.NewReader(body)); err == nil {
		if st.Method == "POST" {
			pr.Header.Set("Content-Type", "application/x-www-form-urlencoded")
		}
		if pr.ParseForm() == nil {
			rdForm = pr.Form
		}
	}
	ru := rdForm.Get("redirect_uri")
	{
		rsig, rts := rdForm.Get("sig"), rdForm.Get("ts")
		tsi, tsErr := strconv.ParseInt(rts, 10, 64)
		ora["read"] = M{"redirect_uri": ru, "sig": rsig, "ts": rts, "tsParses": tsErr == nil, "age": now.Unix() - tsi,
			"macOK": tsErr == nil && rsig != "" && func() bool {
				rs, err := base64.URLEncoding.DecodeString(rsig)
				if err != nil {
					return false
				}
				ls, _ := base64.URLEncoding.DecodeString(afSig(afProxySecret, ru, strconv.FormatInt(tsi, 10)))
				return hmac.Equal(rs, ls)
			}()}
	}
	dom := []string{}
	for _, d := range w.c.Roots {
		if !strings.HasPrefix(d, ".") {
			d = "." + d
		}
		dom = append(dom, d)
	}
	pu := func(s string) M {
		m := M{"uri": s, "validRedirect": auth.VerifValidRedirectURI(s, dom), "rfc": rfcSplit(s)}
		if u, err := url.Parse(s); err == nil {
			m["goOK"], m["goHost"], m["goHostname"], m["goScheme"], m["goString"] = true, u.Host, u.Hostname(), u.Scheme, u.String()
		} else {
			m["goOK"] = false
		}
		return m
	}
	ora["redirect"] = pu(ru)
	if ru != "" {
		if u, err := url.Parse(ru); err == nil {
			nested := u.Query().Get("redirect_uri")
			ora["nested"] = pu(nested)
			if pn, err := url.Parse(nested); err == nil {
				ora["nestedSigOK"] = auth.VerifValidSignature(pn.String(), u.Query().Get("sig"), u.Query().Get("ts"), afProxySecret)
			}
		}
	}
	if st.Sign != nil || ru != "" {
		sigv, tsv := rdForm.Get("sig"), rdForm.Get("ts")
		ora["sigOK"] = auth.VerifValidSignature(ru, sigv, tsv, afProxySecret)
	}
	lower := M{}
	for _, x := range append(append([]string{}, w.c.Domains...), w.c.Addresses...) {
		lower[hx(x)] = hx(strings.ToLower(x))
	}
	for _, e := range []string{st.User.Email, func() string {
		if st.Sess != nil {
			return st.Sess.Email
		}
		return ""
	}()} {
		lower[hx(e)] = hx(strings.ToLower(e))
	}
	if ps, ok := presented["sess"].(M); ok {
		if e, ok := ps["email"].(string); ok {
			lower[hx(e)] = hx(strings.ToLower(e))
		}
	}
	ora["lower"] = lower
	ora["idTokenEmail"], ora["idTokenOK"], ora["idTokenSegments"], ora["idTokenDecoded"], ora["idTokenVerified"] = idTokenOracle(st.Token.IDToken)
	{
		stv := q.Get("state")
		sm := M{"decodes": false, "hasColon": false, "nonce": "", "redirect": "", "redirectValid": false}
		if b, err := base64.URLEncoding.DecodeString(stv); err == nil {
			sm["decodes"] = true
			parts := strings.SplitN(string(b), ":", 2)
			if len(parts) == 2 {
				sm["hasColon"], sm["nonce"], sm["redirect"] = true, parts[0], parts[1]
				sm["redirectValid"] = auth.VerifValidRedirectURI(parts[1], dom)
			}
		}
		ora["state"] = sm
	}
	lower[hx(fmt.Sprint(ora["idTokenEmail"]))] = hx(strings.ToLower(fmt.Sprint(ora["idTokenEmail"])))
	return M{"in": st, "signed": signed, "presented": presented, "codeInfo": codeInfo, "out": out, "oracle": ora,
		"req": M{"method": st.Method, "path": req.URL.Path, "query": q, "form": form}}
}

// what a correct reading of a Google id_token yields: (email, verified && well-formed, number of segments)
func idTokenOracle(tok string) (string, bool, int, bool, bool) {
	segs := strings.Split(tok, ".")
	if len(segs) < 2 {
		return "", false, len(segs), false, false
	}
	s := segs[1]
	if l := len(s) % 4; l > 0 {
		s += strings.Repeat("=", 4-l)
	}
	b, err := base64.URLEncoding.DecodeString(s)
	if err != nil {
		return "", false, len(segs), false, false
	}
	var c struct {
		Email         string `json:"email"`
		EmailVerified bool   `json:"email_verified"`
	}
	if json.Unmarshal(b, &c) != nil {
		return "", false, len(segs), false, false
	}
	return c.Email, c.Email != "" && c.EmailVerified, len(segs), true, c.EmailVerified
}

// afConfigCheck: what cmd/sso-auth does before serving — DefaultAuthConfig, fill in, Validate — with the proxy's client
// credentials left out, half given, or given; and, if validation lets a configuration without credentials through, what
// a request *without* credentials then gets from the back channel.
func afConfigCheck() M {
	var rows []M
	for _, v := range []struct {
		id, secret string
		touch      bool
	}{{"", "", false}, {"", "", true}, {afProxyID, "", true}, {"", afProxySecret, true}, {afProxyID, afProxySecret, true}} {
		cfg := auth.DefaultAuthConfig()
		cfg.ServerConfig.Host = afHost
		cfg.ServerConfig.Scheme = "https"
		cfg.SessionConfig.Key = afCodeKey
		cfg.SessionConfig.CookieConfig.Secret = afCookieKey
		cfg.AuthorizeConfig.EmailConfig.Domains = []string{"x.io"}
		cfg.AuthorizeConfig.ProxyConfig.Domains = []string{"x.io"}
		cfg.ProviderConfigs = map[string]auth.ProviderConfig{
			"google": {ProviderType: "google", ProviderSlug: "google", ClientConfig: auth.ClientConfig{ID: "g-id", Secret: "g-secret"}, GroupCacheConfig: cfg.GroupCacheConfig},
		}
		cfg.LoggingConfig.Enable = false
		if v.touch {
			cfg.ClientConfigs["proxy"] = auth.ClientConfig{ID: v.id, Secret: v.secret}
		}
		row := M{"id": v.id, "secret": v.secret, "untouchedDefault": !v.touch}
		err := cfg.Validate()
		row["valid"] = err == nil
		if err != nil {
			row["error"] = err.Error()
		} else if m, merr := auth.NewAuthenticatorMux(cfg, getStatsd()); merr == nil {
			// a caller that presents no credentials at all
			req := httptest.NewRequest("GET", "/google/validate", nil)
			req.Host = afHost
			req.Header.Set("X-Access-Token", "at")
			rec := httptest.NewRecorder()
			func() {
				defer func() { recover() }()
				m.ServeHTTP(rec, req)
			}()
			row["credentialLessStatus"] = rec.Code
			m.Stop()
		}
		rows = append(rows, row)
	}
	// the deployment's way in: variables in the process environment, LoadConfig as cmd/sso-auth does, every setting read back
	var envRows []M
	for _, env := range []map[string]string{
		{"SERVER_HOST": afHost, "SESSION_COOKIE_SECRET": afCookieKey, "SESSION_KEY": afCodeKey, "CLIENT_PROXY_ID": "the-proxy", "CLIENT_PROXY_SECRET": "s3cret=with=equals",
			"AUTHORIZE_PROXY_DOMAINS": "x.io,apps.y.io", "AUTHORIZE_EMAIL_DOMAINS": "x.io,y.io", "SESSION_LIFETIME": "2h", "SESSION_COOKIE_DOMAIN": "x.io",
			"SESSION_COOKIE_HTTPONLY": "true", "SESSION_COOKIE_SECURE": "true", "SESSION_COOKIE_EXPIRE": "48h", "SESSION_COOKIE_REFRESH": "30m"},
		{"SERVER_HOST": afHost, "SESSION_COOKIE_SECRET": afCookieKey, "SESSION_KEY": afCodeKey, "CLIENT_PROXY_ID": "p", "CLIENT_PROXY_SECRET": "q",
			"AUTHORIZE_PROXY_DOMAINS": "z.io", "AUTHORIZE_EMAIL_ADDRESSES": "ann@x.io,bob@y.io", "SESSION_LIFETIME": "90s", "SESSION_COOKIE_SECURE": "false"},
	} {
		keys := []string{}
		for k, v := range env {
			os.Setenv(k, v)
			keys = append(keys, k)
		}
		row := M{"env": env}
		func() {
			defer func() {
				if x := recover(); x != nil {
					row["panic"] = fmt.Sprint(x)
				}
			}()
			conf, err := auth.LoadConfig()
			row["loaded"] = err == nil
			if err != nil {
				row["error"] = err.Error()
				return
			}
			pc := conf.ClientConfigs["proxy"]
			row["got"] = M{"CLIENT_PROXY_ID": pc.ID, "CLIENT_PROXY_SECRET": pc.Secret,
				"AUTHORIZE_PROXY_DOMAINS":   strings.Join(conf.AuthorizeConfig.ProxyConfig.Domains, ","),
				"AUTHORIZE_EMAIL_DOMAINS":   strings.Join(conf.AuthorizeConfig.EmailConfig.Domains, ","),
				"AUTHORIZE_EMAIL_ADDRESSES": strings.Join(conf.AuthorizeConfig.EmailConfig.Addresses, ","),
				"SESSION_LIFETIME":          strconv.FormatInt(int64(conf.SessionConfig.SessionLifetimeTTL/time.Second), 10) + "s",
				"SESSION_COOKIE_DOMAIN":     conf.SessionConfig.CookieConfig.Domain, "SESSION_COOKIE_SECRET": conf.SessionConfig.CookieConfig.Secret, "SESSION_KEY": conf.SessionConfig.Key,
				"SESSION_COOKIE_HTTPONLY": strconv.FormatBool(conf.SessionConfig.CookieConfig.HTTPOnly), "SESSION_COOKIE_SECURE": strconv.FormatBool(conf.SessionConfig.CookieConfig.Secure),
				"SESSION_COOKIE_EXPIRE": strconv.FormatInt(int64(conf.SessionConfig.CookieConfig.Expire/time.Second), 10) + "s", "SERVER_HOST": conf.ServerConfig.Host}
		}()
		for _, k := range keys {
			os.Unsetenv(k)
		}
		envRows = append(envRows, row)
	}
	return M{"cfgcheck": rows, "cfgenv": envRows, "raw": afCase{ConfigCheck: true}}
}

// afProvRedeemRun: Redeem of each provider, built by its own constructor, against scripted token/userinfo answers.
func afProvRedeemRun(c afCase) M {
	var rows []M
	for _, r := range c.ProvRedeem {
		w := &afWorld{}
		st := &afStep{Token: r.Token, User: r.User}
		w.cur = st
		aprov.VerifSetHTTPTransport(afTransport{w})
		pd := &aprov.ProviderData{ClientID: "cid", ClientSecret: "csecret", SessionLifetimeTTL: 3600 * time.Second}
		var prov aprov.Provider
		var err error
		switch r.Provider {
		case "google":
			var g *aprov.GoogleProvider
			g, err = aprov.NewGoogleProvider(pd, "", "", "", "")
			if err == nil {
				g.SetStatsdClient(getStatsd())
				prov = g
			}
		case "okta":
			var o *aprov.OktaProvider
			o, err = aprov.NewOktaProvider(pd, "idp.okta.test", "default")
			if err == nil {
				o.SetStatsdClient(getStatsd())
				prov = o
			}
		case "cognito":
			var a *aprov.AmazonCognitoProvider
			a, err = aprov.NewAmazonCognitoProvider(pd, "idp.cognito.test", "us-east-1", "pool", "aws-id", "aws-secret")
			if err == nil {
				a.SetStatsdClient(getStatsd())
				prov = a
			}
		default:
			err = fmt.Errorf("unknown provider %q", r.Provider)
		}
		row := M{"in": r}
		if err != nil {
			row["setupError"] = err.Error()
			rows = append(rows, row)
			continue
		}
		out := M{}
		now := time.Now()
		func() {
			defer func() {
				if x := recover(); x != nil {
					out["kind"], out["panic"] = "panic", fmt.Sprint(x)
				}
			}()
			ss, rerr := prov.Redeem("https://"+afHost+"/"+r.Provider+"/callback", r.Code)
			if rerr != nil || ss == nil {
				out["kind"], out["err"] = "error", fmt.Sprint(rerr)
				return
			}
			out["kind"] = "session"
			out["email"], out["access"], out["refreshTok"] = ss.Email, ss.AccessToken, ss.RefreshToken
			out["refresh"], out["lifetime"] = round10(ss.RefreshDeadline.Sub(now)), round10(ss.LifetimeDeadline.Sub(now))
		}()
		var kinds []string
		var calls []M
		w.mu.Lock()
		for _, cl := range w.idpCalls {
			kinds = append(kinds, cl["kind"].(string))
			calls = append(calls, cl)
		}
		w.mu.Unlock()
		row["out"], row["idpKinds"], row["idpCalls"] = out, kinds, calls
		ora := M{}
		ora["idTokenEmail"], ora["idTokenOK"], ora["idTokenSegments"], ora["idTokenDecoded"], ora["idTokenVerified"] = idTokenOracle(r.Token.IDToken)
		row["oracle"] = ora
		rows = append(rows, row)
	}
	return M{"provRedeem": rows, "raw": c}
}

// slowWriter: a client connection that takes its time — the handler's goroutine is descheduled when it starts to write,
// as it is whenever a socket write blocks.
type slowWriter struct {
	*httptest.ResponseRecorder
	yielded bool
}

func (s *slowWriter) Write(b []byte) (int, error) {
	if !s.yielded {
		s.yielded = true
		runtime.Gosched()
	}
	return s.ResponseRecorder.Write(b)
}

// afOverlap: several proxies' back-channel calls in flight at once — each /redeem with its own genuine code, next to callers
// that present no secret. Every answer is about the caller's own code; an answer to a caller without the secret carries
// nothing of anybody's session.
func afOverlap(c afCase) M {
	w, err := newAfWorld(afCase{Domains: []string{"x.io"}, Roots: []string{"x.io"}})
	if err != nil {
		return M{"setupError": err.Error(), "raw": c}
	}
	defer w.close()
	now := time.Now()
	const callers = 8
	codes := make([]string, callers)
	for i := range codes {
		codes[i] = w.sealSess(w.codeCi, &afSess{Email: fmt.Sprintf("user%d@x.io", i), Access: fmt.Sprintf("access-of-%d-%s", i, strings.Repeat("x", i*7)), RefreshTok: fmt.Sprintf("refresh-of-%d", i), Refresh: 600, Lifetime: 3000, Valid: 60}, now)
	}
	var mu sync.Mutex
	counts := map[string]int{"redeems": 0, "foreign": 0, "garbled": 0, "refusals": 0, "leaked": 0, "panics": 0}
	first := map[string]string{}
	note := func(k, d string) {
		mu.Lock()
		counts[k]++
		if _, ok := first[k]; !ok && d != "" {
			first[k] = d
		}
		mu.Unlock()
	}
	call := func(i int, withSecret bool) {
		defer func() {
			if x := recover(); x != nil {
				note("panics", fmt.Sprint(x))
			}
		}()
		form := url.Values{"client_id": {afProxyID}, "code": {codes[i]}}
		if withSecret {
			form.Set("client_secret", afProxySecret)
		}
		req := httptest.NewRequest("POST", "https://"+afHost+"/google/redeem", strings.NewReader(form.Encode()))
		req.Host = afHost
		req.Header.Set("Content-Type", "application/x-www-form-urlencoded")
		req.Header.Set("Accept", "application/json")
		rec := &slowWriter{ResponseRecorder: httptest.NewRecorder()}
		w.mux.ServeHTTP(rec, req)
		body := rec.Body.String()
		if withSecret {
			var got struct {
				Email        string `json:"email"`
				AccessToken  string `json:"access_token"`
				RefreshToken string `json:"refresh_token"`
			}
			if rec.Code != 200 || json.Unmarshal([]byte(body), &got) != nil {
				note("garbled", fmt.Sprintf("caller %d: status %d body %.80q", i, rec.Code, body))
			} else if got.Email != fmt.Sprintf("user%d@x.io", i) || !strings.HasPrefix(got.AccessToken, fmt.Sprintf("access-of-%d-", i)) || got.RefreshToken != fmt.Sprintf("refresh-of-%d", i) {
				note("foreign", fmt.Sprintf("the code of user%d@x.io was answered with %s / %.24s", i, got.Email, got.AccessToken))
			}
			note("redeems", "")
		} else {
			if rec.Code == 200 || strings.Contains(body, "access") || strings.Contains(body, "refresh-of") || strings.Contains(body, "@x.io") {
				note("leaked", fmt.Sprintf("no secret presented: status %d body %.80q", rec.Code, body))
			}
			note("refusals", "")
		}
	}
	for r := 0; r < c.Overlap; r++ {
		var wg sync.WaitGroup
		start := make(chan struct{})
		for i := 0; i < callers; i++ {
			wg.Add(1)
			go func(i int) {
				defer wg.Done()
				<-start
				call(i, i%4 != 3)
			}(i)
		}
		close(start)
		wg.Wait()
	}
	return M{"overlap": counts, "first": first, "rounds": c.Overlap, "callers": callers, "raw": c}
}

// afSigOverlap: several browsers at the signature gate at once — some with the link the proxy really signed, some with that
// link's sig and ts attached to a redirect URI that was never signed. Whatever else is in flight, a borrowed signature is refused
// and the genuine link passes.
func afSigOverlap(c afCase) M {
	w, err := newAfWorld(afCase{Domains: []string{"x.io"}, Roots: []string{"x.io"}})
	if err != nil {
		return M{"setupError": err.Error(), "raw": c}
	}
	defer w.close()
	ts := strconv.FormatInt(time.Now().Unix(), 10)
	genuine := "https://app.x.io/"
	never := "https://never-signed.x.io/collect"
	sig := afSig(afProxySecret, genuine, ts)
	var mu sync.Mutex
	counts := map[string]int{"genuine": 0, "genuineRefused": 0, "borrowed": 0, "borrowedAccepted": 0, "panics": 0}
	first := map[string]string{}
	note := func(k, d string) {
		mu.Lock()
		counts[k]++
		if _, ok := first[k]; !ok && d != "" {
			first[k] = d
		}
		mu.Unlock()
	}
	call := func(uri, path string) (int, string) {
		q := url.Values{"redirect_uri": {uri}, "sig": {sig}, "ts": {ts}}
		req := httptest.NewRequest("GET", "https://"+afHost+path+"?"+q.Encode(), nil)
		req.Host = afHost
		rec := httptest.NewRecorder()
		func() {
			defer func() {
				if x := recover(); x != nil {
					note("panics", fmt.Sprint(x))
					rec.Code = 599
				}
			}()
			w.mux.ServeHTTP(rec, req)
		}()
		return rec.Code, rec.Header().Get("Location")
	}
	for r := 0; r < c.SigOverlap; r++ {
		var wg sync.WaitGroup
		start := make(chan struct{})
		for i := 0; i < 8; i++ {
			wg.Add(1)
			go func(i int) {
				defer wg.Done()
				<-start
				path := []string{"/google/sign_out", "/okta/sign_out"}[i%2]
				if i < 4 {
					code, _ := call(genuine, path)
					note("genuine", "")
					if code != 200 && code != 302 {
						note("genuineRefused", fmt.Sprintf("%s with the genuine link: %d", path, code))
					}
				} else {
					code, loc := call(never, path)
					note("borrowed", "")
					if code == 200 || code == 302 {
						note("borrowedAccepted", fmt.Sprintf("%s for %s with the sig of %s: %d %s", path, never, genuine, code, loc))
					}
				}
			}(i)
		}
		close(start)
		wg.Wait()
	}
	return M{"sigOverlap": counts, "first": first, "rounds": c.SigOverlap, "raw": c}
}

func afRun(c afCase) M {
	if c.ConfigCheck {
		return afConfigCheck()
	}
	if c.SigOverlap > 0 {
		return afSigOverlap(c)
	}
	if c.Overlap > 0 {
		return afOverlap(c)
	}
	if len(c.ProvRedeem) > 0 {
		return afProvRedeemRun(c)
	}
	w, err := newAfWorld(c)
	if err != nil {
		return M{"cfg": c, "setupError": err.Error(), "steps": []M{}, "raw": c}
	}
	defer w.close()
	var steps []M
	for i := range c.Steps {
		steps = append(steps, w.step(&c.Steps[i]))
	}
	return M{"cfg": M{"domains": c.Domains, "addresses": c.Addresses, "roots": c.Roots}, "steps": steps, "raw": c}
}
