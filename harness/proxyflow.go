package main

import (
	"bufio"
	"bytes"
	"crypto/hmac"
	crand "crypto/rand"
	"crypto/rsa"
	"crypto/sha256"
	"crypto/x509"
	"encoding/base64"
	"encoding/json"
	"encoding/pem"
	"fmt"
	"io"
	"net"
	"net/http"
	"net/http/httptest"
	"net/url"
	"os"
	"path"
	"regexp"
	"sort"
	"strconv"
	"strings"
	"sync"
	"time"

	"github.com/buzzfeed/sso/internal/pkg/aead"
	"github.com/buzzfeed/sso/internal/pkg/sessions"
	"github.com/buzzfeed/sso/internal/proxy"
	pprov "github.com/buzzfeed/sso/internal/proxy/providers"
)

// Engine "proxyflow": the real sso-proxy handler tree (proxy.New from a generated YAML file, wrapped like
// cmd/sso-proxy/main.go) in front of recording backends, with a scripted fake sso-auth. Serves
// C01 C04 C05 C06 C11 C13 C18 C19(proxy half). Time is moved by re-sealing the browser's cookie with every
// instant shifted (sso keeps no clock state between requests).

// ---------------------------------------------------------------- case description

type pfUpstream struct {
	Service  string            `json:"service"`
	From     string            `json:"from"` // host (simple) or regexp (rewrite)
	Rewrite  bool              `json:"rewrite"`
	Addrs    []string          `json:"addrs"`
	Domains  []string          `json:"domains"`
	Groups   []string          `json:"groups"`
	Skip     []string          `json:"skip"`
	Slug     string            `json:"slug"` // per-upstream provider_slug ("" = none)
	Override map[string]string `json:"override"`
	Timeout  int64             `json:"timeout"`
	Flush    int64             `json:"flush"`
}

type pfCfg struct {
	Upstreams   []pfUpstream      `json:"upstreams"`
	Secure      bool              `json:"secure"`
	HTTPOnly    bool              `json:"httpOnly"`
	Domain      string            `json:"domain"`
	L           int64             `json:"L"`
	V           int64             `json:"V"`
	G           int64             `json:"G"`
	DefaultSlug string            `json:"defaultSlug"`
	Signer      bool              `json:"signer"` // REQUESTSIGNER_KEY configured
	AuthURL     string            `json:"authURL,omitempty"`
	Hmac        bool              `json:"hmac"` // <service>_signing_key configured for every upstream
	Inject      map[string]string `json:"inject"`
}

type pfSess struct {
	Slug       string   `json:"slug"`
	Host       string   `json:"host"`
	Email      string   `json:"email"`
	User       string   `json:"user"`
	Access     string   `json:"access"`
	RefreshTok string   `json:"refreshTok"`
	Groups     []string `json:"groups"`
	Lifetime   int64    `json:"lifetime"` // seconds relative to the step's "now"
	Refresh    int64    `json:"refresh"`
	Valid      int64    `json:"valid"`
	Grace      *int64   `json:"grace"`
}

type pfReply struct {
	Kind   string   `json:"kind"` // ok | status | transport | malformed
	Status int      `json:"status"`
	Token  string   `json:"token"`
	TTL    int64    `json:"ttl"`
	Groups []string `json:"groups"`
	Email  string   `json:"email"`
	RTok   string   `json:"rtok"`
}

type pfCookie struct {
	Kind string  `json:"kind"` // none | garbage | otherkey | flowrec | sess | jar | jar-old
	Sess *pfSess `json:"sess,omitempty"`
}

type pfStep struct {
	Gap      int64             `json:"gap"` // seconds since the previous step (history mode)
	Method   string            `json:"method"`
	Host     string            `json:"host"`
	Target   string            `json:"target"` // request-target as written on the wire
	XHR      bool              `json:"xhr"`
	Proto    string            `json:"proto"` // X-Forwarded-Proto
	Headers  map[string]string `json:"headers,omitempty"`
	Cookie   pfCookie          `json:"cookie"`
	Refresh  pfReply           `json:"ansRefresh"`
	Validate pfReply           `json:"ansValidate"`
	Profile  pfReply           `json:"ansProfile"`
	Redeem   pfReply           `json:"ansRedeem"`
	// callback steps: which sealed values to present
	StateKind string  `json:"stateKind,omitempty"` // own | other | same | garbage | session | absent | stale-own
	CsrfKind  string  `json:"csrfKind,omitempty"`  // own | other | garbage | session | absent
	CsrfExtra string  `json:"csrfExtra,omitempty"` // a second CSRF cookie after the first: state-copy | other | own
	Code      string  `json:"code,omitempty"`
	ErrParam  string  `json:"errParam,omitempty"`
	Upstream  pfReply `json:"upstreamResp"` // what the backend answers: headers to set are in Groups as "K: V"
}

type pfCase struct {
	Cfg     pfCfg        `json:"cfg"`
	Steps   []pfStep     `json:"steps"`
	Overlap *pfOverlapIn `json:"overlap,omitempty"` // the overlapping-revalidation scenario instead of a step list
}

type pfOverlapIn struct {
	HostA      string   `json:"hostA"`
	HostB      string   `json:"hostB"`
	UserGroups []string `json:"userGroups"`
}

// ---------------------------------------------------------------- world

type pfWorld struct {
	cfg        pfCfg
	handler    http.Handler
	auth       *httptest.Server
	backends   map[string]*httptest.Server // service -> backend
	cipher     *aead.MiscreantCipher
	other      *aead.MiscreantCipher
	mu         sync.Mutex
	cur        *pfStep
	calls      []string
	callInfo   []M
	reached    []M
	jar        map[string]string   // host -> current session cookie value (as the browser holds it)
	jarOld     map[string][]string // host -> earlier values
	csrf       map[string]string   // host -> csrf cookie value
	flows      map[string][]string // host -> state strings issued by OAuthStart (newest last)
	csrfs      map[string][]string
	tmp        string
	cookieName string
	verify     func(r *http.Request, body []byte, rec M)
	authHold   chan struct{} // when set: the first /validate call of the fake authenticator waits here …
	authHoldIn chan struct{} // … after announcing itself here
	authHeld   bool
	intersect  bool          // /profile answers the intersection of the scripted groups with the groups asked about
	hold       chan struct{} // when set: a backend request carrying X-Verif-Hold waits here before reading its body
	holdIn     chan struct{} // … after announcing itself here
}

const pfSecretB64 = "MDEyMzQ1Njc4OWFiY2RlZjAxMjM0NTY3ODlhYmNkZWY=" // base64("0123456789abcdef0123456789abcdef")
const pfClientSecret = "proxy-client-secret"
const pfHmacSecret = "shared-hmac-secret"

var signerPEMCache string

func signerPEM() string {
	if signerPEMCache == "" {
		k, err := rsa.GenerateKey(crand.Reader, 2048)
		if err != nil {
			panic(err)
		}
		b, err := x509.MarshalPKCS8PrivateKey(k)
		if err != nil {
			panic(err)
		}
		signerPEMCache = string(pem.EncodeToMemory(&pem.Block{Type: "PRIVATE KEY", Bytes: b}))
	}
	return signerPEMCache
}

func (w *pfWorld) reply(rw http.ResponseWriter, req *http.Request, r pfReply, okStatus int, body func() string) {
	switch r.Kind {
	case "hang":
		// accept the request and never answer: the caller gives up on its own timeout
		select {
		case <-req.Context().Done():
		case <-time.After(3 * time.Second):
		}
		if hj, ok := rw.(http.Hijacker); ok {
			if c, _, err := hj.Hijack(); err == nil {
				c.Close()
			}
		}
	case "transport":
		if hj, ok := rw.(http.Hijacker); ok {
			c, _, _ := hj.Hijack()
			c.Close()
		}
	case "status":
		rw.WriteHeader(r.Status)
		io.WriteString(rw, "nope")
	case "malformed":
		rw.WriteHeader(okStatus)
		io.WriteString(rw, "{not json")
	default:
		rw.WriteHeader(okStatus)
		io.WriteString(rw, body())
	}
}

func newPfWorld(cfg pfCfg) (*pfWorld, error) {
	w := &pfWorld{cfg: cfg, backends: map[string]*httptest.Server{}, jar: map[string]string{}, jarOld: map[string][]string{},
		csrf: map[string]string{}, flows: map[string][]string{}, csrfs: map[string][]string{}, cookieName: "_sso_proxy"}
	secret, _ := base64.StdEncoding.DecodeString(pfSecretB64)
	w.cipher, _ = aead.NewMiscreantCipher(secret)
	w.other, _ = aead.NewMiscreantCipher([]byte("ffffffffffffffffffffffffffffffff"))
	w.auth = httptest.NewServer(http.HandlerFunc(func(rw http.ResponseWriter, r *http.Request) {
		w.mu.Lock()
		st := w.cur
		parts := strings.Split(strings.Trim(r.URL.Path, "/"), "/")
		ep := parts[len(parts)-1]
		r.ParseForm()
		w.calls = append(w.calls, ep)
		w.callInfo = append(w.callInfo, M{"ep": ep, "slug": parts[0], "token": r.Header.Get("X-Access-Token"), "secretOK": r.Header.Get("X-Client-Secret") == pfClientSecret || r.Form.Get("client_secret") == pfClientSecret,
			"groups": r.Form.Get("groups"), "email": r.Form.Get("email"), "code": r.Form.Get("code"), "refresh_token": r.Form.Get("refresh_token")})
		holdThis := w.authHold != nil && ep == "validate" && !w.authHeld
		if holdThis {
			w.authHeld = true
		}
		w.mu.Unlock()
		if holdThis {
			w.authHoldIn <- struct{}{}
			<-w.authHold
		}
		if st == nil {
			rw.WriteHeader(500)
			return
		}
		switch ep {
		case "validate":
			w.reply(rw, r, st.Validate, 200, func() string { return "{}" })
		case "refresh":
			w.reply(rw, r, st.Refresh, 201, func() string {
				b, _ := json.Marshal(M{"access_token": st.Refresh.Token, "expires_in": st.Refresh.TTL})
				return string(b)
			})
		case "profile":
			w.reply(rw, r, st.Profile, 200, func() string {
				// like the real authenticator: the answer names only groups that were asked about
				gs := []string{}
				for _, g := range strings.Split(r.Form.Get("groups"), ",") {
					if containsStr(st.Profile.Groups, g) {
						gs = append(gs, g)
					}
				}
				b, _ := json.Marshal(M{"email": r.Form.Get("email"), "groups": gs})
				return string(b)
			})
		case "redeem":
			w.reply(rw, r, st.Redeem, 200, func() string {
				b, _ := json.Marshal(M{"access_token": st.Redeem.Token, "refresh_token": st.Redeem.RTok, "expires_in": st.Redeem.TTL, "email": st.Redeem.Email})
				return string(b)
			})
		default:
			rw.WriteHeader(404)
		}
	}))
	// backends + YAML
	var y strings.Builder
	for _, u := range cfg.Upstreams {
		svc := u.Service
		be := httptest.NewServer(http.HandlerFunc(func(rw http.ResponseWriter, r *http.Request) {
			if h := w.hold; h != nil && r.Header.Get("X-Verif-Hold") != "" {
				w.holdIn <- struct{}{}
				<-h
			}
			w.mu.Lock()
			st := w.cur
			hdr := M{}
			for k, v := range r.Header {
				hdr[k] = v
			}
			body, _ := io.ReadAll(r.Body)
			rec := M{"service": svc, "host": r.Host, "path": r.URL.EscapedPath(), "decodedPath": r.URL.Path, "query": r.URL.RawQuery, "headers": hdr,
				"method": r.Method, "body": hxb(body), "contentLength": r.ContentLength, "te": r.TransferEncoding}
			if len(body) > 1<<20 {
				d := sha256.Sum256(body)
				rec["body"] = fmt.Sprintf("sha256:%x:%d", d, len(body))
				rec["bigBody"] = true
			}
			if w.verify != nil {
				w.verify(r, body, rec)
			}
			w.reached = append(w.reached, rec)
			w.mu.Unlock()
			status := 200
			if st != nil {
				for _, kv := range st.Upstream.Groups {
					p := strings.SplitN(kv, ": ", 2)
					if len(p) == 2 {
						rw.Header().Add(p[0], p[1])
					}
				}
				if st.Upstream.Status != 0 {
					status = st.Upstream.Status
				}
			}
			rw.WriteHeader(status)
			io.WriteString(rw, "upstream:"+svc)
		}))
		w.backends[svc] = be
		bu, _ := url.Parse(be.URL)
		fmt.Fprintf(&y, "- service: %s\n  default:\n    from: %s\n    to: %s\n", yq(u.Service), yq(u.From), yq(bu.Host))
		if u.Rewrite {
			fmt.Fprintf(&y, "    type: rewrite\n")
		}
		o := &cfgOpts{Addrs: u.Addrs, Domains: u.Domains, Groups: u.Groups, SkipAuthRegex: u.Skip, ProviderSlug: u.Slug, HeaderOverrides: u.Override,
			Timeout: u.Timeout, FlushInterval: u.Flush, Inject: cfg.Inject}
		fmt.Fprintf(&y, "    options:\n%s", yamlOpts(o, "      "))
	}
	f, err := os.CreateTemp("", "verif-pf-*.yml")
	if err != nil {
		return nil, err
	}
	f.WriteString(y.String())
	f.Close()
	w.tmp = f.Name()
	c := proxy.DefaultProxyConfig()
	c.ClientConfig = proxy.ClientConfig{ID: "proxy-client-id", Secret: pfClientSecret}
	c.ProviderConfig.ProviderURLConfig.External = w.auth.URL
	if cfg.AuthURL != "" {
		c.ProviderConfig.ProviderURLConfig.External = cfg.AuthURL // the system engine: a real sso-auth instead of the scripted fake
	}
	c.SessionConfig.CookieConfig.Secret = pfSecretB64
	c.SessionConfig.CookieConfig.Secure = cfg.Secure
	c.SessionConfig.CookieConfig.HTTPOnly = cfg.HTTPOnly
	c.SessionConfig.CookieConfig.Domain = cfg.Domain
	c.SessionConfig.TTLConfig = proxy.TTLConfig{Lifetime: time.Duration(cfg.L) * time.Second, Valid: time.Duration(cfg.V) * time.Second, GracePeriod: time.Duration(cfg.G) * time.Second}
	c.UpstreamConfigs.ConfigsFile = w.tmp
	c.UpstreamConfigs.Cluster = "verif"
	c.UpstreamConfigs.Scheme = "http"
	c.UpstreamConfigs.DefaultConfig.ProviderSlug = cfg.DefaultSlug
	c.UpstreamConfigs.DefaultConfig.Timeout = 2 * time.Second
	c.LoggingConfig.Enable = false
	vars := map[string]string{}
	if cfg.Hmac {
		for _, u := range cfg.Upstreams {
			vars[u.Service+"_signing_key"] = "sha256:" + pfHmacSecret
		}
	}
	if cfg.Signer {
		c.RequestSignerConfig.Key = signerPEM()
	}
	if err := proxy.VerifSetUpstreams(&c, vars); err != nil {
		w.close()
		return nil, err
	}
	p, err := proxy.New(c, getStatsd())
	if err != nil {
		w.close()
		return nil, err
	}
	// same wrapping as cmd/sso-proxy/main.go
	w.handler = proxy.NewLoggingHandler(io.Discard, p, c.LoggingConfig, getStatsd())
	return w, nil
}

func (w *pfWorld) close() {
	if w.auth != nil {
		w.auth.Close()
	}
	for _, b := range w.backends {
		b.Close()
	}
	if w.tmp != "" {
		os.Remove(w.tmp)
	}
}

func relTime(now time.Time, rel int64) time.Time {
	// half-second offset keeps every comparison away from equality; sso truncates stamped deadlines to the second
	return now.Truncate(time.Second).Add(time.Duration(rel)*time.Second + 990*time.Millisecond)
}

func (w *pfWorld) sealSess(ci *aead.MiscreantCipher, s *pfSess, now time.Time) string {
	ss := &sessions.SessionState{ProviderSlug: s.Slug, ProviderType: "sso", AccessToken: s.Access, RefreshToken: s.RefreshTok,
		Email: s.Email, User: s.User, Groups: s.Groups, AuthorizedUpstream: s.Host,
		LifetimeDeadline: relTime(now, s.Lifetime), RefreshDeadline: relTime(now, s.Refresh), ValidDeadline: relTime(now, s.Valid)}
	if s.Grace != nil {
		ss.GracePeriodStart = relTime(now, *s.Grace)
	}
	v, err := sessions.MarshalSession(ss, ci)
	if err != nil {
		panic(err)
	}
	return v
}

// whole seconds relative to the step's reference instant (floor): harness-sealed instants carry +0.5 s, instants stamped by sso are
// truncated to the second, so this is exact as long as the step does not straddle a second boundary (checked by the caller)
func round10(d time.Duration) int64 {
	if d >= 0 {
		return int64(d / time.Second)
	}
	return -int64((-d + time.Second - 1) / time.Second)
}

func (w *pfWorld) openSess(v string, now time.Time) (M, *sessions.SessionState) {
	ss, err := sessions.UnmarshalSession(v, w.cipher)
	if err != nil {
		return M{"undecodable": true}, nil
	}
	g := ss.Groups
	if g == nil {
		g = []string{}
	}
	m := M{"slug": ss.ProviderSlug, "host": ss.AuthorizedUpstream, "email": hx(ss.Email), "user": ss.User, "access": ss.AccessToken, "refreshTok": ss.RefreshToken,
		"groups": g, "lifetime": round10(ss.LifetimeDeadline.Sub(now)), "refresh": round10(ss.RefreshDeadline.Sub(now)), "valid": round10(ss.ValidDeadline.Sub(now))}
	if ss.GracePeriodStart.IsZero() {
		m["grace"] = nil
	} else {
		m["grace"] = round10(ss.GracePeriodStart.Sub(now))
	}
	return m, ss
}

// shift every instant of a sealed session by -gap (= the clock moved forward by gap)
func (w *pfWorld) shift(v string, gap int64) string {
	ss, err := sessions.UnmarshalSession(v, w.cipher)
	if err != nil {
		return v
	}
	d := -time.Duration(gap) * time.Second
	ss.LifetimeDeadline = ss.LifetimeDeadline.Add(d)
	ss.RefreshDeadline = ss.RefreshDeadline.Add(d)
	ss.ValidDeadline = ss.ValidDeadline.Add(d)
	if !ss.GracePeriodStart.IsZero() {
		ss.GracePeriodStart = ss.GracePeriodStart.Add(d)
	}
	out, _ := sessions.MarshalSession(ss, w.cipher)
	return out
}

var pfIDHeaders = []string{"X-Forwarded-User", "X-Forwarded-Email", "X-Forwarded-Groups", "X-Forwarded-Access-Token"}

func (w *pfWorld) step(st *pfStep) M {
	// keep the whole step inside one wall-clock second, so that "now" is the same second for the harness and for sso
	for time.Now().Nanosecond() > 700_000_000 {
		time.Sleep(20 * time.Millisecond)
	}
	now := time.Now().Truncate(time.Second)
	host := st.Host
	jk := jarKey(st.Host) // a browser keeps cookies per host *name*: ports do not separate them
	// clock advance: shift the browser's cookies
	if st.Gap > 0 {
		for h, v := range w.jar {
			w.jar[h] = w.shift(v, st.Gap)
		}
		for h, l := range w.jarOld {
			for i := range l {
				w.jarOld[h][i] = w.shift(l[i], st.Gap)
			}
		}
	}
	var cookies []string
	presented := M{"kind": st.Cookie.Kind}
	switch st.Cookie.Kind {
	case "garbage":
		cookies = append(cookies, w.cookieName+"=bm90LWEtc2Vzc2lvbg")
	case "otherkey":
		cookies = append(cookies, w.cookieName+"="+w.sealSess(w.other, st.Cookie.Sess, now))
	case "flowrec":
		v, _ := w.cipher.Marshal(&proxy.StateParameter{SessionID: "abc", RedirectURI: "/x"})
		cookies = append(cookies, w.cookieName+"="+v)
		// a flow record read as a session is the zero session
		presented["sess"] = M{"slug": "", "host": "", "email": "", "user": "", "access": "", "refreshTok": "", "groups": []string{}, "lifetime": nil, "refresh": nil, "valid": nil, "grace": nil, "zero": true}
	case "sess":
		v := w.sealSess(w.cipher, st.Cookie.Sess, now)
		cookies = append(cookies, w.cookieName+"="+v)
		m, _ := w.openSess(v, now)
		presented["sess"] = m
	case "jar":
		if v, ok := w.jar[jk]; ok {
			cookies = append(cookies, w.cookieName+"="+v)
			m, _ := w.openSess(v, now)
			presented["sess"] = m
		} else {
			presented["kind"] = "none"
		}
	case "jar-old":
		if l := w.jarOld[jk]; len(l) > 0 {
			v := l[len(l)/2]
			cookies = append(cookies, w.cookieName+"="+v)
			m, _ := w.openSess(v, now)
			presented["sess"] = m
			presented["kind"] = "jar"
		} else {
			presented["kind"] = "none"
		}
	}
	target := st.Target
	form := url.Values{}
	cb := M{}
	if st.StateKind != "" || st.CsrfKind != "" {
		// a callback request
		pick := func(kind string, own []string, isState bool) (string, bool, M) {
			info := M{"kind": kind}
			switch kind {
			case "own":
				if len(own) > 0 {
					return own[len(own)-1], true, info
				}
			case "stale-own":
				if len(own) > 1 {
					return own[0], true, info
				}
				if len(own) > 0 {
					return own[len(own)-1], true, info
				}
			case "other":
				v, _ := w.cipher.Marshal(&proxy.StateParameter{SessionID: "someone-else", RedirectURI: "/elsewhere"})
				return v, true, info
			case "own-respelled":
				// the browser's own value, spelled differently (a line break inside the base64 text): not the sealed value
				if len(own) > 0 {
					v := own[len(own)-1]
					return v[:len(v)/2] + "\n" + v[len(v)/2:], true, info
				}
			case "other-sid", "other-uri":
				// a genuine record differing from the browser's own in exactly one field (another flow started on the
				// same URL / the same flow id with another return address)
				if len(own) > 0 {
					sp := &proxy.StateParameter{}
					if err := w.cipher.Unmarshal(own[len(own)-1], sp); err == nil {
						if kind == "other-sid" {
							sp.SessionID = "another-flow-same-url"
						} else {
							// another same-site address (never "//…": the proxy itself only records cleaned request URIs, and this
							// record is forged with the proxy's own key)
							sp.RedirectURI = strings.TrimRight(sp.RedirectURI, "/") + "/elsewhere"
						}
						v, _ := w.cipher.Marshal(sp)
						return v, true, info
					}
				}
			case "otherkey":
				v, _ := w.other.Marshal(&proxy.StateParameter{SessionID: "k2", RedirectURI: "/k2"})
				return v, true, info
			case "garbage":
				return "Z2FyYmFnZQ", true, info
			case "session":
				return w.sealSess(w.cipher, &pfSess{Slug: "idp", Host: host, Email: "x@x.io", Lifetime: 100, Refresh: 100, Valid: 100}, now), true, info
			}
			info["kind"] = "absent"
			return "", false, info
		}
		stVal, stOK, stInfo := pick(st.StateKind, w.flows[jk], true)
		csVal, csOK, csInfo := pick(st.CsrfKind, w.csrfs[jk], false)
		if st.StateKind == "same" && csOK {
			stVal, stOK, stInfo = csVal, true, M{"kind": "same"}
		}
		describe := func(v string, ok bool, info M) M {
			if !ok {
				return info
			}
			// is this string, byte for byte, a value that was sealed (by the proxy, or by this harness with the proxy's key)?
			// Judged without the code under test: canonical unpadded base64url text, nothing else
			raw, derr := base64.RawURLEncoding.Strict().DecodeString(v)
			info["asSealed"] = derr == nil && base64.RawURLEncoding.EncodeToString(raw) == v
			sp := &proxy.StateParameter{}
			if err := w.cipher.Unmarshal(v, sp); err != nil {
				info["opens"] = false
			} else {
				info["opens"] = true
				info["sid"] = sp.SessionID
				info["uri"] = sp.RedirectURI
			}
			return info
		}
		cb["state"] = describe(stVal, stOK, stInfo)
		cb["csrf"] = describe(csVal, csOK, csInfo)
		cb["sameString"] = stOK && csOK && stVal == csVal
		if stOK {
			form.Set("state", stVal)
		}
		if csOK {
			cookies = append(cookies, w.cookieName+"_csrf="+csVal)
		}
		// a second cookie of the same name (a stale host-only one next to a domain-wide one, or one an attacker's sibling host
		// planted): net/http's Cookie() hands the handler the first
		switch st.CsrfExtra {
		case "state-copy":
			if stOK {
				cookies = append(cookies, w.cookieName+"_csrf="+stVal)
			}
		case "other", "own":
			if v, ok, _ := pick(st.CsrfExtra, w.csrfs[jk], false); ok {
				cookies = append(cookies, w.cookieName+"_csrf="+v)
			}
		}
		if st.Code != "" {
			form.Set("code", st.Code)
		}
		if st.ErrParam != "" {
			form.Set("error", st.ErrParam)
		}
		target = "/oauth2/callback?" + form.Encode()
	}
	var raw bytes.Buffer
	fmt.Fprintf(&raw, "%s %s HTTP/1.1\r\nHost: %s\r\n", st.Method, target, host)
	if st.XHR {
		raw.WriteString("X-Requested-With: XMLHttpRequest\r\n")
	}
	if st.Proto != "" {
		fmt.Fprintf(&raw, "X-Forwarded-Proto: %s\r\n", st.Proto)
	}
	hk := []string{}
	for k := range st.Headers {
		hk = append(hk, k)
	}
	sort.Strings(hk)
	for _, k := range hk {
		fmt.Fprintf(&raw, "%s: %s\r\n", k, st.Headers[k])
	}
	if len(cookies) > 0 {
		fmt.Fprintf(&raw, "Cookie: %s\r\n", strings.Join(cookies, "; "))
	}
	raw.WriteString("\r\n")
	req, err := http.ReadRequest(bufio.NewReader(&raw))
	if err != nil {
		return M{"in": st, "presented": presented, "out": M{"parseError": err.Error()}}
	}
	req.RemoteAddr = "192.0.2.1:1234"
	w.mu.Lock()
	w.cur = st
	w.calls = nil
	w.callInfo = nil
	w.reached = nil
	w.mu.Unlock()
	rec := httptest.NewRecorder()
	panicked := ""
	hangs := st.Validate.Kind == "hang" || st.Refresh.Kind == "hang" || st.Profile.Kind == "hang" || st.Redeem.Kind == "hang"
	if hangs {
		pprov.VerifSetHTTPTimeout(350 * time.Millisecond) // the 5 s of http_client.go, shortened for the run
	}
	func() {
		defer func() {
			if r := recover(); r != nil {
				panicked = fmt.Sprint(r)
			}
		}()
		w.handler.ServeHTTP(rec, req)
	}()
	if hangs {
		pprov.VerifSetHTTPTimeout(5 * time.Second)
	}
	w.mu.Lock()
	calls, callInfo, reached := w.calls, w.callInfo, w.reached
	w.cur = nil
	w.mu.Unlock()
	// net/http retries an idempotent request once when the connection dies before any response: a scripted transport
	// failure is therefore seen twice by the fake authenticator; report it once
	{
		kindOf := map[string]string{"validate": st.Validate.Kind, "refresh": st.Refresh.Kind, "profile": st.Profile.Kind, "redeem": st.Redeem.Kind}
		var dd []string
		for i, c := range calls {
			if i > 0 && calls[i-1] == c && (kindOf[c] == "transport" || kindOf[c] == "hang") {
				continue
			}
			dd = append(dd, c)
		}
		calls = dd
	}
	straddled := time.Now().Truncate(time.Second) != now
	res := rec.Result()
	body, _ := io.ReadAll(res.Body)
	out := M{"status": res.StatusCode, "calls": nzs(calls), "callInfo": callInfo, "panic": panicked, "straddled": straddled}
	// Set-Cookie effects in order
	var writes []M
	var setCookies []M
	for _, line := range res.Header["Set-Cookie"] {
		c := parseSetCookie(line)
		if c == nil {
			continue
		}
		setCookies = append(setCookies, M{"name": c.Name, "empty": c.Value == "", "path": c.Path, "domain": c.Domain, "secure": c.Secure, "httpOnly": c.HttpOnly, "expired": !c.Expires.IsZero() && c.Expires.Before(now)})
		switch c.Name {
		case w.cookieName:
			if c.Value == "" {
				writes = append(writes, M{"clear": true})
				if old, ok := w.jar[jk]; ok {
					w.jarOld[jk] = append(w.jarOld[jk], old)
				}
				delete(w.jar, jk)
			} else {
				m, _ := w.openSess(c.Value, now)
				writes = append(writes, M{"save": m})
				if old, ok := w.jar[jk]; ok {
					w.jarOld[jk] = append(w.jarOld[jk], old)
				}
				w.jar[jk] = c.Value
			}
		case w.cookieName + "_csrf":
			if c.Value == "" {
				out["csrfCleared"] = true
				delete(w.csrf, jk)
			} else {
				out["csrfSet"] = true
				w.csrf[jk] = c.Value
				w.csrfs[jk] = append(w.csrfs[jk], c.Value)
			}
		}
	}
	if writes == nil {
		writes = []M{}
	}
	out["writes"] = writes
	out["setCookies"] = setCookies
	// Location
	if loc := res.Header.Get("Location"); loc != "" {
		l := M{"raw": loc}
		if lu, err := url.Parse(loc); err == nil {
			l["host"] = lu.Host
			l["scheme"] = lu.Scheme
			l["path"] = lu.Path
			au, _ := url.Parse(w.auth.URL)
			l["toAuthenticator"] = lu.Host == au.Host
			q := lu.Query()
			if lu.Host == au.Host {
				l["redirect_uri"] = q.Get("redirect_uri")
				l["client_id"] = q.Get("client_id")
				if stv := q.Get("state"); stv != "" {
					w.flows[jk] = append(w.flows[jk], stv)
					sp := &proxy.StateParameter{}
					if err := w.cipher.Unmarshal(stv, sp); err == nil {
						l["stateURI"] = sp.RedirectURI
						l["stateSID"] = sp.SessionID
					}
					l["stateEqualsCsrf"] = stv == w.csrf[jk]
					if cs := w.csrf[jk]; cs != "" {
						sp2 := &proxy.StateParameter{}
						if err := w.cipher.Unmarshal(cs, sp2); err == nil {
							l["csrfURI"] = sp2.RedirectURI
							l["csrfSID"] = sp2.SessionID
						}
					}
				}
				// the authenticator's own check of the signature, re-implemented from the protocol description
				ts := q.Get("ts")
				mac := hmac.New(sha256.New, []byte(pfClientSecret))
				mac.Write([]byte(q.Get("redirect_uri")))
				mac.Write([]byte(ts))
				l["sigOK"] = base64.URLEncoding.EncodeToString(mac.Sum(nil)) == q.Get("sig")
				if tsi, err := strconv.ParseInt(ts, 10, 64); err == nil {
					l["tsFresh"] = now.Unix()-tsi <= 5 && tsi-now.Unix() <= 5
				}
			}
		}
		out["location"] = l
	}
	// upstream
	if len(reached) > 0 {
		r0 := reached[0]
		hdr := r0["headers"].(M)
		id := M{}
		for _, h := range pfIDHeaders {
			if v, ok := hdr[h]; ok {
				id[h] = v
			}
		}
		_, hasCookie := hdr["Cookie"]
		ck := ""
		if hasCookie {
			ck = strings.Join(hdr["Cookie"].([]string), "; ")
		}
		out["upstream"] = M{"service": r0["service"], "host": r0["host"], "path": r0["path"], "identity": id, "cookie": ck, "count": len(reached),
			"sessionCookieForwarded": strings.Contains(ck, w.cookieName+"=")}
	}
	sec := M{}
	for _, h := range []string{"X-Content-Type-Options", "X-Frame-Options", "X-Xss-Protection", "Strict-Transport-Security", "Sso-Authenticated-User"} {
		if v, ok := res.Header[h]; ok {
			sec[h] = v
		}
	}
	out["secHeaders"] = sec
	out["contentType"] = res.Header.Get("Content-Type")
	bs := string(body)
	switch {
	case strings.HasPrefix(bs, "upstream:"):
		out["body"] = bs
	case strings.Contains(bs, "<title>Error</title>"):
		out["body"] = "error-page"
		hs, _ := htmlStructure(bs)
		out["htmlStructure"] = hs
	case strings.HasPrefix(strings.TrimSpace(bs), "{"):
		out["body"] = "json:" + bs
	case len(bs) == 0:
		out["body"] = "empty"
	default:
		if len(bs) > 60 {
			bs = bs[:60]
		}
		out["body"] = "other:" + bs
	}
	// oracles
	ora := M{"cleanPath": gorillaClean(req.URL.EscapedPath()), "escapedPath": req.URL.EscapedPath(), "urlPath": req.URL.Path, "urlString": req.URL.String(), "urlScheme": req.URL.Scheme}
	routed := w.route(req.Host)
	ora["routed"] = routed
	reMatch := make([]bool, len(w.cfg.Upstreams))
	for i, u := range w.cfg.Upstreams {
		if u.Rewrite {
			if rx, err := regexp.Compile(u.From); err == nil {
				reMatch[i] = rx.MatchString(req.Host)
			}
		}
	}
	ora["reMatch"] = reMatch
	hnp := req.Host
	if h, _, err := net.SplitHostPort(req.Host); err == nil {
		hnp = h
	}
	ora["hostNoPort"] = hnp
	ora["httpsLocation"] = (&url.URL{Scheme: "https", Host: req.Host, Path: req.URL.Path, RawQuery: req.URL.RawQuery}).String()
	ora["reqHost"] = req.Host
	if routed >= 0 {
		u := w.cfg.Upstreams[routed]
		m := false
		for _, re := range u.Skip {
			if rx, err := regexp.Compile(re); err == nil && rx.MatchString(req.URL.Path) {
				m = true
			}
		}
		ora["skipMatch"] = m
	}
	lower := M{}
	addLower := func(s string) { lower[hx(s)] = hx(strings.ToLower(s)) }
	for _, u := range w.cfg.Upstreams {
		for _, x := range append(append([]string{}, u.Addrs...), u.Domains...) {
			addLower(x)
		}
	}
	if st.Cookie.Sess != nil {
		addLower(st.Cookie.Sess.Email)
	}
	addLower(st.Redeem.Email)
	for _, v := range w.jar {
		if ss, err := sessions.UnmarshalSession(v, w.cipher); err == nil {
			addLower(ss.Email)
		}
	}
	// superseded copies a browser (or someone who saved one) may still present
	for _, vs := range w.jarOld {
		for _, v := range vs {
			if ss, err := sessions.UnmarshalSession(v, w.cipher); err == nil {
				addLower(ss.Email)
			}
		}
	}
	ora["lower"] = lower
	if st.StateKind != "" || st.CsrfKind != "" {
		// what http.Redirect makes of the recorded URI for this request path (library called directly)
		if cbm, ok := cb["state"].(M); ok {
			if uri, ok := cbm["uri"].(string); ok {
				rr := httptest.NewRecorder()
				http.Redirect(rr, req, uri, http.StatusFound)
				ora["flowLocation"] = rr.Header().Get("Location")
			}
		}
	}
	ora["redeemUser"] = strings.ToLower(strings.Split(st.Redeem.Email, "@")[0])
	return M{"in": st, "presented": presented, "cb": cb, "out": out, "oracle": ora}
}

func nzs(l []string) []string {
	if l == nil {
		return []string{}
	}
	return l
}

// gorilla/mux cleanPath (mux.go), computed with the library's own path.Clean
func gorillaClean(p string) string {
	if p == "" {
		return "/"
	}
	if p[0] != '/' {
		p = "/" + p
	}
	np := path.Clean(p)
	if p[len(p)-1] == '/' && np != "/" {
		np += "/"
	}
	return np
}

// which upstream the Host routes to, computed independently from the configuration (static exact match first, then regexps in order)
func (w *pfWorld) route(host string) int {
	for i, u := range w.cfg.Upstreams {
		if !u.Rewrite && u.From == host {
			// the last static registration for a host wins (map assignment)
			last := i
			for j := i + 1; j < len(w.cfg.Upstreams); j++ {
				if !w.cfg.Upstreams[j].Rewrite && w.cfg.Upstreams[j].From == host {
					last = j
				}
			}
			return last
		}
	}
	for i, u := range w.cfg.Upstreams {
		if u.Rewrite {
			if rx, err := regexp.Compile(u.From); err == nil && rx.MatchString(host) {
				return i
			}
		}
	}
	return -1
}

func jarKey(host string) string {
	if h, _, err := net.SplitHostPort(host); err == nil {
		return h
	}
	return host
}

func parseSetCookie(line string) *http.Cookie {
	h := http.Header{}
	h.Add("Set-Cookie", line)
	r := http.Response{Header: h}
	cs := r.Cookies()
	if len(cs) == 0 {
		return nil
	}
	return cs[0]
}

var _ = net.Dial

// pfOverlap: one user, sessions for two upstreams with different group rules and the same access token, both due for
// revalidation; the request for the second host arrives while the first one's /validate call is still open at the
// authenticator. Each request must be judged under its own upstream's policy.
func pfOverlap(c pfCase) M {
	w, err := newPfWorld(c.Cfg)
	if err != nil {
		return M{"cfg": c.Cfg, "setupError": err.Error(), "steps": []M{}, "raw": c}
	}
	defer w.close()
	w.intersect = true
	w.authHold, w.authHoldIn = make(chan struct{}), make(chan struct{}, 4)
	now := time.Now().Truncate(time.Second)
	w.mu.Lock()
	w.cur = &pfStep{Validate: pfOK(), Refresh: pfOK(), Profile: pfReply{Kind: "ok", Groups: c.Overlap.UserGroups}, Redeem: pfOK()}
	w.reached, w.calls = nil, nil
	w.mu.Unlock()
	type res struct {
		status int
	}
	send := func(host string) chan res {
		ch := make(chan res, 1)
		ss := pfGoodSess(host)
		ss.Valid = -10
		ss.Groups = c.Overlap.UserGroups
		req := httptest.NewRequest("GET", "http://"+host+"/", nil)
		req.Host = host
		req.Header.Set("Cookie", w.cookieName+"="+w.sealSess(w.cipher, ss, now))
		go func() {
			rec := httptest.NewRecorder()
			w.handler.ServeHTTP(rec, req)
			ch <- res{rec.Code}
		}()
		return ch
	}
	chA := send(c.Overlap.HostA)
	overlapped := false
	select {
	case <-w.authHoldIn:
		overlapped = true
	case <-time.After(10 * time.Second):
	}
	chB := send(c.Overlap.HostB)
	var rb res
	bEarly := false
	select {
	case rb = <-chB: // B was judged on its own while A's call is still open
		bEarly = true
	case <-time.After(400 * time.Millisecond):
	}
	close(w.authHold)
	ra := <-chA
	if !bEarly {
		rb = <-chB
	}
	w.mu.Lock()
	reached, calls := w.reached, w.calls
	w.cur = nil
	w.mu.Unlock()
	svcs := []string{}
	for _, r := range reached {
		svcs = append(svcs, fmt.Sprint(r["service"]))
	}
	sort.Strings(svcs)
	nval := 0
	for _, c := range calls {
		if c == "validate" {
			nval++
		}
	}
	return M{"cfg": c.Cfg, "steps": []M{}, "raw": c, "overlap": M{"overlapped": overlapped, "statusA": ra.status, "statusB": rb.status,
		"reached": svcs, "validateCalls": nval, "bAnsweredWhileAOpen": bEarly, "in": c.Overlap}}
}

func pfRun(c pfCase) M {
	if c.Overlap != nil {
		return pfOverlap(c)
	}
	w, err := newPfWorld(c.Cfg)
	if err != nil {
		return M{"cfg": c.Cfg, "setupError": err.Error(), "steps": []M{}, "raw": c}
	}
	defer w.close()
	var steps []M
	for i := range c.Steps {
		steps = append(steps, w.step(&c.Steps[i]))
	}
	return M{"cfg": c.Cfg, "steps": steps, "raw": c}
}
