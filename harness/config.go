package main

import (
	"encoding/json"
	"fmt"
	"math/rand"
	"net/url"
	"os"
	"regexp"
	"sort"
	"strconv"
	"strings"
	"time"

	"github.com/18F/hmacauth"
	"github.com/buzzfeed/sso/internal/proxy"
)

// Engine "config" (C14): generated documents of the documented shape are rendered to YAML and loaded by the real
// loader; the model receives the same document in structured form plus oracle tables for url.Parse / regexp.Compile.

type cfgOpts struct {
	HeaderOverrides map[string]string `json:"headerOverrides,omitempty"`
	Inject          map[string]string `json:"inject,omitempty"`
	SkipAuthRegex   []string          `json:"skipAuthRegex,omitempty"`
	Groups          []string          `json:"groups,omitempty"`
	Domains         []string          `json:"domains,omitempty"`
	Addrs           []string          `json:"addrs,omitempty"`
	TLSSkipVerify   bool              `json:"tlsSkipVerify,omitempty"`
	SkipPreflight   bool              `json:"skipPreflight,omitempty"`
	PassAccessToken bool              `json:"passAccessToken,omitempty"`
	PreserveHost    bool              `json:"preserveHost,omitempty"`
	Timeout         int64             `json:"timeout,omitempty"` // seconds
	ResetDeadline   int64             `json:"resetDeadline,omitempty"`
	FlushInterval   int64             `json:"flushInterval,omitempty"`
	SkipSigning     bool              `json:"skipSigning,omitempty"`
	ProviderSlug    string            `json:"providerSlug,omitempty"`
}

type cfgRoute struct {
	From    string   `json:"from,omitempty"`
	To      string   `json:"to,omitempty"`
	Type    string   `json:"type,omitempty"`
	Options *cfgOpts `json:"options,omitempty"`
}

type cfgBlock struct {
	Null   bool       `json:"null,omitempty"` // rendered as `name: ~`
	Route  cfgRoute   `json:"route"`
	Extras []cfgRoute `json:"extras,omitempty"`
}

type cfgService struct {
	Name     string     `json:"name"`
	Clusters []string   `json:"clusters"` // block names in document order
	Blocks   []cfgBlock `json:"blocks"`
}

type cfgCase struct {
	RawYAML  string            `json:"rawYaml,omitempty"` // a hand-written document whose values have the wrong YAML type: loading must fail
	LoadEnv  map[string]string `json:"loadEnv,omitempty"` // the LoadConfig-from-environment check instead of a document
	Environ  []string          `json:"environ,omitempty"` // the environment-parsing check instead of a document
	Services []cfgService      `json:"services"`
	Cluster  string            `json:"cluster"`
	Vars     map[string]string `json:"vars"`
	DefAddrs []string          `json:"defAddrs"`
	DefDoms  []string          `json:"defDoms"`
	DefGrps  []string          `json:"defGrps"`
	DefTO    int64             `json:"defTimeout"`
	DefSlug  string            `json:"defSlug"`
}

func yq(s string) string { b, _ := json.Marshal(s); return string(b) } // JSON strings are valid YAML double-quoted scalars

func yamlOpts(o *cfgOpts, ind string) string {
	var b strings.Builder
	m := func(name string, mm map[string]string) {
		if mm == nil {
			return
		}
		fmt.Fprintf(&b, "%s%s:\n", ind, name)
		keys := []string{}
		for k := range mm {
			keys = append(keys, k)
		}
		sort.Strings(keys)
		for _, k := range keys {
			fmt.Fprintf(&b, "%s  %s: %s\n", ind, yq(k), yq(mm[k]))
		}
	}
	l := func(name string, ll []string) {
		if ll == nil {
			return
		}
		fmt.Fprintf(&b, "%s%s:\n", ind, name)
		for _, x := range ll {
			fmt.Fprintf(&b, "%s  - %s\n", ind, yq(x))
		}
	}
	bo := func(name string, v bool) {
		if v {
			fmt.Fprintf(&b, "%s%s: true\n", ind, name)
		}
	}
	d := func(name string, v int64) {
		if v != 0 {
			fmt.Fprintf(&b, "%s%s: %ds\n", ind, name, v)
		}
	}
	m("header_overrides", o.HeaderOverrides)
	m("inject_request_headers", o.Inject)
	l("skip_auth_regex", o.SkipAuthRegex)
	l("allowed_groups", o.Groups)
	l("allowed_email_domains", o.Domains)
	l("allowed_email_addresses", o.Addrs)
	bo("tls_skip_verify", o.TLSSkipVerify)
	bo("skip_auth_preflight", o.SkipPreflight)
	bo("pass_access_token", o.PassAccessToken)
	bo("preserve_host", o.PreserveHost)
	d("timeout", o.Timeout)
	d("reset_deadline", o.ResetDeadline)
	d("flush_interval", o.FlushInterval)
	bo("skip_request_signing", o.SkipSigning)
	if o.ProviderSlug != "" {
		fmt.Fprintf(&b, "%sprovider_slug: %s\n", ind, yq(o.ProviderSlug))
	}
	if b.Len() == 0 {
		return ind + "timeout: 0s\n" // an options block that states nothing but is present (non-nil pointer)
	}
	return b.String()
}

func yamlRoute(r cfgRoute, ind string) string {
	var b strings.Builder
	if r.From != "" {
		fmt.Fprintf(&b, "%sfrom: %s\n", ind, yq(r.From))
	}
	if r.To != "" {
		fmt.Fprintf(&b, "%sto: %s\n", ind, yq(r.To))
	}
	if r.Type != "" {
		fmt.Fprintf(&b, "%stype: %s\n", ind, yq(r.Type))
	}
	if r.Options != nil {
		fmt.Fprintf(&b, "%soptions:\n%s", ind, yamlOpts(r.Options, ind+"  "))
	}
	return b.String()
}

func cfgYAML(c cfgCase) string {
	var b strings.Builder
	for _, s := range c.Services {
		fmt.Fprintf(&b, "- service: %s\n", yq(s.Name))
		for i, name := range s.Clusters {
			blk := s.Blocks[i]
			if blk.Null {
				fmt.Fprintf(&b, "  %s: ~\n", name)
				continue
			}
			body := yamlRoute(blk.Route, "    ")
			if len(blk.Extras) > 0 {
				body += "    extra_routes:\n"
				for _, e := range blk.Extras {
					er := yamlRoute(e, "        ")
					if er == "" {
						er = "        type: \"\"\n"
					}
					body += "      -" + er[7:]
				}
			}
			if body == "" {
				fmt.Fprintf(&b, "  %s: {}\n", name)
			} else {
				fmt.Fprintf(&b, "  %s:\n%s", name, body)
			}
		}
	}
	if len(c.Services) == 0 {
		return "[]\n"
	}
	return b.String()
}

func subst(s string, vars map[string]string) string {
	for k, v := range vars {
		s = strings.Replace(s, "{{"+k+"}}", v, -1)
	}
	return s
}

// cfgEnv: process-environment entries → template variables (incl. <service>_signing_key, the per-upstream HMAC key)
func cfgEnv(c cfgCase) M {
	got := proxy.VerifParseEnvironment(c.Environ)
	return M{"kind": "env", "environ": hxs(c.Environ), "got": func() M {
		o := M{}
		for k, v := range got {
			o[hx(k)] = hx(v)
		}
		return o
	}(), "lowerKeys": func() M {
		o := M{}
		for _, e := range c.Environ {
			k := e
			if i := strings.Index(e, "="); i >= 0 {
				k = e[:i]
			}
			o[hx(k)] = hx(strings.ToLower(k))
		}
		return o
	}(), "raw": c}
}

// cfgLoadEnv: proxy.LoadConfig() with the given variables in the process environment (the deployment's way in):
// either it fails, or what it loaded is what was stated.
func cfgLoadEnv(c cfgCase) M {
	keys := []string{}
	for k := range c.LoadEnv {
		keys = append(keys, k)
	}
	sort.Strings(keys)
	for _, k := range keys {
		os.Setenv(k, c.LoadEnv[k])
	}
	defer func() {
		for _, k := range keys {
			os.Unsetenv(k)
		}
	}()
	out := M{}
	func() {
		defer func() {
			if r := recover(); r != nil {
				out["panic"] = fmt.Sprint(r)
			}
		}()
		conf, err := proxy.LoadConfig()
		out["loaded"] = err == nil
		if err == nil {
			out["cluster"] = conf.UpstreamConfigs.Cluster
			g := conf.UpstreamConfigs.DefaultConfig.AllowedGroups
			if g == nil {
				g = []string{}
			}
			out["defaultGroups"] = g
			t := conf.SessionConfig.TTLConfig
			out["ttlLifetime"], out["ttlValid"], out["ttlGrace"] = int64(t.Lifetime/time.Second), int64(t.Valid/time.Second), int64(t.GracePeriod/time.Second)
			cc := conf.SessionConfig.CookieConfig
			out["cookieName"], out["cookieDomain"], out["cookieHTTPOnly"], out["cookieSecure"] = cc.Name, cc.Domain, cc.HTTPOnly, cc.Secure
			d := conf.UpstreamConfigs.DefaultConfig.EmailConfig
			out["defaultDomains"], out["defaultAddresses"] = nzs(d.AllowedDomains), nzs(d.AllowedAddresses)
			dur := func(x time.Duration) string { return strconv.FormatInt(int64(x/time.Second), 10) + "s" }
			out["got"] = M{"CLIENT_ID": conf.ClientConfig.ID, "CLIENT_SECRET": conf.ClientConfig.Secret,
				"PROVIDER_URL_EXTERNAL": conf.ProviderConfig.ProviderURLConfig.External, "PROVIDER_URL_INTERNAL": conf.ProviderConfig.ProviderURLConfig.Internal,
				"PROVIDER_SCOPE": conf.ProviderConfig.Scope, "SESSION_COOKIE_SECRET": cc.Secret, "SESSION_COOKIE_EXPIRE": dur(cc.Expire),
				"UPSTREAM_DEFAULT_PROVIDER": conf.UpstreamConfigs.DefaultConfig.ProviderSlug, "UPSTREAM_DEFAULT_TIMEOUT": dur(conf.UpstreamConfigs.DefaultConfig.Timeout),
				"UPSTREAM_SCHEME": conf.UpstreamConfigs.Scheme, "REQUESTSIGNER_KEY": conf.RequestSignerConfig.Key, "UPSTREAM_CONFIGFILE": conf.UpstreamConfigs.ConfigsFile}
		} else {
			out["error"] = err.Error()
		}
	}()
	return M{"kind": "loadenv", "env": c.LoadEnv, "out": out, "raw": c}
}

// cfgRaw: a document with a value of the wrong YAML type (a scalar where a list belongs, a list where a mapping belongs …).
// The loader must refuse it: a restriction the file states must never silently disappear.
func cfgRaw(c cfgCase) M {
	f, err := os.CreateTemp("", "verif-upstreams-raw-*.yml")
	if err != nil {
		panic(err)
	}
	defer os.Remove(f.Name())
	f.WriteString(c.RawYAML)
	f.Close()
	out := M{}
	func() {
		defer func() {
			if r := recover(); r != nil {
				out["panic"] = fmt.Sprint(r)
			}
		}()
		ups, lerr := proxy.VerifLoadUpstreams(f.Name(), "prod", "https", map[string]string{"cluster": "prod"}, nil, []string{"x.io"}, nil, 10*time.Second, 0, "", "_sso_proxy")
		out["loaded"] = lerr == nil
		if lerr != nil {
			out["err"] = lerr.Error()
		} else {
			var res []M
			for _, u := range ups {
				res = append(res, M{"service": u.Service, "groups": nz(u.AllowedGroups), "domains": nz(u.AllowedEmailDomains), "addrs": nz(u.AllowedEmailAddresses), "skip": len(u.SkipAuthCompiledRegex)})
			}
			out["ups"] = res
		}
	}()
	return M{"kind": "rawyaml", "yaml": c.RawYAML, "out": out, "raw": c}
}

func cfgRun(c cfgCase) M {
	if c.RawYAML != "" {
		return cfgRaw(c)
	}
	if c.LoadEnv != nil {
		return cfgLoadEnv(c)
	}
	if c.Environ != nil {
		return cfgEnv(c)
	}
	f, err := os.CreateTemp("", "verif-upstreams-*.yml")
	if err != nil {
		panic(err)
	}
	defer os.Remove(f.Name())
	y := cfgYAML(c)
	f.WriteString(y)
	f.Close()
	ups, lerr := proxy.VerifLoadUpstreams(f.Name(), c.Cluster, "https", c.Vars, c.DefAddrs, c.DefDoms, c.DefGrps,
		time.Duration(c.DefTO)*time.Second, 0, c.DefSlug, "_sso_proxy")
	out := M{}
	if lerr != nil {
		out["err"] = lerr.Error()
	} else {
		var res []M
		for _, u := range ups {
			var skip []string
			for _, re := range u.SkipAuthCompiledRegex {
				skip = append(skip, re.String())
			}
			kind := ""
			switch u.Route.(type) {
			case *proxy.SimpleRoute:
				kind = "simple"
			case *proxy.RewriteRoute:
				kind = "rewrite"
			}
			res = append(res, M{"service": u.Service, "from": u.RouteConfig.From, "to": u.RouteConfig.To, "type": u.RouteConfig.Type, "routeKind": kind,
				"skip": nz(skip), "groups": nz(u.AllowedGroups), "domains": nz(u.AllowedEmailDomains), "addrs": nz(u.AllowedEmailAddresses),
				"timeout": int64(u.Timeout / time.Second), "resetDeadline": int64(u.ResetDeadline / time.Second), "flushInterval": int64(u.FlushInterval / time.Second),
				"headerOverrides": nzm(u.HeaderOverrides), "inject": nzm(u.InjectRequestHeaders), "tlsSkipVerify": u.TLSSkipVerify, "preserveHost": u.PreserveHost,
				"skipSigning": u.SkipRequestSigning, "cookieName": u.CookieName, "providerSlug": u.ProviderSlug,
				"skipPreflight": u.SkipAuthPreflight, "passAccessToken": u.PassAccessToken, "hmac": u.HMACAuth != nil,
				"optionsLeft": u.RouteConfig.Options != nil, "extrasLeft": len(u.ExtraRoutes)})
		}
		if res == nil {
			res = []M{}
		}
		out["ups"] = res
	}
	// oracles: every string that may be fed to url.Parse / regexp.Compile, after template substitution
	okURL, okRe, okH := M{}, M{}, M{}
	addURL := func(s string) {
		s = subst(s, c.Vars)
		u := s
		if !strings.Contains(u, "://") {
			u = "https://" + u
		}
		_, err := url.Parse(u)
		okURL[s] = err == nil
	}
	addRe := func(s string) {
		s = subst(s, c.Vars)
		_, err := regexp.Compile(s)
		okRe[s] = err == nil
	}
	walk := func(r cfgRoute) {
		addURL(r.From)
		addURL(r.To)
		addRe(r.From)
		if r.Options != nil {
			for _, x := range r.Options.SkipAuthRegex {
				addRe(x)
			}
		}
	}
	for _, s := range c.Services {
		for _, b := range s.Blocks {
			walk(b.Route)
			for _, e := range b.Extras {
				walk(e)
			}
		}
		if spec, ok := c.Vars[cleanWS(subst(s.Name, c.Vars))+"_signing_key"]; ok {
			parts := strings.Split(spec, ":")
			good := len(parts) == 2
			if good {
				_, err := hmacauth.DigestNameToCryptoHash(parts[0])
				good = err == nil
			}
			okH[spec] = good
		}
	}
	return M{"doc": c, "yaml": y, "out": out, "okUrl": okURL, "okRegex": okRe, "okHmac": okH, "raw": c}
}

var wsRe = regexp.MustCompile(`\s+`)

func cleanWS(s string) string { return wsRe.ReplaceAllString(strings.TrimSpace(s), "_") }

func nz(l []string) []string {
	if l == nil {
		return []string{}
	}
	return l
}
func nzm(m map[string]string) map[string]string {
	if m == nil {
		return map[string]string{}
	}
	return m
}

func init() {
	engines["config"] = func(rng *rand.Rand, n int, em *Emitter, replay []byte) {
		idx := 0
		emit := func(c cfgCase) {
			o := cfgRun(c)
			o["e"] = "config"
			o["case"] = idx
			em.Emit(o)
			idx++
		}
		if replay != nil {
			var w struct {
				Raw cfgCase `json:"raw"`
			}
			if err := json.Unmarshal(replay, &w); err != nil {
				panic(err)
			}
			emit(w.Raw)
			return
		}
		emit(cfgCase{Environ: []string{"SSO_CONFIG_APP_SIGNING_KEY=sha256:c2hhcmVkLXNlY3JldA==", "SSO_CONFIG_API_SIGNING_KEY=sha1:a=b=c", "SSO_CONFIG_PLAIN=v",
			"SSO_CONFIG_EMPTY=", "SSO_CONFIG_MiXeD_Case=Value=With=Equals", "OTHER=x", "SSO_CONFIG_=novar", "PATH=/bin", "SSO_CONFIG_TRAIL=x="}})
		emit(cfgCase{Environ: []string{}})
		for _, v := range []string{"prod", "dc1", "true", "false", "t", "F", "True", "1", "0", "10", "blue-green", "yes"} {
			emit(cfgCase{LoadEnv: map[string]string{"UPSTREAM_CLUSTER": v}})
			emit(cfgCase{LoadEnv: map[string]string{"UPSTREAM_CLUSTER": "prod", "UPSTREAM_DEFAULT_GROUPS": v}})
		}
		emit(cfgCase{LoadEnv: map[string]string{"UPSTREAM_CLUSTER": "prod", "UPSTREAM_DEFAULT_GROUPS": "eng,true,ops"}})
		// documents whose values have the wrong YAML type
		for _, y := range []string{
			"- service: admin\n  default:\n    from: admin.x.io\n    to: admin.internal\n    options:\n      allowed_groups: admins@x.io\n",
			"- service: admin\n  default:\n    from: admin.x.io\n    to: admin.internal\n    options:\n      - allowed_groups: [admins]\n",
			"- service: admin\n  default:\n    from: admin.x.io\n    to: admin.internal\n    options:\n      allowed_groups: [admins]\n    extra_routes:\n      from: x.x.io\n      to: y\n",
			"- service: admin\n  default:\n    from: admin.x.io\n    to: admin.internal\n    options:\n      skip_auth_regex: ^/health$\n",
			"- service: admin\n  default:\n    from: admin.x.io\n    to: admin.internal\n    options:\n      allowed_email_addresses: {a: b}\n",
			"- service: admin\n  default:\n    from: admin.x.io\n    to: admin.internal\n  prod:\n    options:\n      allowed_groups: admins\n",
			"- service: admin\n  default:\n    from: [admin.x.io]\n    to: admin.internal\n",
			"- service: admin\n  default: admin.x.io\n",
			"- service: admin\n  owner: team-x\n  default:\n    from: admin.x.io\n    to: admin.internal\n",
			"service: admin\ndefault:\n  from: admin.x.io\n  to: admin.internal\n",
		} {
			emit(cfgCase{RawYAML: y})
		}
		// the session TTLs and cookie settings the deployment states are the ones in force
		for _, ttl := range [][3]string{{"2h", "30s", "2s"}, {"10m", "5s", "0s"}, {"1h", "1m", "3h"}, {"24h", "90s", "45m"}} {
			emit(cfgCase{LoadEnv: map[string]string{"UPSTREAM_CLUSTER": "prod", "SESSION_TTL_LIFETIME": ttl[0], "SESSION_TTL_VALID": ttl[1], "SESSION_TTL_GRACEPERIOD": ttl[2]}})
		}
		emit(cfgCase{LoadEnv: map[string]string{"UPSTREAM_CLUSTER": "prod", "CLIENT_ID": "the-proxy", "CLIENT_SECRET": "s3cret=with=equals", "PROVIDER_URL_EXTERNAL": "https://sso-auth.x.io",
			"PROVIDER_URL_INTERNAL": "http://sso-auth.internal:4180", "PROVIDER_SCOPE": "a b", "SESSION_COOKIE_SECRET": "c2VjcmV0c2VjcmV0c2VjcmV0c2VjcmV0c2VjcmV0MTI=", "SESSION_COOKIE_EXPIRE": "48h",
			"UPSTREAM_DEFAULT_PROVIDER": "okta", "UPSTREAM_DEFAULT_TIMEOUT": "45s", "UPSTREAM_SCHEME": "http", "REQUESTSIGNER_KEY": "-----BEGIN KEY-----\nabc=\n-----END KEY-----", "UPSTREAM_CONFIGFILE": "/etc/sso/upstreams.yml"}})
		emit(cfgCase{LoadEnv: map[string]string{"UPSTREAM_CLUSTER": "prod", "SESSION_COOKIE_NAME": "_my_proxy", "SESSION_COOKIE_DOMAIN": "x.io", "SESSION_COOKIE_HTTPONLY": "false",
			"UPSTREAM_DEFAULT_EMAIL_DOMAINS": "x.io,y.io", "UPSTREAM_DEFAULT_EMAIL_ADDRESSES": "ann@x.io"}})
		O := func(f func(o *cfgOpts)) *cfgOpts { o := &cfgOpts{}; f(o); return o }
		base := cfgRoute{From: "app.x.io", To: "app.internal", Options: O(func(o *cfgOpts) { o.Groups = []string{"admins"}; o.SkipAuthRegex = []string{"^/health$"} })}
		prelude := []cfgCase{
			{Services: []cfgService{{Name: "my  app", Clusters: []string{"default", "prod"}, Blocks: []cfgBlock{{Route: base}, {Route: cfgRoute{Options: O(func(o *cfgOpts) { o.Timeout = 5 })}}}}}, Cluster: "prod", DefDoms: []string{"x.io"}},
			{Services: []cfgService{{Name: "app", Clusters: []string{"default", "prod"}, Blocks: []cfgBlock{{Route: base}, {Route: cfgRoute{To: "prod.internal"}}}}}, Cluster: "prod", DefDoms: []string{"x.io"}},
			{Services: []cfgService{{Name: "app", Clusters: []string{"default"}, Blocks: []cfgBlock{{Route: cfgRoute{From: "app.x.io", To: "app.internal"}}}}}, Cluster: "prod"},
			{Services: []cfgService{{Name: "app", Clusters: []string{"default"}, Blocks: []cfgBlock{{Route: cfgRoute{From: "app.x.io", To: "app.internal", Options: O(func(o *cfgOpts) { o.SkipAuthRegex = []string{"("} })}}}}}, Cluster: "prod", DefDoms: []string{"x.io"}},
			{Services: []cfgService{{Name: "app", Clusters: []string{"default"}, Blocks: []cfgBlock{{Route: cfgRoute{From: "app.x.io", To: "app.internal", Type: "fancy"}}}}}, Cluster: "prod", DefDoms: []string{"x.io"}},
			{Services: []cfgService{{Name: "app", Clusters: []string{"default"}, Blocks: []cfgBlock{{Route: cfgRoute{From: "app.x.io"}}}}}, Cluster: "prod", DefDoms: []string{"x.io"}},
			{Services: []cfgService{{Name: "app", Clusters: []string{"default"}, Blocks: []cfgBlock{{Route: cfgRoute{To: "app.internal"}}}}}, Cluster: "prod", DefDoms: []string{"x.io"}},
			{Services: []cfgService{{Name: "", Clusters: []string{"default"}, Blocks: []cfgBlock{{Route: base}}}}, Cluster: "prod", DefDoms: []string{"x.io"}},
			{Services: []cfgService{{Name: "app", Clusters: []string{"default"}, Blocks: []cfgBlock{{Route: cfgRoute{From: "^(.*)\\.x\\.io$", To: "$1.internal", Type: "rewrite"}}}}}, Cluster: "prod", DefGrps: []string{"g"}},
			{Services: []cfgService{{Name: "app", Clusters: []string{"default"}, Blocks: []cfgBlock{{Route: cfgRoute{From: "(", To: "x", Type: "rewrite"}}}}}, Cluster: "prod", DefGrps: []string{"g"}},
			{Services: []cfgService{{Name: "app", Clusters: []string{"default"}, Blocks: []cfgBlock{{Route: cfgRoute{From: "a b%zz", To: "x"}}}}}, Cluster: "prod", DefGrps: []string{"g"}},
			{Services: []cfgService{{Name: "app", Clusters: []string{"default"}, Blocks: []cfgBlock{{Route: base, Extras: []cfgRoute{{From: "api.x.io"}, {From: "adm.x.io", To: "adm.internal", Options: O(func(o *cfgOpts) { o.Addrs = []string{"root@x.io"}; o.Timeout = 9 })}}}}}}, Cluster: "prod", DefDoms: []string{"x.io"}},
			{Services: []cfgService{{Name: "app", Clusters: []string{"default"}, Blocks: []cfgBlock{{Route: cfgRoute{From: "{{cluster}}.x.io", To: "app.{{cluster}}.internal"}}}}}, Cluster: "prod", DefDoms: []string{"x.io"}, Vars: map[string]string{"cluster": "prod", "app_signing_key": "sha256:secret"}},
			{Services: []cfgService{{Name: "app", Clusters: []string{"default"}, Blocks: []cfgBlock{{Route: base}}}}, Cluster: "prod", Vars: map[string]string{"app_signing_key": "nope"}},
			// two services, the first with a rewrite extra route that overlaps the second service's rewrite route: resolved order is
			// services first, extra routes after
			{Services: []cfgService{
				{Name: "preview", Clusters: []string{"default"}, Blocks: []cfgBlock{{Route: cfgRoute{From: "preview.x.io", To: "preview.internal"},
					Extras: []cfgRoute{{From: "^(.*)--preview\\.x\\.io$", To: "$1.preview.internal", Type: "rewrite"}}}}},
				{Name: "secure", Clusters: []string{"default"}, Blocks: []cfgBlock{{Route: cfgRoute{From: "^secure-(.*)\\.x\\.io$", To: "secure-$1.internal", Type: "rewrite",
					Options: O(func(o *cfgOpts) { o.Groups = []string{"admins"}; o.ProviderSlug = "okta" })}}}},
				{Name: "third", Clusters: []string{"default"}, Blocks: []cfgBlock{{Route: cfgRoute{From: "third.x.io", To: "third.internal"}, Extras: []cfgRoute{{From: "fourth.x.io", To: "fourth.internal"}}}}}},
				Cluster: "prod", DefDoms: []string{"x.io"}},
			// patterns with inline flags next to others: each keeps its own meaning
			{Services: []cfgService{{Name: "app", Clusters: []string{"default"}, Blocks: []cfgBlock{{Route: cfgRoute{From: "app.x.io", To: "app.internal", Options: O(func(o *cfgOpts) { o.SkipAuthRegex = []string{"(?i)^/healthz$", "^/public/.*$", "(?s)^/x"} })}}}}}, Cluster: "prod", DefDoms: []string{"x.io"}},
			// every listed skip-auth pattern compiles or the load fails — wherever in the list the bad one stands
			{Services: []cfgService{{Name: "app", Clusters: []string{"default"}, Blocks: []cfgBlock{{Route: cfgRoute{From: "app.x.io", To: "app.internal", Options: O(func(o *cfgOpts) { o.SkipAuthRegex = []string{"(", "^/ok$"} })}}}}}, Cluster: "prod", DefDoms: []string{"x.io"}},
			{Services: []cfgService{{Name: "app", Clusters: []string{"default"}, Blocks: []cfgBlock{{Route: cfgRoute{From: "app.x.io", To: "app.internal", Options: O(func(o *cfgOpts) { o.SkipAuthRegex = []string{"^/a", "^/hook/(?!admin).*$", "^/b"} })}}}}}, Cluster: "prod", DefDoms: []string{"x.io"}},
			// template variables the deployment does not define stay as written (and never turn a pattern into one that matches everything)
			{Services: []cfgService{{Name: "app", Clusters: []string{"default"}, Blocks: []cfgBlock{{Route: cfgRoute{From: "app.x.io", To: "app.internal", Options: O(func(o *cfgOpts) { o.SkipAuthRegex = []string{"^{{webhook_path}}", "{{public_prefix}}"} })}}}}}, Cluster: "prod", DefDoms: []string{"x.io"}, Vars: map[string]string{"cluster": "prod"}},
			{Services: []cfgService{{Name: "app", Clusters: []string{"default"}, Blocks: []cfgBlock{{Route: cfgRoute{From: "app.x.io", To: "app.{{zone}}.internal"}}}}}, Cluster: "prod", DefDoms: []string{"x.io"}, Vars: map[string]string{"cluster": "prod"}},
			{Services: []cfgService{{Name: "app", Clusters: []string{"default"}, Blocks: []cfgBlock{{Route: cfgRoute{From: "{{ cluster }}.x.io", To: "app.{{CLUSTER}}.internal"}}}}}, Cluster: "prod", DefDoms: []string{"x.io"}, Vars: map[string]string{"cluster": "prod"}},
			{Services: []cfgService{{Name: "app", Clusters: []string{"default"}, Blocks: []cfgBlock{{Route: cfgRoute{From: "{{cluster}}.x.io", To: "app.internal"}}}}}, Cluster: "prod", DefDoms: []string{"x.io"}},
			{Services: []cfgService{{Name: "app", Clusters: []string{"staging"}, Blocks: []cfgBlock{{Route: base}}}}, Cluster: "prod", DefDoms: []string{"x.io"}},
			{Services: []cfgService{{Name: "app", Clusters: []string{"default", "prod"}, Blocks: []cfgBlock{{Null: true}, {Route: base}}}}, Cluster: "prod"},
			{Services: []cfgService{{Name: "app", Clusters: []string{"default"}, Blocks: []cfgBlock{{Route: base}}}}, Cluster: "default", DefDoms: []string{"x.io"}},
		}
		for _, c := range prelude {
			emit(c)
		}
		hosts := []string{"app.x.io", "api.x.io", "{{cluster}}.x.io", "a b%zz", "x.io:8443", "https://s.x.io", "app.{{zone}}.x.io", "{{ cluster }}.x.io"}
		tos := []string{"app.internal", "http://app.internal:8080", "app.{{cluster}}.internal", "%%%", "app.{{zone}}.internal", "{{CLUSTER}}.internal"}
		pick := func(l []string) string { return l[rng.Intn(len(l))] }
		lists := [][]string{nil, nil, {"a"}, {"a", "b"}, {"*"}}
		regs := [][]string{nil, nil, {"^/health$"}, {"^/a", "("}, {"^/{{cluster}}/"}, {"^{{webhook_path}}"}, {"{{public_prefix}}", "^/ok$"}, {"^/{{ cluster }}/"}, {"(", "^/ok$"}, {"^/a", "^/hook/(?!admin).*$", "^/b"}}
		maps := []map[string]string{nil, nil, {"X-Frame-Options": "DENY"}, {"X-A": "1", "X-B": ""}, {"X-A": "2"}}
		mkOpts := func() *cfgOpts {
			if rng.Intn(3) == 0 {
				return nil
			}
			o := &cfgOpts{HeaderOverrides: maps[rng.Intn(len(maps))], Inject: maps[rng.Intn(len(maps))], SkipAuthRegex: regs[rng.Intn(len(regs))],
				Groups: lists[rng.Intn(len(lists))], Domains: lists[rng.Intn(len(lists))], Addrs: lists[rng.Intn(len(lists))]}
			if rng.Intn(10) == 0 {
				o.SkipAuthRegex = regs[3]
			} else if o.SkipAuthRegex != nil && len(o.SkipAuthRegex) == 2 {
				o.SkipAuthRegex = regs[2]
			}
			o.TLSSkipVerify = rng.Intn(4) == 0
			o.SkipPreflight = rng.Intn(4) == 0
			o.PassAccessToken = rng.Intn(4) == 0
			o.PreserveHost = rng.Intn(4) == 0
			o.SkipSigning = rng.Intn(4) == 0
			if rng.Intn(3) == 0 {
				o.Timeout = int64(1 + rng.Intn(60))
			}
			if rng.Intn(5) == 0 {
				o.FlushInterval = int64(1 + rng.Intn(5))
			}
			if rng.Intn(4) == 0 {
				o.ProviderSlug = pick([]string{"okta", "google"})
			}
			return o
		}
		mkRoute := func(top bool) cfgRoute {
			r := cfgRoute{Options: mkOpts()}
			if rng.Intn(6) > 0 {
				r.From = pick(hosts[:3])
				if rng.Intn(10) == 0 {
					r.From = pick(hosts[6:])
				}
				if rng.Intn(15) == 0 {
					r.From = pick(hosts)
				}
			}
			if rng.Intn(6) > 0 {
				r.To = pick(tos[:3])
				if rng.Intn(15) == 0 {
					r.To = pick(tos)
				}
			}
			switch rng.Intn(12) {
			case 0:
				r.Type = "simple"
			case 1:
				r.Type = "rewrite"
				if rng.Intn(2) == 0 {
					r.From = "^(.*)\\.x\\.io$"
				}
			case 2:
				r.Type = "fancy"
			}
			return r
		}
		envKeys := []string{"SSO_CONFIG_A", "SSO_CONFIG_app_signing_key", "SSO_CONFIG_B_C", "HOME", "SSO_CONFIGX", "SSO_CONFIG_"}
		envVals := []string{"v", "", "a=b", "=lead", "trail=", "a==b", "sha256:abc==", "x y"}
		for k := 0; k < n/20; k++ {
			var env []string
			for i := 0; i < 1+rng.Intn(5); i++ {
				env = append(env, envKeys[rng.Intn(len(envKeys))]+"="+envVals[rng.Intn(len(envVals))])
			}
			emit(cfgCase{Environ: env})
		}
		for k := 0; k < n; k++ {
			c := cfgCase{Cluster: pick([]string{"prod", "prod", "staging", "default"}), Vars: map[string]string{"cluster": "prod"}}
			if rng.Intn(6) == 0 {
				// the deployment does not define the variable the file uses (unset, misspelt): the text stays as written
				c.Vars = map[string]string{pick([]string{"Cluster", "clusters", "zone"}): "prod"}
			}
			ns := 1 + rng.Intn(3)
			for i := 0; i < ns; i++ {
				s := cfgService{Name: pick([]string{"app", "my app", " api ", "svc\t2", ""})}
				if rng.Intn(12) > 0 && s.Name == "" {
					s.Name = "app"
				}
				for _, cl := range []string{"default", "prod", "staging"} {
					if rng.Intn(3) == 0 {
						continue
					}
					b := cfgBlock{Route: mkRoute(true)}
					if rng.Intn(12) == 0 {
						b = cfgBlock{Null: true}
					} else if rng.Intn(3) == 0 {
						ne := 1 + rng.Intn(2)
						for j := 0; j < ne; j++ {
							b.Extras = append(b.Extras, mkRoute(false))
						}
					}
					s.Clusters = append(s.Clusters, cl)
					s.Blocks = append(s.Blocks, b)
				}
				c.Services = append(c.Services, s)
			}
			if rng.Intn(3) > 0 {
				c.DefDoms = []string{"x.io"}
			}
			if rng.Intn(5) == 0 {
				c.DefGrps = []string{"everyone"}
			}
			if rng.Intn(6) == 0 {
				c.DefAddrs = []string{"root@x.io"}
			}
			if rng.Intn(3) == 0 {
				c.DefTO = 30
			}
			if rng.Intn(3) == 0 {
				c.DefSlug = "google"
			}
			if rng.Intn(5) == 0 {
				c.Vars["app_signing_key"] = pick([]string{"sha256:secret", "sha1:k", "nope", "md9:x"})
			}
			emit(c)
		}
	}
}
