package main

import (
	"encoding/json"
	"math/rand"
	"strings"

	"github.com/buzzfeed/sso/internal/pkg/sessions"
	"github.com/buzzfeed/sso/internal/pkg/validators"
)

// Engine "validators" (C11): the real address / domain validators on generated rule lists and e-mails.
// strings.ToLower is shipped as an oracle table so that the model never has to know Unicode case mapping.

type valCase struct {
	Kind    string   `json:"kind"` // addr | domain
	Allowed []string `json:"allowed"`
	Email   string   `json:"email"`
}

func valRun(c valCase) M {
	s := &sessions.SessionState{Email: c.Email}
	var err error
	if c.Kind == "addr" {
		err = validators.NewEmailAddressValidator(c.Allowed).Validate(s)
	} else {
		err = validators.NewEmailDomainValidator(c.Allowed).Validate(s)
	}
	res := "ok"
	switch err {
	case nil:
	case validators.ErrInvalidEmailAddress:
		res = "invalid-email"
	case validators.ErrEmailAddressDenied, validators.ErrEmailDomainDenied:
		res = "denied"
	default:
		res = "other"
	}
	lower := M{}
	for _, x := range append([]string{c.Email}, c.Allowed...) {
		lower[hx(x)] = hx(strings.ToLower(x))
	}
	return M{"kind": c.Kind, "allowed": hxs(c.Allowed), "email": hx(c.Email), "lower": lower, "res": res, "raw": c}
}

func init() {
	engines["validators"] = func(rng *rand.Rand, n int, em *Emitter, replay []byte) {
		idx := 0
		emit := func(c valCase) {
			o := valRun(c)
			o["e"] = "validators"
			o["case"] = idx
			em.Emit(o)
			idx++
		}
		if replay != nil {
			var w struct {
				Raw valCase `json:"raw"`
			}
			if err := json.Unmarshal(replay, &w); err != nil {
				panic(err)
			}
			emit(w.Raw)
			return
		}
		prelude := []valCase{
			{"addr", []string{"a@x.io"}, "A@X.io"}, {"addr", []string{"a@x.io"}, "aa@x.io"}, {"addr", []string{"*"}, "z@q"}, {"addr", []string{"*"}, ""},
			{"addr", []string{"*", "a@x.io"}, "b@x.io"}, {"addr", []string{}, "a@x.io"}, {"addr", []string{"a@x.io", "B@x.io"}, "b@X.IO"},
			{"domain", []string{"x.io"}, "a@X.IO"}, {"domain", []string{"x.io"}, "a@notx.io"}, {"domain", []string{"x.io"}, "a@x.io.evil.com"},
			{"domain", []string{"x.io"}, "a@b@x.io"}, {"domain", []string{"x.io"}, "@x.io"}, {"domain", []string{"*"}, "q"}, {"domain", []string{"*"}, ""},
			{"domain", []string{"*", "x.io"}, "a@y.io"}, {"domain", []string{}, "a@x.io"}, {"domain", []string{"x.io", "Y.io"}, "a@y.IO"},
			{"domain", []string{"sub.x.io"}, "a@x.io"}, {"domain", []string{"x.io"}, "a@sub.x.io"},
			{"domain", []string{"*", "x.io"}, "weird*"}, // '*' among others is matched as a literal suffix (finding domain-star-suffix)
			{"addr", []string{"İ@x.io"}, "i̇@x.io"},
		}
		for _, c := range prelude {
			emit(c)
		}
		locals := []string{"a", "A", "bob", "", "a.b", "ä", "İ", "a@b", "x*"}
		doms := []string{"x.io", "X.IO", "y.io", "notx.io", "sub.x.io", "x.io.evil.com", "io", "ſ.io", "K.io", "k.io"}
		mkEmail := func() string {
			switch rng.Intn(12) {
			case 0:
				return ""
			case 1:
				return locals[rng.Intn(len(locals))]
			case 2:
				return locals[rng.Intn(len(locals))] + "@" + doms[rng.Intn(len(doms))] + "*"
			}
			return locals[rng.Intn(len(locals))] + "@" + doms[rng.Intn(len(doms))]
		}
		for k := 0; k < n; k++ {
			c := valCase{Kind: []string{"addr", "domain"}[rng.Intn(2)], Email: mkEmail()}
			nl := rng.Intn(4)
			for i := 0; i < nl; i++ {
				if rng.Intn(6) == 0 {
					c.Allowed = append(c.Allowed, "*")
				} else if c.Kind == "addr" {
					c.Allowed = append(c.Allowed, mkEmail())
				} else {
					c.Allowed = append(c.Allowed, doms[rng.Intn(len(doms))])
				}
			}
			if c.Allowed == nil {
				c.Allowed = []string{}
			}
			// make hits likely
			if rng.Intn(3) == 0 && len(c.Allowed) > 0 && c.Allowed[0] != "*" {
				if c.Kind == "addr" {
					c.Email = c.Allowed[0]
					if rng.Intn(2) == 0 {
						c.Email = strings.ToUpper(c.Email)
					}
				} else {
					c.Email = locals[rng.Intn(len(locals))] + "@" + c.Allowed[0]
				}
			}
			emit(c)
		}
	}
}
