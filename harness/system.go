package main

import (
	"encoding/base64"
	"encoding/json"
	"fmt"
	"html"
	"io"
	"math/rand"
	"net/http"
	"net/http/httptest"
	"net/url"
	"regexp"
	"sort"
	"strconv"
	"strings"
	"sync"
	"time"

	aprov "github.com/buzzfeed/sso/internal/auth/providers"
)

// Engine "system" (C19; glue of C06, C07, C08, C10): the real sso-proxy (proxy.New, real provider client) talking over
// real HTTP to the real sso-auth (NewAuthenticatorMux, real Google provider) whose identity provider is a small
// *stateful* fake (codes, tokens, a revocation ledger). A simulated browser with per-host cookie jars follows every
// redirect and submits the forms the real pages contain. Nothing between the two services is scripted: the proxy's
// signatures are checked by the authenticator, the authenticator's codes are redeemed by the proxy.

type sysEv struct {
	Op     string `json:"op"` // login | visit | signout | replay | idp-revoke
	Host   string `json:"host"`
	User   string `json:"user"`
	Gap    int64  `json:"gap"`
	Revoke string `json:"revoke"` // signout: how the IdP answers the revocation: ok | 500 | 429 | already
}

type sysCase struct {
	Evs []sysEv `json:"evs"`
}

// ---- stateful fake identity provider (Google endpoints). Tokens belong to a *grant* (one per redeemed code); revoking
// any token of a grant revokes the grant: its refresh token and every access token issued under it stop working.
type sysIdP struct {
	mu      sync.Mutex
	n       int
	codes   map[string]string // code -> email
	access  map[string]int    // access token -> grant
	refresh map[string]int    // refresh token -> grant
	owner   map[int]string    // grant -> email
	dead    map[int]bool      // revoked grants
	revMode string
	calls   []string
}

func (p *sysIdP) accessOK(at string) bool  { g, ok := p.access[at]; return ok && !p.dead[g] }
func (p *sysIdP) refreshOK(rt string) bool { g, ok := p.refresh[rt]; return ok && !p.dead[g] }

func (p *sysIdP) RoundTrip(r *http.Request) (*http.Response, error) {
	var body []byte
	if r.Body != nil {
		body, _ = io.ReadAll(r.Body)
	}
	form, _ := url.ParseQuery(string(body))
	for k, v := range r.URL.Query() {
		if form.Get(k) == "" && len(v) > 0 {
			form.Set(k, v[0])
		}
	}
	mk := func(status int, v interface{}) (*http.Response, error) {
		b, _ := json.Marshal(v)
		return &http.Response{StatusCode: status, Status: strconv.Itoa(status), Header: http.Header{"Content-Type": {"application/json"}},
			Body: io.NopCloser(strings.NewReader(string(b))), Request: r, ProtoMajor: 1, ProtoMinor: 1}, nil
	}
	p.mu.Lock()
	defer p.mu.Unlock()
	switch {
	case strings.HasSuffix(r.URL.Path, "/token"):
		if form.Get("grant_type") == "refresh_token" {
			p.calls = append(p.calls, "refresh")
			if !p.refreshOK(form.Get("refresh_token")) {
				return mk(400, M{"error": "invalid_grant", "error_description": "Token expired or revoked"})
			}
			p.n++
			at := fmt.Sprintf("at-%d", p.n)
			p.access[at] = p.refresh[form.Get("refresh_token")]
			return mk(200, M{"access_token": at, "expires_in": 3600})
		}
		p.calls = append(p.calls, "token")
		em, ok := p.codes[form.Get("code")]
		if !ok {
			return mk(400, M{"error": "invalid_grant", "error_description": "Bad Request"})
		}
		delete(p.codes, form.Get("code"))
		p.n++
		at, rt := fmt.Sprintf("at-%d", p.n), fmt.Sprintf("rt-%d", p.n)
		p.access[at], p.refresh[rt], p.owner[p.n] = p.n, p.n, em
		return mk(200, M{"access_token": at, "refresh_token": rt, "expires_in": 3600, "id_token": mkIDToken(em, true, 3, false, false)})
	case strings.HasSuffix(r.URL.Path, "/tokeninfo"):
		p.calls = append(p.calls, "validate")
		if !p.accessOK(form.Get("access_token")) {
			return mk(400, M{"error": "invalid_token", "error_description": "Invalid Value"})
		}
		return mk(200, M{"expires_in": 3000})
	case strings.HasSuffix(r.URL.Path, "/revoke"):
		p.calls = append(p.calls, "revoke")
		switch p.revMode {
		case "500":
			return mk(500, M{"error": "internal"})
		case "429":
			return mk(429, M{"error": "rate"})
		}
		g, known := p.access[form.Get("token")]
		if !known {
			return mk(400, M{"error": "invalid_token", "error_description": "Token expired or revoked"})
		}
		was := p.dead[g]
		p.dead[g] = true
		if was || p.revMode == "already" {
			return mk(400, M{"error": "invalid_token", "error_description": "Token expired or revoked"})
		}
		return mk(200, M{})
	}
	return mk(404, M{})
}

// ---- browser
type sysBrowser struct {
	jars map[string]map[string]string // host -> cookie name -> value
}

func (b *sysBrowser) cookies(host string) string {
	var parts []string
	names := []string{}
	for n := range b.jars[host] {
		names = append(names, n)
	}
	sort.Strings(names)
	for _, n := range names {
		parts = append(parts, n+"="+b.jars[host][n])
	}
	return strings.Join(parts, "; ")
}

func (b *sysBrowser) store(host string, res *http.Response) {
	if b.jars[host] == nil {
		b.jars[host] = map[string]string{}
	}
	for _, c := range res.Cookies() {
		if c.Value == "" || c.MaxAge < 0 {
			delete(b.jars[host], c.Name)
		} else {
			b.jars[host][c.Name] = c.Value
		}
	}
}

var sysHidden = regexp.MustCompile(`<input type="hidden" name="([^"]*)" value="([^"]*)">`)

type sysWorld struct {
	pw      *pfWorld
	aw      *afWorld
	authSrv *httptest.Server
	idp     *sysIdP
	br      *sysBrowser
	saved   map[string][]string // host -> copies of proxy session cookies the user kept (oldest first)
}

func newSysWorld() (*sysWorld, error) {
	aw, err := newAfWorld(afCase{Domains: []string{"x.io"}, Roots: []string{"x.io"}})
	if err != nil {
		return nil, err
	}
	idp := &sysIdP{codes: map[string]string{}, access: map[string]int{}, refresh: map[string]int{}, owner: map[int]string{}, dead: map[int]bool{}}
	aprov.VerifSetHTTPTransport(idp)
	srv := httptest.NewServer(http.HandlerFunc(func(rw http.ResponseWriter, r *http.Request) {
		r.Host = afHost // the back channel reaches the authenticator under its own name
		aw.handler.ServeHTTP(rw, r)
	}))
	cfg := pfBaseCfg()
	cfg.DefaultSlug = "google"
	cfg.Upstreams = cfg.Upstreams[:1]
	cfg.AuthURL = srv.URL
	cfg.V, cfg.G, cfg.L = 60, 0, 7200
	pw, err := newPfWorld(cfg)
	if err != nil {
		srv.Close()
		aw.close()
		return nil, err
	}
	return &sysWorld{pw: pw, aw: aw, authSrv: srv, idp: idp, br: &sysBrowser{jars: map[string]map[string]string{}}, saved: map[string][]string{}}, nil
}

func (w *sysWorld) close() { w.pw.close(); w.authSrv.Close(); w.aw.close() }

// one browser request; returns status, Location, body
func (w *sysWorld) get(method, rawURL string, form url.Values) (int, string, string, M) {
	u, err := url.Parse(rawURL)
	if err != nil {
		return 0, "", "", M{"err": err.Error()}
	}
	host := u.Host
	toAuth := host == afHost || "http://"+host == w.authSrv.URL
	if toAuth {
		host = afHost
	}
	var body io.Reader
	if form != nil {
		body = strings.NewReader(form.Encode())
	}
	req := httptest.NewRequest(method, u.RequestURI(), body)
	req.Host = host
	if form != nil {
		req.Header.Set("Content-Type", "application/x-www-form-urlencoded")
	}
	if ck := w.br.cookies(host); ck != "" {
		req.Header.Set("Cookie", ck)
	}
	rec := httptest.NewRecorder()
	w.pw.mu.Lock()
	w.pw.reached = nil
	w.pw.cur = &pfStep{}
	w.pw.mu.Unlock()
	if toAuth {
		w.aw.handler.ServeHTTP(rec, req)
	} else {
		w.pw.handler.ServeHTTP(rec, req)
	}
	res := rec.Result()
	w.br.store(host, res)
	b, _ := io.ReadAll(res.Body)
	w.pw.mu.Lock()
	reached := len(w.pw.reached)
	w.pw.mu.Unlock()
	return res.StatusCode, res.Header.Get("Location"), string(b), M{"toAuth": toAuth, "host": host, "path": u.Path, "status": res.StatusCode, "reached": reached}
}

func (w *sysWorld) login(host, user string) M {
	var hops []M
	add := func(m M) { hops = append(hops, m) }
	delete(w.br.jars[host], w.pw.cookieName) // a browser without a proxy session for this host (it may still be signed in at the authenticator)
	authBefore := w.br.jars[afHost]["_sso_auth_google"] != ""
	st, loc, _, h := w.get("GET", "http://"+host+"/", nil)
	add(h)
	out := M{}
	if st != 302 {
		return M{"hops": hops, "ok": false, "why": "no redirect to the authenticator"}
	}
	st, loc2, page, h := w.get("GET", loc, nil) // authenticator: sign-in page (or straight back with a code if already signed in)
	add(h)
	if st != 302 && !strings.Contains(page, `action="start"`) {
		// an error page (the authenticator just dropped a session the IdP no longer vouches for): the user tries again
		st, loc2, page, h = w.get("GET", loc, nil)
		add(h)
	}
	if st != 302 && strings.Contains(page, `action="start"`) {
		// the sign-in page (200, or 401 when the authenticator just dropped a session the IdP no longer vouches for):
		// submit the page's own form: GET start?redirect_uri=…
		q := url.Values{}
		for _, m := range sysHidden.FindAllStringSubmatch(page, -1) {
			q.Set(m[1], html.UnescapeString(m[2]))
		}
		lu, _ := url.Parse(loc)
		startURL := "https://" + afHost + strings.TrimSuffix(lu.Path, "sign_in") + "start?" + q.Encode()
		st, loc, _, h = w.get("GET", startURL, nil)
		add(h)
		if st != 302 {
			return M{"hops": hops, "ok": false, "why": "start refused"}
		}
		// at the identity provider: the user logs in; the IdP hands out a code bound to the user
		iu, _ := url.Parse(loc)
		w.idp.mu.Lock()
		w.idp.n++
		code := fmt.Sprintf("code-%d", w.idp.n)
		w.idp.codes[code] = user
		w.idp.mu.Unlock()
		cb := iu.Query().Get("redirect_uri") + "?code=" + url.QueryEscape(code) + "&state=" + url.QueryEscape(iu.Query().Get("state"))
		st, loc, _, h = w.get("GET", cb, nil)
		add(h)
		if st != 302 {
			return M{"hops": hops, "ok": false, "why": "authenticator callback refused", "status": st}
		}
		st, loc, _, h = w.get("GET", loc, nil) // sign_in again, now with a session: code for the proxy
		add(h)
	} else {
		loc = loc2
	}
	if st != 302 {
		return M{"hops": hops, "ok": false, "why": "no code issued", "status": st}
	}
	st, loc, _, h = w.get("GET", loc, nil) // proxy callback
	add(h)
	if st != 302 {
		return M{"hops": hops, "ok": false, "why": "proxy callback refused", "status": st}
	}
	st, _, _, h = w.get("GET", "http://"+host+loc, nil)
	add(h)
	out["hops"], out["ok"], out["finalStatus"], out["finalReached"], out["authSessionBefore"] = hops, st == 200, st, h["reached"], authBefore
	if v, ok := w.br.jars[host][w.pw.cookieName]; ok {
		m, _ := w.pw.openSess(v, time.Now().Truncate(time.Second))
		out["session"] = m
		w.saved[host] = append(w.saved[host], v)
	}
	return out
}

func (w *sysWorld) describe(v string) M {
	now := time.Now().Truncate(time.Second)
	m, ss := w.pw.openSess(v, now)
	if ss == nil {
		return m
	}
	w.idp.mu.Lock()
	m["tokenRevoked"] = !w.idp.accessOK(ss.AccessToken)
	m["refreshDead"] = !w.idp.refreshOK(ss.RefreshToken)
	w.idp.mu.Unlock()
	return m
}

func (w *sysWorld) visit(host, cookie string, gap int64) M {
	for time.Now().Nanosecond() > 700_000_000 {
		time.Sleep(20 * time.Millisecond)
	}
	if cookie != "" {
		cookie = w.pw.shift(cookie, gap)
		w.br.jars[host] = map[string]string{w.pw.cookieName: cookie}
	}
	pres := M{"kind": "none"}
	if cookie != "" {
		pres = w.describe(cookie)
	}
	w.idp.mu.Lock()
	w.idp.calls = nil
	w.idp.mu.Unlock()
	st, loc, _, h := w.get("GET", "http://"+host+"/", nil)
	_, still := w.br.jars[host][w.pw.cookieName]
	w.idp.mu.Lock()
	calls := append([]string{}, w.idp.calls...)
	w.idp.mu.Unlock()
	toAuth := strings.HasPrefix(loc, w.authSrv.URL)
	return M{"presented": pres, "status": st, "reached": h["reached"], "cookieKept": still, "idpCalls": calls, "redirectToAuthenticator": toAuth}
}

func (w *sysWorld) signout(host, mode string) M {
	had := w.br.jars[host][w.pw.cookieName]
	pres := M{"kind": "none"}
	if had != "" {
		pres = w.describe(had)
	}
	st, loc, _, _ := w.get("GET", "http://"+host+"/oauth2/sign_out", nil)
	_, proxyKept := w.br.jars[host][w.pw.cookieName]
	out := M{"presented": pres, "proxyStatus": st, "proxyCookieKept": proxyKept, "toAuthenticator": strings.HasPrefix(loc, w.authSrv.URL)}
	if st != 302 {
		return out
	}
	lu, _ := url.Parse(loc)
	out["returnAddress"] = lu.Query().Get("redirect_uri")
	out["authSessionBefore"] = w.br.jars[afHost]["_sso_auth_google"] != ""
	st, _, page, _ := w.get("GET", loc, nil)
	out["pageStatus"] = st
	form := url.Values{}
	for _, m := range sysHidden.FindAllStringSubmatch(page, -1) {
		form.Set(m[1], html.UnescapeString(m[2]))
	}
	out["formFields"] = len(form)
	w.idp.mu.Lock()
	w.idp.revMode = mode
	w.idp.calls = nil
	w.idp.mu.Unlock()
	st, loc2, _, _ := w.get("POST", "https://"+afHost+lu.Path, form)
	w.idp.mu.Lock()
	w.idp.revMode = ""
	calls := append([]string{}, w.idp.calls...)
	w.idp.mu.Unlock()
	_, authKept := w.br.jars[afHost]["_sso_auth_google"]
	out["confirmStatus"], out["confirmLocation"], out["authCookieKept"], out["idpCalls"] = st, loc2, authKept, calls
	if had != "" {
		out["after"] = w.describe(had)
	}
	return out
}

func sysRun(c sysCase) M {
	w, err := newSysWorld()
	if err != nil {
		return M{"setupError": err.Error(), "evs": []M{}, "raw": c}
	}
	defer w.close()
	var outs []M
	for _, ev := range c.Evs {
		var o M
		switch ev.Op {
		case "login":
			o = w.login(ev.Host, ev.User)
		case "visit":
			o = w.visit(ev.Host, w.br.jars[ev.Host][w.pw.cookieName], ev.Gap)
		case "replay":
			l := w.saved[ev.Host]
			if len(l) == 0 {
				o = M{"skipped": true}
			} else {
				o = w.visit(ev.Host, l[len(l)-1], ev.Gap)
			}
		case "signout":
			o = w.signout(ev.Host, ev.Revoke)
		case "idp-revoke":
			w.idp.mu.Lock()
			for g, em := range w.idp.owner {
				if em == ev.User {
					w.idp.dead[g] = true
				}
			}
			w.idp.mu.Unlock()
			o = M{}
		}
		outs = append(outs, M{"in": ev, "out": o})
	}
	return M{"evs": outs, "raw": c}
}

func init() {
	_ = base64.StdEncoding
	engines["system"] = func(rng *rand.Rand, n int, em *Emitter, replay []byte) {
		idx := 0
		emit := func(c sysCase) {
			o := sysRun(c)
			o["e"] = "system"
			o["case"] = idx
			em.Emit(o)
			idx++
		}
		if replay != nil {
			var w struct {
				Raw sysCase `json:"raw"`
			}
			if err := json.Unmarshal(replay, &w); err != nil {
				panic(err)
			}
			emit(w.Raw)
			return
		}
		H := "app.x.io"
		E := func(op string, gap int64, extra ...string) sysEv {
			e := sysEv{Op: op, Host: H, User: "ann@x.io", Gap: gap}
			if len(extra) > 0 {
				e.Revoke = extra[0]
			}
			return e
		}
		emit(sysCase{Evs: []sysEv{E("login", 0), E("visit", 3), E("visit", 73), E("signout", 0, "ok"), E("visit", 0), E("replay", 3), E("replay", 73), E("replay", 3)}})
		emit(sysCase{Evs: []sysEv{E("login", 0), E("signout", 0, "500"), E("replay", 73), E("signout", 0, "ok"), E("replay", 73)}})
		emit(sysCase{Evs: []sysEv{E("login", 0), E("signout", 0, "429"), E("visit", 0), E("replay", 73)}})
		emit(sysCase{Evs: []sysEv{E("login", 0), E("idp-revoke", 0), E("visit", 3), E("visit", 73), E("visit", 3)}})
		emit(sysCase{Evs: []sysEv{E("login", 0), E("signout", 0, "already"), E("replay", 73)}})
		emit(sysCase{Evs: []sysEv{E("login", 0), E("visit", 3613)}})
		emit(sysCase{Evs: []sysEv{{Op: "login", Host: H, User: "eve@evil.io"}, E("visit", 3)}})
		ops := []string{"login", "visit", "visit", "signout", "replay", "replay", "idp-revoke"}
		gaps := []int64{0, 3, 33, 73, 133, 613, 3613, 7213}
		modes := []string{"ok", "ok", "500", "429", "already"}
		for k := 0; k < n; k++ {
			c := sysCase{Evs: []sysEv{E("login", 0)}}
			ne := 3 + rng.Intn(8)
			for i := 0; i < ne; i++ {
				e := E(ops[rng.Intn(len(ops))], gaps[rng.Intn(len(gaps))])
				if e.Op == "signout" {
					e.Revoke = modes[rng.Intn(len(modes))]
				}
				c.Evs = append(c.Evs, e)
			}
			emit(c)
		}
	}
}
