// Command verifharness drives the real buzzfeed/sso code for the correspondence checks in /verif.
// It is compiled *into* the sso module with `go build -overlay` (see /verif/check), never committed to /repo.
package main

import (
	"bufio"
	"encoding/hex"
	"encoding/json"
	"flag"
	"fmt"
	"io"
	"math/rand"
	"os"
	"sort"
	"strconv"
	"sync"
	"time"

	_ "github.com/buzzfeed/sso/internal/pkg/logging"
	"github.com/sirupsen/logrus"
)

// Emitter writes one JSON object per line.
type Emitter struct {
	w    *bufio.Writer
	n    int
	mu   sync.Mutex
	last time.Time
}

func (e *Emitter) Emit(v interface{}) {
	b, err := json.Marshal(v)
	if err != nil {
		panic(err)
	}
	e.mu.Lock()
	e.w.Write(b)
	e.w.WriteByte('\n')
	e.n++
	e.last = time.Now()
	e.w.Flush() // a crash of the implementation must not take completed cases with it
	e.mu.Unlock()
}

// watchdog: an engine that emits nothing for `limit` is stuck inside the implementation (a caller that never
// returns, a lock never released). The trace so far is flushed, a final record names the case that did not
// complete, and the process exits 3 so that the check reports it instead of waiting for ever.
func (e *Emitter) watchdog(engine string, seed int64, limit time.Duration) {
	for {
		time.Sleep(limit / 10)
		e.mu.Lock()
		if time.Since(e.last) > limit {
			b, _ := json.Marshal(M{"e": "stuck", "engine": engine, "seed": seed, "case": e.n, "limitSeconds": limit.Seconds()})
			e.w.Write(b)
			e.w.WriteByte('\n')
			e.w.Flush()
			os.Exit(3)
		}
		e.mu.Unlock()
	}
}

type M = map[string]interface{}

func hx(s string) string  { return hex.EncodeToString([]byte(s)) }
func hxb(b []byte) string { return hex.EncodeToString(b) }
func unhx(s string) string {
	b, err := hex.DecodeString(s)
	if err != nil {
		panic(err)
	}
	return string(b)
}
func hxs(ss []string) []string {
	out := make([]string, len(ss))
	for i, s := range ss {
		out[i] = hx(s)
	}
	return out
}
func sortedCopy(ss []string) []string {
	c := append([]string{}, ss...)
	sort.Strings(c)
	return c
}

type engineFunc func(rng *rand.Rand, n int, em *Emitter, replay []byte)

var engines = map[string]engineFunc{}

func main() {
	seed := flag.Int64("seed", 1, "PRNG seed")
	n := flag.Int("n", 100, "number of random cases after the prelude")
	out := flag.String("out", "", "output trace file (JSON lines)")
	replay := flag.String("replay", "", "replay file: re-run the recorded case(s) instead of generating")
	flag.Parse()
	logrus.SetOutput(io.Discard) // sso logs through logrus' standard logger (the logging package's init points it at stdout)
	if flag.NArg() != 1 {
		fmt.Fprintln(os.Stderr, "usage: verifharness [flags] <engine>")
		os.Exit(2)
	}
	eng, ok := engines[flag.Arg(0)]
	if !ok {
		fmt.Fprintln(os.Stderr, "unknown engine", flag.Arg(0))
		os.Exit(2)
	}
	f := os.Stdout
	if *out != "" {
		var err error
		f, err = os.Create(*out)
		if err != nil {
			panic(err)
		}
		defer f.Close()
	}
	em := &Emitter{w: bufio.NewWriterSize(f, 1<<20), last: time.Now()}
	lim := 90 * time.Second
	if v := os.Getenv("VERIF_STUCK_SECONDS"); v != "" {
		if k, err := strconv.Atoi(v); err == nil && k > 0 {
			lim = time.Duration(k) * time.Second
		}
	}
	go em.watchdog(flag.Arg(0), *seed, lim)
	var rp []byte
	if *replay != "" {
		var err error
		rp, err = os.ReadFile(*replay)
		if err != nil {
			panic(err)
		}
	}
	eng(rand.New(rand.NewSource(*seed)), *n, em, rp)
	em.w.Flush()
}
