package main

import (
	"encoding/json"
	"math/rand"
	"sync"
	"time"

	"github.com/benbjohnson/clock"
	"github.com/buzzfeed/sso/internal/auth/circuit"
)

// Engine "breaker": the real circuit.Breaker driven in lockstep by an event list
// (start i | complete i ok | tick d). `f` is owned by the harness and blocks until released, so every
// critical section of the real code happens exactly when the event says.

type brkCfg struct {
	TripKind string `json:"tripKind"` // "fail" : fail>=k ; "failcur": fail+cur>=k
	TripK    int    `json:"tripK"`
	ResetK   int    `json:"resetK"`
	BackKind string `json:"backKind"` // "const" d ; "lin" d*(fail+1) ; "cur" d*(cur+1)
	BackD    int64  `json:"backD"`
	Max      int    `json:"max"` // HalfOpenConcurrentRequests as configured (0 => default 1)
}

type brkEv struct {
	Op string `json:"op"` // start | complete | tick
	I  int    `json:"i"`
	Ok bool   `json:"ok"`
	D  int64  `json:"d"`
}

type brkCase struct {
	Cfg brkCfg  `json:"cfg"`
	Evs []brkEv `json:"evs"`
}

type brkCall struct {
	release chan bool
	done    chan error
}

type brkRun struct {
	b     *circuit.Breaker
	clk   *clock.Mock
	mu    sync.Mutex
	hooks [][]interface{}
	calls map[int]*brkCall
	t0    int64
}

func newBrkRun(cfg brkCfg) *brkRun {
	r := &brkRun{calls: map[int]*brkCall{}}
	r.clk = clock.NewMock()
	r.t0 = r.clk.Now().UnixNano()
	opts := &circuit.Options{
		HalfOpenConcurrentRequests: cfg.Max,
		ShouldTripFunc: func(c circuit.Counts) bool {
			if cfg.TripKind == "failcur" {
				return c.ConsecutiveFailures+c.CurrentRequests >= cfg.TripK
			}
			return c.ConsecutiveFailures >= cfg.TripK
		},
		ShouldResetFunc: func(c circuit.Counts) bool { return c.ConsecutiveSuccesses >= cfg.ResetK },
		BackoffDurationFunc: func(c circuit.Counts) time.Duration {
			switch cfg.BackKind {
			case "lin":
				return time.Duration(cfg.BackD * int64(c.ConsecutiveFailures+1))
			case "cur":
				return time.Duration(cfg.BackD * int64(c.CurrentRequests+1))
			}
			return time.Duration(cfg.BackD)
		},
		OnStateChange: func(prev, to circuit.State) {
			r.mu.Lock()
			r.hooks = append(r.hooks, []interface{}{"sc", int(prev), int(to)})
			r.mu.Unlock()
		},
		OnBackoff: func(d time.Duration, reset time.Time) {
			r.mu.Lock()
			r.hooks = append(r.hooks, []interface{}{"bo", int64(d), reset.UnixNano() - r.t0})
			r.mu.Unlock()
		},
		TestClock: r.clk,
	}
	r.b = circuit.NewBreaker(opts)
	return r
}

func (r *brkRun) takeHooks() [][]interface{} {
	r.mu.Lock()
	defer r.mu.Unlock()
	h := r.hooks
	r.hooks = nil
	if h == nil {
		h = [][]interface{}{}
	}
	return h
}

func (r *brkRun) snapshot(out M) {
	st, gen, cur, succ, fail, z, exp := r.b.VerifSnapshot()
	out["st"] = st
	out["gen"] = gen
	out["cur"] = cur
	out["succ"] = succ
	out["fail"] = fail
	if z {
		out["exp"] = nil
	} else {
		out["exp"] = exp - r.t0
	}
	out["now"] = r.clk.Now().UnixNano() - r.t0
}

// exec performs one event on the real breaker and returns the observation.
func (r *brkRun) exec(ev brkEv) M {
	out := M{}
	switch ev.Op {
	case "start":
		if _, busy := r.calls[ev.I]; busy {
			out["r"] = "disabled"
			break
		}
		c := &brkCall{release: make(chan bool), done: make(chan error, 1)}
		entered := make(chan struct{})
		go func() {
			_, err := r.b.Call(func() (interface{}, error) {
				close(entered)
				if <-c.release {
					return 1, nil
				}
				return nil, errFail
			})
			c.done <- err
		}()
		select {
		case <-entered:
			r.calls[ev.I] = c
			out["r"] = "admitted"
		case err := <-c.done:
			if _, ok := err.(*circuit.ErrOpenState); ok {
				out["r"] = "rejected"
			} else {
				out["r"] = "unexpected-return"
			}
		}
	case "complete":
		c, ok := r.calls[ev.I]
		if !ok {
			out["r"] = "disabled"
			break
		}
		c.release <- ev.Ok
		err := <-c.done
		delete(r.calls, ev.I)
		if (err == nil) == ev.Ok {
			out["r"] = "completed"
		} else {
			out["r"] = "wrong-result"
		}
	case "tick":
		r.clk.Add(time.Duration(ev.D))
		out["r"] = "ticked"
	}
	out["hooks"] = r.takeHooks()
	r.snapshot(out)
	return out
}

func (r *brkRun) finish() {
	for i, c := range r.calls {
		c.release <- true
		<-c.done
		delete(r.calls, i)
	}
}

type failErr struct{}

func (failErr) Error() string { return "fail" }

var errFail = failErr{}

func brkRandomCfg(rng *rand.Rand) brkCfg {
	cfg := brkCfg{TripKind: "fail", TripK: 1 + rng.Intn(4), ResetK: 1 + rng.Intn(3), BackKind: "const", BackD: int64(1 + rng.Intn(20)), Max: rng.Intn(4)}
	if rng.Intn(4) == 0 {
		cfg.TripKind = "failcur"
	}
	switch rng.Intn(3) {
	case 1:
		cfg.BackKind = "lin"
	case 2:
		cfg.BackKind = "cur"
	}
	return cfg
}

func brkPrelude() []brkCase {
	c1 := brkCfg{TripKind: "fail", TripK: 2, ResetK: 1, BackKind: "const", BackD: 10, Max: 1}
	c2 := brkCfg{TripKind: "fail", TripK: 1, ResetK: 2, BackKind: "lin", BackD: 5, Max: 2}
	S := func(i int) brkEv { return brkEv{Op: "start", I: i} }
	C := func(i int, ok bool) brkEv { return brkEv{Op: "complete", I: i, Ok: ok} }
	T := func(d int64) brkEv { return brkEv{Op: "tick", D: d} }
	return []brkCase{
		// trip, reject while open, exact-deadline tick (strict After), half-open cap incl. stale in-flight call, stale success ignored, probe closes
		{c1, []brkEv{S(0), S(1), S(2), C(0, false), C(1, false), S(9), T(10), S(10), T(1), S(3), C(2, true), S(4), S(5), C(4, true), S(6), C(6, true)}},
		// half-open failure re-opens with grown back-off; stale failure after two state changes ignored
		{c2, []brkEv{S(0), S(1), C(0, false), T(6), S(2), S(3), S(4), C(2, false), C(1, false), T(11), S(5), C(5, true), S(6), C(6, true), C(3, false)}},
		// success resets failure streak while closed
		{c1, []brkEv{S(0), C(0, false), S(1), C(1, true), S(2), C(2, false), S(3), C(3, false), S(4)}},
	}
}

func init() {
	engines["breaker"] = func(rng *rand.Rand, n int, em *Emitter, replay []byte) {
		emit := func(idx int, cs brkCase) {
			r := newBrkRun(cs.Cfg)
			ops := make([]M, 0, len(cs.Evs))
			for _, ev := range cs.Evs {
				ops = append(ops, M{"in": ev, "out": r.exec(ev)})
			}
			r.finish()
			em.Emit(M{"e": "breaker", "case": idx, "cfg": cs.Cfg, "ops": ops})
		}
		if replay != nil {
			var cs brkCase
			if err := json.Unmarshal(replay, &cs); err != nil {
				panic(err)
			}
			emit(0, cs)
			return
		}
		idx := 0
		for _, cs := range brkPrelude() {
			emit(idx, cs)
			idx++
		}
		for k := 0; k < n; k++ {
			cfg := brkRandomCfg(rng)
			r := newBrkRun(cfg)
			nev := 5 + rng.Intn(40)
			ops := make([]M, 0, nev)
			next := 0
			for j := 0; j < nev; j++ {
				var ev brkEv
				x := rng.Intn(10)
				switch {
				case x < 4 || len(r.calls) == 0 && x < 7:
					ev = brkEv{Op: "start", I: next}
					next++
				case x < 8 && len(r.calls) > 0:
					ids := make([]int, 0, len(r.calls))
					for id := range r.calls {
						ids = append(ids, id)
					}
					sortInts(ids)
					ev = brkEv{Op: "complete", I: ids[rng.Intn(len(ids))], Ok: rng.Intn(5) < 2}
				default:
					// ticks are drawn around the configured back-off so that deadlines are hit exactly, just before and just after
					ev = brkEv{Op: "tick", D: []int64{0, 1, cfg.BackD - 1, cfg.BackD, cfg.BackD + 1, 2 * cfg.BackD, int64(rng.Intn(50))}[rng.Intn(7)]}
					if ev.D < 0 {
						ev.D = 0
					}
				}
				ops = append(ops, M{"in": ev, "out": r.exec(ev)})
			}
			r.finish()
			em.Emit(M{"e": "breaker", "case": idx, "cfg": cfg, "ops": ops})
			idx++
		}
	}
}

func sortInts(a []int) {
	for i := 1; i < len(a); i++ {
		for j := i; j > 0 && a[j-1] > a[j]; j-- {
			a[j-1], a[j] = a[j], a[j-1]
		}
	}
}
