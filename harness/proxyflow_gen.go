package main

import (
	"encoding/json"
	"math/rand"
	"strings"
)

func pfOK() pfReply { return pfReply{Kind: "ok"} }

func pfDefaultAns(st *pfStep) {
	if st.Validate.Kind == "" {
		st.Validate = pfOK()
	}
	if st.Refresh.Kind == "" {
		st.Refresh = pfReply{Kind: "ok", Token: "new-access", TTL: 600}
	}
	if st.Profile.Kind == "" {
		st.Profile = pfReply{Kind: "ok", Groups: []string{"eng", "ops"}}
	}
	if st.Redeem.Kind == "" {
		st.Redeem = pfReply{Kind: "ok", Token: "at-1", RTok: "rt-1", TTL: 600, Email: "Ann@x.io"}
	}
	if st.Method == "" {
		st.Method = "GET"
	}
	if st.Target == "" && st.StateKind == "" && st.CsrfKind == "" {
		st.Target = "/"
	}
}

func pfBaseCfg() pfCfg {
	return pfCfg{
		Upstreams: []pfUpstream{
			{Service: "app", From: "app.x.io", Domains: []string{"x.io"}, Skip: []string{"^/health$", "^/public/", `\.(css|js)$`}},
			{Service: "api", From: "api.x.io", Groups: []string{"eng"}, Slug: "okta"},
			{Service: "wild", From: `^[a-z]+\.apps\.x\.io$`, Rewrite: true, Addrs: []string{"ann@x.io"}, Domains: []string{"y.io"}},
			{Service: "port", From: "port.x.io:8443", Domains: []string{"x.io"}},
		},
		Secure: false, HTTPOnly: true, L: 3600, V: 60, G: 300, DefaultSlug: "idp",
	}
}

func i64(v int64) *int64 { return &v }

func pfGoodSess(host string) *pfSess {
	return &pfSess{Slug: "idp", Host: host, Email: "ann@x.io", User: "ann", Access: "at-0", RefreshTok: "rt-0", Groups: []string{"eng"},
		Lifetime: 3000, Refresh: 500, Valid: 30}
}

func pfPrelude() []pfCase {
	base := pfBaseCfg()
	S := func(host string, mut func(s *pfSess)) pfCookie {
		s := pfGoodSess(host)
		if mut != nil {
			mut(s)
		}
		return pfCookie{Kind: "sess", Sess: s}
	}
	st := func(host, target string, c pfCookie, mut func(s *pfStep)) pfStep {
		s := pfStep{Host: host, Target: target, Cookie: c}
		if mut != nil {
			mut(&s)
		}
		pfDefaultAns(&s)
		return s
	}
	none := pfCookie{Kind: "none"}
	SA := func(mut func(s *pfSess)) pfCookie { // a session for the group-protected upstream, issued by its own provider
		return S("api.x.io", func(s *pfSess) {
			s.Slug = "okta"
			if mut != nil {
				mut(s)
			}
		})
	}
	var cases []pfCase
	// decision table representatives on app.x.io (domain rule only)
	cases = append(cases, pfCase{Cfg: base, Steps: []pfStep{
		st("app.x.io", "/", none, nil),
		st("app.x.io", "/", none, func(s *pfStep) { s.XHR = true }),
		st("app.x.io", "/", pfCookie{Kind: "garbage"}, nil),
		st("app.x.io", "/", pfCookie{Kind: "otherkey", Sess: pfGoodSess("app.x.io")}, nil),
		st("app.x.io", "/", pfCookie{Kind: "flowrec"}, nil),
		st("app.x.io", "/a/b?q=1", S("app.x.io", nil), nil),                           // fresh: forwarded
		st("app.x.io", "/", S("app.x.io", func(s *pfSess) { s.Slug = "okta" }), nil),  // wrong IdP
		st("app.x.io", "/", S("api.x.io", nil), nil),                                  // other upstream's session
		st("app.x.io", "/", S("app.x.io", func(s *pfSess) { s.Lifetime = -10 }), nil), // lifetime over
		st("app.x.io", "/", S("app.x.io", func(s *pfSess) { s.Valid = -10 }), nil),    // revalidate ok
		st("app.x.io", "/", S("app.x.io", func(s *pfSess) { s.Valid = -10 }), func(s *pfStep) { s.Validate = pfReply{Kind: "status", Status: 401} }),
		st("app.x.io", "/", S("app.x.io", func(s *pfSess) { s.Valid = -10 }), func(s *pfStep) { s.Validate = pfReply{Kind: "transport"} }),
		st("app.x.io", "/", S("app.x.io", func(s *pfSess) { s.Valid = -10 }), func(s *pfStep) { s.Validate = pfReply{Kind: "status", Status: 503} }), // grace starts
		st("app.x.io", "/", S("app.x.io", func(s *pfSess) { s.Valid = -10; s.Grace = i64(-290) }), func(s *pfStep) { s.Validate = pfReply{Kind: "status", Status: 429} }),
		st("app.x.io", "/", S("app.x.io", func(s *pfSess) { s.Valid = -10; s.Grace = i64(-310) }), func(s *pfStep) { s.Validate = pfReply{Kind: "status", Status: 503} }), // grace over
		st("app.x.io", "/", S("app.x.io", func(s *pfSess) { s.Valid = -10; s.Grace = i64(-100) }), nil),                                                                   // success resets grace
		st("app.x.io", "/", S("app.x.io", func(s *pfSess) { s.Refresh = -10 }), nil),                                                                                      // refresh ok
		st("app.x.io", "/", S("app.x.io", func(s *pfSess) { s.Refresh = -10 }), func(s *pfStep) { s.Refresh = pfReply{Kind: "status", Status: 401} }),
		st("app.x.io", "/", S("app.x.io", func(s *pfSess) { s.Refresh = -10 }), func(s *pfStep) { s.Refresh = pfReply{Kind: "status", Status: 500} }),
		st("app.x.io", "/", S("app.x.io", func(s *pfSess) { s.Refresh = -10 }), func(s *pfStep) { s.Refresh = pfReply{Kind: "status", Status: 503} }),
		st("app.x.io", "/", S("app.x.io", func(s *pfSess) { s.Refresh = -10; s.Grace = i64(-400) }), func(s *pfStep) { s.Refresh = pfReply{Kind: "status", Status: 503} }),
		st("app.x.io", "/", S("app.x.io", func(s *pfSess) { s.Refresh = -10 }), func(s *pfStep) { s.Refresh = pfReply{Kind: "malformed"} }),
		st("app.x.io", "/", S("app.x.io", func(s *pfSess) { s.Refresh = -10 }), func(s *pfStep) { s.Refresh = pfReply{Kind: "transport"} }),
		// the authenticator accepts the request and never answers (the caller's timeout runs out): no answer is not a 429/503
		st("app.x.io", "/", S("app.x.io", func(s *pfSess) { s.Refresh = -10 }), func(s *pfStep) { s.Refresh = pfReply{Kind: "hang"} }),
		st("app.x.io", "/", S("app.x.io", func(s *pfSess) { s.Valid = -10 }), func(s *pfStep) { s.Validate = pfReply{Kind: "hang"} }),
		st("app.x.io", "/", S("app.x.io", func(s *pfSess) { s.Refresh = -10; s.Grace = i64(-100) }), func(s *pfStep) { s.Refresh = pfReply{Kind: "hang"} }),
		st("app.x.io", "/", S("app.x.io", func(s *pfSess) { s.Refresh = -10; s.RefreshTok = "" }), nil),
		st("app.x.io", "/", S("app.x.io", func(s *pfSess) { s.Email = "ann@evil.io" }), nil),                // domain rule fails on request
		st("app.x.io", "/", S("app.x.io", func(s *pfSess) { s.Email = "ann@evil.io"; s.Valid = -10 }), nil), // saved, then refused
		st("app.x.io", "/health", none, nil), // skip-auth
		st("app.x.io", "/health", none, func(s *pfStep) {
			s.Headers = map[string]string{"X-Forwarded-Email": "root@x.io", "X-Forwarded-User": "root"}
		}),
		st("app.x.io", "/healthz", none, nil),
		st("app.x.io", "/public/../private", none, nil), // cleaned by the router first
		st("app.x.io", "/oauth2/auth", S("app.x.io", nil), nil),
		st("app.x.io", "/oauth2/auth", none, nil),
		st("app.x.io", "/oauth2/auth", S("app.x.io", func(s *pfSess) { s.Lifetime = -10 }), nil),
		st("app.x.io", "/favicon.ico", none, nil),
		st("app.x.io", "/favicon.ico", S("app.x.io", nil), nil),
		st("app.x.io", "/robots.txt", none, nil),
		st("app.x.io", "/oauth2/sign_out", S("app.x.io", nil), nil),
		st("app.x.io", "/oauth2/sign_out", none, nil),
		st("app.x.io", "/ping", none, nil),
		st("app.x.io", "/static/site.css", none, nil),            // unanchored skip pattern: the path ends in .css
		st("app.x.io", "/admin/users?theme=dark.css", none, nil), // … the query does, the path does not
		st("app.x.io", "/admin/users?x=/health", none, nil),
		st("app.x.io", "/admin.css/users", none, nil),
		st("app.x.io", "/%2Fevil.io/", none, nil), // flow start records the request URI as sent, never a decoded "//evil.io/"
		st("app.x.io", "/%2F%2Fevil.io", none, nil),
		st("app.x.io", "/%5Cevil.io/x", none, nil),
		st("app.x.io", "/a%2Fb?x=%2F", none, nil),
		st("port.x.io:8443", "/", none, nil), // a route whose `from` carries a port is matched on the whole Host value
		st("port.x.io:8443", "/", S("port.x.io:8443", nil), nil),
		st("port.x.io", "/", none, nil),
		st("port.x.io", "/", S("port.x.io:8443", nil), nil),
		st("port.x.io:443", "/", none, nil),
		st("nope.x.io", "/", none, nil),              // 421
		st("APP.x.io", "/", S("app.x.io", nil), nil), // case variant: no static match
	}})
	// group-protected upstream with its own provider slug
	cases = append(cases, pfCase{Cfg: base, Steps: []pfStep{
		st("api.x.io", "/", none, nil),
		st("api.x.io", "/", S("api.x.io", nil), nil),
		st("api.x.io", "/", S("api.x.io", func(s *pfSess) { s.Slug = "okta" }), nil),
		st("api.x.io", "/", SA(func(s *pfSess) { s.Valid = -10 }), func(s *pfStep) { s.Profile = pfReply{Kind: "ok", Groups: []string{"ops"}} }), // left the group
		st("api.x.io", "/", SA(func(s *pfSess) { s.Valid = -10 }), func(s *pfStep) { s.Profile = pfReply{Kind: "ok", Groups: []string{"ops", "eng"}} }),
		st("api.x.io", "/", SA(func(s *pfSess) { s.Valid = -10 }), func(s *pfStep) { s.Profile = pfReply{Kind: "status", Status: 503} }),
		st("api.x.io", "/", SA(func(s *pfSess) { s.Valid = -10 }), func(s *pfStep) { s.Profile = pfReply{Kind: "status", Status: 500} }),
		st("api.x.io", "/", SA(func(s *pfSess) { s.Valid = -10 }), func(s *pfStep) { s.Profile = pfReply{Kind: "malformed"} }),
		st("api.x.io", "/", SA(func(s *pfSess) { s.Valid = -10 }), func(s *pfStep) { s.Profile = pfReply{Kind: "hang"} }),
		st("api.x.io", "/", SA(func(s *pfSess) { s.Refresh = -10 }), func(s *pfStep) { s.Profile = pfReply{Kind: "hang"} }),
		st("api.x.io", "/", SA(func(s *pfSess) { s.Refresh = -10 }), func(s *pfStep) { s.Profile = pfReply{Kind: "ok", Groups: []string{}} }),
		st("api.x.io", "/", SA(func(s *pfSess) { s.Refresh = -10 }), func(s *pfStep) { s.Profile = pfReply{Kind: "status", Status: 429} }),
		// outage on one endpoint only, with and without a grace period already running (refresh answered, /profile not)
		st("api.x.io", "/", SA(func(s *pfSess) { s.Refresh = -10; s.Grace = i64(-400) }), func(s *pfStep) { s.Profile = pfReply{Kind: "status", Status: 503} }),
		st("api.x.io", "/", SA(func(s *pfSess) { s.Refresh = -10; s.Grace = i64(-100) }), func(s *pfStep) { s.Profile = pfReply{Kind: "status", Status: 503} }),
		st("api.x.io", "/", SA(func(s *pfSess) { s.Refresh = -10; s.Grace = i64(-100) }), func(s *pfStep) { s.Profile = pfReply{Kind: "status", Status: 429} }),
		st("api.x.io", "/", SA(func(s *pfSess) { s.Valid = -10; s.Grace = i64(-400) }), func(s *pfStep) { s.Profile = pfReply{Kind: "status", Status: 503} }),
		st("api.x.io", "/", SA(func(s *pfSess) { s.Valid = -10; s.Grace = i64(-100) }), func(s *pfStep) { s.Profile = pfReply{Kind: "status", Status: 429} }),
		st("api.x.io", "/", SA(func(s *pfSess) { s.Refresh = -10; s.Grace = i64(-100) }), nil), // all endpoints back: grace reset
		st("foo.apps.x.io", "/", none, nil),
		st("foo.apps.x.io", "/", S("foo.apps.x.io", nil), nil),                                      // address ok, domain rule fails: all-of on requests
		st("foo.apps.x.io", "/", S("foo.apps.x.io", func(s *pfSess) { s.Email = "bob@y.io" }), nil), // domain ok, address fails
		st("foo.apps.x.io", "/", S("bar.apps.x.io", nil), nil),
		// one upstream (one provider) serving several hosts: every sign-out gets a return address on *its* host, whatever came before
		st("foo.apps.x.io", "/oauth2/sign_out", S("foo.apps.x.io", nil), nil),
		st("bar.apps.x.io", "/oauth2/sign_out", S("bar.apps.x.io", nil), nil),
		st("foo.apps.x.io", "/oauth2/sign_out", none, nil),
		st("bar.apps.x.io", "/", none, nil),
		st("foo.apps.x.io", "/x", none, nil),
	}})
	// a login flow, then a history on the resulting cookie
	flow := func(host string) []pfStep {
		return []pfStep{
			st(host, "/deep/link?x=1", none, nil),
			{Host: host, StateKind: "own", CsrfKind: "own", Code: "c1"},
			st(host, "/deep/link?x=1", pfCookie{Kind: "jar"}, nil),
		}
	}
	hist := flow("app.x.io")
	for _, g := range []int64{33, 43, 103, 603, 13, 73, 3003} {
		hist = append(hist, st("app.x.io", "/", pfCookie{Kind: "jar"}, func(s *pfStep) { s.Gap = g }))
	}
	hist = append(hist, st("app.x.io", "/", pfCookie{Kind: "jar-old"}, nil))
	for i := range hist {
		pfDefaultAns(&hist[i])
	}
	cases = append(cases, pfCase{Cfg: base, Steps: hist})
	// callback variations
	cbs := []pfStep{st("app.x.io", "/start-here", none, nil), st("app.x.io", "/second", none, nil)}
	for _, k := range [][2]string{{"own", "own"}, {"stale-own", "own"}, {"other", "own"}, {"own", "other"}, {"same", "own"}, {"garbage", "own"}, {"own", "garbage"},
		{"absent", "own"}, {"own", "absent"}, {"other-sid", "own"}, {"own", "other-sid"}, {"other-uri", "own"}, {"own", "other-uri"}, {"own-respelled", "own"}, {"own", "own-respelled"}, {"session", "session"}, {"otherkey", "own"}, {"own", "otherkey"},
		{"garbage", "session"}, {"otherkey", "session"}, {"own-respelled", "session"}, {"absent", "session"}, {"session", "own"}, {"own", "session"}} {
		cbs = append(cbs, pfStep{Host: "app.x.io", StateKind: k[0], CsrfKind: k[1], Code: "c1"})
	}
	// two CSRF cookies in one request: the handler sees the first; a copy of the state (or anything else) behind it changes nothing
	cbs = append(cbs,
		pfStep{Host: "app.x.io", StateKind: "own", CsrfKind: "other", CsrfExtra: "state-copy", Code: "c1"},
		pfStep{Host: "app.x.io", StateKind: "own", CsrfKind: "garbage", CsrfExtra: "state-copy", Code: "c1"},
		pfStep{Host: "app.x.io", StateKind: "own", CsrfKind: "other", CsrfExtra: "own", Code: "c1"},
		pfStep{Host: "app.x.io", StateKind: "other", CsrfKind: "own", CsrfExtra: "state-copy", Code: "c1"},
		pfStep{Host: "app.x.io", StateKind: "own", CsrfKind: "session", CsrfExtra: "state-copy", Code: "c1"},
		st("app.x.io", "/third", none, nil),
		pfStep{Host: "app.x.io", StateKind: "own", CsrfKind: "own", CsrfExtra: "other", Code: "c1"})
	cbs = append(cbs,
		pfStep{Host: "app.x.io", StateKind: "own", CsrfKind: "own", Code: ""},
		pfStep{Host: "app.x.io", StateKind: "own", CsrfKind: "own", Code: "c1", ErrParam: "access_denied"},
		pfStep{Host: "app.x.io", StateKind: "own", CsrfKind: "own", Code: "c1", Redeem: pfReply{Kind: "status", Status: 400}},
		pfStep{Host: "app.x.io", StateKind: "own", CsrfKind: "own", Code: "c1", Redeem: pfReply{Kind: "status", Status: 503}},
		pfStep{Host: "app.x.io", StateKind: "own", CsrfKind: "own", Code: "c1", Redeem: pfReply{Kind: "transport"}},
		pfStep{Host: "app.x.io", StateKind: "own", CsrfKind: "own", Code: "c1", Redeem: pfReply{Kind: "malformed"}},
		pfStep{Host: "app.x.io", StateKind: "own", CsrfKind: "own", Code: "c1", Redeem: pfReply{Kind: "ok", Token: "t", Email: ""}},
		pfStep{Host: "app.x.io", StateKind: "own", CsrfKind: "own", Code: "c1", Redeem: pfReply{Kind: "ok", Token: "t", TTL: 600, Email: "eve@evil.io"}},
		pfStep{Host: "app.x.io", StateKind: "own", CsrfKind: "own", Code: "c1", XHR: true, Redeem: pfReply{Kind: "ok", Token: "t", TTL: 600, Email: "eve@evil.io"}},
	)
	// the rewrite upstream has address + domain rules: satisfies one → admitted at login
	cbs = append(cbs, st("foo.apps.x.io", "/w", none, nil),
		pfStep{Host: "foo.apps.x.io", StateKind: "own", CsrfKind: "own", Code: "c1"},
		st("foo.apps.x.io", "/w", pfCookie{Kind: "jar"}, nil))
	// group upstream: member / not member / profile error at login
	cbs = append(cbs, st("api.x.io", "/g", none, nil),
		pfStep{Host: "api.x.io", StateKind: "own", CsrfKind: "own", Code: "c1", Profile: pfReply{Kind: "ok", Groups: []string{"ops"}}},
		pfStep{Host: "api.x.io", StateKind: "own", CsrfKind: "own", Code: "c1", Profile: pfReply{Kind: "status", Status: 503}},
		pfStep{Host: "api.x.io", StateKind: "own", CsrfKind: "own", Code: "c1"},
		st("api.x.io", "/g", pfCookie{Kind: "jar"}, nil))
	for i := range cbs {
		pfDefaultAns(&cbs[i])
	}
	cases = append(cases, pfCase{Cfg: base, Steps: cbs})
	// secure cookies: https upgrade, HSTS, cookie flags, overrides, cookie domain
	sec := pfBaseCfg()
	sec.Secure = true
	sec.Domain = "x.io"
	sec.Upstreams[0].Override = map[string]string{"X-Frame-Options": "DENY"}
	up := pfReply{Groups: []string{"X-Frame-Options: ALLOWALL", "X-Content-Type-Options: off", "X-Xss-Protection: 0", "Strict-Transport-Security: max-age=0", "X-Other: 1", "x-frame-options: lower"}}
	upEmpty := pfReply{Groups: []string{"X-Frame-Options: ", "X-Content-Type-Options: ", "X-Xss-Protection: ", "Strict-Transport-Security: "}}
	upEmptyFirst := pfReply{Groups: []string{"X-Frame-Options: ", "X-Frame-Options: ALLOWALL", "X-Content-Type-Options: ", "X-Content-Type-Options: off",
		"X-Xss-Protection: ", "X-Xss-Protection: 0", "Strict-Transport-Security: ", "Strict-Transport-Security: max-age=0"}}
	cases = append(cases, pfCase{Cfg: sec, Steps: []pfStep{
		st("app.x.io", "/a%20b/c?x=%2F", none, nil), // plain http → 301
		st("app.x.io", "/", none, func(s *pfStep) { s.Proto = "https" }),
		st("app.x.io", "/", S("app.x.io", nil), func(s *pfStep) { s.Proto = "https"; s.Upstream = up }),
		st("app.x.io", "/health", none, func(s *pfStep) { s.Proto = "https"; s.Upstream = up }),
		st("api.x.io", "/", S("api.x.io", nil), func(s *pfStep) { s.Proto = "https"; s.Upstream = up }),
		st("app.x.io", "/", S("app.x.io", func(s *pfSess) { s.Valid = -10 }), func(s *pfStep) { s.Proto = "https" }),
		st("app.x.io", "/oauth2/sign_out", S("app.x.io", nil), func(s *pfStep) { s.Proto = "https" }),
		st("app.x.io", "/", S("app.x.io", func(s *pfSess) { s.Email = "x@evil.io" }), func(s *pfStep) { s.Proto = "https" }),
		st("nope.x.io", "/", none, func(s *pfStep) { s.Proto = "https" }),
		// X-Forwarded-Proto as a chain of forwarders writes it: the client's own hop comes first
		st("app.x.io", "/", S("app.x.io", nil), func(s *pfStep) { s.Proto = "http, https" }),
		st("app.x.io", "/a?b=c", none, func(s *pfStep) { s.Proto = "http,https" }),
		st("app.x.io", "/", S("app.x.io", nil), func(s *pfStep) { s.Proto = "http, https, https" }),
		st("app.x.io", "/health", none, func(s *pfStep) { s.Proto = "http, https" }),
		st("app.x.io", "/", S("app.x.io", nil), func(s *pfStep) { s.Proto = "https, http" }),
		// upstream answers that carry the protected headers with an empty value, alone or ahead of a real one
		st("app.x.io", "/", S("app.x.io", nil), func(s *pfStep) { s.Proto = "https"; s.Upstream = upEmpty }),
		st("app.x.io", "/", S("app.x.io", nil), func(s *pfStep) { s.Proto = "https"; s.Upstream = upEmptyFirst }),
		st("api.x.io", "/", S("api.x.io", nil), func(s *pfStep) { s.Proto = "https"; s.Upstream = upEmptyFirst }),
		st("app.x.io", "/health", none, func(s *pfStep) { s.Proto = "https"; s.Upstream = upEmptyFirst }),
	}})
	for _, tmo := range []int64{0, 10} {
		pl := pfBaseCfg()
		pl.Upstreams[0].Timeout = tmo
		cases = append(cases, pfCase{Cfg: pl, Steps: []pfStep{
			st("app.x.io", "/", S("app.x.io", nil), func(s *pfStep) { s.Upstream = upEmpty }),
			st("app.x.io", "/", S("app.x.io", nil), func(s *pfStep) { s.Upstream = upEmptyFirst }),
			st("app.x.io", "/", S("app.x.io", nil), func(s *pfStep) { s.Upstream = up }),
			st("app.x.io", "/health", none, func(s *pfStep) { s.Upstream = upEmptyFirst }),
		}})
	}
	// overlapping rewrite patterns: a Host that matches several goes to the first one in configuration order — whatever
	// was asked before (policy, provider and backend are that route's)
	ovl := pfBaseCfg()
	ovl.Upstreams = []pfUpstream{
		{Service: "adm", From: `^admin--[a-z]+\.apps\.x\.io$`, Rewrite: true, Addrs: []string{"root@x.io"}, Slug: "okta"},
		{Service: "wild", From: `^[a-z-]+\.apps\.x\.io$`, Rewrite: true, Domains: []string{"x.io"}},
		{Service: "app", From: "app.x.io", Domains: []string{"x.io"}},
	}
	root := func(host string) pfCookie { return S(host, func(s *pfSess) { s.Email = "root@x.io"; s.Slug = "okta" }) }
	cases = append(cases, pfCase{Cfg: ovl, Steps: []pfStep{
		st("admin--db.apps.x.io", "/", none, nil),
		st("blog.apps.x.io", "/", none, nil),
		st("admin--db.apps.x.io", "/", none, nil), // after a request only the later pattern matches
		st("blog.apps.x.io", "/", S("blog.apps.x.io", nil), nil),
		st("admin--db.apps.x.io", "/", S("admin--db.apps.x.io", nil), nil), // ann@x.io: not on the admin list
		st("blog.apps.x.io", "/", S("blog.apps.x.io", nil), nil),
		st("admin--db.apps.x.io", "/", root("admin--db.apps.x.io"), nil),
		st("blog.apps.x.io", "/", none, nil),
		st("admin--db.apps.x.io", "/", S("admin--db.apps.x.io", func(s *pfSess) { s.Slug = "okta" }), nil),
		st("app.x.io", "/", S("app.x.io", nil), nil),
		st("admin--db.apps.x.io", "/", root("admin--db.apps.x.io"), nil),
	}})
	// encoded dot segments behind a skip-auth prefix: whatever is decided about the path is decided about the path the backend gets
	cases = append(cases, pfCase{Cfg: base, Steps: []pfStep{
		st("app.x.io", "/public/%2e%2e/admin/secrets", none, nil),
		st("app.x.io", "/public/..%2Fadmin/secrets", none, nil),
		st("app.x.io", "/public/%2E%2E/admin", S("app.x.io", nil), nil),
		st("app.x.io", "/public/x/%2e%2e/y", none, nil),
		st("app.x.io", "/a/%2e%2e/public/x", none, nil),
	}})
	// two rewrite upstreams with the very same pattern (a strict block placed above an old lenient one): the first one's rules,
	// provider and backend apply
	dup := pfBaseCfg()
	dup.Upstreams = []pfUpstream{
		{Service: "strict", From: `^[a-z]+\.apps\.x\.io$`, Rewrite: true, Addrs: []string{"root@x.io"}, Slug: "okta"},
		{Service: "lenient", From: `^[a-z]+\.apps\.x\.io$`, Rewrite: true, Domains: []string{"x.io"}},
		{Service: "app", From: "app.x.io", Domains: []string{"x.io"}},
	}
	cases = append(cases, pfCase{Cfg: dup, Steps: []pfStep{
		st("foo.apps.x.io", "/", none, nil),
		st("foo.apps.x.io", "/", S("foo.apps.x.io", nil), nil),                                 // ann: not on the strict list
		st("foo.apps.x.io", "/", S("foo.apps.x.io", func(s *pfSess) { s.Slug = "okta" }), nil), // right provider, still not listed
		st("foo.apps.x.io", "/", S("foo.apps.x.io", func(s *pfSess) { s.Email = "root@x.io"; s.Slug = "okta" }), nil),
		st("foo.apps.x.io", "/oauth2/auth", S("foo.apps.x.io", nil), nil),
	}})
	// the same host name on two ports is two upstreams: a session is bound to the Host it was issued for, port included
	prt := pfBaseCfg()
	prt.Upstreams = []pfUpstream{
		{Service: "plain", From: "port.x.io", Domains: []string{"x.io"}},
		{Service: "port", From: "port.x.io:8443", Groups: []string{"admins"}},
	}
	cases = append(cases, pfCase{Cfg: prt, Steps: []pfStep{
		st("port.x.io", "/", S("port.x.io", nil), nil),
		st("port.x.io:8443", "/", S("port.x.io", nil), nil),            // ann's session for the open upstream, replayed on the restricted port
		st("port.x.io:8443", "/oauth2/auth", S("port.x.io", nil), nil), // 401, not 202
		st("port.x.io:8443", "/", S("port.x.io:8443", func(s *pfSess) { s.Email = "root@x.io"; s.Groups = []string{"admins"} }), nil),
		st("port.x.io", "/", S("port.x.io:8443", func(s *pfSess) { s.Email = "root@x.io"; s.Groups = []string{"admins"} }), nil),
		st("port.x.io:8443", "/", S("port.x.io", func(s *pfSess) { s.Valid = -10 }), nil),
		st("port.x.io:8443", "/", S("port.x.io", func(s *pfSess) { s.Refresh = -10 }), nil),
		st("port.x.io:8443", "/", none, nil),
		func() pfStep {
			s := pfStep{Host: "port.x.io", StateKind: "own", CsrfKind: "own", Code: "c1"}
			pfDefaultAns(&s)
			return s
		}(),
		st("port.x.io", "/", pfCookie{Kind: "jar"}, nil),
		st("port.x.io:8443", "/", pfCookie{Kind: "jar"}, nil), // what a browser does on its own: cookies ignore ports
	}})
	// two outages with a successful check in between, on an upstream restricted by e-mail only and on one restricted by
	// group: the second outage starts a fresh grace period
	for _, host := range []string{"app.x.io", "api.x.io"} {
		oc := pfBaseCfg()
		oc.Upstreams[1].Slug = ""
		un := func(s *pfStep) { s.Validate = pfReply{Kind: "status", Status: 503} }
		unR := func(s *pfStep) { s.Refresh = pfReply{Kind: "status", Status: 429} }
		jar := func(gap int64, mut func(*pfStep)) pfStep {
			s := pfStep{Host: host, Target: "/", Cookie: pfCookie{Kind: "jar"}, Gap: gap}
			if mut != nil {
				mut(&s)
			}
			pfDefaultAns(&s)
			return s
		}
		login := pfStep{Host: host, StateKind: "own", CsrfKind: "own", Code: "c1", Redeem: pfReply{Kind: "ok", Token: "at-1", RTok: "rt-1", TTL: 3000, Email: "ann@x.io"}}
		pfDefaultAns(&login)
		cases = append(cases, pfCase{Cfg: oc, Steps: []pfStep{st(host, "/", none, nil), login,
			jar(73, un), jar(73, nil), jar(313, un), jar(73, un), jar(200, un), jar(73, nil), jar(73, un)}})
		login2 := login
		login2.Redeem.TTL = 60
		cases = append(cases, pfCase{Cfg: oc, Steps: []pfStep{st(host, "/", none, nil), login2,
			jar(73, unR), jar(73, nil), jar(613, unR), jar(73, unR), jar(73, nil)}})
	}
	// a group rule whose only name is blank (e.g. an empty template variable) is still a rule: it admits nobody
	for _, gs := range [][]string{{""}, {" ", "\t"}, {"*", ""}, {"eng", ""}} {
		bl := pfBaseCfg()
		bl.Upstreams[0].Domains, bl.Upstreams[0].Groups = nil, gs
		nobody := func(s *pfStep) { s.Profile = pfReply{Kind: "ok", Groups: []string{}} } // the directory lists the user in none of the asked groups
		cases = append(cases, pfCase{Cfg: bl, Steps: []pfStep{
			st("app.x.io", "/", none, nil),
			func() pfStep {
				s := pfStep{Host: "app.x.io", StateKind: "own", CsrfKind: "own", Code: "c1"}
				nobody(&s)
				pfDefaultAns(&s)
				return s
			}(),
			st("app.x.io", "/", pfCookie{Kind: "jar"}, nobody),
			st("app.x.io", "/", S("app.x.io", func(s *pfSess) { s.Valid = -10 }), nobody),
			st("app.x.io", "/", S("app.x.io", func(s *pfSess) { s.Refresh = -10 }), nobody),
			st("app.x.io", "/", S("app.x.io", func(s *pfSess) { s.Valid = -10; s.Groups = nil }), nobody),
		}})
	}
	// two upstreams, same provider slug, different group rules; the user is in the first one's group only
	ov := pfBaseCfg()
	ov.Upstreams[0].Domains, ov.Upstreams[0].Groups = nil, []string{"eng"}
	ov.Upstreams[1].Slug, ov.Upstreams[1].Groups = "", []string{"ops"}
	cases = append(cases, pfCase{Cfg: ov, Overlap: &pfOverlapIn{HostA: "app.x.io", HostB: "api.x.io", UserGroups: []string{"eng"}}})
	cases = append(cases, pfCase{Cfg: ov, Overlap: &pfOverlapIn{HostA: "api.x.io", HostB: "app.x.io", UserGroups: []string{"ops"}}})
	cases = append(cases, pfCase{Cfg: ov, Overlap: &pfOverlapIn{HostA: "app.x.io", HostB: "api.x.io", UserGroups: []string{"eng", "ops"}}})
	return cases
}

func init() {
	engines["proxyflow"] = func(rng *rand.Rand, n int, em *Emitter, replay []byte) {
		idx := 0
		emit := func(c pfCase) {
			o := pfRun(c)
			o["e"] = "proxyflow"
			o["case"] = idx
			em.Emit(o)
			idx++
		}
		if replay != nil {
			var w struct {
				Raw pfCase `json:"raw"`
			}
			if err := json.Unmarshal(replay, &w); err != nil {
				panic(err)
			}
			emit(w.Raw)
			return
		}
		for _, c := range pfPrelude() {
			emit(c)
		}
		hosts := []string{"app.x.io", "api.x.io", "foo.apps.x.io", "bar.apps.x.io", "nope.x.io", "app.x.io:443", "APP.X.IO", "port.x.io:8443", "port.x.io"}
		emails := []string{"ann@x.io", "Ann@X.io", "bob@y.io", "eve@evil.io", "ann@x.io.evil.io", "x@notx.io"}
		targets := []string{"/", "/a/b?q=1", "/health", "/healthz", "/public/x", "/oauth2/auth", "/favicon.ico", "/robots.txt", "/oauth2/sign_out",
			"/a//b", "/a/../b", "/%2e%2e/x", "/a%2Fb", "//evil.io/x", "/\\evil.io", "/ping", "/oauth2/v1/certs", "/x?y=//z",
			"/x.css", "/x?y=.css", "/x?y=/health", "/%2Fevil.io/", "/%2F%2Fevil.io/x", "/q?a=1;b=2", "/q?p=%zz",
			"/public/%2e%2e/admin/secrets", "/public/..%2Fadmin", "/public/%2E%2E/%2e%2e/x", "/public/a/%2e/b", "/health/%2e%2e/public/x"}
		replies := func(okStatus int) pfReply {
			if rng.Intn(60) == 0 {
				return pfReply{Kind: "hang"}
			}
			switch rng.Intn(9) {
			case 0:
				return pfReply{Kind: "status", Status: 401}
			case 1:
				return pfReply{Kind: "status", Status: 429}
			case 2:
				return pfReply{Kind: "status", Status: 503}
			case 3:
				return pfReply{Kind: "status", Status: []int{400, 403, 404, 500, 502, 200, 201, 204}[rng.Intn(8)]}
			case 4:
				return pfReply{Kind: "transport"}
			case 5:
				return pfReply{Kind: "malformed"}
			}
			return pfReply{Kind: "ok"}
		}
		grpAns := [][]string{{"eng"}, {"ops"}, {}, {"eng", "ops"}, {"ops", "eng", "eng"}}
		rels := []int64{-3600, -60, -10, 10, 60, 3600}
		randAns := func(s *pfStep) {
			s.Validate = replies(200)
			s.Refresh = replies(201)
			if s.Refresh.Kind == "ok" {
				s.Refresh.Token = "tok-" + string(rune('a'+rng.Intn(3)))
				s.Refresh.TTL = []int64{60, 600, 3600}[rng.Intn(3)]
			}
			s.Profile = replies(200)
			if s.Profile.Kind == "ok" {
				s.Profile.Groups = grpAns[rng.Intn(len(grpAns))]
			}
			if rng.Intn(3) == 0 {
				s.Validate = pfOK()
			}
			if rng.Intn(3) == 0 {
				s.Profile = pfReply{Kind: "ok", Groups: []string{"eng"}}
			}
			if rng.Intn(6) == 0 {
				// what the backend answers with: protected headers in any spelling, empty, duplicated
				lines := []string{"X-Frame-Options: ", "X-Frame-Options: ALLOWALL", "x-frame-options: lower", "X-Content-Type-Options: ", "X-Content-Type-Options: off",
					"X-Xss-Protection: ", "X-Xss-Protection: 0", "Strict-Transport-Security: ", "Strict-Transport-Security: max-age=0", "X-Other: 1"}
				for j := 0; j < 1+rng.Intn(4); j++ {
					s.Upstream.Groups = append(s.Upstream.Groups, lines[rng.Intn(len(lines))])
				}
			}
		}
		for k := 0; k < n; k++ {
			cfg := pfBaseCfg()
			cfg.V = []int64{60, 120}[rng.Intn(2)]
			cfg.G = []int64{0, 300, 600}[rng.Intn(3)]
			cfg.L = []int64{3600, 7200}[rng.Intn(2)]
			if rng.Intn(4) == 0 {
				cfg.Secure = true
			}
			// vary the rules of the first upstream over all subsets
			m := rng.Intn(8)
			u := &cfg.Upstreams[0]
			u.Addrs, u.Domains, u.Groups = nil, nil, nil
			if m&1 != 0 {
				u.Addrs = [][]string{{"ann@x.io"}, {"*"}, {"ANN@x.io", "bob@y.io"}}[rng.Intn(3)]
			}
			if m&2 != 0 {
				u.Domains = [][]string{{"x.io"}, {"*"}, {"X.IO", "y.io"}}[rng.Intn(3)]
			}
			if m&4 != 0 {
				u.Groups = [][]string{{"eng"}, {"*"}, {"eng", "ops"}, {""}, {" "}, {"*", ""}, {"eng", ""}, {" eng"}}[rng.Intn(8)]
			}
			if m == 0 {
				u.Domains = []string{"x.io"}
			}
			if rng.Intn(5) == 0 {
				// a second rewrite pattern ahead of the general one, overlapping it for some hosts
				extra := pfUpstream{Service: "foo", From: `^foo\.apps\.x\.io$`, Rewrite: true, Addrs: []string{"bob@y.io"}}
				ups := append([]pfUpstream{}, cfg.Upstreams[:2]...)
				ups = append(ups, extra)
				cfg.Upstreams = append(ups, cfg.Upstreams[2:]...)
			}
			c := pfCase{Cfg: cfg}
			mode := rng.Intn(5)
			switch mode {
			case 0, 1: // decision table: independent single requests
				ns := 6 + rng.Intn(10)
				for i := 0; i < ns; i++ {
					s := pfStep{Host: hosts[rng.Intn(3)], Target: targets[rng.Intn(len(targets))], XHR: rng.Intn(8) == 0}
					if rng.Intn(10) == 0 {
						s.Host = hosts[rng.Intn(len(hosts))]
					}
					if rng.Intn(10) == 0 {
						s.Method = []string{"POST", "OPTIONS", "HEAD"}[rng.Intn(3)]
					}
					if cfg.Secure && rng.Intn(4) > 0 {
						s.Proto = "https"
						if rng.Intn(6) == 0 {
							// what a chain of forwarders writes: only a request every hop saw as https counts as https
							s.Proto = []string{"http, https", "http,https", "https, http", "http, https, https", "HTTPS", "http", "ws"}[rng.Intn(7)]
						}
					}
					switch rng.Intn(10) {
					case 0:
						s.Cookie = pfCookie{Kind: "none"}
					case 1:
						s.Cookie = pfCookie{Kind: []string{"garbage", "flowrec"}[rng.Intn(2)]}
					case 2:
						s.Cookie = pfCookie{Kind: "otherkey", Sess: pfGoodSess(s.Host)}
					default:
						ss := pfGoodSess(s.Host)
						ss.Email = emails[rng.Intn(len(emails))]
						if rng.Intn(6) == 0 {
							ss.Slug = "okta"
						}
						if rng.Intn(6) == 0 {
							ss.Host = hosts[rng.Intn(len(hosts))]
						}
						ss.Lifetime = rels[rng.Intn(len(rels))]
						if rng.Intn(3) > 0 {
							ss.Lifetime = 3600
						}
						ss.Refresh = rels[rng.Intn(len(rels))]
						ss.Valid = rels[rng.Intn(len(rels))]
						if rng.Intn(4) == 0 {
							ss.Grace = i64([]int64{-10, -290, -310, -590, -610, -3600}[rng.Intn(6)])
						}
						if rng.Intn(8) == 0 {
							ss.RefreshTok = ""
						}
						s.Cookie = pfCookie{Kind: "sess", Sess: ss}
					}
					randAns(&s)
					pfDefaultAns(&s)
					c.Steps = append(c.Steps, s)
				}
			case 2: // login then history with gaps and faults
				host := hosts[rng.Intn(3)]
				login := pfStep{Host: host, StateKind: "own", CsrfKind: "own", Code: "c1",
					Redeem: pfReply{Kind: "ok", Token: "at-1", RTok: "rt-1", TTL: []int64{60, 600}[rng.Intn(2)], Email: emails[rng.Intn(3)]}}
				c.Steps = append(c.Steps, pfStep{Host: host, Target: targets[rng.Intn(4)], Cookie: pfCookie{Kind: "none"}}, login)
				ns := 4 + rng.Intn(9)
				for i := 0; i < ns; i++ {
					s := pfStep{Host: host, Target: "/", Cookie: pfCookie{Kind: "jar"}, Gap: []int64{0, 13, 33, 53, 73, 113, 133, 293, 313, 613, 1803, 3603}[rng.Intn(12)]}
					if rng.Intn(10) == 0 {
						s.Cookie.Kind = "jar-old"
					}
					if rng.Intn(2) == 0 {
						randAns(&s)
					}
					c.Steps = append(c.Steps, s)
				}
				for i := range c.Steps {
					pfDefaultAns(&c.Steps[i])
				}
			case 4: // outage histories: login, then requests across gaps while single endpoints of the authenticator are unavailable
				host := hosts[rng.Intn(2)]
				if host == "api.x.io" {
					c.Cfg.Upstreams[1].Slug = ""
				}
				login := pfStep{Host: host, StateKind: "own", CsrfKind: "own", Code: "c1",
					Redeem: pfReply{Kind: "ok", Token: "at-1", RTok: "rt-1", TTL: []int64{60, 600}[rng.Intn(2)], Email: "ann@x.io"}}
				c.Steps = append(c.Steps, pfStep{Host: host, Target: "/", Cookie: pfCookie{Kind: "none"}}, login)
				ns := 5 + rng.Intn(10)
				down := [3]bool{}
				un := func() pfReply { return pfReply{Kind: "status", Status: []int{503, 429}[rng.Intn(2)]} }
				for i := 0; i < ns; i++ {
					if rng.Intn(3) == 0 {
						down = [3]bool{rng.Intn(2) == 0, rng.Intn(2) == 0, rng.Intn(2) == 0}
					}
					if rng.Intn(6) == 0 {
						down = [3]bool{}
					}
					s := pfStep{Host: host, Target: "/", Cookie: pfCookie{Kind: "jar"}, Gap: []int64{3, 13, 33, 73, 113, 293, 313, 613, 1203}[rng.Intn(9)]}
					if down[0] {
						s.Validate = un()
					}
					if down[1] {
						s.Refresh = un()
					}
					if down[2] {
						s.Profile = un()
					}
					if rng.Intn(12) == 0 {
						s.Profile = pfReply{Kind: "ok", Groups: []string{"ops"}}
					}
					if rng.Intn(8) == 0 {
						// a failure that is *not* an outage, possibly while a grace period is open
						bad := []pfReply{{Kind: "status", Status: 401}, {Kind: "status", Status: 403}, {Kind: "status", Status: 500}, {Kind: "malformed"}, {Kind: "transport"}}[rng.Intn(5)]
						switch rng.Intn(3) {
						case 0:
							s.Validate = bad
						case 1:
							s.Refresh = bad
						default:
							s.Profile = bad
						}
					}
					c.Steps = append(c.Steps, s)
				}
				for i := range c.Steps {
					pfDefaultAns(&c.Steps[i])
				}
			case 3: // flows
				host := hosts[rng.Intn(3)]
				t1 := targets[rng.Intn(len(targets))]
				t2 := targets[rng.Intn(len(targets))]
				if rng.Intn(2) == 0 {
					t2 = t1 // two flows started on the same URL
				}
				c.Steps = append(c.Steps, pfStep{Host: host, Target: t1, Cookie: pfCookie{Kind: "none"}},
					pfStep{Host: host, Target: t2, Cookie: pfCookie{Kind: "none"}})
				ns := 3 + rng.Intn(5)
				kinds := []string{"own", "own", "own", "stale-own", "other", "same", "garbage", "session", "absent", "otherkey", "other-sid", "other-uri", "own-respelled"}
				for i := 0; i < ns; i++ {
					s := pfStep{Host: host, StateKind: kinds[rng.Intn(len(kinds))], CsrfKind: kinds[rng.Intn(len(kinds))], Code: "c1"}
					if s.CsrfKind == "same" || s.CsrfKind == "stale-own" {
						s.CsrfKind = "own"
					}
					if rng.Intn(10) == 0 {
						s.Code = ""
					}
					if rng.Intn(12) == 0 {
						s.ErrParam = "<b>denied</b>"
					}
					s.Redeem = replies(200)
					if s.Redeem.Kind == "ok" || rng.Intn(2) == 0 {
						s.Redeem = pfReply{Kind: "ok", Token: "at", RTok: "rt", TTL: 600, Email: emails[rng.Intn(len(emails))]}
						if rng.Intn(12) == 0 {
							s.Redeem.Email = ""
						}
					}
					s.Profile = pfReply{Kind: "ok", Groups: grpAns[rng.Intn(len(grpAns))]}
					if rng.Intn(6) == 0 {
						s.Profile = replies(200)
					}
					c.Steps = append(c.Steps, s)
					if rng.Intn(2) == 0 {
						c.Steps = append(c.Steps, pfStep{Host: host, Target: "/after", Cookie: pfCookie{Kind: "jar"}})
					}
				}
				for i := range c.Steps {
					pfDefaultAns(&c.Steps[i])
				}
			}
			emit(pfHonestSessions(c))
		}
	}
}

// pfHonestSessions keeps the presented sessions of a random case reachable: a session for an upstream with a group
// rule only ever carries groups the authenticator was asked about under that rule (an honest authenticator answers with
// a subset of what it was asked, and a session with no confirmed group is never issued). A session naming other groups
// can only come from a changed configuration, and serving it during a grace period is what the grace period means.
func pfHonestSessions(c pfCase) pfCase {
	for i := range c.Steps {
		s := c.Steps[i].Cookie.Sess
		if s == nil {
			continue
		}
		for _, u := range c.Cfg.Upstreams {
			if len(u.Groups) == 0 || (len(u.Groups) == 1 && u.Groups[0] == "*") || !strings.EqualFold(u.From, s.Host) {
				continue
			}
			asked := strings.Split(strings.Join(u.Groups, ","), ",")
			gs := []string{}
			for _, g := range asked {
				if containsStr(s.Groups, g) {
					gs = append(gs, g)
				}
			}
			if len(gs) == 0 {
				gs = asked[:1]
			}
			s.Groups = gs
		}
	}
	return c
}
