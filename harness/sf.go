package main

import (
	"encoding/json"
	"errors"
	"fmt"
	"math/rand"
	"runtime"
	"sort"
	"sync"
	"sync/atomic"
	"time"

	"github.com/buzzfeed/sso/internal/pkg/singleflight"
)

// Engine "sf": the real singleflight.Group under lockstep schedules
// (arrive t k | fnReturn t v | remove t | wake t). `fn` is harness-owned and blocks until released; the
// window between wg.Done() and delete is reached through the yield point of the instrumented overlay copy.

type sfEv struct {
	Op string `json:"op"`
	T  int    `json:"t"`
	K  string `json:"k,omitempty"`
	V  int    `json:"v"`
}

type sfRet struct {
	v   interface{}
	n   int
	err error
}

type sfThread struct {
	key     string
	entered chan struct{}
	release chan int
	ret     chan sfRet
	state   string // "", leader, afterfn, waiting
}

type sfRun struct {
	g       *singleflight.Group
	thr     map[int]*sfThread
	yielded chan string // keys whose leader reached the yield
	resume  map[string]chan struct{}
	window  bool
}

func sfEncode(v interface{}, err error) int {
	if err != nil {
		var code int
		fmt.Sscanf(err.Error(), "e%d", &code)
		return 2*code + 1
	}
	if v == nil {
		return -1
	}
	return 2 * v.(int)
}

func newSfRun() *sfRun {
	r := &sfRun{g: &singleflight.Group{}, thr: map[int]*sfThread{}, yielded: make(chan string, 64), resume: map[string]chan struct{}{}}
	r.window = singleflight.VerifWindow
	return r
}

func (r *sfRun) install() {
	if r.window {
		singleflight.VerifYield = func(key string) {
			ch := r.resume[key]
			r.yielded <- key
			<-ch
		}
	}
}
func (r *sfRun) uninstall() { singleflight.VerifYield = nil }

func waitUntil(cond func() bool) bool {
	deadline := time.Now().Add(5 * time.Second)
	for !cond() {
		if time.Now().After(deadline) {
			return false
		}
		runtime.Gosched()
		time.Sleep(20 * time.Microsecond)
	}
	return true
}

func (r *sfRun) exec(ev sfEv) []M {
	switch ev.Op {
	case "arrive":
		if t, ok := r.thr[ev.T]; ok && t.state != "" {
			return []M{{"in": ev, "out": M{"r": "disabled"}}}
		}
		th := &sfThread{key: ev.K, entered: make(chan struct{}), release: make(chan int), ret: make(chan sfRet, 1)}
		r.thr[ev.T] = th
		before, had := r.g.VerifDups(ev.K)
		if r.window {
			if _, ok := r.resume[ev.K]; !ok || !had {
				r.resume[ev.K] = make(chan struct{})
			}
		}
		go func() {
			v, n, err := r.g.Do(ev.K, func() (interface{}, error) {
				close(th.entered)
				x := <-th.release
				if x%2 == 1 {
					return nil, errors.New(fmt.Sprintf("e%d", x/2))
				}
				return x / 2, nil
			})
			th.ret <- sfRet{v, n, err}
		}()
		var early *sfRet
		ok := waitUntil(func() bool {
			select {
			case <-th.entered:
				th.state = "leader"
				return true
			case rt := <-th.ret:
				early = &rt
				return true
			default:
			}
			if had {
				if d, ok := r.g.VerifDups(ev.K); ok && d > before {
					th.state = "waiting"
					return true
				}
			}
			return false
		})
		if !ok {
			return []M{{"in": ev, "out": M{"r": "stuck"}}}
		}
		if early == nil && th.state == "waiting" {
			// joined inside the done/remove window: the result is already published, so Wait returns at once;
			// collect the return now (the dups observation may have won the race against the return channel)
			for _, o := range r.thr {
				if o != th && o.state == "afterfn" && o.key == ev.K {
					rt := <-th.ret
					early = &rt
					break
				}
			}
		}
		if early != nil {
			// joined a call whose result was already published (done/remove window): Wait returned at once
			th.state = ""
			return []M{{"in": ev, "out": M{"r": "joined"}},
				{"in": sfEv{Op: "wake", T: ev.T}, "out": M{"r": "ret", "v": sfEncode(early.v, early.err), "n": early.n}}}
		}
		if th.state == "leader" {
			return []M{{"in": ev, "out": M{"r": "leader"}}}
		}
		return []M{{"in": ev, "out": M{"r": "joined"}}}
	case "fnReturn":
		th, ok := r.thr[ev.T]
		if !ok || th.state != "leader" {
			return []M{{"in": ev, "out": M{"r": "disabled"}}}
		}
		th.release <- ev.V
		ops := []M{{"in": ev, "out": M{"r": "fnDone"}}}
		if r.window {
			select {
			case <-r.yielded:
				th.state = "afterfn"
			case rt := <-th.ret:
				// returned without passing the done/remove window the model has here: report what happened
				th.state = ""
				ops = append(ops, M{"in": sfEv{Op: "remove", T: ev.T}, "out": M{"r": "ret-without-window", "v": sfEncode(rt.v, rt.err), "n": rt.n}})
			case <-time.After(5 * time.Second):
				th.state = ""
				ops = append(ops, M{"in": sfEv{Op: "remove", T: ev.T}, "out": M{"r": "stuck"}})
			}
		} else {
			rt := <-th.ret
			th.state = ""
			ops = append(ops, M{"in": sfEv{Op: "remove", T: ev.T}, "out": M{"r": "ret", "v": sfEncode(rt.v, rt.err), "n": rt.n}})
		}
		// followers of this key now return
		var ws []int
		for id, o := range r.thr {
			if o.state == "waiting" && o.key == th.key {
				ws = append(ws, id)
			}
		}
		sort.Ints(ws)
		for _, id := range ws {
			rt := <-r.thr[id].ret
			r.thr[id].state = ""
			ops = append(ops, M{"in": sfEv{Op: "wake", T: id}, "out": M{"r": "ret", "v": sfEncode(rt.v, rt.err), "n": rt.n}})
		}
		return ops
	case "remove":
		th, ok := r.thr[ev.T]
		if !ok || th.state != "afterfn" {
			return []M{{"in": ev, "out": M{"r": "disabled"}}}
		}
		close(r.resume[th.key])
		delete(r.resume, th.key)
		rt := <-th.ret
		th.state = ""
		return []M{{"in": ev, "out": M{"r": "ret", "v": sfEncode(rt.v, rt.err), "n": rt.n}}}
	case "wake":
		// a follower blocked in Wait: the model says `blocked`; the implementation is observed not to have returned
		th, ok := r.thr[ev.T]
		if !ok || th.state != "waiting" {
			return []M{{"in": ev, "out": M{"r": "disabled"}}}
		}
		select {
		case rt := <-th.ret:
			th.state = ""
			return []M{{"in": ev, "out": M{"r": "ret", "v": sfEncode(rt.v, rt.err), "n": rt.n}}}
		default:
			return []M{{"in": ev, "out": M{"r": "blocked"}}}
		}
	}
	return nil
}

func (r *sfRun) finish() []M {
	var ops []M
	for {
		progressed := false
		ids := []int{}
		for id := range r.thr {
			ids = append(ids, id)
		}
		sort.Ints(ids)
		for _, id := range ids {
			switch r.thr[id].state {
			case "leader":
				ops = append(ops, r.exec(sfEv{Op: "fnReturn", T: id, V: 2 * (100 + id)})...)
				progressed = true
			case "afterfn":
				ops = append(ops, r.exec(sfEv{Op: "remove", T: id})...)
				progressed = true
			}
		}
		if !progressed {
			break
		}
	}
	return ops
}

type sfCase struct {
	Evs []sfEv `json:"evs"`
}

func sfPrelude() [][]sfEv {
	A := func(t int, k string) sfEv { return sfEv{Op: "arrive", T: t, K: k} }
	F := func(t, v int) sfEv { return sfEv{Op: "fnReturn", T: t, V: v} }
	R := func(t int) sfEv { return sfEv{Op: "remove", T: t} }
	W := func(t int) sfEv { return sfEv{Op: "wake", T: t} }
	return [][]sfEv{
		{A(0, "a"), A(1, "a"), A(2, "b"), W(1), F(0, 14), A(3, "a"), R(0), A(4, "a"), F(2, 18), R(2), F(4, 3), R(4)},
		{A(0, "a"), F(0, 5), R(0), A(0, "a"), A(1, "a"), A(2, "a"), F(0, 8), R(0)},
		{A(0, "x/y"), A(1, "x"), A(2, "x/y"), F(1, 2), R(1), F(0, 4), R(0)},
	}
}

// sfStress: `callers` goroutines call Do for one key at the same instant, `rounds` times; the function counts how many
// executions for that key are in flight at once. Reports the maximum seen and whether every caller got the value of an
// execution that was running while it waited.
func sfStress(idx, rounds, callers int) M {
	g := &singleflight.Group{}
	var inflight, maxIn, execs int64
	var bad int64
	firstBad := ""
	var mu sync.Mutex
	for r := 0; r < rounds; r++ {
		key := "k"
		if r%3 == 1 {
			key = "UserGroups/x:y"
		}
		start := make(chan struct{})
		var wg sync.WaitGroup
		var roundExecs []int64
		for c := 0; c < callers; c++ {
			wg.Add(1)
			go func() {
				defer wg.Done()
				<-start
				v, _, err := g.Do(key, func() (interface{}, error) {
					n := atomic.AddInt64(&inflight, 1)
					for {
						m := atomic.LoadInt64(&maxIn)
						if n <= m || atomic.CompareAndSwapInt64(&maxIn, m, n) {
							break
						}
					}
					id := atomic.AddInt64(&execs, 1)
					mu.Lock()
					roundExecs = append(roundExecs, id)
					mu.Unlock()
					runtime.Gosched()
					time.Sleep(20 * time.Microsecond)
					atomic.AddInt64(&inflight, -1)
					return id, nil
				})
				if err != nil {
					atomic.AddInt64(&bad, 1)
					return
				}
				got, _ := v.(int64)
				mu.Lock()
				ok := false
				for _, id := range roundExecs {
					if id == got {
						ok = true
					}
				}
				if !ok {
					bad++
					if firstBad == "" {
						firstBad = fmt.Sprintf("round %d: a caller got the value of execution %d, which did not run in its round", r, got)
					}
				}
				mu.Unlock()
			}()
		}
		close(start)
		wg.Wait()
	}
	return M{"e": "sf", "case": idx, "stress": M{"rounds": rounds, "callers": callers, "maxInflight": maxIn, "executions": execs, "strangers": bad, "first": firstBad}}
}

func init() {
	engines["sf"] = func(rng *rand.Rand, n int, em *Emitter, replay []byte) {
		runCase := func(idx int, evs []sfEv, gen func(r *sfRun, step int) (sfEv, bool)) {
			r := newSfRun()
			r.install()
			defer r.uninstall()
			var ops []M
			if evs != nil {
				for _, ev := range evs {
					ops = append(ops, r.exec(ev)...)
				}
			} else {
				for step := 0; ; step++ {
					ev, ok := gen(r, step)
					if !ok {
						break
					}
					ops = append(ops, r.exec(ev)...)
				}
			}
			ops = append(ops, r.finish()...)
			em.Emit(M{"e": "sf", "case": idx, "cfg": M{"window": r.window}, "ops": ops})
		}
		if replay != nil {
			var cs sfCase
			if err := json.Unmarshal(replay, &cs); err != nil {
				panic(err)
			}
			// replayed event lists contain the derived wake/remove events; keep only the controllable ones
			var evs []sfEv
			for _, e := range cs.Evs {
				if e.Op == "arrive" || e.Op == "fnReturn" || (e.Op == "remove" && singleflight.VerifWindow) {
					evs = append(evs, e)
				}
			}
			runCase(0, evs, nil)
			return
		}
		idx := 0
		for _, evs := range sfPrelude() {
			runCase(idx, evs, nil)
			idx++
		}
		// callers released at the same instant, again and again: the arrivals the scheduled cases cannot place (several
		// callers inside Do before any of them has registered the call)
		em.Emit(sfStress(idx, 300+n/2, 32))
		idx++
		keys := []string{"a", "b", "UserGroups/x:y", "a/b"}
		for k := 0; k < n; k++ {
			nthr := 2 + rng.Intn(7)
			nkeys := 1 + rng.Intn(3)
			nev := 4 + rng.Intn(30)
			runCase(idx, nil, func(r *sfRun, step int) (sfEv, bool) {
				if step >= nev {
					return sfEv{}, false
				}
				var leaders, afters, idle []int
				for t := 0; t < nthr; t++ {
					th := r.thr[t]
					switch {
					case th == nil || th.state == "":
						idle = append(idle, t)
					case th.state == "leader":
						leaders = append(leaders, t)
					case th.state == "afterfn":
						afters = append(afters, t)
					}
				}
				x := rng.Intn(10)
				switch {
				case x < 5 && len(idle) > 0:
					return sfEv{Op: "arrive", T: idle[rng.Intn(len(idle))], K: keys[rng.Intn(nkeys)]}, true
				case x < 7 && len(leaders) > 0:
					return sfEv{Op: "fnReturn", T: leaders[rng.Intn(len(leaders))], V: rng.Intn(40)}, true
				case x < 9 && len(afters) > 0:
					return sfEv{Op: "remove", T: afters[rng.Intn(len(afters))]}, true
				case len(idle) > 0:
					return sfEv{Op: "arrive", T: idle[rng.Intn(len(idle))], K: keys[rng.Intn(nkeys)]}, true
				case len(leaders) > 0:
					return sfEv{Op: "fnReturn", T: leaders[0], V: rng.Intn(40)}, true
				case len(afters) > 0:
					return sfEv{Op: "remove", T: afters[0]}, true
				}
				return sfEv{}, false
			})
			idx++
		}
	}
}
