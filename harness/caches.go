package main

import (
	"encoding/json"
	"errors"
	"fmt"
	"math/rand"
	"net/http"
	"net/http/httptest"
	"net/url"
	"sort"
	"strings"
	"sync"
	"time"

	aprov "github.com/buzzfeed/sso/internal/auth/providers"
	"github.com/buzzfeed/sso/internal/pkg/groups"
	"github.com/buzzfeed/sso/internal/pkg/sessions"
)

// Engine "caches" (C17). Three kinds of case:
//   gc  — the real GroupCache (LocalCache, ttl 0) around a scripted directory; purges fired through an accessor
//   fc  — the real FillCache in lockstep with a harness-owned fillFunc (Update / RefreshLoop / Get / Stop)
//   mem — the real Google and Cognito ValidateGroupMembership against a given member-set cache and mock directory

// ---------------------------------------------------------------- gc

type gcOp struct {
	Op     string   `json:"op"` // ask | purge
	Email  string   `json:"email"`
	Groups []string `json:"groups"`
	Dir    []string `json:"dir"`    // what the directory would answer
	DirErr bool     `json:"dirErr"` // … or fail
}

type gcInner struct {
	*aprov.TestProvider
	calls int
	next  gcOp
	seen  [][]string
}

func (p *gcInner) ValidateGroupMembership(email string, gs []string, tok string) ([]string, error) {
	p.calls++
	p.seen = append(p.seen, append([]string{email}, gs...))
	if p.next.DirErr {
		return nil, errors.New("directory unavailable")
	}
	return append([]string{}, p.next.Dir...), nil
}

func gcRunCase(ops []gcOp) M {
	inner := &gcInner{TestProvider: aprov.NewTestProvider(nil)}
	gc := aprov.NewGroupCache(inner, 0, getStatsd(), nil)
	var out []M
	for _, op := range ops {
		sorted := sortedCopy(op.Groups)
		in := M{"op": op.Op, "email": hx(op.Email), "groups": hxs(op.Groups), "sorted": hxs(sorted), "joined": hx(strings.Join(sorted, ",")),
			"dir": hxs(op.Dir), "dirErr": op.DirErr}
		switch op.Op {
		case "ask":
			inner.next = op
			before := inner.calls
			res, err := gc.ValidateGroupMembership(op.Email, append([]string{}, op.Groups...), "tok")
			o := M{"called": inner.calls > before, "err": err != nil}
			if err == nil {
				if res == nil {
					res = []string{}
				}
				o["res"] = hxs(res)
			}
			out = append(out, M{"in": in, "out": o})
		case "purge":
			gc.VerifPurge(op.Email, strings.Join(sorted, ","))
			out = append(out, M{"in": in, "out": M{}})
		}
	}
	return M{"kind": "gc", "ops": out, "raw": M{"kind": "gc", "gc": ops}}
}

// ---------------------------------------------------------------- fc

type fcOp struct {
	Op string   `json:"op"` // updBegin t g | updEnd t r | loopStart g | loopEnd g r (the loop goroutine's fill returns) | stop | get g | settle
	T  int      `json:"t"`
	G  string   `json:"g"`
	R  string   `json:"r"` // ok | notFound | err
	M  []string `json:"m"`
}

type fcFill struct {
	group string
	reply chan fcReply
}
type fcReply struct {
	m   groups.MemberSet
	err error
}

type fcRun struct {
	fc       *groups.FillCache
	mu       sync.Mutex
	pending  []*fcFill // fills that entered fillFunc and have not been answered
	enter    chan *fcFill
	upd      map[int]chan bool // Update callers
	updFill  map[int]*fcFill
	loopOf   map[string]int // group -> loop id (harness numbering = order of successful RefreshLoop)
	loopFill map[string]*fcFill
	nloops   int
	stopped  bool
}

func newFcRun() *fcRun {
	r := &fcRun{enter: make(chan *fcFill, 64), upd: map[int]chan bool{}, updFill: map[int]*fcFill{}, loopOf: map[string]int{}, loopFill: map[string]*fcFill{}}
	r.fc = groups.NewFillCache(func(g string) (groups.MemberSet, error) {
		f := &fcFill{group: g, reply: make(chan fcReply)}
		r.enter <- f
		rep := <-f.reply
		return rep.m, rep.err
	}, time.Hour)
	r.fc.StatsdClient = getStatsd()
	r.fc.VerifSetJitter(time.Nanosecond)
	return r
}

func (r *fcRun) waitFill(d time.Duration) *fcFill {
	select {
	case f := <-r.enter:
		return f
	case <-time.After(d):
		return nil
	}
}

func (r *fcRun) state(o M) {
	cache, infl, loops := r.fc.VerifState()
	cj := M{}
	for g, ms := range cache {
		sort.Strings(ms)
		cj[g] = ms
	}
	sort.Strings(infl)
	sort.Strings(loops)
	if infl == nil {
		infl = []string{}
	}
	if loops == nil {
		loops = []string{}
	}
	o["cache"] = cj
	o["inflight"] = infl
	o["loops"] = loops
}

func mkReply(op fcOp) fcReply {
	switch op.R {
	case "ok":
		ms := groups.MemberSet{}
		for _, m := range op.M {
			ms[m] = struct{}{}
		}
		return fcReply{ms, nil}
	case "notFound":
		return fcReply{nil, groups.ErrGroupNotFound}
	}
	return fcReply{nil, errors.New("boom")}
}

func (r *fcRun) exec(op fcOp) []M {
	mk := func(in fcOp, o M) M { r.state(o); return M{"in": in, "out": o} }
	switch op.Op {
	case "updBegin":
		if _, busy := r.upd[op.T]; busy {
			return []M{mk(op, M{"r": "disabled"})}
		}
		ch := make(chan bool, 1)
		go func() { ch <- r.fc.Update(op.G) }()
		select {
		case f := <-r.enter:
			r.upd[op.T] = ch
			r.updFill[op.T] = f
			return []M{mk(op, M{"r": "began", "fillGroup": f.group})}
		case b := <-ch:
			return []M{mk(op, M{"r": "busy", "ret": b})}
		case <-time.After(5 * time.Second):
			return []M{mk(op, M{"r": "stuck"})}
		}
	case "updEnd":
		ch, ok := r.upd[op.T]
		if !ok {
			return []M{mk(op, M{"r": "disabled"})}
		}
		r.updFill[op.T].reply <- mkReply(op)
		b := <-ch
		delete(r.upd, op.T)
		delete(r.updFill, op.T)
		return []M{mk(op, M{"r": "updated", "ret": b})}
	case "loopStart":
		started := r.fc.RefreshLoop(op.G)
		if !started {
			return []M{mk(op, M{"r": "loopRefused"})}
		}
		id := r.nloops
		r.nloops++
		r.loopOf[op.G] = id
		// the new goroutine calls Update at once: the in-flight set may or may not show it yet
		ops := []M{mk(op, M{"r": "loopStarted", "l": id, "loopsUnstable": r.stopped, "inflightUnstable": true})}
		// the goroutine immediately calls Update(g): either its fill enters, or g is in flight and it returns false
		f := r.waitFill(30 * time.Millisecond)
		if f != nil {
			r.loopFill[op.G] = f
			ops = append(ops, mk(fcOp{Op: "loopUpdBegin", T: id, G: op.G}, M{"r": "began", "fillGroup": f.group}))
		} else {
			ops = append(ops, mk(fcOp{Op: "loopUpdBegin", T: id, G: op.G}, M{"r": "busy", "loopsUnstable": r.stopped}))
			if r.stopped {
				// stopCh is closed: after the refused first Update the goroutine selects stop and exits
				waitUntil(func() bool { _, _, loops := r.fc.VerifState(); return !containsStr(loops, op.G) })
				delete(r.loopOf, op.G)
				ops = append(ops, mk(fcOp{Op: "loopExit", T: id, G: op.G}, M{"r": "exited"}))
			}
		}
		return ops
	case "loopEnd":
		f, ok := r.loopFill[op.G]
		if !ok {
			return []M{mk(op, M{"r": "disabled"})}
		}
		id := r.loopOf[op.G]
		f.reply <- mkReply(op)
		delete(r.loopFill, op.G)
		// wait until the goroutine released the in-flight mark
		waitUntil(func() bool { _, infl, _ := r.fc.VerifState(); return !containsStr(infl, op.G) })
		ops := []M{mk(fcOp{Op: "loopUpdEnd", T: id, G: op.G, R: op.R, M: op.M}, M{"r": "updated", "loopsUnstable": r.stopped})}
		if r.stopped {
			waitUntil(func() bool { _, _, loops := r.fc.VerifState(); return !containsStr(loops, op.G) })
			delete(r.loopOf, op.G)
			ops = append(ops, mk(fcOp{Op: "loopExit", T: id, G: op.G}, M{"r": "exited"}))
		}
		return ops
	case "stop":
		if r.stopped {
			return []M{mk(op, M{"r": "disabled"})}
		}
		// idle loops exit as soon as stopCh is closed
		var gs []string
		for g := range r.loopOf {
			if _, filling := r.loopFill[g]; !filling {
				gs = append(gs, g)
			}
		}
		sort.Strings(gs)
		r.fc.Stop()
		r.stopped = true
		ops := []M{mk(op, M{"r": "stopped", "loopsUnstable": len(gs) > 0})}
		for _, g := range gs {
			g := g
			waitUntil(func() bool { _, _, loops := r.fc.VerifState(); return !containsStr(loops, g) })
		}
		for i, g := range gs {
			id := r.loopOf[g]
			delete(r.loopOf, g)
			// all idle loops exit concurrently; only the last snapshot is comparable
			ops = append(ops, mk(fcOp{Op: "loopExit", T: id, G: g}, M{"r": "exited", "loopsUnstable": i < len(gs)-1}))
		}
		return ops
	case "get":
		ms, ok := r.fc.Get(op.G)
		o := M{"r": "got", "found": ok}
		if ok {
			var l []string
			for m := range ms {
				l = append(l, m)
			}
			sort.Strings(l)
			if l == nil {
				l = []string{}
			}
			o["m"] = l
		}
		return []M{mk(op, o)}
	}
	return nil
}

func containsStr(l []string, s string) bool {
	for _, x := range l {
		if x == s {
			return true
		}
	}
	return false
}

func (r *fcRun) finish() []M {
	var ops []M
	var ts []int
	for t := range r.upd {
		ts = append(ts, t)
	}
	sort.Ints(ts)
	for _, t := range ts {
		ops = append(ops, r.exec(fcOp{Op: "updEnd", T: t, R: "err"})...)
	}
	var gs []string
	for g := range r.loopFill {
		gs = append(gs, g)
	}
	sort.Strings(gs)
	for _, g := range gs {
		ops = append(ops, r.exec(fcOp{Op: "loopEnd", G: g, R: "err"})...)
	}
	if !r.stopped {
		ops = append(ops, r.exec(fcOp{Op: "stop"})...)
	}
	return ops
}

// ---------------------------------------------------------------- mem

type memCase struct {
	Provider string              `json:"provider"` // google | cognito
	Cache    map[string][]string `json:"cache"`
	Asked    []string            `json:"asked"`
	User     string              `json:"user"`
	Dir      []string            `json:"dir"`
	DirErr   bool                `json:"dirErr"`
	Running  []string            `json:"running"` // groups whose refresh loop is already registered (RefreshLoop answers false)
}

type memCache struct {
	data    map[string][]string
	loops   []string
	running []string
}

func (c *memCache) Get(g string) (groups.MemberSet, bool) {
	ms, ok := c.data[g]
	if !ok {
		return nil, false
	}
	s := groups.MemberSet{}
	for _, m := range ms {
		s[m] = struct{}{}
	}
	return s, true
}
func (c *memCache) Update(string) bool { return false }
func (c *memCache) RefreshLoop(g string) bool {
	c.loops = append(c.loops, g)
	return !containsStr(c.running, g)
}
func (c *memCache) Stop() {}

type memGoogleAdmin struct {
	c     memCase
	calls [][]string
}

func (a *memGoogleAdmin) ListMemberships(string, int) ([]string, error) { return nil, nil }
func (a *memGoogleAdmin) CheckMemberships(gs []string, user string) ([]string, error) {
	a.calls = append(a.calls, append([]string{user}, gs...))
	if a.c.DirErr {
		return nil, errors.New("directory error")
	}
	return append([]string{}, a.c.Dir...), nil
}

func memRunCase(c memCase) M {
	cache := &memCache{data: c.Cache, running: c.Running}
	var res []string
	var err error
	asked := 0
	if c.Provider == "google" {
		adm := &memGoogleAdmin{c: c}
		p := &aprov.GoogleProvider{ProviderData: &aprov.ProviderData{}, StatsdClient: getStatsd(), AdminService: adm, GroupsCache: cache}
		res, err = p.ValidateGroupMembership(c.User, append([]string{}, c.Asked...), "tok")
		asked = len(adm.calls)
	} else {
		srv := httptest.NewServer(http.HandlerFunc(func(w http.ResponseWriter, r *http.Request) {
			fmt.Fprintf(w, `{"email":"x@example.com","username":%q}`, c.User)
		}))
		defer srv.Close()
		u, _ := url.Parse(srv.URL + "/userinfo")
		adm := &aprov.MockCognitoAdminService{Groups: append([]string{}, c.Dir...)}
		if c.DirErr {
			adm.GroupsError = errors.New("directory error")
		}
		p := &aprov.AmazonCognitoProvider{ProviderData: &aprov.ProviderData{ProfileURL: u}, StatsdClient: getStatsd(), AdminService: adm, GroupsCache: cache}
		res, err = p.ValidateGroupMembership("x@example.com", append([]string{}, c.Asked...), "tok")
	}
	o := M{"err": err != nil, "loops": cache.loops, "dirCalls": asked}
	if cache.loops == nil {
		o["loops"] = []string{}
	}
	if err == nil {
		if res == nil {
			res = []string{}
		}
		o["res"] = res
	}
	return M{"kind": "mem", "in": c, "out": o, "raw": M{"kind": "mem", "mem": c}}
}

// ---------------------------------------------------------------- pop: the providers' own fill functions behind a real FillCache

type popCase struct {
	Provider string   `json:"provider"` // google | cognito
	Answers  []string `json:"answers"`  // per Update of group "g": "ok:m1,m2" | "notfound" | "err"
}

type popAdmin struct {
	cur string
}

func (a *popAdmin) answer() ([]string, error) {
	switch {
	case a.cur == "notfound":
		return nil, groups.ErrGroupNotFound
	case a.cur == "err":
		return nil, errors.New("directory unavailable")
	}
	ms := strings.TrimPrefix(a.cur, "ok:")
	if ms == "" {
		return []string{}, nil
	}
	return strings.Split(ms, ","), nil
}
func (a *popAdmin) ListMemberships(string, int) ([]string, error)       { return a.answer() }
func (a *popAdmin) CheckMemberships([]string, string) ([]string, error) { return nil, nil }

type popCognitoAdmin struct{ a *popAdmin }

func (c popCognitoAdmin) ListMemberships(string) ([]string, error)   { return c.a.answer() }
func (c popCognitoAdmin) CheckMemberships(string) ([]string, error)  { return nil, nil }
func (c popCognitoAdmin) GlobalSignOut(*sessions.SessionState) error { return nil }

func popRunCase(c popCase) M {
	adm := &popAdmin{}
	var fill func(string) (groups.MemberSet, error)
	if c.Provider == "google" {
		p := &aprov.GoogleProvider{ProviderData: &aprov.ProviderData{}, StatsdClient: getStatsd(), AdminService: adm}
		fill = p.PopulateMembers
	} else {
		p := &aprov.AmazonCognitoProvider{ProviderData: &aprov.ProviderData{}, StatsdClient: getStatsd(), AdminService: popCognitoAdmin{adm}}
		fill = p.PopulateMembers
	}
	fc := groups.NewFillCache(fill, time.Hour)
	fc.StatsdClient = getStatsd()
	var obs []M
	for _, ans := range c.Answers {
		adm.cur = ans
		updated := fc.Update("g")
		ms, ok := fc.Get("g")
		o := M{"updated": updated, "cached": ok}
		if ok {
			l := []string{}
			for m := range ms {
				l = append(l, m)
			}
			sort.Strings(l)
			o["members"] = l
		}
		obs = append(obs, o)
	}
	fc.Stop()
	return M{"kind": "pop", "in": c, "obs": obs, "raw": M{"kind": "pop", "pop": c}}
}

// ---------------------------------------------------------------- loops: first questions about one group arriving together

// loopStressCase: `callers` goroutines call RefreshLoop for the same group at the same instant (what simultaneous first
// questions about an uncached group do), `rounds` times with a fresh cache. Exactly one of them starts the loop.
func loopStressCase(rounds, callers int) M {
	maxStarted, minStarted, fills := 0, callers, 0
	var mu sync.Mutex
	for r := 0; r < rounds; r++ {
		fc := groups.NewFillCache(func(string) (groups.MemberSet, error) {
			mu.Lock()
			fills++
			mu.Unlock()
			return groups.MemberSet{"u": {}}, nil
		}, time.Hour)
		fc.StatsdClient = getStatsd()
		started := 0
		var wg sync.WaitGroup
		start := make(chan struct{})
		for i := 0; i < callers; i++ {
			wg.Add(1)
			go func() {
				defer wg.Done()
				<-start
				if fc.RefreshLoop("g") {
					mu.Lock()
					started++
					mu.Unlock()
				}
			}()
		}
		close(start)
		wg.Wait()
		fc.Stop()
		if started > maxStarted {
			maxStarted = started
		}
		if started < minStarted {
			minStarted = started
		}
	}
	return M{"kind": "loopstress", "rounds": rounds, "callers": callers, "maxStarted": maxStarted, "minStarted": minStarted, "fills": fills,
		"raw": M{"kind": "loopstress", "rounds": rounds, "callers": callers}}
}

// ---------------------------------------------------------------- engine

func init() {
	engines["caches"] = func(rng *rand.Rand, n int, em *Emitter, replay []byte) {
		idx := 0
		emit := func(o M) {
			o["e"] = "caches"
			o["case"] = idx
			em.Emit(o)
			idx++
		}
		runFc := func(ops []fcOp) M {
			r := newFcRun()
			var out []M
			for _, op := range ops {
				out = append(out, r.exec(op)...)
			}
			out = append(out, r.finish()...)
			return M{"kind": "fc", "ops": out, "raw": M{"kind": "fc", "fc": ops}}
		}
		if replay != nil {
			var w struct {
				Raw struct {
					Kind    string  `json:"kind"`
					Gc      []gcOp  `json:"gc"`
					Fc      []fcOp  `json:"fc"`
					Mem     memCase `json:"mem"`
					Pop     popCase `json:"pop"`
					Rounds  int     `json:"rounds"`
					Callers int     `json:"callers"`
				} `json:"raw"`
			}
			if err := json.Unmarshal(replay, &w); err != nil {
				panic(err)
			}
			switch w.Raw.Kind {
			case "gc":
				emit(gcRunCase(w.Raw.Gc))
			case "fc":
				emit(runFc(w.Raw.Fc))
			case "mem":
				emit(memRunCase(w.Raw.Mem))
			case "pop":
				emit(popRunCase(w.Raw.Pop))
			case "loopstress":
				emit(loopStressCase(w.Raw.Rounds, w.Raw.Callers))
			}
			return
		}
		// prelude
		emit(gcRunCase([]gcOp{
			{Op: "ask", Email: "a@x.io", Groups: []string{"g2", "g1"}, Dir: []string{"g1"}},
			{Op: "ask", Email: "a@x.io", Groups: []string{"g1", "g2"}, Dir: []string{"g1", "g2"}}, // same question, other order: hit
			{Op: "ask", Email: "b@x.io", Groups: []string{"g1", "g2"}, Dir: []string{}},           // other user: miss
			{Op: "ask", Email: "a@x.io", Groups: []string{"g1"}, DirErr: true},                    // error not cached
			{Op: "ask", Email: "a@x.io", Groups: []string{"g1"}, Dir: []string{"g1"}},
			{Op: "purge", Email: "a@x.io", Groups: []string{"g1", "g2"}},
			{Op: "ask", Email: "a@x.io", Groups: []string{"g2", "g1"}, Dir: []string{"g2"}},
			{Op: "ask", Email: "a@x.io", Groups: []string{"g1"}, Dir: []string{}},
		}))
		// names differing only by surrounding whitespace or case are different names: different questions
		emit(gcRunCase([]gcOp{
			{Op: "ask", Email: "a@x.io", Groups: []string{"g1 "}, Dir: []string{}},
			{Op: "ask", Email: "a@x.io", Groups: []string{"g1"}, Dir: []string{"g1"}},
			{Op: "ask", Email: "a@x.io", Groups: []string{" g1", "g2"}, Dir: []string{"g2"}},
			{Op: "ask", Email: "a@x.io", Groups: []string{"g1", "g2"}, Dir: []string{"g1", "g2"}},
			{Op: "ask", Email: "a@x.io", Groups: []string{"G1"}, Dir: []string{}},
			{Op: "ask", Email: "a@x.io", Groups: []string{"g1", "g1"}, Dir: []string{"g1"}},
			{Op: "ask", Email: "a@x.io ", Groups: []string{"g1"}, Dir: []string{}},
		}))
		emit(runFc([]fcOp{
			{Op: "loopStart", G: "g"}, {Op: "updBegin", T: 1, G: "g"}, {Op: "loopStart", G: "g"}, {Op: "loopEnd", G: "g", R: "ok", M: []string{"u", "v"}},
			{Op: "get", G: "g"}, {Op: "updBegin", T: 1, G: "g"}, {Op: "updBegin", T: 2, G: "g"}, {Op: "updBegin", T: 3, G: "h"}, {Op: "updEnd", T: 1, R: "err"},
			{Op: "get", G: "g"}, {Op: "updEnd", T: 3, R: "ok", M: []string{"w"}}, {Op: "stop"}, {Op: "updBegin", T: 2, G: "g"}, {Op: "updEnd", T: 2, R: "notFound"},
			{Op: "get", G: "g"}, {Op: "get", G: "h"}, {Op: "loopStart", G: "h"}, {Op: "loopEnd", G: "h", R: "notFound"},
		}))
		emit(runFc([]fcOp{{Op: "updBegin", T: 0, G: "g"}, {Op: "loopStart", G: "g"}, {Op: "updEnd", T: 0, R: "ok", M: []string{"u"}}, {Op: "stop"}, {Op: "loopStart", G: "g"}}))
		for _, prov := range []string{"google", "cognito"} {
			emit(memRunCase(memCase{Provider: prov, Cache: map[string][]string{"g1": {"u"}, "g2": {"v"}}, Asked: []string{"g1", "g2"}, User: "u", Dir: []string{"g2"}}))
			emit(memRunCase(memCase{Provider: prov, Cache: map[string][]string{"g1": {"u"}}, Asked: []string{"g1", "g2"}, User: "u", Dir: []string{"g2"}}))
			emit(memRunCase(memCase{Provider: prov, Cache: map[string][]string{}, Asked: []string{"g1", "g2"}, User: "u", Dir: []string{"g1"}}))
			emit(memRunCase(memCase{Provider: prov, Cache: map[string][]string{}, Asked: []string{"g1"}, User: "u", DirErr: true}))
			emit(memRunCase(memCase{Provider: prov, Cache: map[string][]string{"g1": {"u"}}, Asked: []string{}, User: "u", Dir: []string{"g1"}}))
			// uncached although the group's refresh loop is already registered (first fill failed / still in flight)
			emit(memRunCase(memCase{Provider: prov, Cache: map[string][]string{"g1": {"u"}}, Asked: []string{"g1", "g2"}, User: "u", Dir: []string{"g1", "g2"}, Running: []string{"g2"}}))
			emit(memRunCase(memCase{Provider: prov, Cache: map[string][]string{}, Asked: []string{"g2"}, User: "u", Dir: []string{"g2"}, Running: []string{"g2"}}))
		}
		emit(loopStressCase(12, 12))
		for _, prov := range []string{"google", "cognito"} {
			emit(popRunCase(popCase{Provider: prov, Answers: []string{"ok:u,v", "err", "ok:w", "notfound", "notfound", "ok:u", "err", "notfound", "ok:"}}))
			// a group that loses its last member still exists: the emptied list replaces the old one
			emit(popRunCase(popCase{Provider: prov, Answers: []string{"ok:u", "ok:", "ok:", "err", "ok:v", "ok:", "notfound", "ok:"}}))
		}
		// random
		emails := []string{"a@x.io", "b@x.io", "A@x.io"}
		gnames := []string{"g1", "g2", "g3", "g1,g2", " g1", "g1 ", "", "G1"}
		users := []string{"u", "v", "w"}
		subset := func(src []string) []string {
			var out []string
			for _, s := range src {
				if rng.Intn(2) == 0 {
					out = append(out, s)
				}
			}
			rng.Shuffle(len(out), func(i, j int) { out[i], out[j] = out[j], out[i] })
			return out
		}
		for k := 0; k < n; k++ {
			switch k % 3 {
			case 0:
				nops := 4 + rng.Intn(16)
				ops := make([]gcOp, 0, nops)
				pool := gnames[:3]
				if rng.Intn(10) == 0 {
					pool = gnames
				}
				for i := 0; i < nops; i++ {
					op := gcOp{Op: "ask", Email: emails[rng.Intn(2)], Groups: subset(pool)}
					if rng.Intn(12) == 0 {
						op.Email = emails[2]
					}
					switch rng.Intn(8) {
					case 0:
						op.Op = "purge"
					case 1:
						op.DirErr = true
					default:
						op.Dir = subset(op.Groups)
					}
					ops = append(ops, op)
				}
				emit(gcRunCase(ops))
			case 1:
				r := newFcRun()
				var out []M
				var raw []fcOp
				nops := 5 + rng.Intn(25)
				gs := []string{"g", "h", "i"}[:1+rng.Intn(3)]
				for i := 0; i < nops; i++ {
					var op fcOp
					x := rng.Intn(12)
					res := func() (string, []string) {
						switch rng.Intn(4) {
						case 0:
							return "err", nil
						case 1:
							return "notFound", nil
						}
						return "ok", subset(users)
					}
					switch {
					case x < 3:
						op = fcOp{Op: "updBegin", T: rng.Intn(4), G: gs[rng.Intn(len(gs))]}
					case x < 6 && len(r.upd) > 0:
						var ts []int
						for t := range r.upd {
							ts = append(ts, t)
						}
						sort.Ints(ts)
						rr, m := res()
						op = fcOp{Op: "updEnd", T: ts[rng.Intn(len(ts))], R: rr, M: m}
					case x < 8:
						op = fcOp{Op: "loopStart", G: gs[rng.Intn(len(gs))]}
					case x < 10 && len(r.loopFill) > 0:
						var ls []string
						for g := range r.loopFill {
							ls = append(ls, g)
						}
						sort.Strings(ls)
						rr, m := res()
						op = fcOp{Op: "loopEnd", G: ls[rng.Intn(len(ls))], R: rr, M: m}
					case x == 10 && rng.Intn(3) == 0:
						op = fcOp{Op: "stop"}
					default:
						op = fcOp{Op: "get", G: gs[rng.Intn(len(gs))]}
					}
					raw = append(raw, op)
					out = append(out, r.exec(op)...)
				}
				out = append(out, r.finish()...)
				emit(M{"kind": "fc", "ops": out, "raw": M{"kind": "fc", "fc": raw}})
			default:
				c := memCase{Provider: []string{"google", "cognito"}[rng.Intn(2)], Cache: map[string][]string{}, User: users[rng.Intn(2)]}
				for _, g := range gnames[:3] {
					if rng.Intn(3) > 0 {
						c.Cache[g] = subset(users)
						if c.Cache[g] == nil {
							c.Cache[g] = []string{}
						}
					}
				}
				c.Asked = subset(gnames[:3])
				if rng.Intn(2) == 0 {
					c.Running = subset(gnames[:3])
				}
				if rng.Intn(6) == 0 {
					c.DirErr = true
				} else {
					c.Dir = subset(gnames[:3])
				}
				emit(memRunCase(c))
			}
		}
	}
}
