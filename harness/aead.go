package main

import (
	"encoding/base64"
	"encoding/json"
	"fmt"
	"math/rand"
	"net/http"
	"net/http/httptest"
	"reflect"
	"strings"
	"sync"
	"time"

	"github.com/buzzfeed/sso/internal/pkg/aead"
	"github.com/buzzfeed/sso/internal/pkg/sessions"
)

// Engine "aead" (C02): the real MiscreantCipher. Every genuine sealed string is corrupted systematically
// (bit flips, truncations, extensions, re-encodings, nonce/body swaps, second key); for each variant we record
// what Go's base64 decoder says and whether Unmarshal accepted it and with which value.

type aeadState struct {
	SessionID   string `json:"session_id"`
	RedirectURI string `json:"redirect_uri"`
}

type aeadCase struct {
	Kind   string                 `json:"kind"`   // session | state
	Repeat int                    `json:"repeat"` // seal the same value this many more times with the same cipher
	Sess   *sessions.SessionState `json:"sess,omitempty"`
	State  *aeadState             `json:"state,omitempty"`
	Full   bool                   `json:"full"` // every bit / every truncation
	Seed   int64                  `json:"seed"`
}

var aeadHalfKey *aead.MiscreantCipher

const b64url = "ABCDEFGHIJKLMNOPQRSTUVWXYZabcdefghijklmnopqrstuvwxyz0123456789-_"

func aeadRun(c aeadCase, k1, k2 *aead.MiscreantCipher) M {
	rng := rand.New(rand.NewSource(c.Seed))
	seal := func(ci *aead.MiscreantCipher) string {
		var s string
		var err error
		if c.Kind == "session" {
			s, err = sessions.MarshalSession(c.Sess, ci)
		} else {
			s, err = ci.Marshal(c.State)
		}
		if err != nil {
			panic(err)
		}
		return s
	}
	open := func(ci *aead.MiscreantCipher, t string) string {
		if c.Kind == "session" {
			got, err := sessions.UnmarshalSession(t, ci)
			if err != nil {
				return "err"
			}
			if got == nil {
				return "ok-nil"
			}
			if reflect.DeepEqual(normSess(got), normSess(c.Sess)) {
				return "ok-same"
			}
			return "ok-different"
		}
		got := &aeadState{}
		if err := ci.Unmarshal(t, got); err != nil {
			return "err"
		}
		if *got == *c.State {
			return "ok-same"
		}
		return "ok-different"
	}
	s1 := seal(k1)
	s1b := seal(k1) // same value sealed again: must be a different string
	s2 := seal(k2)
	raw, _ := base64.RawURLEncoding.DecodeString(s1)
	variants := []M{}
	add := func(kind, t string) {
		v := M{"kind": kind, "t": hx(t), "res": open(k1, t)}
		if b, err := base64.RawURLEncoding.DecodeString(t); err == nil {
			v["b64"] = hxb(b)
		} else {
			v["b64"] = nil
		}
		variants = append(variants, v)
	}
	enc := func(b []byte) string { return base64.RawURLEncoding.EncodeToString(b) }
	add("genuine", s1)
	add("genuine-again", s1b)
	add("other-key", s2)
	// single-bit flips of the decoded bytes
	nbits := len(raw) * 8
	flips := nbits
	if !c.Full {
		flips = 48
	}
	for i := 0; i < flips; i++ {
		bit := i
		if !c.Full {
			bit = rng.Intn(nbits)
		}
		b := append([]byte{}, raw...)
		b[bit/8] ^= 1 << uint(bit%8)
		add("bitflip", enc(b))
	}
	// truncations and extensions (of the string and of the bytes)
	for l := 0; l < len(s1); l++ {
		if c.Full || l < 4 || l > len(s1)-24 || rng.Intn(16) == 0 {
			add("truncate-string", s1[:l])
		}
	}
	for l := 0; l <= 20 && l < len(raw); l++ {
		add("truncate-bytes", enc(raw[:l]))
		add("drop-prefix", enc(raw[l+1:]))
	}
	for _, ext := range []string{"A", "AA", "AAA", "AAAA", "_", "=", "==", "\n", "\r\n", " ", "\x00"} {
		add("extend", s1+ext)
		add("prepend", ext+s1)
	}
	add("extend-bytes", enc(append(append([]byte{}, raw...), 0)))
	// re-encodings of the same bytes
	add("std-alphabet", base64.RawStdEncoding.EncodeToString(raw))
	add("padded-url", base64.URLEncoding.EncodeToString(raw))
	add("padded-std", base64.StdEncoding.EncodeToString(raw))
	for _, pos := range []int{0, 1, len(s1) / 2, len(s1) - 1, len(s1)} {
		add("newline", s1[:pos]+"\n"+s1[pos:])
		add("cr", s1[:pos]+"\r"+s1[pos:])
	}
	add("many-newlines", strings.Join(strings.Split(s1, ""), "\n"))
	if len(s1)%4 != 0 {
		// the unused low bits of the last character
		last := strings.IndexByte(b64url, s1[len(s1)-1])
		span := 16
		if len(s1)%4 == 3 {
			span = 4
		}
		for d := 1; d < span; d++ {
			add("trailing-bits", s1[:len(s1)-1]+string(b64url[(last/span)*span+(last%span+d)%span]))
		}
	}
	// structure attacks
	if len(raw) > 16 {
		piv := len(raw) - 16
		add("swap-nonce-body", enc(append(append([]byte{}, raw[piv:]...), raw[:piv]...)))
		add("nonce-only", enc(raw[piv:]))
		add("body-only", enc(raw[:piv]))
		r2, _ := base64.RawURLEncoding.DecodeString(s1b)
		add("nonce-from-other-seal", enc(append(append([]byte{}, raw[:piv]...), r2[len(r2)-16:]...)))
		add("body-from-other-key", enc(append(append([]byte{}, mustDec(s2)[:len(mustDec(s2))-16]...), raw[piv:]...)))
	}
	add("empty", "")
	for i := 0; i < 24; i++ {
		n := rng.Intn(80)
		b := make([]byte, n)
		rng.Read(b)
		if i%2 == 0 {
			add("random-bytes", enc(b))
		} else {
			add("random-string", string(b))
		}
	}
	// the same value sealed many more times by the same cipher: all strings distinct (nonces are never reused)
	seen := map[string]bool{s1: true, s1b: true}
	for i := 0; i < c.Repeat; i++ {
		seen[seal(k1)] = true
	}
	halfKey := "err"
	if aeadHalfKey != nil {
		halfKey = open(aeadHalfKey, s1)
	}
	return M{"kind": c.Kind, "genuine": []string{hx(s1), hx(s1b)}, "genuineOther": hx(s2), "openOtherKey": open(k2, s1), "openHalfKey": halfKey,
		"variants": variants, "repeatN": c.Repeat + 2, "repeatDistinct": len(seen), "raw": c}
}

// aeadStores: two cookie stores of one process with different secrets. A cookie saved by one opens in that store and
// never in the other — whichever store sees it first, however often.
func aeadStores() M {
	mk := func(fill byte) *sessions.CookieStore {
		sec := make([]byte, 32)
		for i := range sec {
			sec[i] = fill + byte(i)
		}
		st, err := sessions.NewCookieStore("_sso_proxy", sessions.CreateMiscreantCookieCipher(sec))
		if err != nil {
			panic(err)
		}
		return st
	}
	A, B := mk(1), mk(101)
	save := func(st *sessions.CookieStore) string {
		rec := httptest.NewRecorder()
		req := httptest.NewRequest("GET", "http://app.x.io/", nil)
		if err := st.SaveSession(rec, req, &sessions.SessionState{Email: "ann@x.io", AccessToken: "at", LifetimeDeadline: time.Now().Add(time.Hour)}); err != nil {
			panic(err)
		}
		for _, c := range rec.Result().Cookies() {
			if c.Name == "_sso_proxy" {
				return c.Value
			}
		}
		return ""
	}
	load := func(st *sessions.CookieStore, v string) bool {
		req := httptest.NewRequest("GET", "http://app.x.io/", nil)
		req.AddCookie(&http.Cookie{Name: "_sso_proxy", Value: v})
		ss, err := st.LoadSession(req)
		return err == nil && ss != nil
	}
	v1, v2 := save(A), save(A)
	var obs []M
	// own store first, then the other one, repeatedly; and the other order with a second cookie
	for i := 0; i < 3; i++ {
		obs = append(obs, M{"cookie": 1, "order": "own-first", "own": load(A, v1), "other": load(B, v1)})
	}
	for i := 0; i < 3; i++ {
		obs = append(obs, M{"cookie": 2, "order": "other-first", "other": load(B, v2), "own": load(A, v2)})
	}
	return M{"kind": "stores", "stores": obs, "genuine": []string{}, "variants": []M{}, "openOtherKey": "err", "raw": aeadCase{Kind: "stores"}}
}

// aeadParallel: the ciphers one process runs side by side (sso-auth: session-cookie cipher and auth-code cipher; sso-proxy:
// one per cookie store) sealing and opening at the same time from several goroutines each. Every value opens under the
// cipher that sealed it to exactly what was sealed, and under no other.
func aeadParallel(rounds int) M {
	mk := func(fill byte) *aead.MiscreantCipher {
		sec := make([]byte, 32)
		for i := range sec {
			sec[i] = fill + byte(i)
		}
		c, err := aead.NewMiscreantCipher(sec)
		if err != nil {
			panic(err)
		}
		return c
	}
	ciphers := []*aead.MiscreantCipher{mk(3), mk(103)}
	var mu sync.Mutex
	counts := map[string]int{"sealed": 0, "sealError": 0, "rejected": 0, "wrong": 0, "crossed": 0, "panics": 0, "opensOther": 0}
	first := map[string]string{}
	note := func(k, detail string) {
		mu.Lock()
		counts[k]++
		if _, ok := first[k]; !ok {
			first[k] = detail
		}
		mu.Unlock()
	}
	var wg sync.WaitGroup
	start := make(chan struct{})
	for ci := range ciphers {
		for g := 0; g < 4; g++ {
			wg.Add(1)
			go func(ci, g int) {
				defer wg.Done()
				<-start
				for r := 0; r < rounds; r++ {
					func() {
						defer func() {
							if x := recover(); x != nil {
								note("panics", fmt.Sprint(x))
							}
						}()
						want := sessions.SessionState{Email: fmt.Sprintf("user-%d-%d-%d@x.io", ci, g, r), AccessToken: strings.Repeat("t", 1+(r*7+g)%200), User: fmt.Sprintf("c%d", ci)}
						v, err := ciphers[ci].Marshal(&want)
						if err != nil {
							note("sealError", err.Error())
							return
						}
						note("sealed", "")
						var got sessions.SessionState
						if err := ciphers[ci].Unmarshal(v, &got); err != nil {
							note("rejected", want.Email+": "+err.Error())
						} else if got.Email != want.Email || got.AccessToken != want.AccessToken || got.User != want.User {
							if got.User != want.User {
								note("crossed", want.Email+" opened as "+got.Email)
							} else {
								note("wrong", want.Email+" opened as "+got.Email)
							}
						}
						var other sessions.SessionState
						if err := ciphers[1-ci].Unmarshal(v, &other); err == nil {
							note("opensOther", want.Email)
						}
					}()
				}
			}(ci, g)
		}
	}
	close(start)
	wg.Wait()
	return M{"kind": "parallel", "parallel": counts, "first": first, "rounds": rounds, "raw": aeadCase{Kind: "parallel", Repeat: rounds}}
}

func mustDec(s string) []byte {
	b, err := base64.RawURLEncoding.DecodeString(s)
	if err != nil {
		panic(err)
	}
	return b
}

func normSess(s *sessions.SessionState) sessions.SessionState {
	c := *s
	c.RefreshDeadline = c.RefreshDeadline.UTC().Round(0)
	c.LifetimeDeadline = c.LifetimeDeadline.UTC().Round(0)
	c.ValidDeadline = c.ValidDeadline.UTC().Round(0)
	c.GracePeriodStart = c.GracePeriodStart.UTC().Round(0)
	if len(c.Groups) == 0 {
		c.Groups = nil
	}
	return c
}

func init() {
	engines["aead"] = func(rng *rand.Rand, n int, em *Emitter, replay []byte) {
		key := func(seed int64) *aead.MiscreantCipher {
			b := make([]byte, 64)
			rand.New(rand.NewSource(seed)).Read(b)
			c, err := aead.NewMiscreantCipher(b)
			if err != nil {
				panic(err)
			}
			return c
		}
		k1, k2 := key(11), key(22)
		// a secret that agrees with k1's in its first half only (64-byte secrets: both halves are key material)
		k3 := func() *aead.MiscreantCipher {
			b := make([]byte, 64)
			rand.New(rand.NewSource(11)).Read(b)
			for i := 32; i < 64; i++ {
				b[i] ^= 0x5a
			}
			c, err := aead.NewMiscreantCipher(b)
			if err != nil {
				panic(err)
			}
			return c
		}()
		aeadHalfKey = k3
		idx := 0
		emit := func(c aeadCase) {
			var o M
			if c.Kind == "stores" {
				o = aeadStores()
			} else if c.Kind == "parallel" {
				o = aeadParallel(c.Repeat)
			} else {
				o = aeadRun(c, k1, k2)
			}
			o["e"] = "aead"
			o["case"] = idx
			em.Emit(o)
			idx++
		}
		if replay != nil {
			var w struct {
				Raw aeadCase `json:"raw"`
			}
			if err := json.Unmarshal(replay, &w); err != nil {
				panic(err)
			}
			emit(w.Raw)
			return
		}
		t0 := time.Unix(1700000000, 0).UTC()
		emit(aeadCase{Kind: "state", State: &aeadState{SessionID: "0123456789abcdef", RedirectURI: "/"}, Full: true, Seed: 1, Repeat: 1200})
		emit(aeadCase{Kind: "stores"})
		emit(aeadCase{Kind: "parallel", Repeat: 400 + n/4})
		emit(aeadCase{Kind: "session", Sess: &sessions.SessionState{ProviderSlug: "idp", ProviderType: "sso", AccessToken: "at", RefreshToken: "rt",
			RefreshDeadline: t0.Add(time.Hour), LifetimeDeadline: t0.Add(24 * time.Hour), ValidDeadline: t0.Add(time.Minute),
			Email: "a@example.com", User: "a", Groups: []string{"g1", "g2"}, AuthorizedUpstream: "app.example.com"}, Full: true, Seed: 2})
		emit(aeadCase{Kind: "session", Sess: &sessions.SessionState{}, Full: true, Seed: 3})
		// sessions of every size a directory can produce: a long group list compresses to a cookie-sized value, and what was
		// sealed opens again whatever it inflates to
		for _, n := range []int{40, 55, 60, 80, 120, 400, 2000} {
			gs := make([]string, n)
			for i := range gs {
				gs[i] = fmt.Sprintf("team-%03d-engineering@corp.example.com", i)
			}
			emit(aeadCase{Kind: "session", Sess: &sessions.SessionState{ProviderSlug: "idp", AccessToken: strings.Repeat("eyJhbGciOiJSUzI1NiJ9.", 40), RefreshToken: "rt",
				RefreshDeadline: t0.Add(time.Hour), LifetimeDeadline: t0.Add(24 * time.Hour), ValidDeadline: t0.Add(time.Minute),
				Email: "a@example.com", User: "a", Groups: gs, AuthorizedUpstream: "app.example.com"}, Full: false, Seed: int64(100 + n)})
		}
		emit(aeadCase{Kind: "state", State: &aeadState{}, Full: false, Seed: 4})
		strs := []string{"", "a", "ünïcödé", "\x00\xff", strings.Repeat("x", 300), "<script>", "a@b.c", "\"quoted\"", "日本語"}
		for k := 0; k < n; k++ {
			c := aeadCase{Seed: rng.Int63()}
			if rng.Intn(2) == 0 {
				c.Kind = "state"
				c.State = &aeadState{SessionID: strs[rng.Intn(len(strs))], RedirectURI: strs[rng.Intn(len(strs))]}
			} else {
				c.Kind = "session"
				s := &sessions.SessionState{ProviderSlug: strs[rng.Intn(len(strs))], AccessToken: strs[rng.Intn(len(strs))], RefreshToken: strs[rng.Intn(len(strs))],
					Email: strs[rng.Intn(len(strs))], User: strs[rng.Intn(len(strs))], AuthorizedUpstream: strs[rng.Intn(len(strs))]}
				ng := rng.Intn(40)
				for i := 0; i < ng; i++ {
					s.Groups = append(s.Groups, strs[rng.Intn(len(strs))])
				}
				if rng.Intn(2) == 0 {
					s.RefreshDeadline = t0.Add(time.Duration(rng.Intn(100000)) * time.Second)
					s.LifetimeDeadline = t0.Add(time.Duration(rng.Intn(1000000)) * time.Second)
					s.ValidDeadline = t0.Add(time.Duration(rng.Intn(1000)) * time.Second)
				}
				if rng.Intn(4) == 0 {
					s.GracePeriodStart = t0
				}
				if rng.Intn(12) == 0 {
					// a user in very many groups
					for i, n := 0, 50+rng.Intn(300); i < n; i++ {
						s.Groups = append(s.Groups, fmt.Sprintf("g-%d-%s@corp.example.com", i, strs[rng.Intn(3)]))
					}
				}
				// json cannot carry invalid UTF-8 losslessly: keep those strings out of the round-trip fields
				for _, f := range []*string{&s.ProviderSlug, &s.AccessToken, &s.RefreshToken, &s.Email, &s.User, &s.AuthorizedUpstream} {
					if *f == "\x00\xff" {
						*f = "\x00"
					}
				}
				for i := range s.Groups {
					if s.Groups[i] == "\x00\xff" {
						s.Groups[i] = "\x00"
					}
				}
				c.Sess = s
			}
			if c.State != nil {
				if c.State.SessionID == "\x00\xff" {
					c.State.SessionID = "\x00"
				}
				if c.State.RedirectURI == "\x00\xff" {
					c.State.RedirectURI = "\x00"
				}
			}
			emit(c)
		}
	}
}
