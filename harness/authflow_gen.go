package main

import (
	"encoding/base64"
	"encoding/json"
	"math/rand"
	"net/url"
	"strconv"
	"strings"
	"time"
)

func mkIDToken(email string, verified bool, segs int, badB64, badJSON bool) string {
	payload, _ := json.Marshal(M{"email": email, "email_verified": verified})
	if badJSON {
		payload = []byte("{not json")
	}
	p := base64.RawURLEncoding.EncodeToString(payload)
	if badB64 {
		p = "!!!" + p
	}
	parts := []string{"eyJhbGciOiJub25lIn0", p, "sig", "x", "y"}
	if segs <= 0 {
		return ""
	}
	if segs == 1 {
		return "nodotsatall"
	}
	return strings.Join(parts[:segs], ".")
}

// an id_token with a hosted-domain claim
func mkIDTokenHD(email string, verified *bool, hd string) string {
	m := M{"email": email, "hd": hd}
	if verified != nil {
		m["email_verified"] = *verified
	}
	payload, _ := json.Marshal(m)
	return "eyJhbGciOiJub25lIn0." + base64.RawURLEncoding.EncodeToString(payload) + ".sig"
}

func afDefaults(s *afStep) {
	if s.Method == "" {
		s.Method = "GET"
	}
	if s.Host == "" {
		s.Host = afHost
	}
	if s.Cookie == "" {
		s.Cookie = "none"
	}
	if s.Token.Kind == "" {
		s.Token = afIdP{Kind: "ok", Access: "idp-at", RefreshT: "idp-rt", TTL: 600, IDToken: mkIDToken("ann@x.io", true, 3, false, false)}
	}
	if s.User.Kind == "" {
		s.User = afIdP{Kind: "ok", Email: "ann@x.io", Verified: true, Groups: []string{"eng"}}
	}
	if s.Valid.Kind == "" {
		s.Valid = afIdP{Kind: "ok", Active: true}
	}
	if s.Revoke.Kind == "" {
		s.Revoke = afIdP{Kind: "ok"}
	}
}

const afCallbackURI = "https://app.x.io/oauth2/callback"

func afPrelude() []afCase {
	base := func(steps ...afStep) afCase {
		for i := range steps {
			afDefaults(&steps[i])
		}
		return afCase{Domains: []string{"x.io"}, Roots: []string{"x.io", ".apps.y.io"}, Steps: steps}
	}
	sess := func(mut func(s *afSess)) *afSess {
		s := &afSess{Email: "ann@x.io", Access: "at", RefreshTok: "rt", Lifetime: 3000, Refresh: 500, Valid: 30}
		if mut != nil {
			mut(s)
		}
		return s
	}
	cid := [][2]string{{"client_id", afProxyID}}
	signIn := func(slug string, sg *afSign, cookie string, ss *afSess, mut func(s *afStep)) afStep {
		s := afStep{Slug: slug, Endpoint: "sign_in", Query: cid, Sign: sg, Cookie: cookie, Sess: ss}
		if mut != nil {
			mut(&s)
		}
		return s
	}
	good := func() *afSign { return &afSign{URI: afCallbackURI, State: "proxy-state"} }
	uri := func(u string) *afSign { return &afSign{URI: u, State: "proxy-state"} }
	var cases []afCase
	cases = append(cases, base(
		signIn("google", good(), "none", nil, nil),
		signIn("google", good(), "sess", sess(nil), nil),
		signIn("okta", good(), "sess", sess(nil), nil),
		signIn("google", good(), "sess", sess(nil), func(s *afStep) { s.Valid = afIdP{Kind: "status", Status: 400, ErrDesc: "Token expired or revoked"} }),
		signIn("okta", good(), "sess", sess(nil), func(s *afStep) { s.Valid = afIdP{Kind: "ok", Active: false} }),
		signIn("google", good(), "sess", sess(func(s *afSess) { s.Lifetime = -10 }), nil),
		signIn("google", good(), "sess", sess(func(s *afSess) { s.Refresh = -10 }), nil),
		signIn("google", good(), "sess", sess(func(s *afSess) { s.Refresh = -10; s.RefreshTok = "" }), nil),
		signIn("google", good(), "sess", sess(func(s *afSess) { s.Refresh = -10 }), func(s *afStep) { s.Token = afIdP{Kind: "status", Status: 400, ErrDesc: "Token expired or revoked"} }),
		signIn("google", good(), "sess", sess(func(s *afSess) { s.Refresh = -10 }), func(s *afStep) { s.Token = afIdP{Kind: "status", Status: 503} }),
		signIn("google", good(), "sess", sess(func(s *afSess) { s.Email = "eve@evil.io" }), nil),
		signIn("google", good(), "sess", sess(func(s *afSess) { s.Email = "mallory@x.io@evil.io" }), nil), // two '@': the domain is what follows the last one
		signIn("google", good(), "sess", sess(func(s *afSess) { s.Email = "mallory@evil.io@x.io" }), nil),
		signIn("google", good(), "sess", sess(func(s *afSess) { s.Email = "localadmin" }), nil), // no '@' at all
		signIn("google", good(), "sess", sess(func(s *afSess) { s.Email = "@x.io" }), nil),
		signIn("google", good(), "garbage", nil, nil),
		signIn("google", good(), "otherkey", sess(nil), nil),
		signIn("google", good(), "codekey", sess(nil), nil), // an authorization code is not a session cookie
		signIn("okta", good(), "codekey", sess(nil), nil),
		signIn("google", &afSign{URI: afCallbackURI}, "sess", sess(nil), nil), // no state
		signIn("google", &afSign{URI: afCallbackURI, Mangle: "badsig", State: "s"}, "sess", sess(nil), nil),
		signIn("google", &afSign{URI: afCallbackURI, Mangle: "nosig", State: "s"}, "sess", sess(nil), nil),
		signIn("google", &afSign{URI: afCallbackURI, Mangle: "wrongsecret", State: "s"}, "sess", sess(nil), nil),
		signIn("google", &afSign{URI: afCallbackURI, Mangle: "emptykey", State: "s"}, "sess", sess(nil), nil),
		signIn("okta", &afSign{URI: afCallbackURI, Mangle: "emptykey", State: "s"}, "sess", sess(nil), nil),
		signIn("google", &afSign{URI: afCallbackURI, Mangle: "keyisuri", State: "s"}, "sess", sess(nil), nil),
		afStep{Slug: "google", Endpoint: "sign_out", Method: "POST", Sign: &afSign{URI: "https://app.x.io/", In: "form", Mangle: "emptykey"}, Cookie: "sess", Sess: sess(nil)},
		afStep{Slug: "google", Endpoint: "sign_out", Sign: &afSign{URI: "https://app.x.io/", Mangle: "emptykey"}, Cookie: "sess", Sess: sess(nil)},
		signIn("google", &afSign{URI: afCallbackURI, Mangle: "sigforother", State: "s"}, "sess", sess(nil), nil),
		signIn("google", &afSign{URI: afCallbackURI, Mangle: "shift-digit", State: "s"}, "sess", sess(nil), nil),
		signIn("google", &afSign{URI: afCallbackURI, Mangle: "b64std", State: "s"}, "sess", sess(nil), nil),
		signIn("google", &afSign{URI: afCallbackURI, TsDelta: -290, State: "s"}, "sess", sess(nil), nil),
		signIn("google", &afSign{URI: afCallbackURI, TsDelta: -310, State: "s"}, "sess", sess(nil), nil),
		signIn("google", &afSign{URI: afCallbackURI, TsDelta: 100000, State: "s"}, "sess", sess(nil), nil),
		signIn("google", &afSign{URI: afCallbackURI, TsDelta: -301, State: "s"}, "sess", sess(nil), func(s *afStep) { s.SleepMs = 1600 }), // stale by one second, process up for a while
		signIn("google", &afSign{URI: afCallbackURI, TsLit: "notanumber", State: "s"}, "sess", sess(nil), nil),
		signIn("google", good(), "sess", sess(nil), func(s *afStep) { s.Query = [][2]string{{"client_id", "someone-else"}} }),
		signIn("google", good(), "sess", sess(nil), func(s *afStep) { s.Query = nil }),
		signIn("google", good(), "sess", sess(nil), func(s *afStep) { s.Method = "POST" }),
	))
	// redirect-URI corner cases (all correctly signed: the signature gate is not what stops them)
	var urls []afStep
	for _, u := range []string{"https://evil.io/cb", "https://notx.io/cb", "https://x.io.evil.io/", "https://x.io@evil.io/", "https://evil.io/x.io", "https://evil.io?x.io",
		"https://evil.io#.x.io", "https://app.x.io:8443/cb", "https://APP.X.IO/cb", "https://x.io/", "https://x.io./", "https://foo.apps.y.io/cb", "https://apps.y.io/cb",
		"//app.x.io/cb", "/relative", "app.x.io/cb", "javascript://app.x.io/%0aalert(1)", "https://user:pw@app.x.io/", "https://evil.io\\@app.x.io/", "https:///app.x.io",
		"https://[::1%25.x.io]/", "http://[::1]/", "https://app.x.io/%2e%2e/..", "https://app.x.io/a b", "https://evil.io/.x.io", "https://evil.io%2f.x.io/", "https://evil.io\t.x.io/", "",
		"https://io/cb", "https://y.io/cb", "https://o/", "https://.io/", "https://ps.y.io/cb", "https://.x.io/", "https://ax.io/"} { // ancestors and near-misses of the root domains
		urls = append(urls, signIn("google", uri(u), "sess", sess(nil), nil))
		urls = append(urls, afStep{Slug: "google", Endpoint: "sign_out", Method: "POST", Sign: &afSign{URI: u, In: "form"}, Cookie: "sess", Sess: sess(nil)})
	}
	cases = append(cases, base(urls...))
	// start + callback
	cb := func(slug string, mut func(s *afStep)) afStep {
		s := afStep{Slug: slug, Endpoint: "callback", Query: [][2]string{{"code", "idp-code"}, {"state", "{IDPSTATE}"}}, Csrf: "jar"}
		if mut != nil {
			mut(&s)
		}
		return s
	}
	start := func(slug string) afStep { return afStep{Slug: slug, Endpoint: "start", StartOf: afCallbackURI} }
	tok := func(t string) afIdP {
		return afIdP{Kind: "ok", Access: "idp-at", RefreshT: "idp-rt", TTL: 600, IDToken: t}
	}
	var flows []afStep
	flows = append(flows, start("google"), cb("google", nil), signIn("google", good(), "jar", nil, nil))
	for _, t := range []string{mkIDToken("localadmin", true, 3, false, false), mkIDToken("mallory@x.io@evil.io", true, 3, false, false), mkIDToken("@", true, 3, false, false),
		mkIDToken("ann@x.io", false, 3, false, false), mkIDToken("", true, 3, false, false), mkIDToken("ann@x.io", true, 2, false, false),
		mkIDToken("ann@x.io", true, 1, false, false), mkIDToken("ann@x.io", true, 0, false, false), mkIDToken("ann@x.io", true, 3, true, false),
		mkIDToken("ann@x.io", true, 3, false, true), mkIDToken("eve@evil.io", true, 3, false, false), mkIDToken("ann@x.io", true, 5, false, false)} {
		t := t
		flows = append(flows, start("google"), cb("google", func(s *afStep) { s.Token = tok(t) }))
	}
	for _, rep := range []afIdP{{Kind: "status", Status: 400}, {Kind: "status", Status: 401}, {Kind: "status", Status: 429}, {Kind: "status", Status: 500}, {Kind: "transport"},
		{Kind: "raw", Raw: "{\"access_token\": \"x\""}, {Kind: "raw", Raw: "[]"}, {Kind: "raw", Raw: "{}"}, {Kind: "raw", Raw: ""},
		{Kind: "raw", Raw: "null"}, {Kind: "raw", Raw: " null\n"}, {Kind: "raw", Raw: "42"}, {Kind: "raw", Raw: "\"s\""}} {
		rep := rep
		flows = append(flows, start("google"), cb("google", func(s *afStep) { s.Token = rep }))
		flows = append(flows, start("okta"), cb("okta", func(s *afStep) { s.Token = rep }))
	}
	flows = append(flows, start("okta"), cb("okta", nil))
	for _, u := range []afIdP{{Kind: "ok", Email: "ann@x.io", Verified: false}, {Kind: "ok", Email: "", Verified: true}, {Kind: "status", Status: 401}, {Kind: "status", Status: 503},
		{Kind: "transport"}, {Kind: "raw", Raw: "nonsense"}, {Kind: "raw", Raw: "{\"email\": 5}"}, {Kind: "ok", Email: "eve@evil.io", Verified: true},
		{Kind: "raw", Raw: "null"}, {Kind: "raw", Raw: " null "}, {Kind: "raw", Raw: "[]"}, {Kind: "raw", Raw: "7"}, {Kind: "raw", Raw: "{}"}} {
		u := u
		flows = append(flows, start("okta"), cb("okta", func(s *afStep) { s.User = u }))
	}
	flows = append(flows, start("okta"), cb("okta", func(s *afStep) { s.Token = afIdP{Kind: "ok", Access: "", TTL: 600} }))
	// state / nonce / csrf variations
	flows = append(flows,
		start("google"), cb("google", func(s *afStep) { s.Csrf = "" }),
		start("google"), cb("google", func(s *afStep) { s.Csrf = "0000" }),
		start("google"), cb("google", func(s *afStep) { s.Query = [][2]string{{"code", "c"}, {"state", "!!notbase64"}} }),
		start("google"), cb("google", func(s *afStep) {
			s.Query = [][2]string{{"code", "c"}, {"state", base64.URLEncoding.EncodeToString([]byte("nocolon"))}}
		}),
		start("google"), cb("google", func(s *afStep) { s.Query = [][2]string{{"code", "c"}} }),
		start("google"), cb("google", func(s *afStep) { s.Query = [][2]string{{"state", "{IDPSTATE}"}} }),
		start("google"), cb("google", func(s *afStep) {
			s.Query = [][2]string{{"code", "c"}, {"state", "{IDPSTATE}"}, {"error", "<script>alert(1)</script>"}}
		}),
		start("google"), cb("google", func(s *afStep) {
			s.Csrf = "feedface"
			s.Query = [][2]string{{"code", "c"}, {"state", base64.URLEncoding.EncodeToString([]byte("feedface:https://evil.io/"))}}
		}),
		// after a completed sign-in (and with another one pending) a hand-made callback whose state carries an empty nonce, or
		// the nonce of the flow already completed, rides on whatever the browser still holds
		start("google"), cb("google", nil),
		cb("google", func(s *afStep) {
			s.Query = [][2]string{{"code", "attacker-code"}, {"state", base64.URLEncoding.EncodeToString([]byte(":" + afCallbackURI))}}
		}),
		cb("google", func(s *afStep) { s.Query = [][2]string{{"code", "attacker-code"}, {"state", "{IDPSTATE}"}} }),
		start("google"), cb("google", nil), start("google"),
		cb("google", func(s *afStep) {
			s.Query = [][2]string{{"code", "attacker-code"}, {"state", base64.URLEncoding.EncodeToString([]byte(":" + afCallbackURI))}}
		}),
		start("okta"),
		cb("okta", func(s *afStep) {
			s.Query = [][2]string{{"code", "attacker-code"}, {"state", base64.URLEncoding.EncodeToString([]byte(":" + afCallbackURI))}}
		}),
		// the identity provider reports an error (the user cancelled, …): an error page, never a redirect to what the state names
		cb("google", func(s *afStep) {
			s.Csrf = ""
			s.Query = [][2]string{{"error", "access_denied"}, {"state", base64.URLEncoding.EncodeToString([]byte("x:https://evil.io/phish"))}}
		}),
		start("google"), cb("google", func(s *afStep) { s.Query = [][2]string{{"error", "access_denied"}, {"state", "{IDPSTATE}"}} }),
		start("google"), cb("google", func(s *afStep) {
			s.Query = [][2]string{{"error", "access_denied"}, {"state", base64.URLEncoding.EncodeToString([]byte("x:https://app.x.io.evil.io/"))}, {"code", "c"}}
		}),
		cb("okta", func(s *afStep) {
			s.Csrf = ""
			s.Query = [][2]string{{"error", "server_error"}, {"error_description", "x"}, {"state", base64.URLEncoding.EncodeToString([]byte("x:https://foo.x.io@evil.io/"))}}
		}),
		// a hand-made state naming a sign_in URL whose proxy signature is long stale, with a matching hand-made CSRF cookie: the
		// callback may send the browser there, but only as written — it never refreshes a signature
		cb("google", func(s *afStep) {
			s.Csrf = "c0ffee"
			ts := strconv.FormatInt(time.Now().Unix()-3600, 10)
			inner := url.Values{"redirect_uri": {afCallbackURI}, "ts": {ts}, "sig": {afSig(afProxySecret, afCallbackURI, ts)}, "client_id": {afProxyID}, "state": {"s"}}
			s.Query = [][2]string{{"code", "idp-code"}, {"state", base64.URLEncoding.EncodeToString([]byte("c0ffee:https://" + afHost + "/google/sign_in?" + inner.Encode()))}}
		}),
		cb("okta", func(s *afStep) {
			s.Csrf = "c0ffee"
			ts := strconv.FormatInt(time.Now().Unix()-86400*30, 10)
			inner := url.Values{"redirect_uri": {afCallbackURI}, "ts": {ts}, "sig": {afSig(afProxySecret, afCallbackURI, ts)}, "client_id": {afProxyID}, "state": {"s"}}
			s.Query = [][2]string{{"code", "idp-code"}, {"state", base64.URLEncoding.EncodeToString([]byte("c0ffee:https://" + afHost + "/okta/sign_in?" + inner.Encode()))}}
		}),
		afStep{Slug: "google", Endpoint: "start", Query: [][2]string{{"redirect_uri", "https://evil.io/"}}},
		afStep{Slug: "google", Endpoint: "start", Query: [][2]string{{"redirect_uri", "https://" + afHost + "/google/sign_in?redirect_uri=https%3A%2F%2Fevil.io%2F&sig=x&ts=1"}}},
		afStep{Slug: "google", Endpoint: "start", Query: [][2]string{{"redirect_uri", "https://" + afHost + "/google/sign_in?redirect_uri=https%3A%2F%2Fapp.x.io%2Foauth2%2Fcallback&sig=bad&ts=1"}}},
		afStep{Slug: "google", Endpoint: "start"},
	)
	for _, acc := range []string{"text/plain", "text/plain, */*", "text/*;q=0.9", "application/json", "application/json, text/plain", "*/*", ""} {
		acc := acc
		for _, msg := range []string{"<script>alert(1)</script>", "  <b>denied</b>", "<!-- x --><a href=//evil.io>go</a>", "plain denied",
			"\\u003cscript\\u003e", "a \\u0026 b \\\" c", "back\\slash \\n \\u2028",
			// messages that are themselves JSON documents, whole or followed by more text
			"{\"error\":\"access_denied\"}", "{\"error\":\"access_denied\"}<script>alert(1)</script>", "{\"error\":\"invalid_grant\"} (HTTP 400)", "{}x", "[1,2]<b>",
			"\"quoted\" tail", "{\"a\":{\"b\":[1,{\"c\":null}]}}}}", "{\"unterminated\":", "null", "true false", "1e5<i>"} {
			msg := msg
			flows = append(flows, start("google"), cb("google", func(s *afStep) {
				s.Query = [][2]string{{"code", "c"}, {"state", "{IDPSTATE}"}, {"error", msg}}
				if acc != "" {
					s.Headers = map[string]string{"Accept": acc}
				}
			}))
		}
	}
	// a very long message, then ordinary ones: each JSON error body is one document about its own request
	for _, n := range []int{5000, 9000, 100} {
		n := n
		flows = append(flows, cb("google", func(s *afStep) {
			s.Csrf = ""
			s.Query = [][2]string{{"error", strings.Repeat("x", n)}}
			s.Headers = map[string]string{"Accept": "application/json"}
		}), cb("google", func(s *afStep) {
			s.Csrf = ""
			s.Query = [][2]string{{"error", "access_denied"}}
			s.Headers = map[string]string{"Accept": "application/json"}
		}), cb("okta", func(s *afStep) {
			s.Csrf = ""
			s.Query = [][2]string{{"error", "short"}}
			s.Headers = map[string]string{"Accept": "application/json"}
		}))
	}
	cases = append(cases, base(flows...))
	// sign-out
	so := func(method string, sg *afSign, cookie string, rev afIdP) afStep {
		return afStep{Slug: "google", Endpoint: "sign_out", Method: method, Sign: sg, Cookie: cookie, Sess: sess(nil), Revoke: rev}
	}
	sgq := func() *afSign { return &afSign{URI: "https://app.x.io/"} }
	sgf := func() *afSign { return &afSign{URI: "https://app.x.io/", In: "form"} }
	okR := afIdP{Kind: "ok"}
	outs := []afStep{
		so("GET", sgq(), "sess", okR), so("GET", sgq(), "none", okR), so("GET", sgq(), "garbage", okR),
		so("POST", sgf(), "sess", okR), so("POST", sgf(), "none", okR), so("POST", sgf(), "garbage", okR),
		so("POST", sgf(), "sess", afIdP{Kind: "status", Status: 400, ErrDesc: "Token expired or revoked"}),
		so("POST", sgf(), "sess", afIdP{Kind: "status", Status: 400, ErrDesc: "something else"}),
		so("POST", sgf(), "sess", afIdP{Kind: "status", Status: 500}), so("POST", sgf(), "sess", afIdP{Kind: "status", Status: 429}),
		so("POST", sgf(), "sess", afIdP{Kind: "transport"}),
		so("POST", &afSign{URI: "https://app.x.io/", In: "form", Mangle: "badsig"}, "sess", okR),
		so("POST", &afSign{URI: "https://app.x.io/", In: "form", TsDelta: -400}, "sess", okR),
		so("POST", &afSign{URI: "https://evil.io/", In: "form"}, "sess", okR),
		so("GET", &afSign{URI: "https://app.x.io/\"><script>alert(1)</script>"}, "sess", okR),
		so("PUT", sgf(), "sess", okR),
	}
	// the same parameter in the query string *and* in the urlencoded body: every reader must take the same one
	split := func(sg *afSign, q, f [][2]string) afStep {
		s := so("POST", sg, "sess", okR)
		s.Query, s.Form = q, f
		return s
	}
	outs = append(outs,
		split(sgq(), nil, [][2]string{{"redirect_uri", "https://evil.io/phish"}}),
		split(sgf(), [][2]string{{"redirect_uri", "https://evil.io/phish"}}, nil),
		split(sgq(), nil, [][2]string{{"redirect_uri", "https://other.x.io/"}}),
		split(sgq(), nil, [][2]string{{"sig", "AAAA"}, {"ts", "1"}}),
		split(sgf(), [][2]string{{"sig", "AAAA"}, {"ts", "1"}}, nil),
	)
	// the session's e-mail is text on every variant of the sign-out page, whatever the revocation's outcome
	for _, rv := range []afIdP{{Kind: "ok"}, {Kind: "status", Status: 429}, {Kind: "status", Status: 503}, {Kind: "status", Status: 500}, {Kind: "transport"},
		{Kind: "status", Status: 400, ErrDesc: "something else"}} {
		for _, m := range []string{"GET", "POST"} {
			sgx := sgq()
			if m == "POST" {
				sgx = sgf()
			}
			x := so(m, sgx, "sess", rv)
			x.Sess = sess(func(s *afSess) { s.Email = "\"<img src=x onerror=alert(1)>\"@x.io" })
			outs = append(outs, x)
		}
	}
	okOut := afStep{Slug: "okta", Endpoint: "sign_out", Method: "POST", Sign: sgf(), Cookie: "sess", Sess: sess(nil), Revoke: afIdP{Kind: "status", Status: 400, ErrDesc: "The token is invalid or expired"}}
	outs = append(outs, okOut)
	// parameters nobody asked for, next to the signed three: the confirmation page is the same page
	for _, extra := range [][][2]string{{{"x", "1"}}, {{"action", "https://evil.io/"}, {"method", "get"}}, {{"x", "1"}, {"x", "2"}, {"y", "<b>"}}, {{"redirect_uri ", "https://evil.io/"}}, {{"name", "\"><script>1</script>"}}} {
		g := so("GET", sgq(), "sess", afIdP{Kind: "ok"})
		g.Query = append(g.Query, extra...)
		outs = append(outs, g)
		p := so("POST", sgf(), "sess", afIdP{Kind: "status", Status: 500})
		p.Form = append(p.Form, extra...)
		outs = append(outs, p)
	}
	// sign out for real, then reuse of the old authenticator cookie
	outs = append(outs, start("google"), cb("google", nil), afStep{Slug: "google", Endpoint: "sign_out", Method: "POST", Sign: sgf(), Cookie: "jar"},
		signIn("google", good(), "jar", nil, nil))
	cases = append(cases, base(outs...))
	// back-channel
	cred := func(ep, method string, q, f [][2]string, hdr map[string]string, mut func(s *afStep)) afStep {
		s := afStep{Slug: "google", Endpoint: ep, Method: method, Query: q, Form: f, Headers: hdr}
		if mut != nil {
			mut(&s)
		}
		return s
	}
	Q := func(kv ...string) [][2]string {
		var o [][2]string
		for i := 0; i+1 < len(kv); i += 2 {
			o = append(o, [2]string{kv[i], kv[i+1]})
		}
		return o
	}
	H := func(kv ...string) map[string]string {
		o := map[string]string{}
		for i := 0; i+1 < len(kv); i += 2 {
			o[kv[i]] = kv[i+1]
		}
		return o
	}
	var bc []afStep
	for _, code := range []string{"genuine", "expired-refresh", "expired-lifetime", "otherkey", "cookiekey", "garbage", "", "genuine-respelled", "genuine-trailing-lf"} {
		code := code
		bc = append(bc, cred("redeem", "POST", nil, Q("client_id", afProxyID, "client_secret", afProxySecret), nil, func(s *afStep) { s.Code = code }))
	}
	// the same code presented twice, the session's lifetime ending in between: live → tokens, then expired → 401
	okc := Q("client_id", afProxyID, "client_secret", afProxySecret)
	// a browser signs in; its session cookie — what the cookie store sealed — is not an authorization code
	bc = append(bc, afStep{Slug: "google", Endpoint: "start", StartOf: afCallbackURI},
		afStep{Slug: "google", Endpoint: "callback", Query: [][2]string{{"code", "idp-code"}, {"state", "{IDPSTATE}"}}, Csrf: "jar"},
		cred("redeem", "POST", nil, okc, nil, func(s *afStep) { s.Code = "jarcookie" }))
	bc = append(bc,
		cred("redeem", "POST", nil, okc, nil, func(s *afStep) { s.Code = "short-lived" }),
		cred("redeem", "POST", nil, okc, nil, func(s *afStep) { s.Code = "repeat" }),
		cred("redeem", "POST", nil, okc, nil, func(s *afStep) { s.Code = "repeat"; s.SleepMs = 2300 }),
		cred("redeem", "POST", nil, okc, nil, func(s *afStep) { s.Code = "repeat" }))
	bc = append(bc,
		cred("redeem", "POST", nil, Q("client_id", afProxyID), H("X-Client-Secret", afProxySecret), func(s *afStep) { s.Code = "genuine" }),
		cred("redeem", "POST", Q("client_id", afProxyID), Q("client_secret", afProxySecret), nil, func(s *afStep) { s.Code = "genuine" }),
		cred("redeem", "POST", nil, Q("client_id", afProxyID, "client_secret", "wrong"), H("X-Client-Secret", afProxySecret), func(s *afStep) { s.Code = "genuine" }),
		cred("redeem", "POST", nil, Q("client_id", afProxyID, "client_secret", afProxySecret[:5]), nil, func(s *afStep) { s.Code = "genuine" }),
		// near misses of the secret: one byte off in the middle, right last byte only, the secret with more behind it or in front
		cred("redeem", "POST", nil, Q("client_id", afProxyID, "client_secret", afProxySecret[:3]+"X"+afProxySecret[4:]), nil, func(s *afStep) { s.Code = "genuine" }),
		cred("redeem", "POST", nil, Q("client_id", afProxyID, "client_secret", strings.Repeat(afProxySecret[len(afProxySecret)-1:], len(afProxySecret))), nil, func(s *afStep) { s.Code = "genuine" }),
		cred("redeem", "POST", nil, Q("client_id", afProxyID, "client_secret", strings.Repeat("A", len(afProxySecret)-1)+afProxySecret[len(afProxySecret)-1:]), nil, func(s *afStep) { s.Code = "genuine" }),
		cred("refresh", "POST", nil, Q("client_id", afProxyID, "client_secret", afProxySecret+"x", "refresh_token", "rt"), nil, nil),
		cred("validate", "GET", Q("client_id", afProxyID), nil, H("X-Client-Secret", "x"+afProxySecret, "X-Access-Token", "at"), nil),
		cred("profile", "GET", Q("client_id", afProxyID, "email", "ann@x.io", "groups", "eng"), nil, H("X-Client-Secret", strings.ToUpper(afProxySecret), "X-Access-Token", "at"), nil),
		cred("redeem", "POST", nil, Q("client_id", afProxyID[:3]+"X"+afProxyID[4:], "client_secret", afProxySecret), nil, func(s *afStep) { s.Code = "genuine" }),
		cred("redeem", "POST", nil, Q("client_id", afProxyID+"x", "client_secret", afProxySecret), nil, func(s *afStep) { s.Code = "genuine" }),
		cred("redeem", "POST", nil, Q("client_id", afProxyID, "client_secret", strings.ToUpper(afProxySecret)), nil, func(s *afStep) { s.Code = "genuine" }),
		cred("redeem", "POST", nil, Q("client_id", "", "client_secret", afProxySecret), nil, func(s *afStep) { s.Code = "genuine" }),
		cred("redeem", "POST", nil, Q("client_secret", afProxySecret), nil, func(s *afStep) { s.Code = "genuine" }),
		cred("redeem", "POST", nil, Q("client_id", afProxyID), nil, func(s *afStep) { s.Code = "genuine" }),
		cred("redeem", "POST", Q("client_id", "wrong"), Q("client_id", afProxyID, "client_secret", afProxySecret), nil, func(s *afStep) { s.Code = "genuine" }),
		cred("redeem", "POST", nil, Q("client_id", "wrong", "client_id", afProxyID, "client_secret", afProxySecret), nil, func(s *afStep) { s.Code = "genuine" }),
		cred("redeem", "GET", Q("client_id", afProxyID, "client_secret", afProxySecret), nil, nil, func(s *afStep) { s.Code = "genuine" }),
		// the right secret with a wrong, differently-cased, duplicated or empty client id: nothing happens, nothing is revealed
		cred("refresh", "POST", nil, Q("client_id", "someone-else", "client_secret", afProxySecret, "refresh_token", "rt"), nil, nil),
		cred("refresh", "POST", nil, Q("client_id", strings.ToUpper(afProxyID), "client_secret", afProxySecret, "refresh_token", "rt"), nil, nil),
		cred("validate", "GET", Q("client_id", "someone-else"), nil, H("X-Client-Secret", afProxySecret, "X-Access-Token", "at"), nil),
		cred("profile", "GET", Q("client_id", "someone-else", "email", "ann@x.io", "groups", "eng"), nil, H("X-Client-Secret", afProxySecret, "X-Access-Token", "at"), nil),
		cred("redeem", "POST", nil, Q("client_id", "someone-else", "client_secret", afProxySecret), nil, func(s *afStep) { s.Code = "genuine" }),
		cred("redeem", "POST", nil, Q("client_id", strings.ToUpper(afProxyID), "client_secret", afProxySecret), nil, func(s *afStep) { s.Code = "genuine" }),
		cred("refresh", "POST", nil, Q("client_id", afProxyID, "client_secret", afProxySecret, "refresh_token", "rt"), nil, nil),
		cred("refresh", "POST", nil, Q("client_id", afProxyID, "client_secret", afProxySecret), nil, nil),
		cred("refresh", "POST", nil, Q("client_id", afProxyID, "client_secret", "nope", "refresh_token", "rt"), nil, nil),
		cred("refresh", "POST", nil, Q("client_id", afProxyID, "client_secret", afProxySecret, "refresh_token", "rt"), nil, func(s *afStep) { s.Token = afIdP{Kind: "status", Status: 400, ErrDesc: "Token expired or revoked"} }),
		cred("refresh", "POST", nil, Q("client_id", afProxyID, "client_secret", afProxySecret, "refresh_token", "rt"), nil, func(s *afStep) { s.Token = afIdP{Kind: "status", Status: 429} }),
		cred("validate", "GET", Q("client_id", afProxyID), nil, H("X-Client-Secret", afProxySecret, "X-Access-Token", "at"), nil),
		cred("validate", "GET", Q("client_id", afProxyID), nil, H("X-Client-Secret", afProxySecret), nil),
		cred("validate", "GET", Q("client_id", afProxyID), nil, H("X-Access-Token", "at"), nil),
		cred("validate", "GET", Q("client_id", afProxyID), nil, H("X-Client-Secret", "nope", "X-Access-Token", "at"), nil),
		cred("validate", "GET", Q("client_id", afProxyID), nil, H("X-Client-Secret", afProxySecret, "X-Access-Token", "at"), func(s *afStep) { s.Valid = afIdP{Kind: "status", Status: 400} }),
		cred("validate", "POST", Q("client_id", afProxyID), nil, H("X-Client-Secret", afProxySecret, "X-Access-Token", "at"), nil),
		cred("profile", "GET", Q("client_id", afProxyID, "email", "ann@x.io", "groups", ""), nil, H("X-Client-Secret", afProxySecret, "X-Access-Token", "at"), nil),
		cred("profile", "GET", Q("client_id", afProxyID, "groups", "eng"), nil, H("X-Client-Secret", afProxySecret, "X-Access-Token", "at"), func(s *afStep) { s.Slug = "okta" }),
		cred("profile", "GET", Q("client_id", afProxyID, "email", "ann@x.io"), nil, H("X-Access-Token", "at"), nil),
		cred("profile", "GET", Q("client_id", afProxyID, "email", "ann@x.io"), nil, H("X-Client-Secret", afProxySecret, "X-Access-Token", "at", "Accept", "application/json"), func(s *afStep) { s.Slug = "okta"; s.Query = append(s.Query, [2]string{"groups", "eng,ops"}) }),
		cred("profile", "GET", Q("client_id", afProxyID, "email", "ann@x.io", "groups", "eng"), nil, H("X-Client-Secret", afProxySecret, "X-Access-Token", "at", "Accept", "application/json"), func(s *afStep) { s.Slug = "okta"; s.User = afIdP{Kind: "status", Status: 429} }),
	)
	// routes outside the service mux and unknown paths
	bc = append(bc, afStep{Slug: "", Endpoint: "ping"}, afStep{Slug: "", Endpoint: "robots.txt"}, afStep{Slug: "google", Endpoint: "nope"},
		afStep{Slug: "other", Endpoint: "sign_in"}, afStep{Slug: "google", Endpoint: "sign_in", Host: "wrong.host"}, afStep{Slug: "", Endpoint: "static/sso.css"})
	cases = append(cases, base(bc...))
	// address rule instead of domain rule
	ac := base(signIn("google", good(), "sess", sess(nil), nil), signIn("google", good(), "sess", sess(func(s *afSess) { s.Email = "bob@x.io" }), nil))
	ac.Domains, ac.Addresses = nil, []string{"Ann@x.io"}
	cases = append(cases, ac)
	// a deployment whose authenticator lives *outside* every proxy root domain: hosts that merely end in the authenticator's
	// own name are not below a root domain
	out := base(
		signIn("google", uri("https://a.apps.y.io/oauth2/callback"), "sess", sess(nil), nil),
		signIn("google", uri("https://evil-sso-auth.x.io/cb"), "sess", sess(nil), nil),
		signIn("google", uri("https://sso-auth.x.io/cb"), "sess", sess(nil), nil),
		signIn("google", uri("https://login.notsso-auth.x.io/cb"), "sess", sess(nil), nil),
		signIn("google", uri("https://x.io/cb"), "sess", sess(nil), nil),
		afStep{Slug: "google", Endpoint: "sign_out", Method: "POST", Sign: &afSign{URI: "https://evil-sso-auth.x.io/", In: "form"}, Cookie: "sess", Sess: sess(nil)},
		afStep{Slug: "google", Endpoint: "sign_out", Method: "POST", Sign: &afSign{URI: "https://a.apps.y.io/", In: "form"}, Cookie: "sess", Sess: sess(nil)},
	)
	out.Roots = []string{".apps.y.io"}
	cases = append(cases, out)
	// a deployment that sets Google's hosted domain (a hint for the sign-in page) next to a narrower e-mail rule: the rule is
	// the rule, and an e-mail Google does not mark as verified is never a session — whatever `hd` says
	{
		f, tr := false, true
		hdTok := func(email string, v *bool, hd string) afIdP {
			return afIdP{Kind: "ok", Access: "idp-at", RefreshT: "idp-rt", TTL: 600, IDToken: mkIDTokenHD(email, v, hd)}
		}
		hd := base(
			signIn("google", good(), "sess", sess(func(s *afSess) { s.Email = "bob@x.io" }), nil),
			signIn("google", good(), "sess", sess(nil), nil),
			start("google"), cb("google", func(s *afStep) { s.Token = hdTok("bob@x.io", &tr, "x.io") }),
			start("google"), cb("google", func(s *afStep) { s.Token = hdTok("ann@x.io", &tr, "x.io") }),
			start("google"), cb("google", func(s *afStep) { s.Token = hdTok("ann@x.io", &f, "x.io") }),
			start("google"), cb("google", func(s *afStep) { s.Token = hdTok("ann@x.io", nil, "x.io") }),
			start("google"), cb("google", func(s *afStep) { s.Token = hdTok("ann@x.io", &tr, "evil.io") }),
		)
		hd.HD, hd.Domains, hd.Addresses = "x.io", nil, []string{"ann@x.io"}
		cases = append(cases, hd)
		hd2 := hd
		hd2.HD = "*"
		cases = append(cases, hd2)
	}
	cases = append(cases, afCase{ConfigCheck: true})
	// each provider's Redeem, called directly
	okTok := afIdP{Kind: "ok", Access: "idp-at", RefreshT: "idp-rt", TTL: 600, IDToken: mkIDToken("ann@x.io", true, 3, false, false)}
	okUser := afIdP{Kind: "ok", Email: "ann@x.io", Verified: true}
	var pr []afProvRedeem
	for _, prov := range []string{"google", "okta", "cognito"} {
		pr = append(pr,
			afProvRedeem{Provider: prov, Code: "c", Token: okTok, User: okUser},
			afProvRedeem{Provider: prov, Code: "", Token: okTok, User: okUser},
			afProvRedeem{Provider: prov, Code: "c", Token: afIdP{Kind: "status", Status: 400, ErrDesc: "invalid_grant"}, User: okUser},
			afProvRedeem{Provider: prov, Code: "c", Token: afIdP{Kind: "status", Status: 503}, User: okUser},
			afProvRedeem{Provider: prov, Code: "c", Token: afIdP{Kind: "transport"}, User: okUser},
			afProvRedeem{Provider: prov, Code: "c", Token: afIdP{Kind: "raw", Raw: "{\"access_token\": 5"}, User: okUser},
			afProvRedeem{Provider: prov, Code: "c", Token: afIdP{Kind: "raw", Raw: "[]"}, User: okUser},
			afProvRedeem{Provider: prov, Code: "c", Token: afIdP{Kind: "ok", Access: "", RefreshT: "rt", TTL: 600, IDToken: okTok.IDToken}, User: okUser},
			afProvRedeem{Provider: prov, Code: "c", Token: okTok, User: afIdP{Kind: "ok", Email: "ann@x.io", Verified: false}},
			afProvRedeem{Provider: prov, Code: "c", Token: okTok, User: afIdP{Kind: "ok", Email: "", Verified: true}},
			afProvRedeem{Provider: prov, Code: "c", Token: okTok, User: afIdP{Kind: "status", Status: 401}},
			afProvRedeem{Provider: prov, Code: "c", Token: okTok, User: afIdP{Kind: "transport"}},
			afProvRedeem{Provider: prov, Code: "c", Token: okTok, User: afIdP{Kind: "raw", Raw: "{\"email\": \"ann@x.io\""}},
			afProvRedeem{Provider: prov, Code: "c", Token: okTok, User: afIdP{Kind: "raw", Raw: "null"}},
		)
		for _, t := range []string{"", "nodots", "a.b", "a.b.c", "a..c", ".", "..", "a.!!!.c", "a." + base64.RawURLEncoding.EncodeToString([]byte("{}")) + ".c",
			"a." + base64.RawURLEncoding.EncodeToString([]byte(`{"email":"ann@x.io"}`)) + ".c",
			"a." + base64.RawURLEncoding.EncodeToString([]byte(`{"email":"ann@x.io","email_verified":"true"}`)) + ".c",
			"a." + base64.StdEncoding.EncodeToString([]byte(`{"email":"ann@x.io","email_verified":true}`)) + ".c"} {
			tk := okTok
			tk.IDToken = t
			pr = append(pr, afProvRedeem{Provider: prov, Code: "c", Token: tk, User: okUser})
		}
		// a genuine id_token cut short at every length (a truncated answer)
		full := mkIDToken("ann@x.io", true, 3, false, false)
		for cut := 0; cut < len(full); cut += 1 {
			tk := okTok
			tk.IDToken = full[:cut]
			if prov == "google" || cut%7 == 0 {
				pr = append(pr, afProvRedeem{Provider: prov, Code: "c", Token: tk, User: okUser})
			}
		}
	}
	cases = append(cases, afCase{ProvRedeem: pr})
	cases = append(cases, afCase{Overlap: 150})
	cases = append(cases, afCase{SigOverlap: 400})
	return cases
}

func afRandIdP(rng *rand.Rand, emails []string, userinfo bool) afIdP {
	switch rng.Intn(10) {
	case 0:
		return afIdP{Kind: "status", Status: []int{400, 401, 403, 404, 429, 500, 502, 503, 201, 204, 302}[rng.Intn(11)], ErrDesc: []string{"", "Token expired or revoked", "invalid_grant"}[rng.Intn(3)]}
	case 1:
		return afIdP{Kind: "transport"}
	case 2:
		return afIdP{Kind: "raw", Raw: []string{"", "{", "[]", "null", "\"x\"", "{\"access_token\":1}", "{\"email\":{}}", "{\"email\":\"ann@x.io\"", "<html>"}[rng.Intn(9)]}
	}
	if userinfo {
		return afIdP{Kind: "ok", Email: emails[rng.Intn(len(emails))], Verified: rng.Intn(3) > 0}
	}
	tok := mkIDToken(emails[rng.Intn(len(emails))], rng.Intn(3) > 0, rng.Intn(5), rng.Intn(8) == 0, rng.Intn(8) == 0)
	if rng.Intn(4) == 0 && len(tok) > 0 {
		tok = tok[:rng.Intn(len(tok))] // truncated
	}
	return afIdP{Kind: "ok", Access: []string{"idp-at", "idp-at", "idp-at", ""}[rng.Intn(4)], RefreshT: []string{"idp-rt", ""}[rng.Intn(2)], TTL: []int64{600, 0, -5, 3600}[rng.Intn(4)], IDToken: tok}
}

func init() {
	engines["authflow"] = func(rng *rand.Rand, n int, em *Emitter, replay []byte) {
		idx := 0
		emit := func(c afCase) {
			o := afRun(c)
			o["e"] = "authflow"
			o["case"] = idx
			em.Emit(o)
			idx++
		}
		if replay != nil {
			var w struct {
				Raw afCase `json:"raw"`
			}
			if err := json.Unmarshal(replay, &w); err != nil {
				panic(err)
			}
			emit(w.Raw)
			return
		}
		pre := afPrelude()
		for _, c := range pre {
			emit(c)
		}
		// random recombination of the prelude's steps with mutated fields
		hosts := []string{"app.x.io", "x.io", "evil.io", "x.io.evil.io", "notx.io", "a.apps.y.io", "apps.y.io", "APP.x.io", "app.x.io:443", "[::1%25.x.io]", "x.io.", "evil.io\\@app.x.io", "u:p@app.x.io", "app.x.io@evil.io", "io", "y.io", "o", ".io", "ps.y.io"}
		schemes := []string{"https://", "http://", "//", "", "javascript://", "HTTPS://"}
		paths := []string{"/oauth2/callback", "/", "", "/?x=.x.io", "/#.x.io", "/%2e%2e"}
		emails := []string{"ann@x.io", "Ann@X.IO", "eve@evil.io", "ann@x.io.evil.io", "", "x@notx.io", "\"<b>x</b><script>1</script>\"@x.io",
			"mallory@x.io@evil.io", "mallory@evil.io@x.io", "localadmin", "@x.io", "ann@", "@"}
		var pool []afStep
		for _, c := range pre {
			pool = append(pool, c.Steps...)
		}
		for k := 0; k < n; k++ {
			if rng.Intn(8) == 0 {
				var pr []afProvRedeem
				for i := 0; i < 12; i++ {
					pr = append(pr, afProvRedeem{Provider: []string{"google", "okta", "cognito"}[rng.Intn(3)], Code: []string{"c", "c", "c", ""}[rng.Intn(4)],
						Token: afRandIdP(rng, emails, false), User: afRandIdP(rng, emails, true)})
				}
				emit(afCase{ProvRedeem: pr})
				continue
			}
			c := afCase{Domains: []string{"x.io"}, Roots: []string{"x.io", ".apps.y.io"}}
			if rng.Intn(6) == 0 {
				c.Domains, c.Addresses = nil, []string{"ann@x.io"}
			}
			ns := 6 + rng.Intn(10)
			for i := 0; i < ns; i++ {
				b, _ := json.Marshal(pool[rng.Intn(len(pool))])
				var s afStep
				json.Unmarshal(b, &s)
				s.SleepMs = 0 // real-time waits only in the prelude
				if s.Sign != nil && rng.Intn(3) == 0 {
					s.Sign.URI = schemes[rng.Intn(len(schemes))] + hosts[rng.Intn(len(hosts))] + paths[rng.Intn(len(paths))]
				}
				if s.Sign != nil && rng.Intn(6) == 0 {
					s.Sign.Mangle = []string{"badsig", "nosig", "wrongsecret", "sigforother", "shift-digit", "b64std", "emptykey", "keyisuri"}[rng.Intn(8)]
				}
				if s.Sign != nil && rng.Intn(6) == 0 {
					s.Sign.TsDelta = []int64{-301, -299, -3600, 3600, -1, 0}[rng.Intn(6)]
				}
				if s.Sess != nil && rng.Intn(4) == 0 {
					s.Sess.Email = emails[rng.Intn(len(emails))]
				}
				if s.Sess != nil && rng.Intn(5) == 0 {
					s.Sess.Refresh = []int64{-600, -10, 10, 600}[rng.Intn(4)]
				}
				if s.Sess != nil && rng.Intn(8) == 0 {
					s.Sess.Lifetime = -10
				}
				if rng.Intn(6) == 0 {
					s.Token.IDToken = mkIDToken(emails[rng.Intn(len(emails))], rng.Intn(3) > 0, rng.Intn(5), rng.Intn(8) == 0, rng.Intn(8) == 0)
					if rng.Intn(4) == 0 && len(s.Token.IDToken) > 0 {
						s.Token.IDToken = s.Token.IDToken[:rng.Intn(len(s.Token.IDToken))] // a truncated answer
					}
				}
				if rng.Intn(10) == 0 {
					s.User = afIdP{Kind: "ok", Email: emails[rng.Intn(len(emails))], Verified: rng.Intn(3) > 0}
				}
				if s.Sign != nil && rng.Intn(8) == 0 {
					// duplicate a signed parameter in the other place (query vs body)
					extra := [][2]string{{"redirect_uri", schemes[rng.Intn(2)] + hosts[rng.Intn(len(hosts))] + "/dup"}}
					if rng.Intn(3) == 0 {
						extra = [][2]string{{"sig", "AAAA"}, {"ts", "1"}}
					}
					if s.Sign.In == "form" {
						s.Query = append(s.Query, extra...)
					} else {
						s.Form = append(s.Form, extra...)
						if rng.Intn(2) == 0 {
							s.Method = "POST"
						}
					}
				}
				if rng.Intn(12) == 0 {
					if s.Headers == nil {
						s.Headers = map[string]string{}
					}
					s.Headers["Accept"] = "application/json"
				}
				if rng.Intn(12) == 0 && s.Endpoint != "profile" && s.Slug != "" && s.Slug != "other" {
					s.Slug = []string{"google", "okta"}[rng.Intn(2)]
				}
				afDefaults(&s)
				c.Steps = append(c.Steps, s)
			}
			emit(c)
		}
	}
}
