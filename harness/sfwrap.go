package main

import (
	"encoding/json"
	"errors"
	"fmt"
	"math/rand"
	"net/http"
	"net/http/httptest"
	"net/url"
	"sort"
	"strings"
	"sync"
	"time"

	aprov "github.com/buzzfeed/sso/internal/auth/providers"
	"github.com/buzzfeed/sso/internal/pkg/sessions"
	"github.com/buzzfeed/sso/internal/pkg/singleflight"
	pprov "github.com/buzzfeed/sso/internal/proxy/providers"
	"github.com/datadog/datadog-go/statsd"
)

// Engine "sfwrap": both real SingleFlightProvider middlewares. Callers arrive one after another while every
// execution is held (proxy side: the real SSOProvider's HTTP request is held by a fake authenticator; auth side:
// a blocking inner provider), so every caller either starts an execution or joins one; then executions are
// released in order. Observed: the composite key each caller ran/joined under (from the group's map), results,
// and every caller's session afterwards.

type swCaller struct {
	Method  string   `json:"method"` // proxy: validate|refresh|usergroups ; auth: validate|refreshIfNeeded|membership|revoke|refreshToken
	Access  string   `json:"access"`
	Refresh string   `json:"refresh"`
	Email   string   `json:"email"`
	Groups  []string `json:"groups"`
}

type swCase struct {
	Side    string     `json:"side"` // proxy | auth
	Callers []swCaller `json:"callers"`
	Deny    bool       `json:"deny"` // the held execution answers negatively / with an error
}

type swGate struct {
	mu      sync.Mutex
	entered int
	waiters []chan struct{}
}

func (g *swGate) enter() {
	ch := make(chan struct{})
	g.mu.Lock()
	g.entered++
	g.waiters = append(g.waiters, ch)
	g.mu.Unlock()
	<-ch
}
func (g *swGate) count() int { g.mu.Lock(); defer g.mu.Unlock(); return g.entered }
func (g *swGate) releaseAll() {
	g.mu.Lock()
	ws := g.waiters
	g.waiters = nil
	g.mu.Unlock()
	for _, w := range ws {
		close(w)
	}
}

func sessJSON(s *sessions.SessionState, t0 time.Time) M {
	rel := func(t time.Time) interface{} {
		if t.IsZero() {
			return nil
		}
		return int64(t.Sub(t0).Round(time.Second) / time.Second)
	}
	g := s.Groups
	if g == nil {
		g = []string{}
	}
	return M{"access": s.AccessToken, "refreshTok": s.RefreshToken, "refresh": rel(s.RefreshDeadline), "valid": rel(s.ValidDeadline),
		"lifetime": rel(s.LifetimeDeadline), "grace": rel(s.GracePeriodStart), "groups": g}
}

var swStatsd *statsd.Client

func getStatsd() *statsd.Client {
	if swStatsd == nil {
		c, err := statsd.New("127.0.0.1:8125")
		if err != nil {
			panic(err)
		}
		swStatsd = c
	}
	return swStatsd
}

// blocking inner provider for the authenticator-side middleware
type swInner struct {
	*aprov.TestProvider
	gate *swGate
	deny bool
}

func (p *swInner) ValidateSessionState(s *sessions.SessionState) bool {
	p.gate.enter()
	return !p.deny
}
func (p *swInner) RefreshSessionIfNeeded(s *sessions.SessionState) (bool, error) {
	p.gate.enter()
	if p.deny {
		return false, errors.New("refresh failed")
	}
	// what the real providers do on refresh: new access token + refresh deadline on the session they were handed
	s.AccessToken = "new-" + s.RefreshToken
	s.RefreshDeadline = sessions.ExtendDeadline(time.Hour)
	return true, nil
}
func (p *swInner) ValidateGroupMembership(email string, groups []string, tok string) ([]string, error) {
	p.gate.enter()
	if p.deny {
		return nil, errors.New("directory error")
	}
	return append([]string{"of:" + email}, groups...), nil
}
func (p *swInner) Revoke(s *sessions.SessionState) error {
	p.gate.enter()
	if p.deny {
		return errors.New("revoke failed")
	}
	return nil
}
func (p *swInner) Redeem(redirectURL, code string) (*sessions.SessionState, error) {
	p.gate.enter()
	if p.deny {
		return nil, errors.New("invalid_grant")
	}
	return &sessions.SessionState{Email: "user-of-" + code, AccessToken: "at-" + code, RefreshToken: "rt-" + code}, nil
}
func (p *swInner) RefreshAccessToken(rt string) (string, time.Duration, error) {
	p.gate.enter()
	if p.deny {
		return "", 0, errors.New("refresh failed")
	}
	return "at-" + rt, 30 * time.Minute, nil
}

func swRun(cs swCase) M {
	gate := &swGate{}
	t0 := time.Now()
	var group *singleflight.Group
	var call func(c swCaller, s *sessions.SessionState) M
	var cleanup func()
	if cs.Side == "proxy" {
		srv := httptest.NewServer(http.HandlerFunc(func(w http.ResponseWriter, r *http.Request) {
			switch {
			case strings.HasSuffix(r.URL.Path, "/validate"):
				gate.enter()
				if cs.Deny {
					w.WriteHeader(401)
					return
				}
				w.WriteHeader(200)
			case strings.HasSuffix(r.URL.Path, "/refresh"):
				gate.enter()
				if cs.Deny {
					w.WriteHeader(401)
					return
				}
				r.ParseForm()
				w.WriteHeader(201)
				fmt.Fprintf(w, `{"access_token":%q,"expires_in":3600}`, "new-"+r.Form.Get("refresh_token"))
			case strings.HasSuffix(r.URL.Path, "/redeem"):
				gate.enter()
				if cs.Deny {
					w.WriteHeader(400)
					return
				}
				r.ParseForm()
				code := r.Form.Get("code")
				fmt.Fprintf(w, `{"access_token":%q,"refresh_token":%q,"expires_in":3600,"email":%q}`, "at-"+code, "rt-"+code, "user-of-"+code)
			case strings.HasSuffix(r.URL.Path, "/profile"):
				if cs.Callers[0].Method == "usergroups" {
					gate.enter()
				}
				if cs.Deny && cs.Callers[0].Method == "usergroups" {
					w.WriteHeader(500)
					return
				}
				gs := strings.Split(r.URL.Query().Get("groups"), ",")
				b, _ := json.Marshal(M{"email": r.URL.Query().Get("email"), "groups": gs})
				w.Write(b)
			}
		}))
		u, _ := url.Parse(srv.URL)
		pd := &pprov.ProviderData{ProviderSlug: "idp", ProviderURL: u, ClientID: "cid", ClientSecret: "csecret",
			SessionValidTTL: 10 * time.Minute, SessionLifetimeTTL: 24 * time.Hour, GracePeriodTTL: time.Hour}
		sfp := pprov.NewSingleFlightProvider(pprov.NewSSOProvider(pd, getStatsd()), getStatsd())
		group = sfp.VerifGroup()
		cleanup = srv.Close
		call = func(c swCaller, s *sessions.SessionState) M {
			switch c.Method {
			case "validate":
				ok := sfp.ValidateSessionState(s, append([]string{}, c.Groups...))
				return M{"ok": ok, "err": false}
			case "refresh":
				ok, err := sfp.RefreshSession(s, append([]string{}, c.Groups...))
				return M{"ok": ok, "err": err != nil}
			case "redeem":
				rs, err := sfp.Redeem("https://app.x.io/oauth2/callback", c.Access)
				if err != nil || rs == nil {
					return M{"ok": false, "err": true, "email": "", "errText": fmt.Sprint(err)}
				}
				return M{"ok": true, "err": false, "email": rs.Email, "token": rs.AccessToken}
			default:
				gs, err := sfp.UserGroups(c.Email, append([]string{}, c.Groups...), c.Access)
				if gs == nil {
					gs = []string{}
				}
				return M{"ok": err == nil, "err": err != nil, "groups": gs}
			}
		}
	} else {
		inner := &swInner{TestProvider: aprov.NewTestProvider(nil), gate: gate, deny: cs.Deny}
		sfp := aprov.NewSingleFlightProvider(inner)
		sfp.StatsdClient = getStatsd()
		group = sfp.VerifGroup()
		cleanup = func() {}
		call = func(c swCaller, s *sessions.SessionState) M {
			switch c.Method {
			case "validate":
				return M{"ok": sfp.ValidateSessionState(s), "err": false}
			case "refreshIfNeeded":
				ok, err := sfp.RefreshSessionIfNeeded(s)
				return M{"ok": ok, "err": err != nil}
			case "membership":
				gs, err := sfp.ValidateGroupMembership(c.Email, append([]string{}, c.Groups...), c.Access)
				if gs == nil {
					gs = []string{}
				}
				return M{"ok": err == nil, "err": err != nil, "groups": gs}
			case "revoke":
				err := sfp.Revoke(s)
				return M{"ok": err == nil, "err": err != nil}
			case "redeem":
				rs, err := sfp.Redeem("https://sso-auth.x.io/google/callback", c.Access)
				if err != nil || rs == nil {
					return M{"ok": false, "err": true, "email": ""}
				}
				return M{"ok": true, "err": false, "email": rs.Email, "token": rs.AccessToken}
			default:
				at, d, err := sfp.RefreshAccessToken(c.Refresh)
				return M{"ok": err == nil, "err": err != nil, "token": at, "ttl": int64(d / time.Second)}
			}
		}
	}
	defer cleanup()
	type res struct {
		out  M
		sess *sessions.SessionState
	}
	results := make([]chan res, len(cs.Callers))
	obs := make([]M, len(cs.Callers))
	for i, c := range cs.Callers {
		s := &sessions.SessionState{AccessToken: c.Access, RefreshToken: c.Refresh, Email: c.Email,
			ValidDeadline: t0.Add(-time.Minute).Truncate(time.Second), RefreshDeadline: t0.Add(-time.Minute).Truncate(time.Second),
			// every caller's session has its own hard lifetime (sessions of one user on several hosts share tokens, not lifetimes)
			LifetimeDeadline: t0.Add(time.Duration(10+i) * time.Hour).Truncate(time.Second)}
		before := group.VerifSnapshot()
		entered := gate.count()
		ch := make(chan res, 1)
		results[i] = ch
		c := c
		go func() { ch <- res{call(c, s), s} }()
		role, key := "", ""
		ok := waitUntil(func() bool {
			if gate.count() > entered {
				role = "leader"
				after := group.VerifSnapshot()
				for k := range after {
					if _, had := before[k]; !had {
						key = k
					}
				}
				return true
			}
			after := group.VerifSnapshot()
			for k, d := range after {
				if d0, had := before[k]; had && d > d0 {
					role, key = "follower", k
					return true
				}
			}
			return false
		})
		if !ok {
			role = "stuck"
		}
		obs[i] = M{"role": role, "key": hx(key)}
	}
	// release executions until every caller has returned
	done := 0
	outs := make([]res, len(cs.Callers))
	got := make([]bool, len(cs.Callers))
	deadline := time.Now().Add(10 * time.Second)
	for done < len(cs.Callers) && time.Now().Before(deadline) {
		gate.releaseAll()
		for i := range results {
			if got[i] {
				continue
			}
			select {
			case r := <-results[i]:
				outs[i], got[i] = r, true
				done++
			default:
			}
		}
		time.Sleep(50 * time.Microsecond)
	}
	for i := range obs {
		if got[i] {
			obs[i]["result"] = outs[i].out
			obs[i]["sess"] = sessJSON(outs[i].sess, t0)
		} else {
			obs[i]["result"] = M{"ok": false, "err": true, "stuck": true}
		}
	}
	in := make([]M, len(cs.Callers))
	for i, c := range cs.Callers {
		in[i] = M{"method": c.Method, "access": hx(c.Access), "refresh": hx(c.Refresh), "email": hx(c.Email), "groups": hxs(c.Groups),
			"sortedGroups": hxs(sortedCopy(c.Groups))}
	}
	return M{"side": cs.Side, "deny": cs.Deny, "callers": in, "obs": obs, "raw": cs}
}

func init() {
	engines["sfwrap"] = func(rng *rand.Rand, n int, em *Emitter, replay []byte) {
		idx := 0
		emit := func(cs swCase) {
			o := swRun(cs)
			o["e"] = "sfwrap"
			o["case"] = idx
			em.Emit(o)
			idx++
		}
		if replay != nil {
			var w struct {
				Raw swCase `json:"raw"`
			}
			if err := json.Unmarshal(replay, &w); err != nil {
				panic(err)
			}
			emit(w.Raw)
			return
		}
		C := func(m, at, rt, em string, gs ...string) swCaller {
			return swCaller{Method: m, Access: at, Refresh: rt, Email: em, Groups: gs}
		}
		prelude := []swCase{
			{"proxy", []swCaller{C("validate", "tokA", "rA", "a@x.io", "g1"), C("validate", "tokA", "rA", "a@x.io", "g1")}, false},
			{"proxy", []swCaller{C("validate", "tokA", "rA", "a@x.io", "g1"), C("validate", "tokB", "rB", "b@x.io", "g1"), C("validate", "tokA", "rA", "a@x.io", "g1")}, false},
			{"proxy", []swCaller{C("validate", "tokA", "rA", "a@x.io"), C("validate", "tokA", "rA", "a@x.io")}, true},
			{"proxy", []swCaller{C("refresh", "tokA", "rA", "a@x.io", "g1"), C("refresh", "tokA", "rA", "a@x.io", "g1"), C("validate", "rA", "rA", "a@x.io", "g1")}, false},
			{"proxy", []swCaller{C("usergroups", "tokA", "", "a@x.io", "g2", "g1"), C("usergroups", "tokA", "", "a@x.io", "g1", "g2"), C("usergroups", "tokA", "", "b@x.io", "g1", "g2")}, false},
			{"auth", []swCaller{C("refreshIfNeeded", "tokA", "rA", "a@x.io"), C("refreshIfNeeded", "tokA", "rA", "a@x.io"), C("refreshToken", "tokA", "rA", "a@x.io")}, false},
			{"auth", []swCaller{C("membership", "tokA", "", "a@x.io", "g2", "g1"), C("membership", "tokZ", "", "a@x.io", "g1", "g2"), C("membership", "tokA", "", "a@x.io", "g1")}, false},
			{"auth", []swCaller{C("revoke", "tokA", "rA", ""), C("validate", "tokA", "rA", ""), C("revoke", "tokA", "rA", ""), C("validate", "tokA", "rA", "")}, false},
			{"auth", []swCaller{C("refreshToken", "", "rA", ""), C("refreshToken", "", "rA", ""), C("refreshToken", "", "rB", "")}, true},
			// two logins overlap at the token call: each code is redeemed on its own (redemption is not coalesced)
			{"auth", []swCaller{C("redeem", "codeA", "", ""), C("redeem", "codeB", "", ""), C("redeem", "codeA", "", "")}, false},
			{"proxy", []swCaller{C("redeem", "codeA", "", ""), C("redeem", "codeB", "", ""), C("redeem", "codeA", "", "")}, false},
			{"proxy", []swCaller{C("redeem", "codeA", "", ""), C("redeem", "bogus", "", "")}, true},
			// two browsers of one user, different tokens, revalidating at the same time: each token is asked about
			{"proxy", []swCaller{C("validate", "tokA", "rA", "a@x.io", "g1"), C("validate", "tokB", "rB", "a@x.io", "g1")}, false},
			{"auth", []swCaller{C("validate", "tokA", "rA", "a@x.io"), C("validate", "tokB", "rB", "a@x.io")}, false},
			// two devices of one user sign out at the same time: each token gets its own revocation
			{"auth", []swCaller{C("revoke", "tokA", "rA", "a@x.io"), C("revoke", "tokB", "rB", "a@x.io"), C("revoke", "tokA", "rA", "a@x.io")}, false},
			{"auth", []swCaller{C("revoke", "tokA", "rA", "a@x.io"), C("revoke", "tokB", "rB", "a@x.io")}, true},
		}
		for _, cs := range prelude {
			emit(cs)
		}
		toks := []string{"tokA", "tokB", "t/x", "", "tokA/ValidateSessionState"}
		emails := []string{"a@x.io", "b@x.io", "a@x.io:g1", "A@x.io"}
		groupSets := [][]string{{}, {"g1"}, {"g1", "g2"}, {"g2", "g1"}, {"g1,g2"}, {"*"}, {"g3", "g1", "g2"}}
		for k := 0; k < n; k++ {
			cs := swCase{Deny: rng.Intn(5) == 0}
			var methods []string
			if rng.Intn(2) == 0 {
				cs.Side = "proxy"
				if rng.Intn(3) == 0 {
					methods = []string{"usergroups"}
				} else {
					methods = []string{"validate", "refresh", "validate", "refresh", "redeem"}
				}
			} else {
				cs.Side = "auth"
				methods = []string{"validate", "refreshIfNeeded", "membership", "revoke", "refreshToken", "redeem"}
			}
			nc := 2 + rng.Intn(4)
			for i := 0; i < nc; i++ {
				t := toks[rng.Intn(3)]
				if rng.Intn(8) == 0 {
					t = toks[rng.Intn(len(toks))]
				}
				c := swCaller{Method: methods[rng.Intn(len(methods))], Access: t, Refresh: t, Email: emails[rng.Intn(len(emails))]}
				if rng.Intn(3) == 0 {
					c.Refresh = toks[rng.Intn(3)]
				}
				if c.Method == "redeem" && c.Access == "" {
					c.Access = "c0" // an empty code never leaves the proxy ("missing code"): not a redemption
				}
				c.Groups = append([]string{}, groupSets[rng.Intn(len(groupSets))]...)
				if cs.Side == "proxy" && c.Method == "refresh" && c.Refresh == "" {
					c.Refresh = "rX"
				}
				cs.Callers = append(cs.Callers, c)
			}
			sort.SliceStable(cs.Callers, func(i, j int) bool { return false })
			emit(cs)
		}
	}
}
