#!/usr/bin/env python3
"""One-off generator (kept for the record), second wave: more skeleton facts, each tied into the `Cxx_wiring2` theorem of
*every* property whose mechanism runs through the function. Usage: mkwiring2.py <clean repo> (expectations are frozen
from that tree; afterwards they live in the spec files and the facts are regenerated from /repo on every run)."""
import re, subprocess, os, sys
V = os.path.dirname(os.path.dirname(os.path.abspath(__file__)))
REPO = sys.argv[1] if len(sys.argv) > 1 else '/repo'
AE = 'internal/pkg/aead/aead.go'; SS = 'internal/pkg/sessions/session_state.go'; CS = 'internal/pkg/sessions/cookie_store.go'
HM = 'internal/pkg/hostmux/hostmux.go'; LC = 'internal/pkg/groups/localcache.go'; SSO = 'internal/proxy/providers/sso.go'
AU = 'internal/auth/authenticator.go'; GO = 'internal/auth/providers/google.go'; OK = 'internal/auth/providers/okta.go'
CG = 'internal/auth/providers/amazon_cognito.go'; PC = 'internal/proxy/proxy_config.go'; RP = 'internal/proxy/reverse_proxy.go'
GC = 'internal/auth/providers/group_cache.go'; OP = 'internal/proxy/oauthproxy.go'
F = [  # (fact, [properties], file, receiver, function)
 ('skel_aead_Marshal', ['C02'], AE, 'MiscreantCipher', 'Marshal'),
 ('skel_aead_Unmarshal', ['C02', 'C06'], AE, 'MiscreantCipher', 'Unmarshal'),
 ('skel_aead_GenerateKey', ['C02', 'C06', 'C09'], AE, '', 'GenerateKey'),
 ('skel_sessions_MarshalSession', ['C02'], SS, '', 'MarshalSession'),
 ('skel_sessions_LifetimePeriodExpired', ['C04', 'C01'], SS, 'SessionState', 'LifetimePeriodExpired'),
 ('skel_sessions_RefreshPeriodExpired', ['C04', 'C01'], SS, 'SessionState', 'RefreshPeriodExpired'),
 ('skel_sessions_ValidationPeriodExpired', ['C04', 'C01'], SS, 'SessionState', 'ValidationPeriodExpired'),
 ('skel_store_SetCSRF', ['C06', 'C09'], CS, 'CookieStore', 'SetCSRF'),
 ('skel_store_GetCSRF', ['C06', 'C09'], CS, 'CookieStore', 'GetCSRF'),
 ('skel_store_ClearCSRF', ['C06', 'C09'], CS, 'CookieStore', 'ClearCSRF'),
 ('skel_store_ClearSession', ['C01', 'C19'], CS, 'CookieStore', 'ClearSession'),
 ('skel_store_SaveSession', ['C01', 'C04', 'C18'], CS, 'CookieStore', 'SaveSession'),
 ('skel_store_setSessionCookie', ['C18'], CS, 'CookieStore', 'setSessionCookie'),
 ('skel_store_makeSessionCookie', ['C18'], CS, 'CookieStore', 'makeSessionCookie'),
 ('skel_store_makeCSRFCookie', ['C18'], CS, 'CookieStore', 'makeCSRFCookie'),
 ('skel_hostmux_HandleStatic', ['C13'], HM, 'Router', 'HandleStatic'),
 ('skel_hostmux_HandleRegexp', ['C13'], HM, 'Router', 'HandleRegexp'),
 ('skel_hostmux_ServeHTTP', ['C13'], HM, 'Router', 'ServeHTTP'),
 ('skel_localcache_Get', ['C17'], LC, 'LocalCache', 'Get'),
 ('skel_localcache_Set', ['C17'], LC, 'LocalCache', 'Set'),
 ('skel_localcache_Purge', ['C17'], LC, 'LocalCache', 'Purge'),
 ('skel_sso_Redeem', ['C06'], SSO, 'SSOProvider', 'Redeem'),
 ('skel_sso_UserGroups', ['C04', 'C11'], SSO, 'SSOProvider', 'UserGroups'),
 ('skel_sso_isProviderUnavailable', ['C05'], SSO, '', 'isProviderUnavailable'),
 ('skel_auth_OAuthStart', ['C07', 'C09'], AU, 'Authenticator', 'OAuthStart'),
 ('skel_auth_OAuthCallback', ['C07', 'C09'], AU, 'Authenticator', 'OAuthCallback'),
 ('skel_auth_getOAuthCallback', ['C07', 'C09'], AU, 'Authenticator', 'getOAuthCallback'),
 ('skel_auth_redeemCode', ['C10'], AU, 'Authenticator', 'redeemCode'),
 ('skel_auth_GetProfile', ['C08'], AU, 'Authenticator', 'GetProfile'),
 ('skel_auth_jwtDecodeSegment', ['C10'], GO, '', 'jwtDecodeSegment'),
 ('skel_cognito_Redeem', ['C10'], CG, 'AmazonCognitoProvider', 'Redeem'),
 ('skel_cognito_verifyEmailWithAccessToken', ['C10'], CG, 'AmazonCognitoProvider', 'verifyEmailWithAccessToken'),
 ('skel_google_RefreshSessionIfNeeded', ['C09'], GO, 'GoogleProvider', 'RefreshSessionIfNeeded'),
 ('skel_okta_RefreshSessionIfNeeded', ['C09'], OK, 'OktaProvider', 'RefreshSessionIfNeeded'),
 ('skel_google_ValidateSessionState', ['C09'], GO, 'GoogleProvider', 'ValidateSessionState'),
 ('skel_okta_ValidateSessionState', ['C09'], OK, 'OktaProvider', 'ValidateSessionState'),
 ('skel_okta_ValidateGroupMembership', ['C08', 'C17'], OK, 'OktaProvider', 'ValidateGroupMembership'),
 ('skel_cfg_resolveTemplates', ['C14'], PC, '', 'resolveTemplates'),
 ('skel_cfg_rewriteRoute', ['C14', 'C13'], PC, '', 'rewriteRoute'),
 ('skel_cfg_simpleRoute', ['C14', 'C13'], PC, '', 'simpleRoute'),
 ('skel_cfg_urlParse', ['C14'], PC, '', 'urlParse'),
 ('skel_cfg_cleanWhiteSpace', ['C14'], PC, '', 'cleanWhiteSpace'),
 ('skel_cfg_generateHmacAuth', ['C12'], PC, '', 'generateHmacAuth'),
 ('skel_proxy_StaticDirectorFunc', ['C13', 'C03'], RP, 'Director', 'StaticDirectorFunc'),
 ('skel_proxy_RewriteDirectorFunc', ['C13', 'C03'], RP, 'Director', 'RewriteDirectorFunc'),
 ('skel_proxy_newTimeoutHandler', ['C18'], RP, '', 'newTimeoutHandler'),
 ('skel_proxy_singleJoiningSlash', ['C13'], RP, '', 'singleJoiningSlash'),
 ('skel_proxy_upstreamTransport_RoundTrip', ['C12', 'C03'], RP, 'upstreamTransport', 'RoundTrip'),
 ('skel_proxy_SignOut', ['C01'], OP, 'OAuthProxy', 'SignOut'),
]
NS = {'C01': 'Sso.Proxy', 'C02': None, 'C03': 'Sso.Forward', 'C04': 'Sso.Proxy', 'C05': 'Sso.Proxy', 'C06': 'Sso.Proxy', 'C07': 'Sso.AuthN', 'C08': 'Sso.AuthN',
      'C09': 'Sso.AuthN', 'C10': 'Sso.AuthN', 'C11': 'Sso.Validators', 'C12': 'Sso.Forward', 'C13': None, 'C14': 'Sso.Config', 'C17': None, 'C18': 'Sso.Harden', 'C19': 'Sso.AuthN'}
fp = os.path.join(V, 'tools/extract/facts.go')
fs = open(fp).read()
add = ['\t// ---- second wave (tools/mkwiring2.py): helpers and second callers on each property\'s path (the Cxx_wiring2 theorems)']
for fact, props, f, recv, fn in F:
    m = re.search(r'skeletonFact\("%s", \[\]string\{([^}]*)\}' % fact, fs)
    if m:
        have = re.findall(r'"(C\d\d)"', m.group(1))
        new = have + [p for p in props if p not in have]
        fs = fs.replace(m.group(0), 'skeletonFact("%s", []string{%s}' % (fact, ', '.join('"%s"' % p for p in new)))
        continue
    add.append('\tskeletonFact("%s", []string{%s}, "%s", "%s", "%s")' % (fact, ', '.join('"%s"' % p for p in props), f, recv, fn))
if len(add) > 1:
    fs = fs.replace('\ttrustedTemplateTypes(', '\n'.join(add) + '\n\n\ttrustedTemplateTypes(', 1)
open(fp, 'w').write(fs)
env = dict(os.environ, GOFLAGS='-mod=mod', GOPROXY='off', GOSUMDB='off', GOTOOLCHAIN='local')
os.makedirs(V + '/.work/bin', exist_ok=True)
subprocess.check_call('cd %s/tools/extract && go build -o ../../.work/bin/extract .' % V, shell=True, env=env)
subprocess.check_call([V + '/.work/bin/extract', REPO, V + '/lean/Generated/Facts.lean', V + '/.work/problems.json'])
print(open(V + '/.work/problems.json').read()[-300:])
facts = open(V + '/lean/Generated/Facts.lean').read()
def val(name):
    m = re.search(r'^def %s : List String := (\[.*\])$' % name, facts, re.M)
    assert m, name
    return m.group(1)
byprop = {}
for fact, props, *_ in F:
    for p in props: byprop.setdefault(p, []).append(fact)
for pid, fl in sorted(byprop.items()):
    p = V + '/lean/SsoSpec/%s.lean' % pid
    s = open(p).read()
    if 'theorem %s_wiring2' % pid in s: continue
    if 'import Generated.Facts' not in s: s = 'import Generated.Facts\n' + s
    conj = ' ∧\n    '.join('Sso.Generated.%s =\n      %s' % (fact, val(fact)) for fact in fl)
    text = '/-- Tie (T1), second wave: helpers, stores and second callers on this property\'s path (%s) — call/branch/store skeletons\nregenerated from the source on every run against the expectations frozen here. -/\ntheorem %s_wiring2 :\n    %s := by decide\n\n' % (', '.join(f[5:] for f in fl), pid, conj)
    ends = re.findall(r'^end (\S+)\s*$', s, re.M)
    if not ends:
        print('no namespace end in', pid); continue
    end = 'end %s' % ends[-1]
    i = s.rindex(end)
    s = s[:i] + text + s[i:]
    open(p, 'w').write(s)
    print('added', pid, len(fl))
