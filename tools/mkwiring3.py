#!/usr/bin/env python3
"""One-off generator (kept for the record), third wave: constructors and option functions — where configured values are handed to
the components the properties speak about. Usage: mkwiring3.py <clean repo>."""
import re, subprocess, os, sys
V = os.path.dirname(os.path.dirname(os.path.abspath(__file__)))
REPO = sys.argv[1] if len(sys.argv) > 1 else '/repo'
PO = 'internal/proxy/options.go'; AO = 'internal/auth/options.go'; AU = 'internal/auth/authenticator.go'; RS = 'internal/proxy/request_signer.go'
F = [
 ('skel_proxy_SetCookieStore', ['C02', 'C18', 'C01'], PO, '', 'SetCookieStore'),
 ('skel_proxy_SetRequestSigner', ['C12'], PO, '', 'SetRequestSigner'),
 ('skel_proxy_SetUpstreamConfig', ['C13', 'C03'], PO, '', 'SetUpstreamConfig'),
 ('skel_proxy_SetProvider', ['C13', 'C04'], PO, '', 'SetProvider'),
 ('skel_proxy_newProvider', ['C04', 'C05', 'C16', 'C19'], PO, '', 'newProvider'),
 ('skel_signer_NewRequestSigner', ['C12'], RS, '', 'NewRequestSigner'),
 ('skel_signer_PublicKey', ['C12'], RS, 'RequestSigner', 'PublicKey'),
 ('skel_auth_newProvider', ['C10', 'C16', 'C17'], AO, '', 'newProvider'),
 ('skel_auth_SetProvider', ['C10'], AO, '', 'SetProvider'),
 ('skel_auth_SetValidators', ['C09'], AO, '', 'SetValidators'),
 ('skel_auth_NewAuthenticator', ['C07', 'C08', 'C09'], AU, '', 'NewAuthenticator'),
 ('skel_auth_GetRedirectURI', ['C10', 'C07'], AU, 'Authenticator', 'GetRedirectURI'),
 ('skel_auth_getAuthCodeRedirectURL', ['C09', 'C07'], AU, '', 'getAuthCodeRedirectURL'),
]
fp = os.path.join(V, 'tools/extract/facts.go')
fs = open(fp).read()
add = ['\t// ---- third wave (tools/mkwiring3.py): constructors and option functions (the Cxx_wiring3 theorems)']
for fact, props, f, recv, fn in F:
    m = re.search(r'skeletonFact\("%s", \[\]string\{([^}]*)\}' % fact, fs)
    if m:
        have = re.findall(r'"(C\d\d)"', m.group(1))
        new = have + [p for p in props if p not in have]
        fs = fs.replace(m.group(0), 'skeletonFact("%s", []string{%s}' % (fact, ', '.join('"%s"' % p for p in new)))
        continue
    add.append('\tskeletonFact("%s", []string{%s}, "%s", "%s", "%s")' % (fact, ', '.join('"%s"' % p for p in props), f, recv, fn))
if len(add) > 1:
    fs = fs.replace('\t// the start-up sequence of both binaries', '\n'.join(add) + '\n\n\t// the start-up sequence of both binaries', 1)
open(fp, 'w').write(fs)
env = dict(os.environ, GOFLAGS='-mod=mod', GOPROXY='off', GOSUMDB='off', GOTOOLCHAIN='local')
os.makedirs(V + '/.work/bin', exist_ok=True)
subprocess.check_call('cd %s/tools/extract && go build -o ../../.work/bin/extract .' % V, shell=True, env=env)
subprocess.check_call([V + '/.work/bin/extract', REPO, V + '/lean/Generated/Facts.lean', V + '/.work/problems.json'])
print(open(V + '/.work/problems.json').read()[-200:])
facts = open(V + '/lean/Generated/Facts.lean').read()
def val(name):
    m = re.search(r'^def %s : List String := (\[.*\])$' % name, facts, re.M)
    assert m, name
    return m.group(1)
byprop = {}
for fact, props, *_ in F:
    for p in props: byprop.setdefault(p, []).append(fact)
for pid, fl in sorted(byprop.items()):
    p = V + '/lean/SsoSpec/%s.lean' % pid
    s = open(p).read()
    if 'theorem %s_wiring3' % pid in s: continue
    if 'import Generated.Facts' not in s: s = 'import Generated.Facts\n' + s
    conj = ' ∧\n    '.join('Sso.Generated.%s =\n      %s' % (fact, val(fact)) for fact in fl)
    text = '/-- Tie (T1), third wave: the constructors and option functions that hand configured values to the components this property\nspeaks about (%s). -/\ntheorem %s_wiring3 :\n    %s := by decide\n\n' % (', '.join(f[5:] for f in fl), pid, conj)
    ends = re.findall(r'^end (\S+)\s*$', s, re.M)
    end = 'end %s' % ends[-1]
    i = s.rindex(end)
    s = s[:i] + text + s[i:]
    open(p, 'w').write(s)
    print('added', pid, len(fl))
